// C17 harness: runs operation scripts against muscle::String and prints, after every operation, the
// result and the storage of the subject (mode S=in-object small buffer / L=heap, Length(), GetNumAllocatedBytes(),
// bytes) in the same canonical text as the extracted Coq model.
//
// Three oracles are evaluated on the implementation itself, independent of the Coq model:
//   ideal : every operation is also executed on a std::string by a separate reference implementation;
//   twin  : every operation is also executed on a second String that holds the same bytes in the *other*
//           storage mode and receives separate copies wherever the subject's operands alias the subject
//           ("regardless of small buffer or heap", "self-aliasing gives the same result as a copy");
//   shape : after every operation Cstr()[Length()] is NUL, strlen(Cstr()) == Length(), Length() < capacity.
#include <stdio.h>
#include <stdlib.h>
#include <string.h>
#include <stdint.h>
#include <string>
#include <vector>
#include <sstream>
#include <iostream>
#include <algorithm>

#define private public
#define protected public
#include "util/String.h"
#undef private
#undef protected

using namespace muscle;

typedef std::string str;

static std::vector<str> split(const str & s, char c)
{
   std::vector<str> r; str cur;
   for (size_t i=0; i<s.size(); i++) {if (s[i]==c) {r.push_back(cur); cur.clear();} else cur += s[i];}
   r.push_back(cur);
   return r;
}
static int hexval(char c) {return (c>='0'&&c<='9') ? (c-'0') : ((c>='a'&&c<='f') ? (10+c-'a') : (10+c-'A'));}
static str unhex(const str & h) {str r; for (size_t i=0; i+1<h.size(); i+=2) r += (char)((hexval(h[i])<<4)|hexval(h[i+1])); return r;}
static str hex(const char * p, size_t n) {static const char * d = "0123456789abcdef"; str r; for (size_t i=0; i<n; i++) {unsigned char c = (unsigned char)p[i]; r += d[c>>4]; r += d[c&15];} return r;}
static str hex(const str & s) {return hex(s.data(), s.size());}
static str num(long long v) {std::ostringstream o; o << v; return o.str();}
static uint32 U(const str & s) {return (uint32) strtoull(s.c_str(), NULL, 10);}

// an exactly-sized heap copy of a C string, so that any over-read is seen by ASan
struct CBuf
{
   CBuf(const str & s) {_p = (char *) malloc(s.size()+1); memcpy(_p, s.data(), s.size()); _p[s.size()] = '\0';}
   ~CBuf() {free(_p);}
   char * _p;
private:
   CBuf(const CBuf &); CBuf & operator=(const CBuf &);
};

struct SArg {bool self; bool heap; str bytes;};   // a `const String &` operand
struct CArg {int kind; uint32 off; str bytes;};   // a `const char *` operand: 0 NULL, 1 literal, 2 pointer into the subject
static SArg sarg(const str & t) {SArg a; a.self = (t == "@"); a.heap = ((!t.empty())&&(t[0]=='H')); a.bytes = a.self ? str() : unhex(a.heap ? t.substr(1) : t); return a;}
static CArg carg(const str & t) {CArg a; a.off = 0; if (t == "~") a.kind = 0; else if ((!t.empty())&&(t[0]=='@')) {a.kind = 2; a.off = U(t.substr(1));} else {a.kind = 1; a.bytes = unhex(t);} return a;}

static str state_of(const String & s)
{
   std::ostringstream o;
   o << (s.IsArrayDynamicallyAllocated() ? "L" : "S") << "/" << s.Length() << "/" << s.GetNumAllocatedBytes() << "/" << hex(s.Cstr(), s.Length());
   return o.str();
}
static str content_of(const String & s) {return str(s.Cstr(), s.Length());}

// Holder for a String operand that lives in its own heap object
struct SOp
{
   SOp(const SArg & a, String & subject, const str & subjectCopy, bool allowAlias) : _own(NULL)
   {
      if ((a.self)&&(allowAlias)) _s = &subject;
      else
      {
         _own = new String();
         const str & b = a.self ? subjectCopy : a.bytes;
         if (a.heap) (void) _own->Prealloc((uint32)b.size()+40);
         CBuf c(b);
         (void) _own->SetCstr(c._p);
         _s = _own;
      }
   }
   ~SOp() {delete _own;}
   const String & s() const {return *_s;}
   String * _s; String * _own;
};
// Holder for a `const char *` operand
struct COp
{
   COp(const CArg & a, String & subject, const str & subjectCopy, bool allowAlias) : _buf(NULL), _p(NULL)
   {
      if (a.kind == 0) _p = NULL;
      else if ((a.kind == 2)&&(allowAlias)) _p = subject.Cstr()+muscleMin(a.off, subject.Length());
      else
      {
         _buf = new CBuf((a.kind == 2) ? subjectCopy.substr(muscleMin((size_t)a.off, subjectCopy.size())) : a.bytes);
         _p = _buf->_p;
      }
   }
   ~COp() {delete _buf;}
   const char * p() const {return _p;}
   CBuf * _buf; const char * _p;
};

// k1=v1,k2=v2 (hex): the entries of a Hashtable<String,String>, in iteration (= insertion) order
static std::vector< std::pair<str,str> > parse_pairs(const str & t)
{
   std::vector< std::pair<str,str> > r;
   if (t.empty()) return r;
   const std::vector<str> kvs = split(t, ',');
   for (size_t i=0; i<kvs.size(); i++) {const std::vector<str> kv = split(kvs[i], '='); r.push_back(std::make_pair(unhex(kv[0]), unhex(kv.size() > 1 ? kv[1] : str())));}
   return r;
}
static void fill_table(Hashtable<String,String> & t, const str & spec)
{
   const std::vector< std::pair<str,str> > ps = parse_pairs(spec);
   for (size_t i=0; i<ps.size(); i++) {CBuf k(ps[i].first), v(ps[i].second); (void) t.Put(String(k._p), String(v._p));}
}
static int sgn(int v) {return (v<0) ? -1 : ((v>0) ? 1 : 0);}
static str st(const status_t & r) {return r.IsOK() ? "ok" : "err";}

// ------------------------------------------------------------------------------------------------
// Executes one operation on (s).  Returns the canonical result text *without* storage information;
// a produced String (if any) is returned through (prod) (caller deletes).  With (allowAlias) false
// every operand that would alias (s) is replaced by a separate copy.
// (opsOracle) receives a complaint when API variants that must agree (operators vs CompareTo, ...) do not.
static str apply(String & s, const std::vector<str> & a, bool allowAlias, String * & prod, str & complaint)
{
   prod = NULL;
   const str & c = a[0];
   const str me = content_of(s);   // the subject's bytes before the operation (for de-aliased operands)
   #define SA(k) SOp so##k(sarg(a[k]), s, me, allowAlias); const String & S##k = so##k.s()
   #define CA(k) COp co##k(carg(a[k]), s, me, allowAlias); const char * C##k = co##k.p()
   #define CH(k) ((char)(unsigned char)U(a[k]))
   if (c == "sc")  {CA(1); return st(s.SetCstr(C1, U(a[2])));}
   if (c == "asc") {CA(1); s = C1; return "ok";}
   if (c == "sf")  {SA(1); return st(s.SetFromString(S1, U(a[2]), U(a[3])));}
   if (c == "ass") {SA(1); s = S1; return "ok";}
   if (c == "+s")  {SA(1); s += S1; return "-";}
   if (c == "+c")  {CA(1); s += C1; return "-";}
   if (c == "+h")  {s += CH(1); return "-";}
   if (c == "ic")  {CA(2); return st(s.InsertChars(U(a[1]), C2, U(a[3])));}
   if (c == "pc")  {CA(1); return st(s.PrependChars(C1, U(a[2])));}
   if (c == "ac")  {CA(1); return st(s.AppendChars(C1, U(a[2])));}
   if (c == "cl")  {s.Clear(); return "-";}
   if (c == "cf")  {s.ClearAndFlush(); return "-";}
   if (c == "pa")  {return st(s.Prealloc(U(a[1])));}
   if (c == "sh")  {return st(s.ShrinkToFit(U(a[1])));}
   if (c == "tc")  {s.TruncateChars(U(a[1])); return "-";}
   if (c == "tt")  {s.TruncateToLength(U(a[1])); return "-";}
   if (c == "sw")  {String * o = new String(PreallocatedItemSlotsCount(U(a[1]))); {CBuf b(unhex(a[2])); (void) o->SetCstr(b._p);} s.SwapContents(*o); prod = o; return "r";}
   if (c == "-h")  {s -= CH(1); return "-";}
   if (c == "-s")  {SA(1); s -= S1; return "-";}
   if (c == "-c")  {CA(1); s -= C1; return "-";}
   if (c == "rv")  {s.Reverse(); return "-";}
   if (c == "rc")  {return "u"+num(s.Replace(CH(1), CH(2), U(a[3]), U(a[4])));}
   if (c == "rs")  {SA(1); SA(2); return "i"+num(s.Replace(S1, S2, U(a[3]), U(a[4])));}
   if (c == "uf")
   {
      const str b = unhex(a[1]);
      uint8 * p = (uint8 *) malloc(b.size() ? b.size() : 1); memcpy(p, b.data(), b.size());
      const status_t r = s.UnflattenFromBytes(p, (uint32) b.size());
      free(p);
      return st(r);
   }
   if (c == "rm")  {Hashtable<String,String> t; fill_table(t, a[1]); return "i"+num(s.Replace(t, U(a[2])));}
   if (c == "wrm") {Hashtable<String,String> t; fill_table(t, a[1]); prod = new String(s.WithReplacements(t, U(a[2]))); return "r";}
   if (c == "set") {const uint32 i = U(a[1]); if (i < s.Length()) s[i] = CH(2); return "-";}
   if (c == "<<i") {s << atoi(a[1].c_str()); return "-";}
   if (c == "<<b") {s << (a[1] == "1"); return "-";}
   if (c == "++")  {s++; return "-";}
   if (c == "--")  {s--; return "-";}
   if (c == "dist"){SA(1); const uint32 r = s.GetDistanceTo(S1, U(a[2])); if (r != s.GetDistanceTo(S1(), U(a[2]))) complaint = "GetDistanceTo(String) != GetDistanceTo(cstr)"; return "u"+num(r);}
   if (c == "ncmp") {SA(1); const int r = sgn(s.NumericAwareCompareTo(S1)); if (r != sgn(s.NumericAwareCompareTo(S1()))) complaint = "NumericAwareCompareTo(String) != (cstr)"; return "i"+num(r);}
   if (c == "ncmpi"){SA(1); const int r = sgn(s.NumericAwareCompareToIgnoreCase(S1)); if (r != sgn(s.NumericAwareCompareToIgnoreCase(S1()))) complaint = "NumericAwareCompareToIgnoreCase(String) != (cstr)"; return "i"+num(r);}
   if (c == "eqh") {return s.Equals(CH(1)) ? "b1" : "b0";}
   if (c == "eqhi"){return s.EqualsIgnoreCase(CH(1)) ? "b1" : "b0";}
   if (c == "swhi"){return s.StartsWithIgnoreCase(CH(1)) ? "b1" : "b0";}
   if (c == "ewhi"){return s.EndsWithIgnoreCase(CH(1)) ? "b1" : "b0";}
   if (c == "ufw")
   {
      // String::Unflatten() on a DataUnflattener that is a window of a[2] bytes onto the array a[1] (exactly allocated, so anything
      // beyond the array is poisoned for ASan) and has already been read from: a[3] = '.'-separated earlier reads
      // (b<n> ReadBytes, i ReadInt32, c ReadCString, s String::Unflatten of another String)
      const str arena = unhex(a[1]);
      uint8 * p = (uint8 *) malloc(arena.size() ? arena.size() : 1); memcpy(p, arena.data(), arena.size());
      const uint32 win = muscleMin(U(a[2]), (uint32) arena.size());
      long long enc;
      {
         DataUnflattener unflat(p, win);
         const std::vector<str> pre = split(a[3], '.');
         for (size_t i=0; i<pre.size(); i++)
         {
            const str & t = pre[i];
            if (t.empty()) continue;
            if (t[0] == 'b') {std::vector<uint8> tmp(U(t.substr(1))+1); (void) unflat.ReadBytes(&tmp[0], U(t.substr(1)));}
            else if (t == "i") (void) unflat.ReadInt32();
            else if (t == "c") (void) unflat.ReadCString();
            else if (t == "s") {String other; (void) other.Unflatten(unflat);}
         }
         const status_t r = s.Unflatten(unflat);
         const uint32 consumed = unflat.GetNumBytesRead();
         if ((r.IsOK())&&(unflat.GetStatus().IsError())&&(false)) complaint = "unflattener status";
         if ((r.IsError())&&(unflat.GetStatus().IsOK())) complaint = "Unflatten() failed but the DataUnflattener reports no error";
         enc = r.IsOK() ? (long long) consumed : (-(long long) consumed)-1;
      }
      free(p);
      return "i"+num(enc);
   }
   if (c == "at")  {const uint32 i = U(a[1]); if (i < s.Length()) {if (s.CharAt(i) != s[i]) complaint = "CharAt != operator[]"; return "u"+num((unsigned char)s[i]);} return "u0";}
   if (c == "ioh") {const int r = s.IndexOf(CH(1), U(a[2])); if (s.Contains(CH(1), U(a[2])) != (r >= 0)) complaint = "Contains(char) disagrees with IndexOf"; return "i"+num(r);}
   if (c == "ios") {SA(1); const int r = s.IndexOf(S1, U(a[2])); if (s.Contains(S1, U(a[2])) != (r >= 0)) complaint = "Contains(String) disagrees with IndexOf"; return "i"+num(r);}
   if (c == "ioc") {CA(1); const int r = s.IndexOf(C1, U(a[2])); if (s.Contains(C1, U(a[2])) != (r >= 0)) complaint = "Contains(cstr) disagrees with IndexOf"; return "i"+num(r);}
   if (c == "lih") {return "i"+num(s.LastIndexOf(CH(1), U(a[2])));}
   if (c == "lis1"){SA(1); const int r = s.LastIndexOf(S1); if (r != s.LastIndexOf(S1())) complaint = "LastIndexOf(String) != LastIndexOf(cstr)"; return "i"+num(r);}
   if (c == "lis") {SA(1); const int r = s.LastIndexOf(S1, U(a[2])); if (r != s.LastIndexOf(S1(), U(a[2]))) complaint = "LastIndexOf(String,from) != LastIndexOf(cstr,from)"; return "i"+num(r);}
   if (c == "cnh") {return "u"+num(s.GetNumInstancesOf(CH(1), U(a[2])));}
   if (c == "cns") {SA(1); const uint32 r = s.GetNumInstancesOf(S1, U(a[2])); if (r != s.GetNumInstancesOf(S1(), U(a[2]))) complaint = "GetNumInstancesOf(String) != (cstr)"; return "u"+num(r);}
   if (c == "sws") {SA(1); const bool r = s.StartsWith(S1); if (r != s.StartsWith(S1())) complaint = "StartsWith(String) != (cstr)"; return r ? "b1" : "b0";}
   if (c == "ews") {SA(1); const bool r = s.EndsWith(S1); if (r != s.EndsWith(S1())) complaint = "EndsWith(String) != (cstr)"; return r ? "b1" : "b0";}
   if (c == "swh") {return s.StartsWith(CH(1)) ? "b1" : "b0";}
   if (c == "ewh") {return s.EndsWith(CH(1)) ? "b1" : "b0";}
   if (c == "swsi"){SA(1); const bool r = s.StartsWithIgnoreCase(S1); if (r != s.StartsWithIgnoreCase(S1())) complaint = "StartsWithIgnoreCase(String) != (cstr)"; return r ? "b1" : "b0";}
   if (c == "ewsi"){SA(1); const bool r = s.EndsWithIgnoreCase(S1); if (r != s.EndsWithIgnoreCase(S1())) complaint = "EndsWithIgnoreCase(String) != (cstr)"; return r ? "b1" : "b0";}
   if (c == "cmp")
   {
      SA(1);
      const int r = sgn(s.CompareTo(S1));
      if (sgn(s.CompareTo(S1())) != r) complaint = "CompareTo(String) != CompareTo(cstr)";
      if (((s == S1) != (r == 0))||((s != S1) != (r != 0))||((s < S1) != (r < 0))||((s > S1) != (r > 0))||((s <= S1) != (r <= 0))||((s >= S1) != (r >= 0))||(s.Equals(S1) != (r == 0))) complaint = "comparison operators (String) disagree with CompareTo";
      if (((s == S1()) != (r == 0))||((s != S1()) != (r != 0))||((s < S1()) != (r < 0))||((s > S1()) != (r > 0))||((s <= S1()) != (r <= 0))||((s >= S1()) != (r >= 0))||(s.Equals(S1()) != (r == 0))) complaint = "comparison operators (cstr) disagree with CompareTo";
      return "i"+num(r);
   }
   if (c == "cmpi"){SA(1); const int r = sgn(s.CompareToIgnoreCase(S1)); if (r != sgn(s.CompareToIgnoreCase(S1()))) complaint = "CompareToIgnoreCase(String) != (cstr)"; return "i"+num(r);}
   if (c == "eqi") {SA(1); const bool r = s.EqualsIgnoreCase(S1); if (r != s.EqualsIgnoreCase(S1())) complaint = "EqualsIgnoreCase(String) != (cstr)"; return r ? "b1" : "b0";}
   if (c == "iosi"){SA(1); const int r = s.IndexOfIgnoreCase(S1, U(a[2])); if (r != s.IndexOfIgnoreCase(S1(), U(a[2]))) complaint = "IndexOfIgnoreCase(String) != (cstr)"; if (s.ContainsIgnoreCase(S1, U(a[2])) != (r >= 0)) complaint = "ContainsIgnoreCase disagrees"; return "i"+num(r);}
   if (c == "lisi"){SA(1); const int r = s.LastIndexOfIgnoreCase(S1, U(a[2])); if (r != s.LastIndexOfIgnoreCase(S1(), U(a[2]))) complaint = "LastIndexOfIgnoreCase(String) != (cstr)"; return "i"+num(r);}
   if (c == "iohi"){return "i"+num(s.IndexOfIgnoreCase(CH(1), U(a[2])));}
   if (c == "lihi"){return "i"+num(s.LastIndexOfIgnoreCase(CH(1), U(a[2])));}
   if (c == "pns") {return "u"+num(s.ParseNumericSuffix(U(a[1])));}
   if (c == "swn") {return s.StartsWithNumber(a[1] == "1") ? "b1" : "b0";}
   if (c == "fl")
   {
      const uint32 fs = s.FlattenedSize();
      uint8 * p = (uint8 *) malloc(fs);
      s.FlattenToBytes(p, fs);
      const str r = "x"+hex((const char *)p, fs);
      free(p);
      return r;
   }
   // ---- producers
   if (c == "cp")  {prod = new String(s); return "r";}
   if (c == "cpp") {prod = new String(s, PreallocatedItemSlotsCount(U(a[1]))); return "r";}
   if (c == "sub") {prod = new String(s.Substring(U(a[1]), U(a[2]))); if ((U(a[2]) == MUSCLE_NO_LIMIT)&&(*prod != s.Substring(U(a[1])))) complaint = "Substring(a) != Substring(a,NO_LIMIT)"; return "r";}
   if (c == "suba"){SA(1); prod = new String(s.Substring(S1)); if (*prod != s.Substring(S1())) complaint = "Substring(String) != Substring(cstr)"; return "r";}
   if (c == "subu"){SA(2); prod = new String(s.Substring(U(a[1]), S2)); if (*prod != s.Substring(U(a[1]), S2())) complaint = "Substring(i,String) != Substring(i,cstr)"; return "r";}
   if (c == "wis") {SA(2); prod = new String(s.WithInsert(U(a[1]), S2, U(a[3]))); if (*prod != s.WithInsert(U(a[1]), S2(), U(a[3]))) complaint = "WithInsert(String) != WithInsert(cstr)"; return "r";}
   if (c == "wps") {SA(1); prod = new String(s.WithPrepend(S1, U(a[2]))); if (*prod != s.WithPrepend(S1(), U(a[2]))) complaint = "WithPrepend(String) != WithPrepend(cstr)"; return "r";}
   if (c == "was") {SA(1); prod = new String(s.WithAppend(S1, U(a[2]))); if (*prod != s.WithAppend(S1(), U(a[2]))) complaint = "WithAppend(String) != WithAppend(cstr)"; return "r";}
   if (c == "wih") {prod = new String(s.WithInsert(U(a[1]), CH(2), U(a[3]))); return "r";}
   if (c == "wph") {prod = new String(s.WithPrepend(CH(1), U(a[2]))); return "r";}
   if (c == "wah") {prod = new String(s.WithAppend(CH(1), U(a[2]))); return "r";}
   if (c == "pad") {prod = new String(s.PaddedBy(U(a[1]), a[2] == "1", CH(3))); return "r";}
   if (c == "lo")  {prod = new String(s.ToLowerCase()); return "r";}
   if (c == "up")  {prod = new String(s.ToUpperCase()); return "r";}
   if (c == "mx")  {prod = new String(s.ToMixedCase()); return "r";}
   if (c == "tr")  {prod = new String(s.Trimmed()); return "r";}
   if (c == "wrc") {prod = new String(s.WithReplacements(CH(1), CH(2), U(a[3]), U(a[4]))); return "r";}
   if (c == "wrs") {SA(1); SA(2); prod = new String(s.WithReplacements(S1, S2, U(a[3]), U(a[4]))); return "r";}
   if (c == "args"){SA(1); prod = new String(s.Arg(S1)); if (*prod != s.Arg(S1())) complaint = "Arg(String) != Arg(cstr)"; return "r";}
   if (c == "argi"){prod = new String(s.Arg(atoi(a[1].c_str()))); if (*prod != s.Arg((long) atoi(a[1].c_str()))) complaint = "Arg(int) != Arg(long)"; return "r";}
   if (c == "argl"){prod = new String(s.Arg((long long) strtoll(a[1].c_str(), NULL, 10))); return "r";}
   if (c == "argul"){prod = new String(s.Arg((unsigned long long) strtoull(a[1].c_str(), NULL, 10))); if (*prod != s.Arg((unsigned long) strtoull(a[1].c_str(), NULL, 10))) complaint = "Arg(unsigned long long) != Arg(unsigned long)"; return "r";}
   if (c == "argu"){prod = new String(s.Arg((unsigned int) strtoul(a[1].c_str(), NULL, 10))); return "r";}
   if (c == "argh"){prod = new String(s.Arg((short) atoi(a[1].c_str()))); if ((atoi(a[1].c_str()) >= 0)&&(*prod != s.Arg((unsigned short) atoi(a[1].c_str())))) complaint = "Arg(short) != Arg(unsigned short)"; return "r";}
   if (c == "argc"){prod = new String(s.Arg((char) atoi(a[1].c_str()))); if ((atoi(a[1].c_str()) >= 0)&&(*prod != s.Arg((unsigned char) atoi(a[1].c_str())))) complaint = "Arg(char) != Arg(unsigned char)"; return "r";}
   if (c == "argb"){prod = new String(s.Arg(a[1] == "1")); return "r";}
   if ((c == "argd")||(c == "argf"))
   {
      // a[1] = the IEEE bit pattern (hex), a[2] = minDigitsAfterDecimal, a[3] = maxDigitsAfterDecimal, a[4] = the text printf is expected to produce
      double d;
      if (c == "argd") {uint64 bits = strtoull(a[1].c_str(), NULL, 16); memcpy(&d, &bits, sizeof(d));}
                  else {uint32 bits = (uint32) strtoul(a[1].c_str(), NULL, 16); float f; memcpy(&f, &bits, sizeof(f)); d = f;}
      char buf[256];
      if (U(a[3]) == MUSCLE_NO_LIMIT) snprintf(buf, sizeof(buf), "%f", d); else snprintf(buf, sizeof(buf), "%.*f", (int) muscleMin(U(a[3]), (uint32)100), d);
      if (str(buf) != unhex(a[4])) complaint = "premise: this libc's printf text differs from the text in the case";
      if (c == "argd") prod = new String(s.Arg(d, U(a[2]), U(a[3])));
                  else {uint32 bits = (uint32) strtoul(a[1].c_str(), NULL, 16); float f; memcpy(&f, &bits, sizeof(f)); prod = new String(s.Arg(f, U(a[2]), U(a[3])));}
      return "r";
   }
   if (c == "wsf") {SA(1); prod = new String(s.WithSuffix(S1)); return "r";}
   if (c == "wpf") {SA(1); prod = new String(s.WithPrefix(S1)); return "r";}
   if (c == "wosf"){SA(1); prod = new String(s.WithoutSuffix(S1, U(a[2]))); return "r";}
   if (c == "wopf"){SA(1); prod = new String(s.WithoutPrefix(S1, U(a[2]))); return "r";}
   if (c == "wosh"){prod = new String(s.WithoutSuffix(CH(1), U(a[2]))); return "r";}
   if (c == "woph"){prod = new String(s.WithoutPrefix(CH(1), U(a[2]))); return "r";}
   if (c == "wons"){uint32 v = 12345; prod = new String(s.WithoutNumericSuffix(&v)); return "ru"+num(v);}
   if (c == "wiw")  {SA(2); CBuf sep(unhex(a[3])); prod = new String(s.WithInsertedWord(U(a[1]), S2, sep._p)); if (*prod != s.WithInsertedWord(U(a[1]), S2(), sep._p)) complaint = "WithInsertedWord(String) != (cstr)"; return "r";}
   if (c == "waw")  {SA(1); CBuf sep(unhex(a[2])); prod = new String(s.WithAppendedWord(S1, sep._p)); if (*prod != s.WithAppendedWord(S1(), sep._p)) complaint = "WithAppendedWord(String) != (cstr)"; return "r";}
   if (c == "wpw")  {SA(1); CBuf sep(unhex(a[2])); prod = new String(s.WithPrependedWord(S1, sep._p)); return "r";}
   if (c == "ind")  {prod = new String(s.IndentedBy(U(a[1]), CH(2))); return "r";}
   if (c == "plh")  {prod = new String(s + CH(1)); return "r";}
   if (c == "hpl")  {prod = new String(CH(1) + s); return "r";}
   if (c == "cpl")  {CBuf b(unhex(a[1])); prod = new String(((const char *) b._p) + s); if (*prod != (b._p + s)) complaint = "operator+(const char*, String) != operator+(char*, String)"; return "r";}
   if (c == "mns")  {SA(1); prod = new String(s - S1); if (*prod != (s - S1())) complaint = "operator-(String, String) != operator-(String, cstr)"; return "r";}
   if (c == "mnh")  {prod = new String(s - CH(1)); return "r";}
   if (c == "esc")
   {
      CBuf seps(unhex(a[1]));
      prod = new String(s.WithCharsEscaped(seps._p, CH(2)));
      if ((unhex(a[1]).size() == 1)&&(*prod != s.WithCharsEscaped(unhex(a[1])[0], CH(2)))) complaint = "WithCharsEscaped(cstr) != WithCharsEscaped(char)";
      return "r";
   }
   if (c == "wsfh") {prod = new String(s.WithSuffix(CH(1))); return "r";}
   if (c == "wpfh") {prod = new String(s.WithPrefix(CH(1))); return "r";}
   if (c == "wosfi"){SA(1); prod = new String(s.WithoutSuffixIgnoreCase(S1, U(a[2]))); return "r";}
   if (c == "wopfi"){SA(1); prod = new String(s.WithoutPrefixIgnoreCase(S1, U(a[2]))); return "r";}
   if (c == "woshi"){prod = new String(s.WithoutSuffixIgnoreCase(CH(1), U(a[2]))); return "r";}
   if (c == "wophi"){prod = new String(s.WithoutPrefixIgnoreCase(CH(1), U(a[2]))); return "r";}
   if (c == "pls") {SA(1); prod = new String(s + S1); if (*prod != (s + S1())) complaint = "operator+(String) != operator+(cstr)"; return "r";}
   fprintf(stderr, "bad op [%s]\n", c.c_str()); exit(2);
   return "";
}

// ------------------------------------------------------------------------------------------------
// The ideal byte string: an independent reference implementation over std::string.
static char lc(char c) {return ((c>='A')&&(c<='Z')) ? (char)(c+32) : c;}
static char uc(char c) {return ((c>='a')&&(c<='z')) ? (char)(c-32) : c;}
static str lower(const str & s) {str r = s; for (size_t i=0; i<r.size(); i++) r[i] = lc(r[i]); return r;}
static str upper(const str & s) {str r = s; for (size_t i=0; i<r.size(); i++) r[i] = uc(r[i]); return r;}
static bool isdig(char c) {return (c>='0')&&(c<='9');}
static bool isalnum_ascii(char c) {return isdig(c)||((c>='a')&&(c<='z'))||((c>='A')&&(c<='Z'));}
static int cmpsign(const str & a, const str & b) {const int r = a.compare(b); return sgn(r);}
static long long rfind_le(const str & h, const str & n, size_t from) {const size_t p = h.rfind(n, from); return (p == str::npos) ? -1 : (long long) p;}
static str sub(const str & s, uint32 first, uint32 after) {const size_t a = std::min((size_t)after, s.size()); return (first < a) ? s.substr(first, a-first) : str();}
static str ins(const str & s, uint32 idx, const str & x) {str r = s; r.insert(std::min((size_t)idx, s.size()), x); return r;}
static bool starts(const str & s, const str & p) {return (s.size() >= p.size())&&(s.compare(0, p.size(), p) == 0);}
static bool ends(const str & s, const str & p) {return (s.size() >= p.size())&&(s.compare(s.size()-p.size(), p.size(), p) == 0);}
static str repl(const str & s, const str & rm, const str & wm, uint32 max, uint32 from, long long & count)
{
   count = 0;
   if ((max == 0)||(from >= s.size())||(rm.empty())) return s;
   str r = s.substr(0, from);
   size_t pos = from;
   while(max > 0)
   {
      const size_t f = s.find(rm, pos);
      if (f == str::npos) break;
      r += s.substr(pos, f-pos); r += wm; pos = f+rm.size(); count++; max--;
   }
   r += s.substr(pos);
   return r;
}
static uint32 countsub(const str & s, const str & n, uint32 from)
{
   if ((n.empty())||(from >= s.size())) return 0;
   uint32 c = 0; size_t pos = from;
   while(1) {const size_t f = s.find(n, pos); if (f == str::npos) break; c++; pos = f+n.size();}
   return c;
}
static str argsub(const str & s, const str & val)
{
   long long low = -1;
   for (size_t i=0; i<s.size(); )
   {
      if (s[i] == '%')
      {
         i++;
         if ((i < s.size())&&(isdig(s[i])))
         {
            unsigned long long v = 0; while((i < s.size())&&(isdig(s[i]))) {v = v*10+(unsigned long long)(s[i]-'0'); i++;}
            const long long iv = (long long)(int32_t)(uint32_t) v;
            low = (low < 0) ? iv : std::min(iv, low);
         }
      }
      else i++;
   }
   if (low < 0) return s;
   long long cnt; return repl(s, "%"+num(low), val, MUSCLE_NO_LIMIT, 0, cnt);
}

// Reference semantics of one operation on the ideal string; returns the expected result text
// ("?" where the ideal string says nothing, e.g. capacity statuses) and the expected produced bytes.
static str ref_apply(str & s, const std::vector<str> & a, bool & hasProd, str & prod)
{
   hasProd = false;
   const str & c = a[0];
   const str me = s;
   #define RS(k) (sarg(a[k]).self ? me : sarg(a[k]).bytes)
   #define RC(k) ((carg(a[k]).kind == 0) ? str() : ((carg(a[k]).kind == 2) ? me.substr(std::min((size_t)carg(a[k]).off, me.size())) : carg(a[k]).bytes))
   #define RH(k) ((char)(unsigned char)U(a[k]))
   if (c == "sc")  {s = RC(1).substr(0, U(a[2])); return "ok";}
   if (c == "asc") {s = RC(1); return "ok";}
   if (c == "sf")  {s = sub(RS(1), U(a[2]), U(a[3])); return "ok";}
   if (c == "ass") {s = RS(1); return "ok";}
   if (c == "+s")  {s += RS(1); return "-";}
   if (c == "+c")  {s += RC(1); return "-";}
   if (c == "+h")  {s += RH(1); return "-";}
   if (c == "ic")  {s = ins(me, U(a[1]), RC(2).substr(0, U(a[3]))); return "?";}
   if (c == "pc")  {s = RC(1).substr(0, U(a[2])) + me; return "?";}
   if (c == "ac")  {s = me + RC(1).substr(0, U(a[2])); return "?";}
   if ((c == "cl")||(c == "cf")) {s.clear(); return "-";}
   if ((c == "pa")||(c == "sh")) return "?";
   if (c == "tc")  {s = me.substr(0, me.size()-std::min(me.size(), (size_t)U(a[1]))); return "-";}
   if (c == "tt")  {s = me.substr(0, std::min(me.size(), (size_t)U(a[1]))); return "-";}
   if (c == "sw")  {s = unhex(a[2]); hasProd = true; prod = me; return "r";}
   if (c == "-h")  {const size_t p = me.rfind(RH(1)); if (p != str::npos) s.erase(p, 1); return "-";}
   if ((c == "-s")||(c == "-c")) {const str x = (c == "-s") ? RS(1) : RC(1); if (!x.empty()) {const size_t p = me.rfind(x); if (p != str::npos) s.erase(p, x.size());} return "-";}
   if (c == "rv")  {std::reverse(s.begin(), s.end()); return "-";}
   if (c == "rc")
   {
      uint32 n = 0, max = U(a[3]);
      if (RH(1) != RH(2)) for (size_t i=U(a[4]); (i<s.size())&&(max>0); i++) if (s[i] == RH(1)) {s[i] = RH(2); n++; max--;}
      return "u"+num(n);
   }
   if (c == "rs")  {long long cnt; s = repl(me, RS(1), RS(2), U(a[3]), U(a[4]), cnt); return "i"+num(cnt);}
   if (c == "uf")
   {
      const str b = unhex(a[1]);
      const size_t z = b.find('\0');
      if (z == str::npos) return "err";    // unterminated (or empty) input must be rejected; the value is then unspecified
      s = b.substr(0, z); return "ok";
   }
   if ((c == "rm")||(c == "wrm"))
   {
      // simultaneous search-and-replace: left to right, at each offset the first key (in table order) that occurs there
      const std::vector< std::pair<str,str> > ps = parse_pairs(a[1]);
      uint32 max = U(a[2]); long long n = 0; str r;
      for (size_t i=0; i<s.size(); )
      {
         size_t hit = ps.size();
         if (max > 0) for (size_t j=0; j<ps.size(); j++) if ((!ps[j].first.empty())&&(s.compare(i, ps[j].first.size(), ps[j].first) == 0)) {hit = j; break;}
         if (hit < ps.size()) {r += ps[hit].second; i += ps[hit].first.size(); n++; if (max != MUSCLE_NO_LIMIT) max--;}
                         else {r += s[i]; i++;}
      }
      if (c == "rm") {s = r; return "i"+num(n);}
      hasProd = true; prod = r; return "r";
   }
   if (c == "set") {const uint32 i = U(a[1]); if (i < s.size()) s[i] = RH(2); return "-";}
   if (c == "<<i") {s += num(atoi(a[1].c_str())); return "-";}
   if (c == "<<b") {s += (a[1] == "1") ? "true" : "false"; return "-";}
   if (c == "++")  {s += ' '; return "-";}
   if (c == "--")  {if (!s.empty()) s.erase(s.size()-1); return "-";}
   if (c == "dist")
   {
      // textbook Levenshtein distance (full matrix), capped at the maximum
      const str o = RS(1);
      std::vector< std::vector<uint32_t> > d(s.size()+1, std::vector<uint32_t>(o.size()+1, 0));
      for (size_t i=0; i<=s.size(); i++) d[i][0] = (uint32_t)i;
      for (size_t j=0; j<=o.size(); j++) d[0][j] = (uint32_t)j;
      for (size_t i=1; i<=s.size(); i++) for (size_t j=1; j<=o.size(); j++)
         d[i][j] = std::min(std::min(d[i-1][j]+1, d[i][j-1]+1), d[i-1][j-1]+((s[i-1] == o[j-1]) ? 0u : 1u));
      return "u"+num(std::min(d[s.size()][o.size()], U(a[2])));
   }
   if ((c == "ncmp")||(c == "ncmpi"))
   {
      // natural order has no one-line ideal; what the ideal string does fix: equal strings compare equal, and for
      // digit-free, space-free ASCII operands the order is the plain (resp. case-folded) byte order
      const str o = RS(1);
      if (s == o) return "i0";
      bool plain = true;
      for (size_t i=0; i<s.size(); i++) if ((isdig(s[i]))||(s[i] == ' ')||((s[i] >= 9)&&(s[i] <= 13))||((unsigned char)s[i] >= 128)) plain = false;
      for (size_t i=0; i<o.size(); i++) if ((isdig(o[i]))||(o[i] == ' ')||((o[i] >= 9)&&(o[i] <= 13))||((unsigned char)o[i] >= 128)) plain = false;
      if (plain)
      {
         const int r = (c == "ncmp") ? cmpsign(s, o) : cmpsign(upper(s), upper(o));
         if ((r != 0)||(c == "ncmp")) return "i"+num(r);
      }
      return "?";
   }
   if (c == "eqh") {return ((s.size() == 1)&&(s[0] == RH(1))) ? "b1" : "b0";}
   if (c == "eqhi"){return ((s.size() == 1)&&(lc(s[0]) == lc(RH(1)))) ? "b1" : "b0";}
   if (c == "swhi"){return ((!s.empty())&&(lc(s[0]) == lc(RH(1)))) ? "b1" : "b0";}
   if (c == "ewhi"){return ((!s.empty())&&(lc(s[s.size()-1]) == lc(RH(1)))) ? "b1" : "b0";}
   if (c == "ufw")
   {
      // only the window's remaining bytes decide: the value is the prefix of the remaining window before its first NUL,
      // no NUL there (or nothing left) = rejected, nothing consumed; never more than the window is consumed
      const str arena = unhex(a[1]);
      const size_t win = std::min((size_t) U(a[2]), arena.size());
      const str w = arena.substr(0, win);
      size_t r = 0;
      const std::vector<str> pre = split(a[3], '.');
      for (size_t i=0; i<pre.size(); i++)
      {
         const str & t = pre[i];
         if (t.empty()) continue;
         if ((t[0] == 'b')||(t == "i")) {const size_t n = (t == "i") ? 4 : U(t.substr(1)); if (n <= win-r) r += n;}
         else {const size_t z = w.find('\0', r); if (z != str::npos) r = z+1;}
      }
      const size_t z = w.find('\0', r);
      if (z == str::npos) return "i"+num((-(long long) r)-1);   // rejected: the value afterwards is unspecified
      s = w.substr(r, z-r);
      return "i"+num((long long) z+1);
   }
   if (c == "at")  {const uint32 i = U(a[1]); return "u"+num((i < s.size()) ? (unsigned char)s[i] : 0);}
   if (c == "ioh") {const uint32 f = U(a[2]); if (f >= s.size()) return "i-1"; if (RH(1) == 0) return "i"+num(s.size()); const size_t p = s.find(RH(1), f); return "i"+num((p == str::npos) ? -1 : (long long)p);}
   if ((c == "ios")||(c == "ioc")) {const str n = (c == "ios") ? RS(1) : RC(1); const uint32 f = U(a[2]); if (f >= s.size()) return "i-1"; const size_t p = s.find(n, f); return "i"+num((p == str::npos) ? -1 : (long long)p);}
   if (c == "lih") {const uint32 f = U(a[2]); if (f >= s.size()) return "i-1"; const size_t p = s.rfind(RH(1)); return "i"+num(((p == str::npos)||(p < f)) ? -1 : (long long)p);}
   if (c == "lis1"){const str n = RS(1); if (n.size() > s.size()) return "i-1"; if (n.empty()) return "i"+num((long long)s.size()-1); return "i"+num(rfind_le(s, n, s.size()-n.size()));}
   if (c == "lis") {const str n = RS(1); const uint32 f = U(a[2]); if (n.empty()) return "i"+num((long long)s.size()-1); if (f >= s.size()) return "i-1"; return "i"+num(rfind_le(s, n, f));}
   if (c == "cnh") {const uint32 f = U(a[2]); uint32 n = 0; for (size_t i=f; i<s.size(); i++) if (s[i] == RH(1)) n++; return "u"+num(n);}
   if (c == "cns") {return "u"+num(countsub(s, RS(1), U(a[2])));}
   if (c == "sws") {return starts(s, RS(1)) ? "b1" : "b0";}
   if (c == "ews") {return ends(s, RS(1)) ? "b1" : "b0";}
   if (c == "swh") {return (((s.empty()) ? '\0' : s[0]) == RH(1)) ? "b1" : "b0";}
   if (c == "ewh") {return ((!s.empty())&&(s[s.size()-1] == RH(1))) ? "b1" : "b0";}
   if (c == "swsi"){return starts(lower(s), lower(RS(1))) ? "b1" : "b0";}
   if (c == "ewsi"){return ends(lower(s), lower(RS(1))) ? "b1" : "b0";}
   if (c == "cmp") {return "i"+num(cmpsign(s, RS(1)));}
   if (c == "cmpi"){return "i"+num(cmpsign(lower(s), lower(RS(1))));}
   if (c == "eqi") {return (lower(s) == lower(RS(1))) ? "b1" : "b0";}
   if (c == "iosi"){const str n = lower(RS(1)); const uint32 f = U(a[2]); if ((f >= s.size())||(n.empty())) return "i-1"; const size_t p = lower(s).find(n, f); return "i"+num((p == str::npos) ? -1 : (long long)p);}
   if (c == "lisi"){const str n = lower(RS(1)); const uint32 f = U(a[2]); if ((f >= s.size())||(n.empty())) return "i-1"; const size_t p = lower(s).rfind(n); return "i"+num(((p == str::npos)||(p < f)) ? -1 : (long long)p);}
   if (c == "iohi"){const uint32 f = U(a[2]); if (lc(RH(1)) == uc(RH(1))) {if (f >= s.size()) return "i-1"; if (RH(1) == 0) return "i"+num(s.size()); const size_t p = s.find(RH(1), f); return "i"+num((p == str::npos) ? -1 : (long long)p);} if (f >= s.size()) return "i-1"; const size_t p = lower(s).find(lc(RH(1)), f); return "i"+num((p == str::npos) ? -1 : (long long)p);}
   if (c == "lihi"){const uint32 f = U(a[2]); if (f >= s.size()) return "i-1"; const size_t p = (lc(RH(1)) == uc(RH(1))) ? s.rfind(RH(1)) : lower(s).rfind(lc(RH(1))); return "i"+num(((p == str::npos)||(p < f)) ? -1 : (long long)p);}
   if (c == "pns") {size_t i = s.size(); while((i>0)&&(isdig(s[i-1]))) i--; if (i == s.size()) return "u"+num(U(a[1])); unsigned long long v = 0; for (size_t j=i; j<s.size(); j++) v = v*10+(unsigned long long)(s[j]-'0'); return "u"+num((uint32_t)v);}
   if (c == "swn") {const char c0 = s.size() > 0 ? s[0] : '\0'; const char c1 = s.size() > 1 ? s[1] : '\0'; return ((isdig(c0))||((a[1] == "1")&&(c0 == '-')&&(isdig(c1)))) ? "b1" : "b0";}
   if (c == "fl")  {return "x"+hex(s)+"00";}
   hasProd = true;
   if ((c == "cp")||(c == "cpp")) {prod = s; return "r";}
   if (c == "sub") {prod = sub(s, U(a[1]), U(a[2])); return "r";}
   if (c == "suba"){const str n = RS(1); long long p; if (n.size() > s.size()) p = -1; else if (n.empty()) p = (long long)s.size()-1; else p = rfind_le(s, n, s.size()-n.size()); prod = (p >= 0) ? s.substr((size_t)p+n.size()) : s; return "r";}
   if (c == "subu"){const str n = RS(2); const uint32 f = U(a[1]); const size_t p = (f < s.size()) ? s.find(n, f) : str::npos; prod = sub(s, f, (p == str::npos) ? MUSCLE_NO_LIMIT : (uint32)p); return "r";}
   if (c == "wis") {prod = ins(s, U(a[1]), RS(2).substr(0, U(a[3]))); return "r";}
   if (c == "wps") {prod = RS(1).substr(0, U(a[2])) + s; return "r";}
   if (c == "was") {prod = s + RS(1).substr(0, U(a[2])); return "r";}
   if ((c == "wih")||(c == "wph")||(c == "wah"))
   {
      const int k = (c == "wih") ? 2 : 1;
      const str x = (RH(k) == 0) ? str() : str((size_t)U(a[k+1]), RH(k));
      prod = (c == "wih") ? ins(s, U(a[1]), x) : ((c == "wph") ? (x+s) : (s+x));
      return "r";
   }
   if (c == "pad") {const uint32 m = U(a[1]); prod = s; if ((s.size() < m)&&(RH(3) != 0)) {const str x((size_t)m-s.size(), RH(3)); prod = (a[2] == "1") ? (s+x) : (x+s);} return "r";}
   if (c == "lo")  {prod = lower(s); return "r";}
   if (c == "up")  {prod = upper(s); return "r";}
   if (c == "mx")  {prod = s; bool prev = false; for (size_t i=0; i<prod.size(); i++) {const bool isl = isalnum_ascii(prod[i]); prod[i] = prev ? lc(prod[i]) : uc(prod[i]); prev = isl;} return "r";}
   if (c == "tr")  {const size_t b = s.find_first_not_of(" \t\r\n"); if (b == str::npos) prod = ""; else {const size_t e = s.find_last_not_of(" \t\r\n"); prod = s.substr(b, e-b+1);} return "r";}
   if (c == "wrc") {prod = s; uint32 max = U(a[3]); if (RH(1) != RH(2)) for (size_t i=U(a[4]); (i<prod.size())&&(max>0); i++) if (prod[i] == RH(1)) {prod[i] = RH(2); max--;} return "r";}
   if (c == "wrs") {long long cnt; prod = repl(s, RS(1), RS(2), U(a[3]), U(a[4]), cnt); return "r";}
   if (c == "args"){prod = argsub(s, RS(1)); return "r";}
   if ((c == "argi")||(c == "argl")||(c == "argh")||(c == "argc")) {prod = argsub(s, num(strtoll(a[1].c_str(), NULL, 10))); return "r";}
   if ((c == "argu")||(c == "argul")) {std::ostringstream os; os << strtoull(a[1].c_str(), NULL, 10); prod = argsub(s, os.str()); return "r";}
   if (c == "argb"){prod = argsub(s, (a[1] == "1") ? "true" : "false"); return "r";}
   if ((c == "argd")||(c == "argf"))
   {
      // the number's text: no trailing zeros after a decimal point; then no bare trailing point, or at least (min) digits after it
      str t = unhex(a[4]); const uint32 mn = U(a[2]);
      if (t.find('.') != str::npos) while((!t.empty())&&(t[t.size()-1] == '0')) t.erase(t.size()-1);
      if (mn == 0) {if ((!t.empty())&&(t[t.size()-1] == '.')) t.erase(t.size()-1);}
      else
      {
         size_t dot = t.rfind('.');
         if (dot == str::npos) {t += '.'; dot = t.size()-1;}
         const size_t have = t.size()-dot-1;
         if (have < mn) t += str(mn-have, '0');
      }
      prod = argsub(s, t); return "r";
   }
   if (c == "wsf") {prod = ends(s, RS(1)) ? s : (s+RS(1)); return "r";}
   if (c == "wpf") {prod = starts(s, RS(1)) ? s : (RS(1)+s); return "r";}
   if (c == "wosf"){prod = s; const str x = RS(1); uint32 max = U(a[2]); if (!x.empty()) while((max > 0)&&(ends(prod, x))) {prod.erase(prod.size()-x.size()); max--;} return "r";}
   if (c == "wopf"){prod = s; const str x = RS(1); uint32 max = U(a[2]); if (!x.empty()) while((max > 0)&&(starts(prod, x))) {prod.erase(0, x.size()); max--;} return "r";}
   if (c == "wosh"){prod = s; uint32 max = U(a[2]); while((max > 0)&&(!prod.empty())&&(prod[prod.size()-1] == RH(1))) {prod.erase(prod.size()-1); max--;} return "r";}
   if (c == "woph"){prod = s; uint32 max = U(a[2]); while((max > 0)&&(!prod.empty())&&(prod[0] == RH(1))) {prod.erase(0, 1); max--;} return "r";}
   if (c == "wons"){size_t i = s.size(); while((i>0)&&(isdig(s[i-1]))) i--; unsigned long long v = 0; for (size_t j=i; j<s.size(); j++) v = v*10+(unsigned long long)(s[j]-'0'); prod = s.substr(0, i); return "ru"+num((uint32_t)v);}
   if ((c == "wiw")||(c == "waw")||(c == "wpw"))
   {
      const str w = (c == "wiw") ? RS(2) : RS(1);
      const str sep = unhex((c == "wiw") ? a[3] : a[2]);
      const uint32 idx = (c == "wiw") ? U(a[1]) : ((c == "waw") ? MUSCLE_NO_LIMIT : 0);
      if (w.empty()) prod = s;
      else if (sep.empty()) prod = ins(s, idx, w);
      else if (idx >= s.size()) prod = ((s.empty())||(ends(s, sep))||(starts(w, sep))) ? (s+w) : (s+sep+w);
      else if (idx == 0) prod = ((s.empty())||(starts(s, sep))||(ends(w, sep))) ? (w+s) : (w+sep+s);
      else
      {
         const str head = s.substr(0, idx), tail = s.substr(idx);
         str r = head;
         if ((!r.empty())&&(!ends(r, sep))&&(!starts(w, sep))) r += sep;
         r += w;
         if ((!tail.empty())&&(!ends(r, sep))&&(!starts(tail, sep))) r += sep;
         prod = r + tail;
      }
      return "r";
   }
   if (c == "plh")  {prod = s + RH(1); return "r";}
   if (c == "hpl")  {prod = str(1, RH(1)) + s; return "r";}
   if (c == "cpl")  {prod = unhex(a[1]) + s; return "r";}
   if (c == "mns")  {prod = s; const str x = RS(1); if (!x.empty()) {const size_t p = s.rfind(x); if (p != str::npos) prod.erase(p, x.size());} return "r";}
   if (c == "mnh")  {prod = s; const size_t p = s.rfind(RH(1)); if (p != str::npos) prod.erase(p, 1); return "r";}
   if (c == "esc")
   {
      // reference: a character of (seps) gets the escape character in front of it, so does a free-standing escape
      // character (one not followed by another escape character, a separator, or the end); a character that is itself
      // preceded by an unpaired escape character is left alone
      const str seps = unhex(a[1]); const char esc = RH(2);
      prod = s;
      if (esc == 0) return "r";
      bool any = false; for (size_t i=0; i<s.size(); i++) if ((seps.find(s[i]) != str::npos)||(s[i] == esc)) any = true;
      if (!any) return "r";
      prod.clear();
      bool prevWasEscape = false; char prevCh = 0;
      for (size_t i=0; i<s.size(); i++)
      {
         const char cur = s[i]; const char next = (i+1 < s.size()) ? s[i+1] : '\0';
         const bool curIsSep = (seps.find(cur) != str::npos);
         const bool nextIsSep = (next != 0)&&(seps.find(next) != str::npos);
         if ((!prevWasEscape)&&((curIsSep)||((cur == esc)&&(next != 0)&&(next != esc)&&(!nextIsSep)))) prod += esc;
         prod += cur;
         prevWasEscape = ((cur == esc)&&(prevCh != esc));
         prevCh = cur;
      }
      return "r";
   }
   if (c == "ind")
   {
      const uint32 n = U(a[1]);
      if ((n == 0)||(RH(2) == 0)) {prod = s; return "r";}
      const str pad((size_t)n, RH(2));
      prod.clear();
      // every line that has at least one character gets the pad in front of it; a leading empty line too
      if ((!s.empty())&&((s[0] == '\r')||(s[0] == '\n'))) prod = pad;
      bool atLineStart = true;
      for (size_t i=0; i<s.size(); i++)
      {
         if ((s[i] == '\n')||(s[i] == '\r')) atLineStart = true;
         else if (atLineStart) {prod += pad; atLineStart = false;}
         prod += s[i];
      }
      return "r";
   }
   if (c == "wsfh") {prod = s; if (!((!s.empty())&&(s[s.size()-1] == RH(1)))&&(RH(1) != 0)) prod += RH(1); return "r";}
   if (c == "wpfh") {prod = s; if ((((s.empty()) ? '\0' : s[0]) != RH(1))&&(RH(1) != 0)) prod = str(1, RH(1))+s; return "r";}
   if (c == "wosfi"){prod = s; const str x = lower(RS(1)); uint32 max = U(a[2]); if (!x.empty()) while((max > 0)&&(ends(lower(prod), x))) {prod.erase(prod.size()-x.size()); max--;} return "r";}
   if (c == "wopfi"){prod = s; const str x = lower(RS(1)); uint32 max = U(a[2]); if (!x.empty()) while((max > 0)&&(starts(lower(prod), x))) {prod.erase(0, x.size()); max--;} return "r";}
   if (c == "woshi"){prod = s; uint32 max = U(a[2]); while((max > 0)&&(!prod.empty())&&(lc(prod[prod.size()-1]) == lc(RH(1)))) {prod.erase(prod.size()-1); max--;} return "r";}
   if (c == "wophi"){prod = s; uint32 max = U(a[2]); while((max > 0)&&(!prod.empty())&&((prod[0] == uc(RH(1)))||(prod[0] == lc(RH(1))))) {prod.erase(0, 1); max--;} return "r";}
   if (c == "pls") {prod = s + RS(1); return "r";}
   fprintf(stderr, "bad op (ref) [%s]\n", c.c_str()); exit(2);
   return "";
}

// a second String with the same bytes as (s) but in the other storage mode (or at least another capacity)
static void make_twin(String & t, const String & s)
{
   const str me = content_of(s);
   CBuf b(me);
   if (!s.IsArrayDynamicallyAllocated()) (void) t.Prealloc(s.Length()+33);
   else if (s.Length() > String::GetMaxShortStringLength()) (void) t.Prealloc(2*s.Length()+7);
   (void) t.SetCstr(b._p);
}

static str shape_complaint(const String & s)
{
   if (s.Cstr()[s.Length()] != '\0') return "not NUL-terminated at Length()";
   if ((s.IsEmpty() != (s.Length() == 0))||(s.HasChars() != (s.Length() > 0))||(s.GetLastValidIndex() != ((int32)s.Length())-1)||(s.FlattenedSize() != s.Length()+1)
     ||(s.IsIndexValid(s.Length()))||((s.Length() > 0)&&(!s.IsIndexValid(s.Length()-1)))||(s() != s.Cstr())) return "IsEmpty/HasChars/GetLastValidIndex/IsIndexValid/FlattenedSize/operator() disagree with Length()/Cstr()";
   if (s.Length() >= s.GetNumAllocatedBytes()) return "Length() >= GetNumAllocatedBytes()";
   if ((!s.IsArrayDynamicallyAllocated())&&(s.Length() > String::GetMaxShortStringLength())) return "small-buffer mode with Length() above its capacity";
   return str();
}

static bool rejected(const std::vector<str> & a, const str & refOut) {return ((a[0] == "uf")&&(refOut == "err"))||((a[0] == "ufw")&&(refOut.size() > 1)&&(refOut[1] == '-'));}

static void run_case(int k, const str & body, bool nulStream)
{
   std::ostringstream o, orc;
   {
      String * s = new String();
      str ideal;
      const std::vector<str> ops = split(body, ';');
      for (size_t n=0; n<ops.size(); n++)
      {
         if (ops[n].empty()) continue;
         str opText = ops[n];
         const bool assign = ((opText.size() > 1)&&(opText[0] == '=')&&(opText != "=")); if (assign) opText = opText.substr(1);
         const std::vector<str> a = split(opText, ':');

         // twin and reference first (they must see the subject's state before the operation)
         String * twin = new String(); str twinComplaint; String * twinProd = NULL; str twinOut;
         bool refHasProd = false; str refProd; str refOut;
         if (!nulStream)
         {
            make_twin(*twin, *s);
            twinOut = apply(*twin, a, false, twinProd, twinComplaint);
            refOut = ref_apply(ideal, a, refHasProd, refProd);
         }

         str complaint; String * prod = NULL;
         const str out = apply(*s, a, true, prod, complaint);

         // print: result (with the storage of a produced String) then the storage of the subject
         if (prod) o << "r[" << state_of(*prod) << "]" << out.substr(1); else o << out;
         if ((assign)&&(prod)) {*s = std::move(*prod); if (twinProd) *twin = std::move(*twinProd); if (refHasProd) ideal = refProd;}
         o << " " << state_of(*s) << ";";

         // ---- oracles
         str why;
         const str sc = shape_complaint(*s); if (!sc.empty()) why = "shape: "+sc;
         if ((why.empty())&&(prod)&&(!assign)) {const str pc = shape_complaint(*prod); if (!pc.empty()) why = "shape of result: "+pc;}
         if ((why.empty())&&(!nulStream)&&(strlen(s->Cstr()) != s->Length())) why = "shape: strlen(Cstr()) != Length()";
         if ((why.empty())&&(!complaint.empty())&&(!nulStream)) why = "variants: "+complaint;
         if ((why.empty())&&(!nulStream))
         {
            if (out != twinOut) why = "twin: result differs from the same operation on the other storage mode / with a separate copy ("+out+" vs "+twinOut+")";
            else if ((prod != NULL) != (twinProd != NULL)) why = "twin: produced";
            else if ((prod)&&(!assign)&&(content_of(*prod) != content_of(*twinProd))) why = "twin: produced String differs";
            else if (content_of(*s) != content_of(*twin)) why = "twin: contents differ afterwards";
            else if ((s->HashCode() != twin->HashCode())||(s->HashCode64() != twin->HashCode64())||(s->CalculateChecksum() != twin->CalculateChecksum())) why = "twin: HashCode/HashCode64/CalculateChecksum depend on the storage mode";
            else if ((!(*s == *twin))||(*s != *twin)||(s->CompareTo(*twin) != 0)||(!s->EqualsIgnoreCase(*twin))) why = "twin: equal contents do not compare equal across storage modes";
         }
         if ((why.empty())&&(!nulStream))
         {
            if ((refOut != "?")&&(refOut != out)) {if (!((refOut == "err")&&(a[0] == "uf")&&(false))) why = "ideal: result "+out+" but the ideal byte string gives "+refOut;}
            else if ((refHasProd)&&(prod)&&(!assign)&&(content_of(*prod) != refProd)) why = "ideal: produced String differs from the ideal byte string";
            if ((why.empty())&&(!rejected(a, refOut))&&(content_of(*s) != ideal)) why = "ideal: contents differ from the ideal byte string";
         }
         if (rejected(a, refOut)) ideal = content_of(*s);   // the value after a rejected parse is unspecified: follow the implementation
         delete prod; delete twinProd; delete twin;
         if (!why.empty()) {orc << k << " ORACLE FAIL " << why << " at op#" << n << " " << a[0] << "\n"; break;}
      }
      delete s;
   }
   printf("%d %s\n", k, o.str().c_str());
   if (!orc.str().empty()) fputs(orc.str().c_str(), stdout);
   fflush(stdout);
}

int main()
{
   str line;
   int k = 0;
   while(std::getline(std::cin, line))
   {
      const size_t p = line.find('|');
      if (p != str::npos) run_case(k, line.substr(p+1), line.substr(0, p) == "nul");
      k++;
   }
   return 0;
}
