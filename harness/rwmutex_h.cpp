// C18 harness: runs small multi-threaded programs over a real muscle::ReaderWriterMutex under the controlled scheduler
// (harness/sched) and prints, per case, the decisions taken and -- per decision -- what the chosen thread did until its
// next decision point: notifications sent, the protected state after each _stateMutex critical section, parking, wake-ups,
// timeouts and API results, in the same canonical text as the extracted Coq LTS (ocaml/rwmutex_driver.ml).
// It also evaluates the property's own statement (exclusion, counts, try/timed behaviour, writer preference, no stranding)
// with bookkeeping of its own that does not depend on the Coq model, printing `k ORACLE FAIL <why>`.
//
// case line:   p=<0|1>,n=<threads>,seed=<N|->,sch=<c.c.c>|<tid>:<op>;<tid>:<op>;...
//    op: lr lrt lrd (LockReadOnly never/try/timed)  lw lwt lwd (LockReadWrite)  ur uw (unlocks)
//    pm=1 (optional): also take decisions at the WaitCondition pool's mutex; prints `k PM` instead of a trace (oracles only)
//    sch: explicit decisions ("2" run thread 2, "2!" fire thread 2's timeout), entries that are not enabled are skipped;
//    beyond them: seed=N random policy, seed=- non-preemptive policy.
// modes:  (default) cases on stdin -> traces;   --explore <max_preemptions> <max_runs>: for each stdin case print every
//    schedule up to the bound as a complete case line (used by checks/c18.py to build exhaustive case sets).
#include <stdio.h>
#include <stdlib.h>
#include <string.h>
#include <unistd.h>
#include <string>
#include <vector>
#include <sstream>
#include <memory>

#define private public
#define protected public
#include "system/ReaderWriterMutex.h"
#undef private
#undef protected
#include "system/SetupSystem.h"
#include "sched/sched.h"

using namespace muscle;
using namespace vsched;

enum { OP_LR = 0, OP_LW, OP_UR, OP_UW };
enum { D_NEVER = 0, D_TRY, D_TIMED };
struct Op { int kind; int d; };

struct Case {
   bool pref; int n; bool haveSeed; uint64_t seed; std::vector<Choice> sched; bool poolRace;
   std::vector<std::vector<Op> > prog;
   std::string head, body;
};

static std::vector<std::string> split(const std::string & s, char c)
{
   std::vector<std::string> r; std::string cur;
   for (size_t i=0; i<s.size(); i++) {if (s[i]==c) {r.push_back(cur); cur.clear();} else cur += s[i];}
   r.push_back(cur);
   return r;
}

static bool parse_case(const std::string & line, Case & c)
{
   const size_t bar = line.find('|');
   if (bar == std::string::npos) return false;
   c.head = line.substr(0, bar); c.body = line.substr(bar+1);
   c.pref = true; c.n = 0; c.haveSeed = false; c.seed = 0; c.sched.clear(); c.poolRace = false;
   std::vector<std::string> hs = split(c.head, ',');
   for (size_t i=0; i<hs.size(); i++)
   {
      const std::string & h = hs[i];
      if (h.compare(0, 2, "p=") == 0) c.pref = (h[2] == '1');
      else if (h.compare(0, 2, "n=") == 0) c.n = atoi(h.c_str()+2);
      else if (h.compare(0, 3, "pm=") == 0) c.poolRace = (h[3] == '1');
      else if (h.compare(0, 5, "seed=") == 0) {if (h[5] != '-') {c.haveSeed = true; c.seed = strtoull(h.c_str()+5, NULL, 10);}}
      else if (h.compare(0, 4, "sch=") == 0)
      {
         std::string s = h.substr(4);
         for (size_t k=0; k<s.size(); k++) if (s[k] == '.') s[k] = ',';
         if (!ParseSchedule(s, c.sched)) return false;
      }
   }
   std::vector<std::pair<int, Op> > toks;
   std::vector<std::string> os = split(c.body, ';');
   int maxT = -1;
   for (size_t i=0; i<os.size(); i++)
   {
      if (os[i].empty()) continue;
      const size_t col = os[i].find(':');
      if (col == std::string::npos) return false;
      const int t = atoi(os[i].substr(0, col).c_str());
      const std::string o = os[i].substr(col+1);
      Op op; op.d = D_NEVER;
      if (o.compare(0, 2, "lr") == 0) op.kind = OP_LR; else if (o.compare(0, 2, "lw") == 0) op.kind = OP_LW;
      else if (o == "ur") op.kind = OP_UR; else if (o == "uw") op.kind = OP_UW; else return false;
      if (o.size() == 3) {if (o[2] == 't') op.d = D_TRY; else if (o[2] == 'd') op.d = D_TIMED; else return false;}
      if (t < 0 || t > 15) return false;
      if (t > maxT) maxT = t;
      toks.push_back(std::make_pair(t, op));
   }
   if (c.n < maxT+1) c.n = maxT+1;
   c.prog.assign(c.n, std::vector<Op>());
   for (size_t i=0; i<toks.size(); i++) c.prog[toks[i].first].push_back(toks[i].second);
   return true;
}

// ---------------------------------------------------------------------------------------------------------------------
// One run of one case

struct Run {
   ReaderWriterMutex * rw;               // heap; leaked when threads are abandoned
   const Case * c;
   std::vector<muscle_thread_id> ids;    // controlled thread index -> muscle thread id
   std::vector<int> idValid;
   // --- oracle bookkeeping (independent of the model): what the API calls that RETURNED so far entitle each thread to hold
   std::vector<int> heldRO, heldRW;
   std::vector<int> inCall;              // -1 or the Op kind the thread is inside
   std::vector<int> inCallD;             // its deadline kind
   std::vector<int> inWW;                // thread is registered in _waitingWriterThreads (refreshed from the real table after every critical section)
   std::vector<int> wwEpoch;             // incremented each time it gets registered there
   std::vector<std::vector<std::pair<int,int> > > writersAhead;  // for a fresh reader inside LockReadOnly: (writer, epoch) pairs that were waiting when it arrived
   std::vector<int> upgrading;           // inside LockReadWrite while holding read locks only (the documented drop-and-retake path)
   std::vector<std::string> oracle;
   int idxOf(const muscle_thread_id & id) const {for (size_t i=0; i<ids.size(); i++) if (idValid[i] && ids[i] == id) return (int) i; return -1;}
};
static Run * g_run = NULL;

static void oracle_fail(const std::string & why) {if (g_run->oracle.size() < 8) g_run->oracle.push_back(why);}

static std::string dump_state(const ReaderWriterMutex & m)
{
   std::ostringstream o;
   o << "{t" << m._totalReadWriteRecurseCount << ";x";
   bool first = true;
   for (HashtableIterator<muscle_thread_id, ReaderWriterMutex::ThreadState> it(m._executingThreads); it.HasData(); it++)
   {
      if (!first) o << ","; first = false;
      o << g_run->idxOf(it.GetKey()) << ":" << it.GetValue()._readOnlyRecurseCount << "/" << it.GetValue()._readWriteRecurseCount;
   }
   for (int pass=0; pass<2; pass++)
   {
      o << (pass ? ";w" : ";r");
      first = true;
      for (HashtableIterator<muscle_thread_id, ReaderWriterMutex::ThreadState> it(pass ? m._waitingWriterThreads : m._waitingReaderThreads); it.HasData(); it++)
      {
         if (!first) o << ","; first = false;
         const ReaderWriterMutex::RefCountableWaitCondition * wc = it.GetValue()._waitConditionRef();
         o << g_run->idxOf(it.GetKey()) << ":";
         if (wc) o << wc->_waitCondition._pendingNotificationsCount; else o << "null";
      }
   }
   o << "}";
   return o.str();
}

static int waiter_of_wc(const ReaderWriterMutex & m, const void * wcAddr)
{
   for (int pass=0; pass<2; pass++)
      for (HashtableIterator<muscle_thread_id, ReaderWriterMutex::ThreadState> it(pass ? m._waitingWriterThreads : m._waitingReaderThreads); it.HasData(); it++)
      {
         const ReaderWriterMutex::RefCountableWaitCondition * wc = it.GetValue()._waitConditionRef();
         if (wc && (const void *) &wc->_waitCondition == wcAddr) return g_run->idxOf(it.GetKey());
      }
   return -1;
}

// the property's statement, evaluated on the harness's own bookkeeping + the real tables, at a quiescent point of thread (me)
static void check_exclusion(const char * where)
{
   Run & r = *g_run;
   int writers = 0, others = 0;
   for (int t=0; t<r.c->n; t++)
   {
      if (r.upgrading[t]) continue;    // documented: an upgrading LockReadWrite temporarily gives its read locks up
      if (r.heldRW[t] > 0) writers++;
      else if (r.heldRO[t] > 0) others++;
   }
   if (writers > 1 || (writers == 1 && others > 0))
   {
      std::ostringstream o; o << "exclusion violated at " << where << ": " << writers << " writer(s) and " << others << " reader(s) hold the lock";
      oracle_fail(o.str());
   }
}

static void on_event(const Event & e)
{
   Run & r = *g_run;
   const ReaderWriterMutex & m = *r.rw;
   const int me = e.tid;
   char buf[64];
   switch(e.kind)
   {
      case K_WC_NOTIFY:
         snprintf(buf, sizeof(buf), "N%d", waiter_of_wc(m, e.ptr)); Scheduler::Note(buf);
         break;
      case K_MUTEX_UNLOCK:
         if (e.ptr == (const void *) &m._stateMutex && e.aux == 0)
         {
            Scheduler::Note(dump_state(m));
            for (int t=0; t<r.c->n; t++)
            {
               const int now = (r.idValid[t] && m._waitingWriterThreads.ContainsKey(r.ids[t])) ? 1 : 0;
               if (now && !r.inWW[t]) r.wwEpoch[t]++;
               r.inWW[t] = now;
            }
         }
         break;
      case K_WC_WAIT: case K_WC_TIMEDWAIT:
         snprintf(buf, sizeof(buf), "P%ld", e.aux); Scheduler::Note(buf);
         if (me >= 0 && r.inCall[me] >= 0)
         {
            // "timed and try acquisitions return by their deadline": a try call must never park, a timed call must never park without a timeout
            if (r.inCallD[me] == D_TRY) oracle_fail("a try acquisition parked in a wait");
            else if (r.inCallD[me] == D_TIMED && e.kind == K_WC_WAIT) oracle_fail("a timed acquisition parked in a wait that has no timeout");
         }
         break;
      case K_WOKEN:   Scheduler::Note("K"); break;
      case K_TIMEOUT: Scheduler::Note("T"); break;
      default: break;
   }
}

static const char * status_text(const status_t & s)
{
   if (s.IsOK()) return "ok";
   if (s == B_TIMED_OUT) return "to";
   if (s == B_LOCK_FAILED) return "lf";
   return "err";
}

static void thread_body(int me)
{
   Run & r = *g_run;
   r.ids[me] = muscle_thread_id::GetCurrentThreadID(); r.idValid[me] = 1;
   const std::vector<Op> & prog = r.c->prog[me];
   const uint64 far = GetRunTime64() + SecondsToMicros(3600);
   for (size_t i=0; i<prog.size(); i++)
   {
      const Op & op = prog[i];
      const uint64 when = (op.d == D_NEVER) ? MUSCLE_TIME_NEVER : ((op.d == D_TRY) ? 0 : far);
      r.inCall[me] = op.kind; r.inCallD[me] = op.d;
      const bool fresh = (r.heldRO[me] == 0 && r.heldRW[me] == 0);
      status_t ret;
      switch(op.kind)
      {
         case OP_LR:
            r.writersAhead[me].clear();
            if (fresh && r.c->pref) for (int t=0; t<r.c->n; t++) if (t != me && r.inWW[t]) r.writersAhead[me].push_back(std::make_pair(t, r.wwEpoch[t]));
            ret = r.rw->LockReadOnly(when);
            if (ret.IsOK())
            {
               // writer preference: a reader that arrived after a parked writer must not be admitted while that writer is still waiting
               for (size_t k=0; k<r.writersAhead[me].size(); k++)
               {
                  const int w = r.writersAhead[me][k].first;
                  if (r.inWW[w] && r.wwEpoch[w] == r.writersAhead[me][k].second) {std::ostringstream o; o << "writer preference violated: reader t" << me << " overtook waiting writer t" << w; oracle_fail(o.str());}
               }
               r.heldRO[me]++;
            }
            else if (op.d == D_NEVER) oracle_fail("untimed LockReadOnly failed");
            break;
         case OP_LW:
            r.upgrading[me] = (r.heldRW[me] == 0 && r.heldRO[me] > 0) ? 1 : 0;
            ret = r.rw->LockReadWrite(when);
            r.upgrading[me] = 0;
            if (ret.IsOK()) r.heldRW[me]++;
            else if (op.d == D_NEVER) oracle_fail("untimed LockReadWrite failed");
            break;
         case OP_UR:
            ret = r.rw->UnlockReadOnly();
            if (ret.IsOK() != (r.heldRO[me] > 0)) oracle_fail(ret.IsOK() ? "UnlockReadOnly succeeded without a read lock" : "UnlockReadOnly failed although a read lock is held");
            if (ret.IsOK()) r.heldRO[me]--;
            break;
         default:
            ret = r.rw->UnlockReadWrite();
            if (ret.IsOK() != (r.heldRW[me] > 0)) oracle_fail(ret.IsOK() ? "UnlockReadWrite succeeded without a write lock" : "UnlockReadWrite failed although a write lock is held");
            if (ret.IsOK()) r.heldRW[me]--;
            break;
      }
      r.inCall[me] = -1;
      if (ret.IsError() && !(ret == B_TIMED_OUT) && !(ret == B_LOCK_FAILED)) oracle_fail(std::string("unexpected status ") + ret());
      if ((op.kind == OP_LR || op.kind == OP_LW) && ret == B_LOCK_FAILED) oracle_fail("a lock call returned B_LOCK_FAILED");
      // counts: what the table says this thread holds == what its returned calls entitle it to (also: unchanged after a failure)
      {
         const ReaderWriterMutex::ThreadState * ts = r.rw->_executingThreads.Get(r.ids[me]);
         const int ro = ts ? (int) ts->_readOnlyRecurseCount : 0, rwc = ts ? (int) ts->_readWriteRecurseCount : 0;
         if (ro != r.heldRO[me] || rwc != r.heldRW[me])
         {
            std::ostringstream o; o << "counts: t" << me << " holds " << ro << "/" << rwc << " per the table but " << r.heldRO[me] << "/" << r.heldRW[me] << " per its completed calls";
            oracle_fail(o.str());
         }
         if (r.rw->_waitingReaderThreads.ContainsKey(r.ids[me]) || r.rw->_waitingWriterThreads.ContainsKey(r.ids[me])) oracle_fail("a thread outside any call is still registered as waiting");
      }
      check_exclusion("api-return");
      Scheduler::Note(std::string("=") + status_text(ret));
   }
}

static std::string choice_text(const Choice & c) {char b[24]; snprintf(b, sizeof(b), "%d%s", c.tid, c.timeout ? "!" : ""); return b;}

static Options base_options(const Case & c, ReaderWriterMutex ** rwp)
{
   Options o;
   o.tolerant_schedule = true;
   o.max_decisions = 4000;
   o.timeout_weight_percent = 15;
   const bool poolRace = c.poolRace;
   o.policy_fn = [rwp, poolRace](int kind, const void * obj) -> int {
      switch(kind)
      {
         case K_MUTEX_LOCK:
            if (obj == (const void *) &(*rwp)->_stateMutex) return F_LOG|F_DECIDE;
            // pm=1: the pool's own mutex is a decision point too, so the release of a recycled WaitCondition (end of a call, outside
            // _stateMutex) interleaves with the ObtainObject() calls of other threads; such runs are judged by the oracles only
            return (poolRace && obj == (const void *) &(*rwp)->_waitConditionPool._mutex) ? F_DECIDE : 0;
         case K_MUTEX_UNLOCK: return (obj == (const void *) &(*rwp)->_stateMutex) ? F_LOG : 0;
         case K_WC_WAIT: case K_WC_TIMEDWAIT: return F_LOG|F_DECIDE;
         case K_WC_NOTIFY: return F_LOG;
         default: return 0;
      }
   };
   o.on_event = on_event;
   (void) c;
   return o;
}

static void setup_run(Run & r, const Case & c, Scheduler & s)
{
   r.c = &c;
   r.rw = new ReaderWriterMutex(c.pref);
   r.ids.assign(c.n, muscle_thread_id()); r.idValid.assign(c.n, 0);
   r.heldRO.assign(c.n, 0); r.heldRW.assign(c.n, 0); r.inCall.assign(c.n, -1); r.inCallD.assign(c.n, 0);
   r.inWW.assign(c.n, 0); r.wwEpoch.assign(c.n, 0); r.upgrading.assign(c.n, 0); r.writersAhead.assign(c.n, std::vector<std::pair<int,int> >());
   r.oracle.clear();
   s.NameObject(&r.rw->_stateMutex, "sm");
   for (int t=0; t<c.n; t++) s.Spawn([t]{thread_body(t);});
}

// deadlock verdict: stranding is the lock's fault unless a thread that is outside any call (finished) still holds it
static void judge_end(Run & r, const Result & res)
{
   if (res.status == Result::DEADLOCK)
   {
      bool idleHolder = false;
      for (int t=0; t<r.c->n; t++) if (r.inCall[t] < 0 && (r.heldRO[t] > 0 || r.heldRW[t] > 0)) idleHolder = true;
      if (!idleHolder) oracle_fail("threads are stranded although no thread outside a call holds the lock: " + res.detail);
   }
   else if (res.status == Result::STEP_LIMIT) oracle_fail("step limit reached (livelock?)");
}

static std::string format_trace(const Result & res)
{
   std::ostringstream o;
   o << res.StatusName();
   for (size_t i=0; i<res.steps.size(); i++)
   {
      const Step & st = res.steps[i];
      o << " " << choice_text(st.taken) << "<";
      for (size_t k=0; k<st.enabled.size(); k++) o << (k ? "," : "") << choice_text(st.enabled[k]);
      o << ">";
      const size_t to = (i+1 < res.steps.size()) ? res.steps[i+1].log_pos : res.log.size();
      for (size_t k=st.log_pos; k<to; k++) if (res.log[k].kind == K_NOTE) o << res.log[k].note;
   }
   return o.str();
}

static void run_case(long k, const Case & c)
{
   Run * r = new Run;
   g_run = r;
   Options o = base_options(c, &r->rw);
   o.schedule = c.sched;
   if (c.haveSeed) {o.policy = Options::RANDOM; o.seed = c.seed;} else o.policy = Options::NONPREEMPTIVE;
   Scheduler * s = new Scheduler(o);
   setup_run(*r, c, *s);
   const Result res = s->Run();
   judge_end(*r, res);
   if (c.poolRace) printf("%ld PM\n", k); else printf("%ld %s\n", k, format_trace(res).c_str());
   for (size_t i=0; i<r->oracle.size(); i++) printf("%ld ORACLE FAIL %s\n", k, r->oracle[i].c_str());
   fflush(stdout);
   if (res.status == Result::COMPLETED) {delete r->rw; delete s; delete r;}   // otherwise abandoned threads still use them: leak
   g_run = NULL;
}

static void explore_case(const Case & c, int maxPre, size_t maxRuns)
{
   ExploreOptions eo; eo.max_preemptions = maxPre; eo.max_runs = maxRuns;
   Run * cur = NULL;
   ReaderWriterMutex * rwSlot = NULL;
   eo.base = base_options(c, &rwSlot);
   eo.base.tolerant_schedule = false;
   Explore(eo,
      [&](Scheduler & s) {cur = new Run; g_run = cur; setup_run(*cur, c, s); rwSlot = cur->rw;},
      [&](const Result & res) {
         std::string sch = FormatSchedule(res.Schedule());
         for (size_t i=0; i<sch.size(); i++) if (sch[i] == ',') sch[i] = '.';
         printf("p=%d,n=%d,seed=-,sch=%s|%s\n", c.pref ? 1 : 0, c.n, sch.c_str(), c.body.c_str());
         if (res.status == Result::COMPLETED) {delete cur->rw; delete cur;}
         cur = NULL; g_run = NULL;
         return true;
      });
   fflush(stdout);
}

int main(int argc, char ** argv)
{
   CompleteSetupSystem css;
   int maxPre = -1; size_t maxRuns = 0;
   if (argc >= 4 && strcmp(argv[1], "--explore") == 0) {maxPre = atoi(argv[2]); maxRuns = (size_t) atol(argv[3]);}
   char * line = NULL; size_t cap = 0; ssize_t len; long k = 0;
   while((len = getline(&line, &cap, stdin)) >= 0)
   {
      while(len > 0 && (line[len-1] == '\n' || line[len-1] == '\r')) line[--len] = 0;
      Case c;
      if (!parse_case(line, c)) {if (maxPre < 0) {printf("%ld BADCASE\n", k); fflush(stdout);} k++; continue;}
      if (maxPre >= 0) explore_case(c, maxPre, maxRuns); else run_case(k, c);
      k++;
   }
   fflush(stdout);
   _exit(0);
}
