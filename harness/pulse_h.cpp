// C20 harness: drives real muscle::PulseNode trees through the PulseNodeManager entry points
// (CallGetPulseTimeAux / CallPulseAux) with a simulated clock.  Every node is an instrumented
// subclass whose GetPulseTime()/Pulse() follow a per-node script (times to return, operations on
// ANY nodes to perform from inside the callback).  After every top-level operation it prints the
// callback log and the internal state (_parent, _aggregatePulseTime, _myScheduledTime,
// _myScheduledTimeValid, _curList, the three child lists) in the same canonical text as the
// extracted Coq model (see ocaml/pulse_driver.ml for the case format).
//
// Independently of the model it evaluates (a) the pointer structure of the intrusive lists and
// (b) the property's own statement against a shadow bookkeeping of "what each node currently
// requests" and prints `k ORACLE FAIL <why>` when that does not hold.
#include <stdio.h>
#include <stdlib.h>
#include <string.h>
#include <string>
#include <vector>
#include <set>
#include <sstream>
#include <iostream>

#define private public
#define protected public
#include "util/PulseNode.h"
#undef private
#undef protected

using namespace muscle;

static const int MAXID = 16;
static const uint64 NEVER = MUSCLE_TIME_NEVER;

// ------------------------------------------------------------------ scripts
struct TSpec {char kind; uint64 v; TSpec() : kind('N'), v(0) {}};   // 'N' never, 'A' absolute, 'n' now+v, 'q' prev+v
struct COp {char c; int a; int b;};
typedef std::vector<COp> Prog;
struct GEnt {TSpec t; Prog prog;};

static std::vector<std::string> split(const std::string & s, char c)
{
   std::vector<std::string> r; std::string cur;
   for (size_t i=0; i<s.size(); i++) {if (s[i]==c) {r.push_back(cur); cur.clear();} else cur += s[i];}
   r.push_back(cur);
   return r;
}
static uint64 parse_time(const std::string & s) {return (s == "N") ? NEVER : (uint64) strtoull(s.c_str(), NULL, 10);}
static TSpec parse_tspec(const std::string & s)
{
   TSpec t;
   if (s == "N") t.kind = 'N';
   else if (s[0] == 'n') {t.kind = 'n'; t.v = parse_time(s.substr(1));}
   else if (s[0] == 'q') {t.kind = 'q'; t.v = parse_time(s.substr(1));}
   else {t.kind = 'A'; t.v = parse_time(s);}
   return t;
}
static uint64 sat_add(uint64 a, uint64 b) {const uint64 s = a+b; return (s < a) ? NEVER : s;}
static uint64 eval_tspec(const TSpec & t, uint64 now, uint64 prev)
{
   switch(t.kind)
   {
      case 'A': return t.v;
      case 'n': return sat_add(now, t.v);
      case 'q': return (prev == NEVER) ? sat_add(now, t.v) : sat_add(prev, t.v);
      default:  return NEVER;
   }
}
static COp parse_cop(const std::string & s)
{
   COp o; o.c = s[0]; o.a = o.b = -1;
   const std::string r = s.substr(1);
   const size_t u = r.find('_');
   if (u == std::string::npos) o.a = atoi(r.c_str());
   else {o.a = atoi(r.substr(0,u).c_str()); o.b = atoi(r.substr(u+1).c_str());}
   return o;
}
static Prog parse_prog(const std::string & s)
{
   Prog p;
   if ((s == "-")||(s.empty())) return p;
   std::vector<std::string> v = split(s, '.');
   for (size_t i=0; i<v.size(); i++) p.push_back(parse_cop(v[i]));
   return p;
}
static std::string show_time(uint64 t)
{
   if (t == NEVER) return "N";
   char buf[32]; snprintf(buf, sizeof(buf), "%llu", (unsigned long long) t); return buf;
}

// ------------------------------------------------------------------ the world of one case
class HNode;
struct World
{
   int k;                                   // case number
   HNode * nodes[MAXID];                    // live objects (NULL = no such node)
   std::vector<GEnt> gtab[MAXID];
   std::vector<Prog> ptab[MAXID];
   TSpec dflt[MAXID];
   int ngt[MAXID], npl[MAXID];
   std::vector<HNode *> deferred;           // destroyed from inside a callback while possibly on the call stack
   std::ostringstream ev;                   // events of the current top-level op
   bool evFirst;
   std::ostringstream orc;                  // oracle failures of this case
   // --- context of the running top-level sweep
   int topRoot;                             // root of the running sweep or -1
   int cbNode;                              // node whose callback is executing or -1
   bool hadChild[MAXID];                    // had a child at some time since the sweep began
   int cbOps;                               // operations attempted from inside callbacks during this sweep
   uint64 topNow;
   bool inPulseSweep;
   std::set<int> pulsed;                    // nodes pulsed during this pulse sweep
   // --- shadow bookkeeping: the property's own notion of what is requested
   uint64 sReq[MAXID];                      // what the node's last GetPulseTime() returned (NEVER after a clearing invalidate)
   bool sStale[MAXID];                      // must be asked again before its request counts
   int sParent[MAXID];
   bool sTaint[MAXID];                      // withdrawn from inside a GetPulseTime() callback while the node's own recalculation could be running
   bool inGetCallback;
   int freshRoot;                           // root whose tree was fully recalculated by the immediately preceding quiet sweep, or -1
   int opIndex;

   void fail(const std::string & why) {orc << k << " ORACLE FAIL " << why << " (op#" << opIndex << ")\n";}
   void event(const std::string & e) {if (!evFirst) ev << ","; evFirst = false; ev << e;}
};
static World * W = NULL;

static bool do_cop(const COp & o, bool inCallback);
static std::string dump_only();           // the internal state of all nodes, as text (also emitted at every callback entry)
static void check_links();                // pointer structure of the intrusive lists, evaluated also in the middle of a sweep
static void check_inv(bool quiescent);   // developer aid (env PULSE_INVCHECK): the invariants the Coq proofs rest on, evaluated on the real objects

class HNode : public PulseNode
{
public:
   HNode(int id) : _id(id), _dead(false) {}
   int _id;
   bool _dead;   // destructor semantics already applied; the object itself is freed once no frame can refer to it

   virtual uint64 GetPulseTime(const PulseArgs & args)
   {
      World & w = *W;
      const int k = w.ngt[_id]++;
      const uint64 now = args.GetCallbackTime(), prev = args.GetScheduledTime();
      std::ostringstream e; e << "g" << _id << "#" << k << "(" << show_time(now) << "," << show_time(prev) << ")[" << dump_only() << "]";
      w.event(e.str());
      // oracle: the previous-value contract and the clock
      if (prev != w.sReq[_id]) w.fail("GetPulseTime received a previous value that is not what the node returned last");
      if ((w.topRoot >= 0)&&(now != w.topNow)) w.fail("GetPulseTime received a wrong callback time");
      w.sStale[_id] = false; w.sTaint[_id] = false;
      check_links(); check_inv(false);
      uint64 ret;
      const int savedCb = w.cbNode; w.cbNode = _id; w.inGetCallback = true;
      if (k < (int) w.gtab[_id].size())
      {
         const GEnt & g = w.gtab[_id][k];
         ret = eval_tspec(g.t, now, prev);
         for (size_t i=0; i<g.prog.size(); i++) {w.cbOps++; (void) do_cop(g.prog[i], true); check_links(); check_inv(false);}
      }
      else ret = eval_tspec(w.dflt[_id], now, prev);
      w.cbNode = savedCb; w.inGetCallback = false;
      w.sReq[_id] = ret;
      w.sStale[_id] = false;   // the value being returned is the node's current request, whatever the callback did to its own node meanwhile
      return ret;
   }

   virtual void Pulse(const PulseArgs & args)
   {
      World & w = *W;
      const int k = w.npl[_id]++;
      const uint64 now = args.GetCallbackTime(), st = args.GetScheduledTime();
      std::ostringstream e; e << "p" << _id << "#" << k << "(" << show_time(now) << "," << show_time(st) << ")[" << dump_only() << "]";
      w.event(e.str());
      // oracle: never early, never a withdrawn request, with the time that was asked for, once per sweep
      if (w.sStale[_id]) w.fail("Pulse called on a node whose request was withdrawn and not renewed");
      if (st != w.sReq[_id]) w.fail("Pulse called with a scheduled time the node did not ask for");
      if (st > now) w.fail("Pulse called before the requested time");
      if (now != w.topNow) w.fail("Pulse called with a wrong callback time");
      if (w.pulsed.count(_id)) w.fail("Pulse called twice on one node in one sweep");
      {
         int a = _id, steps = 0; while((a >= 0)&&(a != w.topRoot)&&(steps++ < MAXID+1)) a = w.sParent[a];
         if ((a != w.topRoot)&&(w.cbOps == 0)) w.fail("Pulse called on a node that is not attached below the pulsed root");
      }
      w.pulsed.insert(_id);
      w.sStale[_id] = true;    // it has fired: it must be asked again
      check_links(); check_inv(false);
      const int savedCb = w.cbNode; w.cbNode = _id;
      if (k < (int) w.ptab[_id].size())
      {
         const Prog & p = w.ptab[_id][k];
         for (size_t i=0; i<p.size(); i++) {w.cbOps++; (void) do_cop(p[i], true); check_links(); check_inv(false);}
      }
      w.cbNode = savedCb;
   }
};

static HNode * N(int id) {return ((id >= 0)&&(id < MAXID)&&(W->nodes[id])&&(!W->nodes[id]->_dead)) ? W->nodes[id] : NULL;}
static int idOf(const PulseNode * p) {return p ? static_cast<const HNode *>(p)->_id : -1;}

// the node's request is withdrawn (stale); remember when that happened from inside a GetPulseTime() callback
// to a node whose own GetPulseTimeAux may be on the call stack (itself, the swept root, or a node with children)
static void withdraw(int x)
{
   World & w = *W;
   w.sStale[x] = true;
   if ((w.inGetCallback)&&((x == w.cbNode)||(x == w.topRoot)||(w.hadChild[x]))) w.sTaint[x] = true;
}

static void shadow_detach_children(int x)
{
   World & w = *W;
   for (int i=0; i<MAXID; i++) if (w.sParent[i] == x) {w.sParent[i] = -1; withdraw(i);}
}

// returns true if the op was applicable
static bool do_cop(const COp & o, bool inCallback)
{
   World & w = *W;
   switch(o.c)
   {
      case 'i': case 'j':
      {
         HNode * x = N(o.a); if (!x) return false;
         x->InvalidatePulseTime(o.c == 'i');
         withdraw(o.a); if (o.c == 'i') w.sReq[o.a] = NEVER;
         return true;
      }
      case 'a':
      {
         HNode * p = N(o.a); HNode * c = N(o.b); if ((!p)||(!c)||(p == c)) return false;
         for (PulseNode * q = p; q; q = q->GetPulseParent()) if (q == c) return false;   // would build a cycle
         const bool hadParent = (c->GetPulseParent() != NULL);
         p->PutPulseChild(c);
         w.hadChild[o.a] = true;
         if ((hadParent)||(w.sParent[o.b] >= 0)) withdraw(o.b);   // leaving a parent withdraws the request
         w.sParent[o.b] = o.a;
         return true;
      }
      case 'r':
      {
         HNode * p = N(o.a); HNode * c = N(o.b); if ((!p)||(!c)) return false;
         p->RemovePulseChild(c);
         if (w.sParent[o.b] == o.a) {w.sParent[o.b] = -1; withdraw(o.b);}
         return true;
      }
      case 'c':
      {
         HNode * x = N(o.a); if (!x) return false;
         x->ClearPulseChildren();
         shadow_detach_children(o.a);
         return true;
      }
      case 'x':
      {
         HNode * x = N(o.a); if (!x) return false;
         w.sParent[o.a] = -1; w.sStale[o.a] = true; w.sReq[o.a] = NEVER;
         shadow_detach_children(o.a);
         const bool mayHaveFrame = inCallback && ((o.a == w.cbNode)||(o.a == w.topRoot)||(w.hadChild[o.a]));
         if (mayHaveFrame)
         {
            // a GetPulseTimeAux/PulseAux frame of this node may still be running: do what the destructor
            // does now, free the object when the sweep has returned
            if (x->GetPulseParent()) x->GetPulseParent()->RemovePulseChild(x);
            x->ClearPulseChildren();
            x->_dead = true;
            w.deferred.push_back(x);
         }
         else {w.nodes[o.a] = NULL; delete x;}
         return true;
      }
      default:
         fprintf(stderr, "bad cop [%c]\n", o.c); exit(2);
   }
   return false;
}

static std::string dump_only()
{
   std::ostringstream o;
   for (int i=0; i<MAXID; i++)
   {
      HNode * x = N(i); if (!x) continue;
      o << i << "{";
      if (x->_parent) o << idOf(x->_parent); else o << "-";
      o << "," << show_time(x->_aggregatePulseTime) << "," << show_time(x->_myScheduledTime) << "," << (x->_myScheduledTimeValid ? 1 : 0) << ",";
      switch(x->_curList)
      {
         case -1: o << "-"; break;
         case PulseNode::LINKED_LIST_SCHEDULED:   o << "S"; break;
         case PulseNode::LINKED_LIST_UNSCHEDULED: o << "U"; break;
         case PulseNode::LINKED_LIST_NEEDSRECALC: o << "R"; break;
         default: o << "?"; break;
      }
      o << ",";
      const int order[3] = {PulseNode::LINKED_LIST_SCHEDULED, PulseNode::LINKED_LIST_UNSCHEDULED, PulseNode::LINKED_LIST_NEEDSRECALC};
      for (int li=0; li<3; li++)
      {
         if (li) o << "/";
         int steps = 0; bool first = true;
         for (const PulseNode * p = x->_firstChild[order[li]]; (p)&&(steps++ <= MAXID+1); p = p->_nextSibling) {if (!first) o << "."; first = false; o << idOf(p);}
      }
      o << "}";
   }
   return o.str();
}

static void check_links()
{
   World & w = *W;
   std::set<const PulseNode *> live;
   for (int i=0; i<MAXID; i++) if (N(i)) live.insert(N(i));
   for (int i=0; i<MAXID; i++)
   {
      HNode * x = N(i); if (!x) continue;
      for (int L=0; L<3; L++)
      {
         const PulseNode * prev = NULL; int steps = 0;
         for (const PulseNode * p = x->_firstChild[L]; p; p = p->_nextSibling)
         {
            if (!live.count(p)) {w.fail("mid-sweep: a child list refers to an object that no longer exists"); break;}
            if (++steps > MAXID+1) {w.fail("mid-sweep: a child list is cyclic"); break;}
            if (p->_prevSibling != prev) w.fail("mid-sweep: _prevSibling does not mirror _nextSibling");
            if (p->_parent != x) w.fail("mid-sweep: a list member's _parent is not the list owner");
            if (p->_curList != L) w.fail("mid-sweep: a list member's _curList names another list");
            if ((L == PulseNode::LINKED_LIST_SCHEDULED)&&(prev)&&(prev->_aggregatePulseTime > p->_aggregatePulseTime)) w.fail("mid-sweep: the scheduled list is not sorted");
            prev = p;
         }
         if (x->_lastChild[L] != prev) w.fail("mid-sweep: _lastChild is not the last list member");
      }
      if (x->_parent)
      {
         if (!live.count(x->_parent)) w.fail("mid-sweep: _parent refers to an object that no longer exists");
         else
         {
            bool found = false;
            if ((x->_curList >= 0)&&(x->_curList < 3)) for (const PulseNode * p = x->_parent->_firstChild[x->_curList]; p; p = p->_nextSibling) if (p == x) {found = true; break;}
            if (!found) w.fail("mid-sweep: an attached node is not on the list of its parent that _curList names");
         }
      }
      else if ((x->_curList != -1)||(x->_prevSibling)||(x->_nextSibling)) w.fail("mid-sweep: a detached node still has list linkage");
   }
}

static bool g_invcheck = false, g_pureGet = true;
static void check_inv(bool quiescent)
{
   if (!g_invcheck) return;
   World & w = *W;
   for (int i=0; i<MAXID; i++)
   {
      HNode * x = N(i); if (!x) continue;
      const int cl = x->_curList;
      if ((x->_firstChild[PulseNode::LINKED_LIST_NEEDSRECALC])&&(cl != PulseNode::LINKED_LIST_NEEDSRECALC)&&(cl != -1)) w.fail("INV K1: a node with needs-recalc children is itself on a scheduled/unscheduled list");
      if ((x->_myScheduledTimeValid)&&((cl == PulseNode::LINKED_LIST_SCHEDULED)||(cl == PulseNode::LINKED_LIST_UNSCHEDULED))&&(x->_aggregatePulseTime != muscleMin(x->_myScheduledTime, x->GetFirstScheduledChildTime()))) w.fail("INV K3: a valid listed node's aggregate is not min(own, first scheduled child)");
      if ((cl == PulseNode::LINKED_LIST_SCHEDULED)&&(x->_aggregatePulseTime == NEVER)) w.fail("INV K4: scheduled with aggregate NEVER");
      if ((cl == PulseNode::LINKED_LIST_UNSCHEDULED)&&(x->_aggregatePulseTime != NEVER)) w.fail("INV K4: unscheduled with finite aggregate");
      if ((quiescent)&&(g_pureGet)&&(!x->_myScheduledTimeValid)&&(cl != PulseNode::LINKED_LIST_NEEDSRECALC)&&(cl != -1)) w.fail("INV K2: an invalid node is on a scheduled/unscheduled list at rest");
      const PulseNode * prev = NULL;
      for (const PulseNode * p = x->_firstChild[PulseNode::LINKED_LIST_SCHEDULED]; p; p = p->_nextSibling) {if ((prev)&&(prev->_aggregatePulseTime > p->_aggregatePulseTime)) w.fail("INV K5: scheduled list unsorted"); prev = p;}
   }
}

class Mgr : public PulseNodeManager
{
public:
   void Get(PulseNode & p, uint64 now, uint64 & min) {CallGetPulseTimeAux(p, now, min);}
   void Pulse(PulseNode & p, uint64 now) {CallPulseAux(p, now);}
};

static void begin_sweep(int r, uint64 now, bool pulse)
{
   World & w = *W;
   w.topRoot = r; w.cbNode = -1; w.cbOps = 0; w.topNow = now; w.inPulseSweep = pulse; w.pulsed.clear();
   for (int i=0; i<MAXID; i++)
   {
      HNode * x = N(i);
      w.hadChild[i] = (x)&&((x->_firstChild[0])||(x->_firstChild[1])||(x->_firstChild[2]));
   }
}
static void end_sweep()
{
   World & w = *W;
   w.topRoot = -1;
   for (size_t i=0; i<w.deferred.size(); i++) {HNode * x = w.deferred[i]; if (w.nodes[x->_id] == x) w.nodes[x->_id] = NULL; delete x;}
   w.deferred.clear();
}

static bool in_tree(int x, int r)
{
   int steps = 0; while((x >= 0)&&(x != r)&&(steps++ < MAXID+1)) x = W->sParent[x];
   return (x == r);
}

static void top_get(Mgr & mgr, int r, uint64 now)
{
   World & w = *W;
   HNode * x = N(r); if ((!x)||(x->GetPulseParent())) return;
   begin_sweep(r, now, false);
   uint64 mn = NEVER;
   mgr.Get(*x, now, mn);
   const int ops = w.cbOps;
   end_sweep();
   {std::ostringstream e; e << "m" << r << "=" << show_time(mn); w.event(e.str());}
   // oracle: the reported wake-up time is the minimum of what the attached nodes currently request,
   // and every attached node has been asked since it fired / was invalidated / was attached
   if (N(r) == NULL) return;   // the root destroyed itself
   uint64 expect = NEVER; bool anyStale = false, anyTaint = false;
   for (int i=0; i<MAXID; i++) if ((N(i))&&(in_tree(i, r)))
   {
      if (w.sReq[i] < expect) expect = w.sReq[i];
      if (w.sStale[i]) anyStale = true;
      if (w.sTaint[i]) anyTaint = true;
   }
   static const char * reent = "reentrant-recalc: a node invalidated or re-attached from inside a GetPulseTime() callback while its own GetPulseTimeAux could be on the stack is left invalid off the needs-recalc list: ";
   if (ops == 0)
   {
      if (mn != expect) w.fail(std::string(anyTaint ? reent : "") + "recalculation sweep reported " + show_time(mn) + " but the minimum of the requested times is " + show_time(expect));
      if (anyStale) w.fail(std::string(anyTaint ? reent : "") + "stale-after-recalc: an attached node was not asked for its time by the recalculation sweep");
      if ((mn == expect)&&(!anyStale)) w.freshRoot = r;
   }
   else if (mn > expect) w.fail("recalculation sweep (with re-entrant callbacks) reported " + show_time(mn) + " which is later than the minimum requested time " + show_time(expect));
}

static void top_pulse(Mgr & mgr, int r, uint64 now, bool fresh)
{
   World & w = *W;
   HNode * x = N(r); if ((!x)||(x->GetPulseParent())) return;
   std::set<int> due;
   for (int i=0; i<MAXID; i++) if ((N(i))&&(in_tree(i, r))&&(!w.sStale[i])&&(w.sReq[i] <= now)) due.insert(i);
   begin_sweep(r, now, true);
   mgr.Pulse(*x, now);
   const int ops = w.cbOps;
   const std::set<int> pulsed = w.pulsed;
   end_sweep();
   // oracle: exactly the due nodes fire (when the tree was freshly recalculated and no callback restructured it)
   if ((fresh)&&(ops == 0)&&(now != NEVER)&&(pulsed != due))   // at now == MUSCLE_TIME_NEVER never-requests are "<= now" yet must not fire: only corresponded (C20_pulse_exact_gen)
   {
      bool tainted = false;
      for (std::set<int>::const_iterator it = due.begin(); it != due.end(); ++it) if ((!pulsed.count(*it))&&(w.sTaint[*it])) tainted = true;
      std::ostringstream o;
      if (tainted) o << "reentrant-recalc: a node invalidated or re-attached from inside a GetPulseTime() callback while its own GetPulseTimeAux could be on the stack is left invalid off the needs-recalc list: ";
      o << "pulse sweep at " << show_time(now) << " fired {";
      for (std::set<int>::const_iterator it = pulsed.begin(); it != pulsed.end(); ++it) o << *it << " ";
      o << "} but the due nodes are {";
      for (std::set<int>::const_iterator it = due.begin(); it != due.end(); ++it) o << *it << " ";
      o << "}";
      w.fail(o.str());
   }
}

// ------------------------------------------------------------------ state dump + structural oracle
static void dump_and_check(std::ostringstream & o)
{
   World & w = *W;
   std::set<const PulseNode *> live;
   for (int i=0; i<MAXID; i++) if (N(i)) live.insert(N(i));
   for (int i=0; i<MAXID; i++)
   {
      HNode * x = N(i); if (!x) continue;
      o << i << "{";
      if (x->_parent) o << idOf(x->_parent); else o << "-";
      o << "," << show_time(x->_aggregatePulseTime) << "," << show_time(x->_myScheduledTime) << "," << (x->_myScheduledTimeValid ? 1 : 0) << ",";
      switch(x->_curList)
      {
         case -1: o << "-"; break;
         case PulseNode::LINKED_LIST_SCHEDULED:   o << "S"; break;
         case PulseNode::LINKED_LIST_UNSCHEDULED: o << "U"; break;
         case PulseNode::LINKED_LIST_NEEDSRECALC: o << "R"; break;
         default: o << "?"; break;
      }
      o << ",";
      const int order[3] = {PulseNode::LINKED_LIST_SCHEDULED, PulseNode::LINKED_LIST_UNSCHEDULED, PulseNode::LINKED_LIST_NEEDSRECALC};
      for (int li=0; li<3; li++)
      {
         const int L = order[li];
         if (li) o << "/";
         const PulseNode * prev = NULL; int steps = 0; bool first = true;
         for (const PulseNode * p = x->_firstChild[L]; p; p = p->_nextSibling)
         {
            if (!live.count(p)) {w.fail("a child list refers to an object that no longer exists"); break;}
            if (++steps > MAXID+1) {w.fail("a child list is cyclic"); break;}
            if (!first) o << "."; first = false; o << idOf(p);
            if (p->_prevSibling != prev) w.fail("_prevSibling does not mirror _nextSibling");
            if (p->_parent != x) w.fail("a list member's _parent is not the list owner");
            if (p->_curList != L) w.fail("a list member's _curList names another list");
            if ((L == PulseNode::LINKED_LIST_SCHEDULED)&&(prev)&&(prev->_aggregatePulseTime > p->_aggregatePulseTime)) w.fail("the scheduled list is not sorted");
            if ((L == PulseNode::LINKED_LIST_SCHEDULED)&&(p->_aggregatePulseTime == NEVER)) w.fail("a never-firing child sits on the scheduled list");
            if ((L == PulseNode::LINKED_LIST_UNSCHEDULED)&&(p->_aggregatePulseTime != NEVER)) w.fail("a child with a finite time sits on the unscheduled list");
            prev = p;
         }
         if (x->_lastChild[L] != prev) w.fail("_lastChild is not the last list member");
      }
      o << "}";
      if (x->_parent)
      {
         if (!live.count(x->_parent)) w.fail("_parent refers to an object that no longer exists");
         else
         {
            bool found = false;
            if ((x->_curList >= 0)&&(x->_curList < 3)) for (const PulseNode * p = x->_parent->_firstChild[x->_curList]; p; p = p->_nextSibling) if (p == x) {found = true; break;}
            if (!found) w.fail("an attached node is not on the list of its parent that _curList names");
         }
         if (w.sParent[i] != idOf(x->_parent)) w.fail("GetPulseParent() differs from the attach/detach history");
      }
      else
      {
         if ((x->_curList != -1)||(x->_prevSibling)||(x->_nextSibling)) w.fail("a detached node still has list linkage");
         if (w.sParent[i] != -1) w.fail("GetPulseParent() is NULL but the node was attached and never detached");
      }
   }
}

static void run_case(int k, const std::string & head, const std::string & body)
{
   World w; W = &w;
   w.k = k; w.evFirst = true; w.topRoot = -1; w.cbNode = -1; w.cbOps = 0; w.topNow = 0; w.inPulseSweep = false; w.freshRoot = -1; w.opIndex = 0;
   for (int i=0; i<MAXID; i++) {w.nodes[i] = NULL; w.ngt[i] = w.npl[i] = 0; w.hadChild[i] = false; w.sReq[i] = NEVER; w.sStale[i] = true; w.sTaint[i] = false; w.sParent[i] = -1;}
   w.inGetCallback = false;
   g_pureGet = (head.find('~') == std::string::npos) || (getenv("PULSE_INVCHECK") && getenv("PULSE_INVCHECK")[0] == '2');
   std::vector<std::string> items = split(head, ' ');
   for (size_t i=0; i<items.size(); i++)
   {
      const std::string & it = items[i]; if (it.empty()) continue;
      const size_t e = it.find('='); if (e == std::string::npos) {fprintf(stderr, "bad head item [%s]\n", it.c_str()); exit(2);}
      const int x = atoi(it.substr(1, e-1).c_str()); if ((x < 0)||(x >= MAXID)) {fprintf(stderr, "bad id in [%s]\n", it.c_str()); exit(2);}
      const std::string v = it.substr(e+1);
      if (it[0] == 'g')
      {
         std::vector<std::string> ents = split(v, ',');
         for (size_t j=0; j<ents.size(); j++)
         {
            GEnt g; const size_t q = ents[j].find('~');
            if (q == std::string::npos) g.t = parse_tspec(ents[j]);
            else {g.t = parse_tspec(ents[j].substr(0,q)); g.prog = parse_prog(ents[j].substr(q+1));}
            w.gtab[x].push_back(g);
         }
      }
      else if (it[0] == 'd') w.dflt[x] = parse_tspec(v);
      else if (it[0] == 'p') {std::vector<std::string> ps = split(v, ','); for (size_t j=0; j<ps.size(); j++) w.ptab[x].push_back(parse_prog(ps[j]));}
      else {fprintf(stderr, "bad head item [%s]\n", it.c_str()); exit(2);}
   }

   std::ostringstream out;
   {
      Mgr mgr;
      std::vector<std::string> ops = split(body, ';');
      for (size_t n=0; n<ops.size(); n++)
      {
         const std::string & s = ops[n]; if (s.empty()) continue;
         w.opIndex = (int) n;
         w.ev.str(""); w.evFirst = true;
         const int wasFresh = w.freshRoot; w.freshRoot = -1;
         const char c = s[0];
         if (c == 'N')
         {
            const int x = atoi(s.substr(1).c_str());
            if ((x >= 0)&&(x < MAXID)&&(w.nodes[x] == NULL)) {w.nodes[x] = new HNode(x); w.sReq[x] = NEVER; w.sStale[x] = true; w.sTaint[x] = false; w.sParent[x] = -1;}
         }
         else if ((c == 'G')||(c == 'P')||(c == 'C'))
         {
            const size_t a = s.find('@');
            const int r = atoi(s.substr(1, a-1).c_str());
            const uint64 now = parse_time(s.substr(a+1));
            if (c == 'G') top_get(mgr, r, now);
            else if (c == 'P') top_pulse(mgr, r, now, (wasFresh == r));
            else
            {
               top_get(mgr, r, now);
               const int f = w.freshRoot; w.freshRoot = -1;
               top_pulse(mgr, r, now, (f == r));
            }
         }
         else (void) do_cop(parse_cop(s), false);
         out << " " << w.ev.str() << ";";
         dump_and_check(out);
         check_inv(true);
      }
      // tear-down in id order (exercises ~PulseNode on whatever shape is left)
      for (int i=0; i<MAXID; i++) if (w.nodes[i]) {HNode * x = w.nodes[i]; w.nodes[i] = NULL; delete x;}
   }
   printf("%d%s\n", k, out.str().c_str());
   if (!w.orc.str().empty())
   {
      // report each distinct failure once
      std::set<std::string> seen; std::istringstream is(w.orc.str()); std::string l;
      while(std::getline(is, l)) if (seen.insert(l).second) printf("%s\n", l.c_str());
   }
   fflush(stdout);
   W = NULL;
}

int main()
{
   g_invcheck = (getenv("PULSE_INVCHECK") != NULL);
   std::string line;
   int k = 0;
   while(std::getline(std::cin, line))
   {
      const size_t p = line.find('|');
      if ((p == 1)&&(line[0] == 'S')) {printf("%d srv\n", k); fflush(stdout);}   // a case of the server-level harness (pulse_srv_h.cpp)
      else if (p != std::string::npos) run_case(k, line.substr(0, p), line.substr(p+1));
      k++;
   }
   return 0;
}
