/* C08: lang/c/micromessage/MicroMessage.c of the tree under test, compiled as C, with its ten global
   compile-time size-assertion arrays renamed: MiniMessage.c defines arrays of the same names, so the two
   codecs cannot otherwise be linked into one program.  Nothing else is changed. */
#define int8_is_1_byte_assertion    micro_int8_is_1_byte_assertion
#define uint8_is_1_byte_assertion   micro_uint8_is_1_byte_assertion
#define int16_is_2_bytes_assertion  micro_int16_is_2_bytes_assertion
#define uint16_is_2_bytes_assertion micro_uint16_is_2_bytes_assertion
#define int32_is_4_bytes_assertion  micro_int32_is_4_bytes_assertion
#define uint32_is_4_bytes_assertion micro_uint32_is_4_bytes_assertion
#define float_is_4_bytes_assertion  micro_float_is_4_bytes_assertion
#define int64_is_8_bytes_assertion  micro_int64_is_8_bytes_assertion
#define uint64_is_8_bytes_assertion micro_uint64_is_8_bytes_assertion
#define double_is_8_bytes_assertion micro_double_is_8_bytes_assertion
#include "lang/c/micromessage/MicroMessage.c"
