// C10 harness: reference counting (util/RefCount.h) over heap and pooled objects (util/ObjectPool.h).
// Runs operation histories on Ref<Item> slots (a "stack" of S slots plus K member slots per Item) through
// the public API (SetRef / operator= / Reset / SwapContents / CastAwayConstFromRef / ObtainObject / Drain),
// and prints after every operation: result, destruction/recycle events in order, and a dump of every
// object (state, count, payload, members, birth/death counters), the stack and the pool's internal
// bookkeeping (slab order, free lists, _numNodesInUse, _curPoolSize) -- the same canonical text as the
// extracted Coq model.  Independently of the model it evaluates the property's own statement against an
// ideal reference graph kept by the harness (ORACLE FAIL lines).
#include <stdio.h>
#include <stdlib.h>
#include <string.h>
#include <string>
#include <vector>
#include <map>
#include <set>
#include <sstream>
#include <iostream>
#include <thread>
#include <atomic>
#include <unistd.h>

#define private public
#define protected public
#include "util/RefCount.h"
#include "util/ObjectPool.h"
#include "util/TimeUtilityFunctions.h"
#undef private
#undef protected
#include "sched/sched.h"

using namespace muscle;

enum {K = 2};   // member Ref slots per Item (the model driver uses the same number)

class Item;
static void on_dtor(const Item * it);
static void on_assign(const Item * it);
static bool g_sched = false;   // scheduled multi-threaded mode: the ideal graph follows the real guards (it is only compared at the end)

class Item : public RefCountable
{
public:
   Item() : _val(0) {/* empty */}
   ~Item() {on_dtor(this);}   // body runs before the members (_m[K-1] .. _m[0]) are destroyed
   // (the reset-to-default of ObjectPool::ReleaseObject goes through here: an observation point for the controlled scheduler)
   Item & operator=(const Item & rhs) {if (g_sched) vsched::Scheduler::Yield(vsched::K_USER, this); on_assign(this); for (int j=0; j<K; j++) _m[j] = rhs._m[j]; _val = rhs._val; return *this;}

   Ref<Item> _m[K];
   int _val;
};
typedef Ref<Item> ItemRef;

// ------------------------------------------------------------------ identity bookkeeping
struct Info {const Item * addr; bool pooled; int births; int deaths; bool dead;};
static std::vector<Info> g_objs;                 // by id
static std::map<const Item *, int> g_addr2id;    // live or pooled-free objects only
static std::map<const void *, int> g_slab2sid;
static int g_nextsid = 0;
static bool g_mt = false;                        // multi-threaded stress mode: no logging, atomic counters only
static std::atomic<long> g_mt_dtor(0), g_mt_recycle(0);
static std::ostringstream * g_ev = NULL;
static std::set<int> g_untagged;              // objects on which a stop-counting conversion (decrement without release) was executed

static int id_of(const Item * it)   // also answers for destroyed objects whose address has not been reused
{
   if (it == NULL) return -1;
   std::map<const Item *, int>::const_iterator i = g_addr2id.find(it);
   return (i == g_addr2id.end()) ? -2 : i->second;
}

static void on_dtor(const Item * it)
{
   if (g_mt) {g_mt_dtor++; return;}
   const int id = id_of(it);
   if ((id < 0)||(g_objs[id].dead)||(g_objs[id].addr != it)) return;   // the static default object, or not registered
   Info & inf = g_objs[id];
   if (inf.pooled) {if (g_ev) (*g_ev) << "x" << id << " "; g_slab2sid.erase((const void *) it);}
              else {if (g_ev) (*g_ev) << "D" << id << " "; inf.deaths++;}
   inf.dead = true;   // the address stays in g_addr2id (a dangling non-counting reference still prints this id) until it is reused
}

static void on_assign(const Item * it)
{
   if (g_mt) {g_mt_recycle++; return;}
   const int id = id_of(it);
   if ((id < 0)||(g_objs[id].dead)) return;
   if (g_ev) (*g_ev) << "R" << id << " ";
   g_objs[id].deaths++;
}

static int reg_obj(const Item * it, bool pooled)
{
   Info inf; inf.addr = it; inf.pooled = pooled; inf.births = 0; inf.deaths = 0; inf.dead = false;
   g_objs.push_back(inf);
   g_addr2id[it] = (int) g_objs.size()-1;
   return (int) g_objs.size()-1;
}

// ------------------------------------------------------------------ pools of different slab sizes
struct SlabDump {int sid; int base; int first; int inuse; std::vector<int> next; std::vector<int> freel; bool cyc;};

struct PoolI
{
   virtual ~PoolI() {}
   virtual Item * Obtain() = 0;
   virtual void Drain() = 0;
   virtual void Sanity() = 0;
   virtual int N() const = 0;
   virtual bool ScanNewSlabs() = 0;                        // registers the objects of a slab created by the last Obtain
   virtual bool Slabs(std::vector<SlabDump> & out, std::string & why) = 0;   // false: list structure inconsistent
   virtual unsigned Cur() const = 0;
   virtual unsigned Max() const = 0;
   virtual bool AnyInUse() = 0;
};

typedef ObjectPool<Item> RefPool;
enum {NODE_BYTES = sizeof(RefPool::ObjectNode), DATA_BYTES = sizeof(RefPool::ObjectSlabData)};

template<int NN> struct PoolT : public PoolI
{
   typedef ObjectPool<Item, DATA_BYTES+NODE_BYTES*NN> P;
   P _pool;
   PoolT(uint32 mx) : _pool(mx) {}
   virtual Item * Obtain() {return _pool.ObtainObject();}
   virtual void Drain() {_pool.Drain();}
   virtual void Sanity() {_pool.PerformSanityCheck();}
   virtual int N() const {return NN;}
   virtual unsigned Cur() const {return _pool._curPoolSize;}
   virtual unsigned Max() const {return _pool._maxPoolSize;}
   virtual bool ScanNewSlabs()
   {
      bool any = false;
      for (typename P::ObjectSlab * s = _pool._firstSlab; s; s = s->GetNext())
         if (g_slab2sid.find((const void *) s) == g_slab2sid.end())
         {
            g_slab2sid[(const void *) s] = g_nextsid++;
            for (int i=0; i<NN; i++) (void) reg_obj(&s->_nodes[i]._object, true);
            any = true;
         }
      return any;
   }
   virtual bool AnyInUse()
   {
      for (typename P::ObjectSlab * s = _pool._firstSlab; s; s = s->GetNext()) if (s->IsInUse()) return true;
      return false;
   }
   virtual bool Slabs(std::vector<SlabDump> & out, std::string & why)
   {
      const typename P::ObjectSlab * prev = NULL;
      int guard = 0;
      for (typename P::ObjectSlab * s = _pool._firstSlab; s; s = s->GetNext())
      {
         if (++guard > 10000) {why = "slab list cycle"; return false;}
         if (s->GetPrev() != prev) {why = "slab prev pointer mismatch"; return false;}
         if (s->_data._pool != &_pool) {why = "slab pool pointer mismatch"; return false;}
         SlabDump d;
         std::map<const void *, int>::const_iterator it = g_slab2sid.find((const void *) s);
         d.sid   = (it == g_slab2sid.end()) ? -2 : it->second;
         d.base  = id_of(&s->_nodes[0]._object);
         d.first = (s->_data._firstFreeNodeIndex == (uint16)-1) ? -1 : (int) s->_data._firstFreeNodeIndex;
         d.inuse = s->_data._numNodesInUse;
         d.cyc   = false;
         for (int i=0; i<NN; i++)
         {
            if (s->_nodes[i]._arrayIndex != i) {why = "node array index mismatch"; return false;}
            d.next.push_back((s->_nodes[i]._nextIndex == (uint16)-1) ? -1 : (int) s->_nodes[i]._nextIndex);
         }
         int cur = d.first, steps = 0;
         while((cur >= 0)&&(steps < NN)) {d.freel.push_back(cur); if (cur >= NN) {why = "free index out of range"; return false;} cur = d.next[cur]; steps++;}
         if (cur >= 0) d.cyc = true;
         out.push_back(d);
         prev = s;
      }
      if (_pool._lastSlab != prev) {why = "_lastSlab mismatch"; return false;}
      return true;
   }
};

static PoolI * make_pool(int n, uint32 mx)
{
   switch(n)
   {
      case 1: return new PoolT<1>(mx);
      case 2: return new PoolT<2>(mx);
      case 3: return new PoolT<3>(mx);
      case 4: return new PoolT<4>(mx);
      default: fprintf(stderr, "unsupported slab size %d\n", n); exit(2);
   }
}
static_assert(PoolT<1>::P::NUM_OBJECTS_PER_SLAB == 1, "slab size 1");
static_assert(PoolT<2>::P::NUM_OBJECTS_PER_SLAB == 2, "slab size 2");
static_assert(PoolT<3>::P::NUM_OBJECTS_PER_SLAB == 3, "slab size 3");
static_assert(PoolT<4>::P::NUM_OBJECTS_PER_SLAB == 4, "slab size 4");

// ------------------------------------------------------------------ parsing
static std::vector<std::string> split(const std::string & s, char c)
{
   std::vector<std::string> r; std::string cur;
   for (size_t i=0; i<s.size(); i++) {if (s[i]==c) {r.push_back(cur); cur.clear();} else cur += s[i];}
   r.push_back(cur);
   return r;
}

struct Loc {bool mem; int i; int j;};
static Loc parse_loc(const std::string & s)
{
   Loc l; l.mem = (s[0] == 'm'); l.i = 0; l.j = 0;
   if (l.mem) {std::vector<std::string> p = split(s.substr(1), '.'); l.i = atoi(p[0].c_str()); l.j = atoi(p[1].c_str());}
         else l.i = atoi(s.substr(1).c_str());
   return l;
}

// the ideal reference graph (the property oracle's own state): a slot holds an object id (or -1) and the
// "counting" bit; an object exists from its creation until the last counting reference to it is dropped
struct IRef {int id; bool c; IRef() : id(-1), c(false) {} IRef(int i, bool cc) : id(i), c(cc) {}};
struct Ideal
{
   std::vector<IRef> stk;
   std::map<int, std::vector<IRef> > mem;   // existing objects only
   std::map<int, int> val;
   std::set<int> orphans;                   // count went to zero through a stop-counting conversion: by contract NOT released
   int count(int id) const
   {
      int c = 0;
      for (size_t i=0; i<stk.size(); i++) if ((stk[i].id == id)&&(stk[i].c)) c++;
      for (std::map<int, std::vector<IRef> >::const_iterator it = mem.begin(); it != mem.end(); ++it)
         for (size_t j=0; j<it->second.size(); j++) if ((it->second[j].id == id)&&(it->second[j].c)) c++;
      return c;
   }
   void collect()   // objects no counting reference points to are gone, and so are the references they held
   {
      bool again = true;
      while(again)
      {
         again = false;
         for (std::set<int>::iterator o = orphans.begin(); o != orphans.end(); ++o) if (count(*o) > 0) {orphans.erase(o); again = true; break;}
         if (again) continue;
         for (std::map<int, std::vector<IRef> >::iterator it = mem.begin(); it != mem.end(); ++it)
            if ((count(it->first) == 0)&&(orphans.count(it->first) == 0)) {val.erase(it->first); mem.erase(it); again = true; break;}
      }
   }
};

struct Ctx
{
   std::vector<ItemRef> stk;
   PoolI * pool;
   Ideal * ideal;    // shared by all threads of a case; this thread's slots are ideal->stk[base .. base+stk.size())
   int base;
   Ctx() : pool(NULL), ideal(NULL), base(0) {}
};

// resolve a location for reading; a member slot is reached only through a counting reference
static ItemRef * res_r(Ctx & c, const Loc & l)
{
   if ((l.i < 0)||(l.i >= (int)c.stk.size())) return NULL;
   if (!l.mem) return &c.stk[l.i];
   Item * q = c.stk[l.i].IsRefCounting() ? c.stk[l.i]() : NULL;
   if ((q == NULL)||(l.j < 0)||(l.j >= K)) return NULL;
   return &q->_m[l.j];
}
// resolve for writing the pointer v: member slots only of a private object, never a pointer to the object itself
static ItemRef * res_w(Ctx & c, const Loc & l, const Item * v)
{
   if ((l.i < 0)||(l.i >= (int)c.stk.size())) return NULL;
   if (!l.mem) return &c.stk[l.i];
   Item * q = c.stk[l.i].IsRefCounting() ? c.stk[l.i]() : NULL;
   if ((q == NULL)||(l.j < 0)||(l.j >= K)) return NULL;
   if (!c.stk[l.i].IsRefPrivate()) return NULL;
   if (v == q) return NULL;
   return &q->_m[l.j];
}
// the same two on the ideal graph
static IRef * ires_r(Ideal & d, const Loc & l, int base, int S)
{
   if ((l.i < 0)||(l.i >= S)) return NULL;
   if (!l.mem) return &d.stk[base+l.i];
   const int q = d.stk[base+l.i].c ? d.stk[base+l.i].id : -1;
   if ((q < 0)||(l.j < 0)||(l.j >= K)||(d.mem.count(q) == 0)) return NULL;
   return &d.mem[q][l.j];
}
static IRef * ires_w(Ideal & d, const Loc & l, int v, int base, int S, bool realok)
{
   if ((l.i < 0)||(l.i >= S)) return NULL;
   if (!l.mem) return &d.stk[base+l.i];
   const int q = d.stk[base+l.i].c ? d.stk[base+l.i].id : -1;
   if ((q < 0)||(l.j < 0)||(l.j >= K)) return NULL;
   if (g_sched ? (!realok) : (d.count(q) != 1)) return NULL;
   if ((v == q)||(d.mem.count(q) == 0)) return NULL;
   return &d.mem[q][l.j];
}

static bool members_null(const Item * it) {for (int j=0; j<K; j++) if (it->_m[j]() != NULL) return false; return true;}

static const char * opt(int v, char * buf) {if (v < 0) {strcpy(buf, (v == -1) ? "_" : "?");} else sprintf(buf, "%d", v); return buf;}
static std::string refs(const ItemRef & r)
{
   char b[32];
   if (r() == NULL) return "_";
   std::string s = opt(id_of(r()), b);
   if (!r.IsRefCounting()) s += "~";
   return s;
}
static bool same(const ItemRef & r, const IRef & i) {return (r() == NULL) ? (i.id < 0) : ((id_of(r()) == i.id)&&(r.IsRefCounting() == i.c));}

static void dump(std::ostringstream & o, std::vector<Ctx *> & cs, std::ostringstream & orc, int k, size_t opn)
{
   char b[32];
   PoolI * pool = cs[0]->pool;
   Ideal & ideal = *cs[0]->ideal;
   std::vector<SlabDump> slabs; std::string why;
   const bool lok = pool->Slabs(slabs, why);
   if (!lok) orc << k << " ORACLE FAIL pool bookkeeping: " << why << " after op#" << opn << "\n";
   std::set<int> freeids; int totfree = 0;
   const int N = pool->N();
   for (size_t s=0; s<slabs.size(); s++)
   {
      for (size_t f=0; f<slabs[s].freel.size(); f++) if (slabs[s].base >= 0) freeids.insert(slabs[s].base+slabs[s].freel[f]);
      totfree += (int) slabs[s].freel.size();
      if (slabs[s].cyc) orc << k << " ORACLE FAIL pool bookkeeping: free list longer than the slab (cycle) after op#" << opn << "\n";
      if ((int)slabs[s].freel.size() + slabs[s].inuse != N) orc << k << " ORACLE FAIL pool bookkeeping: free-list length + nodes-in-use != slab size after op#" << opn << "\n";
   }
   if (lok && ((unsigned) totfree != pool->Cur())) orc << k << " ORACLE FAIL pool bookkeeping: _curPoolSize " << pool->Cur() << " != free nodes " << totfree << " after op#" << opn << "\n";

   // in scheduled mode the order in which operations *start* does not determine which decrement is the last one, so the
   // ideal graph (updated per operation) cannot say when an object must go; the property is evaluated on the real
   // reference graph instead: count = number of counting references, released objects are referenced by nothing
   std::map<int, int> realcnt;
   if (g_sched)
   {
      for (size_t t=0; t<cs.size(); t++) for (size_t i=0; i<cs[t]->stk.size(); i++)
         if ((cs[t]->stk[i]() != NULL)&&(cs[t]->stk[i].IsRefCounting())) realcnt[id_of(cs[t]->stk[i]())]++;
      for (size_t id=0; id<g_objs.size(); id++)
         if ((!g_objs[id].dead)&&(!(g_objs[id].pooled && freeids.count((int)id))))
            for (int j=0; j<K; j++) {const ItemRef & r = g_objs[id].addr->_m[j]; if ((r() != NULL)&&(r.IsRefCounting())) realcnt[id_of(r())]++;}
   }
   int dead = 0;
   for (size_t id=0; id<g_objs.size(); id++)
   {
      const Info & inf = g_objs[id];
      if (inf.dead)
      {
         dead++;
         if (g_sched ? (realcnt.count((int)id) > 0) : (ideal.mem.count((int)id) > 0)) orc << k << " ORACLE FAIL object " << id << " destroyed while counting references to it exist (op#" << opn << ")\n";
         continue;
      }
      const Item * it = inf.addr;
      const bool isfree = inf.pooled && (freeids.count((int)id) > 0);
      o << id << (isfree ? "P" : "L") << it->GetRefCount() << "." << it->_val << "[";
      for (int j=0; j<K; j++) {if (j) o << ","; o << refs(it->_m[j]);}
      o << "]b" << inf.births << "d" << inf.deaths << " ";
      // ---- the property, on this object
      const bool ilive = g_sched ? (realcnt.count((int)id) > 0) : (ideal.mem.count((int)id) > 0);
      if (isfree)
      {
         if (ilive) orc << k << " ORACLE FAIL object " << id << " returned to its pool while counting references to it exist (op#" << opn << ")\n";
         if ((it->GetRefCount() != 0)||(it->_val != 0)||(!members_null(it))||(it->GetManager() != NULL))
            orc << k << " ORACLE FAIL pooled object " << id << " is not in the freshly-constructed state (op#" << opn << ")\n";
         if (inf.births != inf.deaths) orc << k << " ORACLE FAIL object " << id << " released " << inf.deaths << " times for " << inf.births << " obtains (op#" << opn << ")\n";
      }
      else if (g_sched)
      {
         const int rc = realcnt.count((int)id) ? realcnt[(int)id] : 0;
         if ((int) it->GetRefCount() != rc) orc << k << " ORACLE FAIL object " << id << " count " << it->GetRefCount() << " != number of counting references " << rc << " (op#" << opn << ")\n";
         if ((rc == 0)&&(g_untagged.count((int)id) == 0)) orc << k << " ORACLE FAIL object " << id << " not released although no counting reference to it is left (op#" << opn << ")\n";
         if (inf.births != inf.deaths+1) orc << k << " ORACLE FAIL object " << id << " released " << inf.deaths << " times for " << inf.births << " obtains while in use (op#" << opn << ")\n";
      }
      else
      {
         if (!ilive) orc << k << " ORACLE FAIL object " << id << " not released although no counting reference to it is left (op#" << opn << ")\n";
         else if ((int) it->GetRefCount() != ideal.count((int)id)) orc << k << " ORACLE FAIL object " << id << " count " << it->GetRefCount() << " != number of counting references " << ideal.count((int)id) << " (op#" << opn << ")\n";
         if (inf.births != inf.deaths+1) orc << k << " ORACLE FAIL object " << id << " released " << inf.deaths << " times for " << inf.births << " obtains while in use (op#" << opn << ")\n";
         if (ilive)
         {
            const std::vector<IRef> & im = ideal.mem[(int)id];
            for (int j=0; j<K; j++) if (!same(it->_m[j], im[j])) orc << k << " ORACLE FAIL object " << id << " member " << j << " differs from the ideal graph (op#" << opn << ")\n";
            if (it->_val != ideal.val[(int)id]) orc << k << " ORACLE FAIL object " << id << " payload differs (op#" << opn << ")\n";
         }
      }
   }
   o << "#" << dead << " ";
   for (size_t t=0; t<cs.size(); t++)
   {
      Ctx & c = *cs[t];
      o << "(";
      for (size_t i=0; i<c.stk.size(); i++)
      {
         if (i) o << ",";
         o << refs(c.stk[i]);
         if ((!g_sched)&&(!same(c.stk[i], ideal.stk[c.base+i]))) orc << k << " ORACLE FAIL stack slot " << i << " of thread " << t << " differs from the ideal graph (op#" << opn << ")\n";
      }
      o << ")";
   }
   o << " " << pool->Cur() << "/" << pool->Max() << "/" << g_nextsid << "{";
   for (size_t s=0; s<slabs.size(); s++)
   {
      const SlabDump & d = slabs[s];
      o << d.sid << "@" << d.base << ":" << opt(d.first, b) << ":" << d.inuse << ":";
      for (size_t i=0; i<d.next.size(); i++) {if (i) o << ","; o << opt(d.next[i], b);}
      o << "<";
      for (size_t i=0; i<d.freel.size(); i++) {if (i) o << ","; o << d.freel[i];}
      o << "> ";
   }
   o << "}";
}

static void set_new(Ctx & c, int i, Item * it, int id)
{
   // the ideal graph first: in scheduled mode the SetRef below may be preempted
   c.ideal->stk[c.base+i] = IRef(id, true);
   c.ideal->mem[id] = std::vector<IRef>(K);
   c.ideal->val[id] = 0;
   c.ideal->orphans.erase(id);
   c.ideal->collect();
   c.stk[i].SetRef(it);
}

// executes one op; returns "ok"/"skip".  ev receives the obtain events (destruction events go to g_ev)
static const char * do_op(Ctx & c, const std::string & opstr, std::ostringstream & orc, int k, size_t opn)
{
   std::vector<std::string> a = split(opstr, ':');
   const std::string & o = a[0];
   Ideal & d = *c.ideal;
   const int base = c.base, S = (int) c.stk.size();
   if ((o == "nh")||(o == "np"))
   {
      const int i = atoi(a[1].c_str());
      if ((i < 0)||(i >= S)) return "skip";
      if (o == "nh")
      {
         Item * it = new Item;
         const int id = reg_obj(it, false);
         g_objs[id].births++;
         set_new(c, i, it, id);
      }
      else
      {
         Item * it = c.pool->Obtain();
         const bool nw = c.pool->ScanNewSlabs();
         const int id = id_of(it);
         if ((id < 0)||(g_objs[id].dead)) {orc << k << " ORACLE FAIL ObtainObject returned an object of no known slab (op#" << opn << ")\n"; return "ok";}
         // (in scheduled mode the per-operation ideal graph may lag behind or run ahead of the atomic steps: the check below and the
         //  final real-graph oracle cover this case there)
         if ((!g_sched)&&(d.mem.count(id))) orc << k << " ORACLE FAIL ObtainObject returned object " << id << " which is still in use (op#" << opn << ")\n";
         if ((it->GetRefCount() != 0)||(it->_val != 0)||(!members_null(it))) orc << k << " ORACLE FAIL obtained object " << id << " is not in the freshly-constructed state (op#" << opn << ")\n";
         g_objs[id].births++;
         if (g_ev) (*g_ev) << "O" << id << (nw ? "+" : "") << " ";
         set_new(c, i, it, id);
      }
   }
   else if ((o == "as")||(o == "cc")||(o == "al"))
   {
      const Loc ld = parse_loc(a[1]), ls = parse_loc(a[2]);
      ItemRef * ps = res_r(c, ls);       IRef * ips = ires_r(d, ls, base, S);
      if ((!g_sched)&&((ps != NULL) != (ips != NULL))) orc << k << " ORACLE FAIL resolution differs from the ideal graph (op#" << opn << ")\n";
      ItemRef * pd = ps ? res_w(c, ld, (*ps)()) : NULL;
      IRef * ipd = ips ? ires_w(d, ld, ips->id, base, S, (pd != NULL)) : NULL;
      if ((!g_sched)&&((pd != NULL) != (ipd != NULL))) orc << k << " ORACLE FAIL IsRefPrivate()/resolution differs from the ideal graph (op#" << opn << ")\n";
      if ((ps == NULL)||(pd == NULL)) return "skip";
      if (ipd)
      {
         const IRef before = *ipd;
         IRef nv = *ips; if (o == "al") nv.c = false; if (nv.id < 0) nv = IRef();
         *ipd = nv;
         // stop-counting conversion on the same item: by contract the object is not released even at count zero
         if ((o != "cc")&&(before.id >= 0)&&(before.id == nv.id)&&(before.c)&&(!nv.c)) g_untagged.insert(nv.id);
         if ((o != "cc")&&(before.id >= 0)&&(before.id == nv.id)&&(before.c)&&(!nv.c)&&(d.count(nv.id) == 0)) d.orphans.insert(nv.id);
         d.collect();
      }
      if (o == "as") *pd = *ps;
      else if (o == "al") pd->SetRef((*ps)(), false);
      else *pd = CastAwayConstFromRef(*ps);
   }
   else if (o == "rs")
   {
      const Loc l = parse_loc(a[1]);
      ItemRef * pd = res_w(c, l, NULL);  IRef * ipd = ires_w(d, l, -1, base, S, (pd != NULL));
      if ((!g_sched)&&((pd != NULL) != (ipd != NULL))) orc << k << " ORACLE FAIL IsRefPrivate()/resolution differs from the ideal graph (op#" << opn << ")\n";
      if (pd == NULL) return "skip";
      if (ipd) {*ipd = IRef(); d.collect();}
      pd->Reset();
   }
   else if (o == "ne")
   {
      // Neutralize(): forget the pointer, taking our count off the object but never releasing it
      const Loc l = parse_loc(a[1]);
      ItemRef * ps = res_r(c, l);
      ItemRef * pd = ps ? res_w(c, l, (*ps)()) : NULL;
      IRef * ips = ires_r(d, l, base, S);
      IRef * ipd = ips ? ires_w(d, l, ips->id, base, S, (pd != NULL)) : NULL;
      if ((!g_sched)&&((pd != NULL) != (ipd != NULL))) orc << k << " ORACLE FAIL IsRefPrivate()/resolution differs from the ideal graph (op#" << opn << ")\n";
      if (pd == NULL) return "skip";
      if (ipd)
      {
         const IRef before = *ipd;
         *ipd = IRef();
         if ((before.id >= 0)&&(before.c)) {g_untagged.insert(before.id); if (d.count(before.id) == 0) d.orphans.insert(before.id);}
         d.collect();
      }
      pd->Neutralize();
   }
   else if (o == "sw")
   {
      const Loc la = parse_loc(a[1]), lb = parse_loc(a[2]);
      ItemRef * ra = res_r(c, la);  ItemRef * rb = res_r(c, lb);
      IRef * ira = ires_r(d, la, base, S);   IRef * irb = ires_r(d, lb, base, S);
      if ((ra == NULL)||(rb == NULL)) return "skip";
      ItemRef * wa = res_w(c, la, (*rb)()); ItemRef * wb = res_w(c, lb, (*ra)());
      const bool rok = (wa != NULL)&&(wb != NULL);
      IRef * iwa = (ira && irb) ? ires_w(d, la, irb->id, base, S, rok) : NULL; IRef * iwb = (ira && irb) ? ires_w(d, lb, ira->id, base, S, rok) : NULL;
      if ((!g_sched)&&(rok != ((iwa != NULL)&&(iwb != NULL)))) orc << k << " ORACLE FAIL IsRefPrivate()/resolution differs from the ideal graph (op#" << opn << ")\n";
      if (!rok) return "skip";
      if (wa != wb)
      {
         if (iwa && iwb) {const IRef t = *iwa; *iwa = *iwb; *iwb = t;}
         wa->SwapContents(*wb);
      }
   }
   else if (o == "sv")
   {
      const int i = atoi(a[1].c_str()), v = atoi(a[2].c_str());
      if ((i < 0)||(i >= S)) return "skip";
      Item * q = c.stk[i].IsRefCounting() ? c.stk[i]() : NULL;
      if ((q == NULL)||(!c.stk[i].IsRefPrivate())) return "skip";
      q->_val = v;
      if (d.stk[base+i].id >= 0) d.val[d.stk[base+i].id] = v;
   }
   else if (o == "dr") c.pool->Drain();
   else {fprintf(stderr, "bad op [%s]\n", opstr.c_str()); exit(2);}
   return "ok";
}

// drops every reference at the end of a case and checks that everything was released exactly once
static void finish_case(std::vector<Ctx *> & cs, std::ostringstream & orc, int k)
{
   Ideal & ideal = *cs[0]->ideal;
   PoolI * pool = cs[0]->pool;
   if (orc.str().empty())
   {
      // adopt the objects orphaned by stop-counting conversions (count zero, never released, by contract)
      if (g_sched)
      {
         bool again = true;
         while(again)
         {
            again = false;
            for (std::set<int>::iterator u = g_untagged.begin(); u != g_untagged.end(); ++u)
            {
               const int id = *u;
               if ((!g_objs[id].dead)&&(g_objs[id].addr->GetRefCount() == 0)&&(g_objs[id].addr->GetManager() != NULL || !g_objs[id].pooled))
               {
                  {ItemRef adopt(const_cast<Item *>(g_objs[id].addr));}
                  g_untagged.erase(u); again = true; break;
               }
            }
         }
      }
      while(!ideal.orphans.empty())
      {
         const int id = *ideal.orphans.begin();
         ideal.orphans.erase(ideal.orphans.begin());
         if ((!g_sched)&&(!g_objs[id].dead)) {ItemRef adopt(const_cast<Item *>(g_objs[id].addr));}
      }
      for (size_t t=0; t<cs.size(); t++) for (size_t i=0; i<cs[t]->stk.size(); i++) cs[t]->stk[i].Reset();
      for (size_t id=0; id<g_objs.size(); id++)
         if ((!g_objs[id].pooled)&&(!g_objs[id].dead)) orc << k << " ORACLE FAIL heap object " << id << " never destroyed after its last counting reference went away\n";
      if (pool->AnyInUse()) orc << k << " ORACLE FAIL pooled object still in use after the last counting reference went away\n";
      pool->Sanity();
   }
   if (orc.str().empty()) {for (size_t t=0; t<cs.size(); t++) cs[t]->stk.clear(); delete pool;}   // ~ObjectPool MCRASHes if a slab is in use
   else {for (size_t t=0; t<cs.size(); t++) for (size_t i=0; i<cs[t]->stk.size(); i++) cs[t]->stk[i].Neutralize();}   // after a failure: leak rather than crash
}

static void print_case(int k, const std::ostringstream & o, const std::ostringstream & orc)
{
   printf("%d %s\n", k, o.str().c_str());
   if (!orc.str().empty())
   {
      const std::string s = orc.str();   // first oracle line only (the rest are consequences)
      fputs(s.substr(0, s.find('\n')+1).c_str(), stdout);
   }
   fflush(stdout);
}

static void run_single(int k, const std::string & hdr, const std::string & body)
{
   std::vector<std::string> h = split(hdr, ':');
   const int N = atoi(h[0].c_str()), mx = atoi(h[1].c_str()), S = atoi(h[2].c_str());
   std::ostringstream o, orc;
   g_objs.clear(); g_addr2id.clear(); g_slab2sid.clear(); g_nextsid = 0; g_sched = false; g_untagged.clear();
   {
      Ideal ideal; Ctx c;
      c.pool = make_pool(N, (uint32) mx);
      c.stk.resize(S);
      c.ideal = &ideal; c.base = 0;
      ideal.stk.assign(S, IRef());
      std::vector<Ctx *> cs(1, &c);
      std::vector<std::string> ops = split(body, ';');
      size_t opn = 0;
      for (size_t n=0; n<ops.size(); n++)
      {
         if (ops[n].empty()) continue;
         std::ostringstream ev;
         g_ev = &ev;
         const char * r = do_op(c, ops[n], orc, k, opn);
         g_ev = NULL;
         ideal.collect();
         o << r << " " << ev.str() << "| ";
         dump(o, cs, orc, k, opn);
         o << ";";
         c.pool->Sanity();   // ObjectPool::PerformSanityCheck(): MCRASHes on inconsistency
         opn++;
         if (!orc.str().empty()) break;
      }
      finish_case(cs, orc, k);
   }
   print_case(k, o, orc);
}

// ------------------------------------------------------------------ free-running multi-threaded stress
// "M<N>:<max>:<S>:<reps>|setup/prog1/prog2/..."  : setup runs on the main thread's stack; every worker
// starts with a copy of that stack (copied before the threads start), runs its program <reps> times
// free-running, then drops its stack.  Afterwards the main stack is dropped.  Checked: sanitizer silence,
// every object released (constructor/obtain vs destructor/recycle balance), the pool's own sanity check.
static std::atomic<long> g_mt_obt(0), g_mt_new(0), g_mt_heapdtor(0);
struct HeapItem : public Item {~HeapItem() {g_mt_heapdtor++;}};   // lets the stress mode tell heap destructions from slab deletions

static void mt_op(std::vector<ItemRef> & stk, PoolI * pool, const std::string & opstr)
{
   std::vector<std::string> a = split(opstr, ':');
   const std::string & o = a[0];
   Ctx c;  // only used for resolution helpers
   c.stk.swap(stk);
   c.pool = pool;
   if ((o == "nh")||(o == "np"))
   {
      const int i = atoi(a[1].c_str());
      if ((i >= 0)&&(i < (int)c.stk.size()))
      {
         if (o == "nh") {g_mt_new++; c.stk[i].SetRef(new HeapItem);}
                   else {Item * it = pool->Obtain(); if (it) {g_mt_obt++; c.stk[i].SetRef(it);}}
      }
   }
   else if ((o == "as")||(o == "cc")||(o == "al"))
   {
      const Loc ld = parse_loc(a[1]), ls = parse_loc(a[2]);
      ItemRef * ps = res_r(c, ls);
      ItemRef * pd = ps ? res_w(c, ld, (*ps)()) : NULL;
      if (ps && pd) {if (o == "as") *pd = *ps; else if (o == "al") pd->SetRef((*ps)(), false); else *pd = CastAwayConstFromRef(*ps);}
   }
   else if (o == "rs") {ItemRef * pd = res_w(c, parse_loc(a[1]), NULL); if (pd) pd->Reset();}
   else if (o == "ne") {/* leaves orphans by contract: not used by the stress programs */}
   else if (o == "sw")
   {
      const Loc la = parse_loc(a[1]), lb = parse_loc(a[2]);
      ItemRef * ra = res_r(c, la);  ItemRef * rb = res_r(c, lb);
      if (ra && rb)
      {
         ItemRef * wa = res_w(c, la, (*rb)()); ItemRef * wb = res_w(c, lb, (*ra)());
         if (wa && wb && (wa != wb)) wa->SwapContents(*wb);
      }
   }
   else if (o == "sv")
   {
      const int i = atoi(a[1].c_str());
      Item * q = ((i >= 0)&&(i < (int)c.stk.size())&&(c.stk[i].IsRefCounting())) ? c.stk[i]() : NULL;
      if (q && c.stk[i].IsRefPrivate()) q->_val = atoi(a[2].c_str());
   }
   else if (o == "dr") pool->Drain();
   c.stk.swap(stk);
}

static void mt_worker(std::vector<ItemRef> * stk, PoolI * pool, const std::vector<std::string> * ops, int reps)
{
   for (int r=0; r<reps; r++) for (size_t n=0; n<ops->size(); n++) if (!(*ops)[n].empty()) mt_op(*stk, pool, (*ops)[n]);
   for (size_t i=0; i<stk->size(); i++) (*stk)[i].Reset();
}

static void run_stress(int k, const std::string & hdr, const std::string & body)
{
   std::vector<std::string> h = split(hdr.substr(1), ':');
   const int N = atoi(h[0].c_str()), mx = atoi(h[1].c_str()), S = atoi(h[2].c_str()), reps = atoi(h[3].c_str());
   std::vector<std::string> progs = split(body, '/');
   std::string verdict = "ok";
   g_mt = true; g_mt_dtor = 0; g_mt_recycle = 0; g_mt_obt = 0; g_mt_new = 0; g_mt_heapdtor = 0;
   {
      PoolI * pool = make_pool(N, (uint32) mx);
      std::vector<ItemRef> mainstk(S);
      std::vector<std::string> setup = split(progs[0], ';');
      for (size_t n=0; n<setup.size(); n++) if (!setup[n].empty()) mt_op(mainstk, pool, setup[n]);
      const size_t T = progs.size()-1;
      std::vector<std::vector<ItemRef> > stks(T, mainstk);      // copies made before any thread runs
      std::vector<std::vector<std::string> > tops(T);
      for (size_t t=0; t<T; t++) tops[t] = split(progs[t+1], ';');
      std::vector<std::thread> ths;
      for (size_t t=0; t<T; t++) ths.push_back(std::thread(mt_worker, &stks[t], pool, &tops[t], reps));
      for (size_t t=0; t<T; t++) ths[t].join();
      for (size_t i=0; i<mainstk.size(); i++) mainstk[i].Reset();
      pool->Sanity();
      if (pool->AnyInUse()) verdict = "FAIL pooled object still in use after every reference was dropped";
      if ((long) g_mt_new != (long) g_mt_heapdtor) verdict = "FAIL heap constructions != heap destructions";
      if ((long) g_mt_obt != (long) g_mt_recycle) verdict = "FAIL obtains != recycles";
      std::vector<SlabDump> slabs; std::string why;
      if (!pool->Slabs(slabs, why)) verdict = "FAIL " + why;
      unsigned totfree = 0; for (size_t s=0; s<slabs.size(); s++) totfree += (unsigned) slabs[s].freel.size();
      if (totfree != pool->Cur()) verdict = "FAIL _curPoolSize != free nodes";
      if (verdict == "ok") delete pool;
   }
   g_mt = false;
   if (verdict == "ok") printf("%d stress ok\n", k);
   else {printf("%d stress bad\n", k); printf("%d ORACLE FAIL multi-threaded run: %s\n", k, verdict.c_str());}
   fflush(stdout);
}

// ------------------------------------------------------------------ the last references dropped at the same instant (free-running, IN the verdict)
// "R<threads>:<h|p>:<milliseconds>|"   <threads> real threads each hold ONE reference to the same object (h: a heap object whose
// manager only counts how often the object is handed back; p: an object of a real ObjectPool) and drop it at the same instant, round
// after round for the given time.  The decision rule uses definitive outcomes only -- it cannot raise a false alarm on correct code,
// whatever the timing: the manager saw the object handed back a number of times other than exactly once; the pool is not back to
// "nothing in use, bookkeeping consistent" at quiescence; or the process dies (sanitizer report, MASSERT of ReleaseObject).
// This is where the premise "decrement-and-test is ONE atomic step" of the model meets the real std::atomic code: no hook
// separates the two halves of a split decrement, so only real preemption can show it.
struct CountingManager : public AbstractObjectManager
{
   std::atomic<int> _recycled;
   CountingManager() : _recycled(0) {}
   virtual void * ObtainObjectGeneric() {return NULL;}
   virtual void RecycleObject(void *) {_recycled++;}   // deliberately does not free: the driver does, once every thread is done
   virtual uint32 FlushCachedObjects() {return 0;}
   virtual void Print(const OutputPrinter &) const {}
};

struct RaceShared
{
   std::atomic<long> go;      // round number the workers may start
   std::atomic<long> done;    // total number of drops performed
   std::atomic<bool> stop;
   std::vector<ItemRef> refs;
};

static void race_worker(RaceShared * sh, int me)
{
   long round = 0;
   for(;;)
   {
      round++;
      int spins = 0;
      while((sh->go.load(std::memory_order_acquire) < round)&&(!sh->stop.load(std::memory_order_relaxed))) {if (++spins > 2000) {std::this_thread::yield(); spins = 0;}}
      if (sh->stop.load(std::memory_order_relaxed)) return;
      sh->refs[me].Reset();          // the drop: the threads arrive here together
      sh->done.fetch_add(1, std::memory_order_release);
   }
}

static void run_race(int k, const std::string & hdr)
{
   std::vector<std::string> h = split(hdr.substr(1), ':');
   const int T = atoi(h[0].c_str()); const bool pooled = (h.size() > 1)&&(h[1] == "p"); const int ms = (h.size() > 2) ? atoi(h[2].c_str()) : 1000;
   std::string verdict;
   g_mt = true;
   long rounds = 0;
   {
      CountingManager mgr;
      PoolI * pool = pooled ? make_pool(2, 1) : NULL;
      RaceShared sh; sh.go = 0; sh.done = 0; sh.stop = false; sh.refs.resize(T);
      std::vector<std::thread> ths;
      for (int t=0; t<T; t++) ths.push_back(std::thread(race_worker, &sh, t));
      const uint64 t0 = GetRunTime64();
      while(verdict.empty() && ((int64)(GetRunTime64()-t0) < (int64)ms*1000))
      {
         for (int burst=0; burst<200 && verdict.empty(); burst++)
         {
            Item * obj = pooled ? pool->Obtain() : new Item;
            if (!pooled) obj->SetManager(&mgr);
            mgr._recycled = 0;
            for (int t=0; t<T; t++) sh.refs[t].SetRef(obj);
            rounds++;
            sh.go.store(rounds, std::memory_order_release);
            int spins = 0;
            while(sh.done.load(std::memory_order_acquire) < rounds*T) {if (++spins > 2000) {std::this_thread::yield(); spins = 0;}}
            // quiescence: every thread has dropped its reference
            char buf[256];
            if (pooled)
            {
               std::vector<SlabDump> slabs; std::string why; unsigned totfree = 0; int inuse = 0; bool cyc = false;
               if (!pool->Slabs(slabs, why)) verdict = "pool bookkeeping inconsistent after the last references were dropped concurrently: " + why;
               for (size_t s=0; s<slabs.size(); s++) {totfree += (unsigned) slabs[s].freel.size(); inuse += slabs[s].inuse; if (slabs[s].cyc) cyc = true;}
               if (verdict.empty() && ((inuse != 0)||cyc||(totfree != pool->Cur())))
               {
                  sprintf(buf, "after %d threads dropped the last references to one pooled object: nodes in use %d (must be 0), free nodes %u vs _curPoolSize %u%s (round %ld)", T, inuse, totfree, pool->Cur(), cyc ? ", free-list cycle" : "", rounds);
                  verdict = buf;
               }
            }
            else
            {
               const int n = mgr._recycled.load();
               if (n != 1)
               {
                  sprintf(buf, "%d threads each dropped their one reference to the same object and it was handed back to its manager %d times (must be exactly once) (round %ld)", T, n, rounds);
                  verdict = buf;
               }
               obj->SetManager(NULL);
               delete obj;
            }
         }
      }
      sh.stop = true;
      for (int t=0; t<T; t++) ths[t].join();
      if (pooled && verdict.empty()) delete pool;   // (leaked after a failure: its destructor would crash on the corrupted state)
   }
   g_mt = false;
   if (verdict.empty()) printf("%d race ok\n", k);
   else {printf("%d race bad\n", k); printf("%d ORACLE FAIL %s\n", k, verdict.c_str());}
   fflush(stdout);
}

// ------------------------------------------------------------------ multi-threaded histories under the controlled scheduler
// "S<N>:<max>:<S>:<t.t.t...>|setup/teardown/prog1/prog2/..."
// The main thread runs <setup> on its own stack; every worker starts with a copy of that stack (made before it
// starts) and runs its program under the scheduler, whose decision points are the atomic increments / decrements
// (system/AtomicCounter.h hooks) and the pool's Mutex::Lock (system/Mutex.h hook).  The dotted list is the explicit
// schedule (worker ids; entries naming a finished worker are skipped; beyond its end: non-preemptive).  The main thread
// runs <teardown> (dropping its own references) right after creating the workers, before any of them runs.  Printed: for every decision the worker resumed and the atomic step it then
// executed (I<obj> / D<obj> / L = pool critical section / - = none), then the complete final dump.
struct SchedEv {int tid; int kind; int id; std::string snap;};

// the counts of all objects that exist (not destroyed, not in a free list is not distinguished here: a pooled-free object has count 0)
static std::string count_snapshot()
{
   std::ostringstream o;
   for (size_t id=0; id<g_objs.size(); id++) if (!g_objs[id].dead) {o << id << "=" << g_objs[id].addr->GetRefCount() << ",";}
   return o.str();
}

static int counter_owner(const void * p)
{
   for (size_t id=0; id<g_objs.size(); id++)
      if ((!g_objs[id].dead)&&((const void *) &g_objs[id].addr->_refCount == p)) return (int) id;
   return -2;
}

static void run_scheduled(int k, const std::string & hdr, const std::string & body)
{
   std::vector<std::string> h = split(hdr.substr(1), ':');
   const int N = atoi(h[0].c_str()), mx = atoi(h[1].c_str()), S = atoi(h[2].c_str());
   std::vector<std::string> progs = split(body, '/');
   while(progs.size() < 2) progs.push_back("");
   const size_t T = progs.size()-2;
   std::ostringstream o, orc;
   g_objs.clear(); g_addr2id.clear(); g_slab2sid.clear(); g_nextsid = 0; g_sched = true; g_untagged.clear();
   std::ostringstream evsink;   // destruction/recycle events are not compared in this mode (their order is implied by the trace)
   {
      Ideal ideal;
      std::vector<Ctx> ctx(T+1);
      PoolI * pool = make_pool(N, (uint32) mx);
      ideal.stk.assign((T+1)*S, IRef());
      for (size_t t=0; t<=T; t++) {ctx[t].pool = pool; ctx[t].ideal = &ideal; ctx[t].base = (int)(t*S); ctx[t].stk.resize(S);}
      std::vector<Ctx *> cs; for (size_t t=0; t<=T; t++) cs.push_back(&ctx[t]);
      g_ev = &evsink;
      // setup, single-threaded
      {
         std::vector<std::string> ops = split(progs[0], ';');
         for (size_t n=0; n<ops.size(); n++) if (!ops[n].empty()) (void) do_op(ctx[0], ops[n], orc, k, n);
      }
      // thread creation: each worker gets a copy of the main stack
      for (size_t t=1; t<=T; t++)
         for (int i=0; i<S; i++) {ctx[t].stk[i] = ctx[0].stk[i]; ideal.stk[ctx[t].base+i] = ideal.stk[i];}
      ideal.collect();
      // the main thread drops (some of) its own references before the workers run: shared objects now live and die among the workers
      {
         std::vector<std::string> ops = split(progs[1], ';');
         for (size_t n=0; n<ops.size(); n++) if (!ops[n].empty()) (void) do_op(ctx[0], ops[n], orc, k, 2000+n);
      }

      if (T > 0)
      {
         vsched::Options so;
         so.policy = vsched::Options::NONPREEMPTIVE;
         so.tolerant_schedule = true;
         if (h.size() > 3) {std::string sc = h[3]; for (size_t i=0; i<sc.size(); i++) if (sc[i] == '.') sc[i] = ','; if (!sc.empty()) (void) vsched::ParseSchedule(sc, so.schedule);}
         so.decide_kinds = vsched::KindBit(vsched::K_MUTEX_LOCK) | vsched::KindBit(vsched::K_ATOMIC_INC) | vsched::KindBit(vsched::K_ATOMIC_DEC);
         so.log_kinds    = so.decide_kinds;
         std::vector<SchedEv> evs;
         so.on_event = [&evs](const vsched::Event & e) {
            SchedEv se; se.tid = e.tid; se.kind = e.kind;
            se.id = ((e.kind == vsched::K_ATOMIC_INC)||(e.kind == vsched::K_ATOMIC_DEC)) ? counter_owner(e.ptr)
                  : ((e.kind == vsched::K_USER) ? id_of((const Item *) e.ptr) : -1);
            if (se.id != -1) se.snap = count_snapshot();   // the thread is about to park before this atomic operation: the state at the end of its slice
            evs.push_back(se);
         };
         vsched::Scheduler sc(so);
         std::vector<std::vector<std::string> > tops(T+1);
         for (size_t t=1; t<=T; t++) tops[t] = split(progs[t+1], ';');
         std::ostringstream * porc = &orc;
         for (size_t t=1; t<=T; t++)
         {
            Ctx * c = &ctx[t]; const std::vector<std::string> * ops = &tops[t];
            sc.Spawn([c, ops, porc, k]() {for (size_t n=0; n<ops->size(); n++) if (!(*ops)[n].empty()) (void) do_op(*c, (*ops)[n], *porc, k, 1000+n);});
         }
         vsched::Result r = sc.Run();
         if (r.status != vsched::Result::COMPLETED)
         {
            printf("%d sched %s\n", k, r.StatusName());
            printf("%d ORACLE FAIL controlled run did not complete: %s %s\n", k, r.StatusName(), r.detail.c_str());
            fflush(stdout);
            if (vsched::Scheduler::AbandonedThreads()) _exit(3);
            return;
         }
         // K_NOTE events are in r.log but not in evs: we produce none, so evs is parallel to r.log
         std::vector<std::string> pending(T);
         for (size_t i=0; i<r.steps.size(); i++)
         {
            const int w = r.steps[i].taken.tid;
            const size_t from = r.steps[i].log_pos, to = (i+1 < r.steps.size()) ? r.steps[i+1].log_pos : r.log.size();
            std::string tag = pending[w].empty() ? "-" : pending[w];
            std::string snap = "-";
            pending[w].clear();
            for (size_t e=from; (e<to)&&(e<evs.size()); e++)
            {
               char buf[32];
               if (evs[e].kind == vsched::K_MUTEX_LOCK) tag = "L";
               else if (evs[e].kind == vsched::K_ATOMIC_INC) {sprintf(buf, "I%d", evs[e].id); pending[evs[e].tid] = buf; snap = evs[e].snap;}
               else if (evs[e].kind == vsched::K_ATOMIC_DEC) {sprintf(buf, "D%d", evs[e].id); pending[evs[e].tid] = buf; snap = evs[e].snap;}
               else if (evs[e].kind == vsched::K_USER)       {sprintf(buf, "Y%d", evs[e].id); pending[evs[e].tid] = buf; snap = evs[e].snap;}
            }
            o << w << ":" << tag << "/" << snap << " ";
         }
      }
      g_ev = NULL;
      ideal.collect();
      o << "| ";
      dump(o, cs, orc, k, 9999);
      pool->Sanity();
      finish_case(cs, orc, k);
   }
   g_sched = false;
   print_case(k, o, orc);
}

int main()
{
   (void) GetDefaultObjectForType<Item>();
   std::string line;
   int k = 0;
   while(std::getline(std::cin, line))
   {
      const size_t p = line.find('|');
      if (p != std::string::npos)
      {
         const std::string hdr = line.substr(0, p), body = line.substr(p+1);
         if ((!hdr.empty())&&(hdr[0] == 'M')) run_stress(k, hdr, body);
         else if ((!hdr.empty())&&(hdr[0] == 'S')) run_scheduled(k, hdr, body);
         else if ((!hdr.empty())&&(hdr[0] == 'R')) run_race(k, hdr);
         else run_single(k, hdr, body);
      }
      k++;
   }
   return 0;
}
