// C19 harness, stage 2: the real muscle::ThreadPool -- its pool threads are muscle::Threads -- under the controlled
// scheduler (harness/sched; needs the MUSCLE_VERIF_HOOKS yield points of system/Mutex.h, WaitCondition.h,
// AtomicCounter.h AND system/Thread.cpp).  Several user threads run programs over their own IThreadPoolClients
// (register / submit / SetThreadPool(NULL)), thread 0 finally calls Shutdown(); the scheduler decides every
// interleaving: who takes _poolLock next, how long a handler "runs" (it parks at a yield point inside the handler),
// when a notified Wait() and a join return.
//
// Output per case: the sequence of observed pool events in the order they happened
//    R.c S.c.m U.c X   a _poolLock critical section of RegisterClient / SendMessageToThreadPool / UnregisterClient / Shutdown
//    F.t               a _poolLock critical section of pool thread t (ThreadFinishedProcessingClientMessages)
//    E.c.m.t.left      pool thread t entered client c's handler for Message m    Z.c.m.t  the handler returned
//    D.c.m.res         SendMessageToThreadPool returned      Q.c  SetThreadPool(NULL) returned      Y  Shutdown() returned
// each critical section followed by the dump of the protected state taken when the lock was released.  checks/c19.py feeds
// the event labels (without the dumps) to the extracted Coq LTS, which must accept them one by one (trace acceptance)
// and produce the same dumps; the harness's own oracle (`k ORACLE FAIL ..`) is independent of the model: per-client
// handled sequence is a prefix of / equals the accepted submissions, handlers of one client never overlap, never more
// handlers than pool threads, SetThreadPool(NULL) returns only after everything accepted was handled (unless Shutdown()
// had begun), no deadlock, no livelock.
//
// case line:  sched,n=<maxThreads>,bar=<0|1>,seed=<N|->,sch=<c.c.c>|<ut>:<op>;...     ops  r:<c>  s:<c>  u:<c>  x (thread 0 only)
//    each client is used by one user thread only (the documented discipline of IThreadPoolClient); at the end of its program
//    a user thread un-registers its clients; thread 0 then (bar=1: after all other user threads are done) shuts the pool down.
#include <stdio.h>
#include <stdlib.h>
#include <string.h>
#include <unistd.h>
#include <stdint.h>
#include <poll.h>
#include <string>
#include <vector>
#include <map>
#include <set>
#include <algorithm>
#include <sstream>
#include <memory>
#include <thread>
#include <mutex>
#include <condition_variable>
#include <atomic>
#include <chrono>
#include <functional>

#define private public
#define protected public
#include "system/ThreadPool.h"
#include "system/Thread.h"
#include "system/WaitCondition.h"
#undef private
#undef protected
#include "system/SetupSystem.h"
#include "syslog/SysLog.h"
#include "message/Message.h"
#include "sched/sched.h"

using namespace muscle;
using namespace vsched;

static const int MAX_CLIENTS = 8;
static const int MAX_UT = 6;

struct Op { char kind; int c; uint32 m; };
struct Case
{
   int n; bool bar; bool fine; bool haveSeed; uint64_t seed; std::vector<Choice> sched;
   int nut;
   std::vector<Op> prog[MAX_UT];
   std::set<int> own[MAX_UT];
   std::string head, body;
};

static std::vector<std::string> split(const std::string & s, char c)
{
   std::vector<std::string> r; std::string cur;
   for (size_t i=0; i<s.size(); i++) {if (s[i]==c) {r.push_back(cur); cur.clear();} else cur += s[i];}
   r.push_back(cur);
   return r;
}

static bool parse_case(const std::string & line, Case & c)
{
   const size_t bar = line.find('|');
   if (bar == std::string::npos) return false;
   c.head = line.substr(0, bar); c.body = line.substr(bar+1);
   c.n = 1; c.bar = false; c.fine = false; c.haveSeed = false; c.seed = 0; c.sched.clear(); c.nut = 1;
   for (int i=0; i<MAX_UT; i++) {c.prog[i].clear(); c.own[i].clear();}
   std::vector<std::string> hs = split(c.head, ',');
   for (size_t i=0; i<hs.size(); i++)
   {
      const std::string & h = hs[i];
      if (h.compare(0, 2, "n=") == 0) c.n = atoi(h.c_str()+2);
      else if (h.compare(0, 4, "bar=") == 0) c.bar = (h[4] == '1');
      else if (h.compare(0, 5, "fine=") == 0) c.fine = (h[5] == '1');
      else if (h.compare(0, 5, "seed=") == 0) {if (h[5] != '-') {c.haveSeed = true; c.seed = strtoull(h.c_str()+5, NULL, 10);}}
      else if (h.compare(0, 4, "sch=") == 0)
      {
         std::string s = h.substr(4);
         for (size_t k=0; k<s.size(); k++) if (s[k] == '.') s[k] = ',';
         if ((!s.empty())&&(!ParseSchedule(s, c.sched))) return false;
      }
   }
   std::vector<std::string> os = split(c.body, ';');
   uint32 nextMsg = 0;
   std::map<int, int> owner;
   for (size_t i=0; i<os.size(); i++)
   {
      if (os[i].empty()) continue;
      std::vector<std::string> f = split(os[i], ':');
      if (f.size() < 2) return false;
      const int ut = atoi(f[0].c_str());
      if ((ut < 0)||(ut >= MAX_UT)||(f[1].size() != 1)) return false;
      Op op; op.kind = f[1][0]; op.c = (f.size() > 2) ? atoi(f[2].c_str()) : -1; op.m = 0;
      if (op.kind == 'x') {if (ut != 0) continue;}
      else
      {
         if ((op.c < 0)||(op.c >= MAX_CLIENTS)) return false;
         if ((owner.count(op.c))&&(owner[op.c] != ut)) continue;    // a client belongs to the first thread that mentions it
         owner[op.c] = ut; c.own[ut].insert(op.c);
         if (op.kind == 's') op.m = ++nextMsg;
         else if ((op.kind != 'r')&&(op.kind != 'u')) return false;
      }
      c.prog[ut].push_back(op);
      if (ut+1 > c.nut) c.nut = ut+1;
   }
   return true;
}

// ---------------------------------------------------------------------------------------------- the run

class SchedClient;
struct Ctx { char kind; int c; uint32 m; };

struct Run
{
   const Case * c;
   ThreadPool * pool;
   SchedClient * cl[MAX_CLIENTS];
   WaitCondition * done[MAX_UT];                 // bar=1: user thread i tells thread 0 that it is done
   Ctx ctx[MAX_UT];
   std::map<int, ThreadPool::ThreadPoolThread *> poolThreadOf;   // scheduler tid -> pool thread
   std::vector<std::string> oracle;
   bool shutBegun;
   int running;
};
static Run * g_run = NULL;

static void oracle_fail(const std::string & s) {if (g_run) g_run->oracle.push_back(s);}

static std::string seq_text(const std::vector<uint32> & v)
{
   std::string r;
   for (size_t i=0; i<v.size(); i++) {if (i) r += "."; r += std::to_string(v[i]);}
   return r;
}
static bool is_prefix(const std::vector<uint32> & a, const std::vector<uint32> & b)
{
   if (a.size() > b.size()) return false;
   for (size_t i=0; i<a.size(); i++) if (a[i] != b[i]) return false;
   return true;
}

// which ThreadPoolThread is the calling pool thread?  (muscle keeps a table of the Threads by native thread key)
static int pool_tid_of_self()
{
   Thread * t = Thread::GetCurrentThread();
   return t ? (int) static_cast<ThreadPool::ThreadPoolThread *>(t)->GetThreadID() : -1;
}

class SchedClient : public IThreadPoolClient
{
public:
   SchedClient(int idx) : IThreadPoolClient(NULL), _idx(idx), _inHandler(0) {}

   virtual void MessageReceivedFromThreadPool(const MessageRef & msg, uint32 numLeft)
   {
      Run & r = *g_run;
      const uint32 id = msg() ? msg()->what : 0;
      if (_inHandler++ != 0) oracle_fail("two-handlers-at-once c" + std::to_string(_idx));
      if (++r.running > r.c->n) oracle_fail("more-running-handlers-than-threads");
      _entered.push_back(id);
      if (!is_prefix(_entered, _accepted)) oracle_fail("handled-not-a-prefix-of-submitted c" + std::to_string(_idx) + " handled=" + seq_text(_entered) + " accepted=" + seq_text(_accepted));
      const int pt = pool_tid_of_self();
      char buf[96];
      snprintf(buf, sizeof(buf), "E.%d.%u.%d.%u", _idx, id, pt, numLeft); Scheduler::Note(buf);
      Scheduler::Yield(K_USER+1, this);          // the handler "runs" for as long as the scheduler leaves this thread parked here
      _exited.push_back(id);
      r.running--; _inHandler--;
      snprintf(buf, sizeof(buf), "Z.%d.%u.%d", _idx, id, pt); Scheduler::Note(buf);
   }

   const int _idx;
   int _inHandler;
   std::vector<uint32> _accepted, _entered, _exited;
};

static int idx_of(IThreadPoolClient * c) {for (int i=0; i<MAX_CLIENTS; i++) if (g_run->cl[i] == c) return i; return -1;}

static std::string msgs_of(const Queue<MessageRef> & q)
{
   std::string r;
   for (uint32 i=0; i<q.GetNumItems(); i++) {if (i) r += "."; r += std::to_string(q[i]() ? q[i]()->what : 0);}
   return r;
}

// taken by the thread that has just released _poolLock, while no other controlled thread runs
static std::string dump()
{
   ThreadPool * p = g_run->pool;
   std::string s; char buf[64];
   snprintf(buf, sizeof(buf), "sh%d n%u av[", p->_shuttingDown ? 1 : 0, p->_threadIDCounter); s += buf;
   std::vector<std::pair<uint32, std::string> > th;
   {bool f = true; for (HashtableIterator<uint32, ThreadPool::ThreadPoolThreadRef> it(p->_availableThreads); it.HasData(); it++) {if (!f) s += ","; f = false; s += std::to_string(it.GetKey());
      ThreadPool::ThreadPoolThread * t = it.GetValue()(); const int ci = idx_of(t->_currentClient);
      th.push_back(std::make_pair(it.GetKey(), std::to_string(it.GetKey()) + ":" + ((ci >= 0) ? std::to_string(ci) : std::string("-")) + ":" + msgs_of(t->_internalQueue)));}}
   s += "] ac[";
   {bool f = true; for (HashtableIterator<uint32, ThreadPool::ThreadPoolThreadRef> it(p->_activeThreads); it.HasData(); it++) {if (!f) s += ","; f = false; s += std::to_string(it.GetKey());
      ThreadPool::ThreadPoolThread * t = it.GetValue()(); const int ci = idx_of(t->_currentClient);
      th.push_back(std::make_pair(it.GetKey(), std::to_string(it.GetKey()) + ":" + ((ci >= 0) ? std::to_string(ci) : std::string("-")) + ":" + msgs_of(t->_internalQueue)));}}
   s += "] rg[";
   {bool f = true; for (HashtableIterator<IThreadPoolClient *, bool> it(p->_registeredClients); it.HasData(); it++) {if (!f) s += ","; f = false; s += std::to_string(idx_of(it.GetKey())) + ":" + (it.GetValue() ? "1" : "0");}}
   s += "] pe[";
   {bool f = true; for (HashtableIterator<IThreadPoolClient *, Queue<MessageRef> > it(p->_pendingMessages); it.HasData(); it++) {if (!f) s += ","; f = false; s += std::to_string(idx_of(it.GetKey())) + ":" + msgs_of(it.GetValue());}}
   s += "] de[";
   {bool f = true; for (HashtableIterator<IThreadPoolClient *, Queue<MessageRef> > it(p->_deferredMessages); it.HasData(); it++) {if (!f) s += ","; f = false; s += std::to_string(idx_of(it.GetKey())) + ":" + msgs_of(it.GetValue());}}
   s += "] wa[";
   {bool f = true; for (HashtableIterator<IThreadPoolClient *, WaitCondition *> it(p->_waitingForCompletion); it.HasData(); it++) {if (!f) s += ","; f = false; s += std::to_string(idx_of(it.GetKey()));}}
   s += "] th[";
   std::sort(th.begin(), th.end());
   for (size_t i=0; i<th.size(); i++) {if (i) s += ","; s += th[i].second;}
   s += "]";
   return s;
}

// ---- the pool threads' signalling sockets: the real sockets are the truth (see harness/threadq_h.cpp, C11) ----
struct Chan { int fd; volatile uint32_t * readable; };
static std::map<const void *, Chan> g_chans;
static muscle_verif_hook_t g_inner = NULL;

static void refresh_readable()
{
   for (std::map<const void *, Chan>::iterator it = g_chans.begin(); it != g_chans.end(); it++)
   {
      uint32_t r = 0;
      if (it->second.fd >= 0)
      {
         struct pollfd p; p.fd = it->second.fd; p.events = POLLIN; p.revents = 0;
         if (poll(&p, 1, 0) > 0 && (p.revents & (POLLIN|POLLHUP|POLLERR)) && !(p.revents & POLLNVAL)) r = 1;
      }
      *(it->second.readable) = r;
   }
}

static Chan & chan_of(const void * obj)
{
   std::map<const void *, Chan>::iterator it = g_chans.find(obj);
   if (it != g_chans.end()) return it->second;
   Chan c; c.fd = ((const Thread::ThreadSpecificData *) obj)->_messageSocket.GetFileDescriptor();
   c.readable = new uint32_t(0);   // leaked on purpose: the scheduler may look at it for as long as a thread is parked on it
   return g_chans[obj] = c;
}

static int WrapperHook(int kind, const void * obj, const void * arg)
{
   if (kind == K_ATOMIC_INC || kind == K_ATOMIC_DEC || kind == K_ATOMIC_CAS || g_run == NULL) return g_inner(kind, obj, arg);
   if ((kind == K_MUTEX_LOCK || kind == K_MUTEX_UNLOCK || kind == K_MUTEX_TRYLOCK) && obj != (const void *) &g_run->pool->_poolLock) return g_inner(kind, obj, arg);
   if (kind == K_SEM_WAIT || kind == K_SEM_TIMEDWAIT) (void) chan_of(obj);
   if (kind != K_THREAD_START) refresh_readable();
   if (kind == K_SEM_WAIT || kind == K_SEM_TIMEDWAIT)
      return g_inner((kind == K_SEM_WAIT) ? K_WC_WAIT : K_WC_TIMEDWAIT, obj, (const void *) chan_of(obj).readable);
   return g_inner(kind, obj, arg);
}
static void install_wrapper()
{
   if (muscle_verif_hook_ref() != &WrapperHook) {g_inner = muscle_verif_hook_ref(); muscle_verif_hook_ref() = &WrapperHook;}
}

static void on_event(const Event & e)
{
   if (g_run == NULL) return;
   Run & r = *g_run;
   switch(e.kind)
   {
      case K_MUTEX_UNLOCK:
         if ((e.ptr == (const void *) &r.pool->_poolLock)&&(e.aux == 0))
         {
            std::string lab;
            if (e.tid < r.c->nut)
            {
               const Ctx & x = r.ctx[e.tid];
               switch(x.kind)
               {
                  case 'r': lab = "R." + std::to_string(x.c); break;
                  case 's': lab = "S." + std::to_string(x.c) + "." + std::to_string(x.m); break;
                  case 'u': lab = "U." + std::to_string(x.c); break;
                  case 'x': lab = "X"; break;
                  default:  lab = "?"; break;
               }
            }
            else lab = "F." + std::to_string(pool_tid_of_self());
            Scheduler::Note(lab + " " + dump());
         }
         break;
      default: break;
   }
}

static void do_op(int ut, const Op & op)
{
   Run & r = *g_run;
   r.ctx[ut].kind = op.kind; r.ctx[ut].c = op.c; r.ctx[ut].m = op.m;
   char buf[96];
   switch(op.kind)
   {
      case 'r':
         if (r.cl[op.c]->GetThreadPool() == NULL) r.cl[op.c]->SetThreadPool(r.pool);
         break;
      case 's':
      {
         SchedClient * c = r.cl[op.c];
         // the bookkeeping must know the Message before a pool thread can possibly handle it
         c->_accepted.push_back(op.m);
         const status_t ret = c->SendMessageToThreadPool(GetMessageFromPool(op.m));
         const char * res = ret.IsOK() ? "ok" : ((ret == B_BAD_OBJECT) ? "badobj" : ((ret == B_BAD_ARGUMENT) ? "badarg" : "err"));
         if (ret.IsError())
         {
            // not accepted after all: it was the last one appended by this (the only submitting) thread
            for (size_t i=c->_accepted.size(); i>0; i--) if (c->_accepted[i-1] == op.m) {c->_accepted.erase(c->_accepted.begin()+(i-1)); break;}
         }
         snprintf(buf, sizeof(buf), "D.%d.%u.%s", op.c, op.m, res); Scheduler::Note(buf);
         break;
      }
      case 'u':
      {
         SchedClient * c = r.cl[op.c];
         if ((c->GetThreadPool() == NULL)||(r.pool->_shuttingDown)) break;    // un-registering from a pool that is shutting down / dead is left to the tear-down
         c->SetThreadPool(NULL);
         if ((!r.shutBegun)&&(c->_exited != c->_accepted))
            oracle_fail("unregister-returned-before-all-handled c" + std::to_string(op.c) + " handled=" + seq_text(c->_exited) + " accepted=" + seq_text(c->_accepted));
         if (c->_inHandler != 0) oracle_fail("unregister-returned-while-handler-running c" + std::to_string(op.c));
         snprintf(buf, sizeof(buf), "Q.%d", op.c); Scheduler::Note(buf);
         break;
      }
      case 'x':
         if (!r.shutBegun)
         {
            r.shutBegun = true;
            (void) r.pool->Shutdown();
            Scheduler::Note("Y");
         }
         break;
      default: break;
   }
   r.ctx[ut].kind = 0;
}

static void user_body(int ut)
{
   install_wrapper();
   Run & r = *g_run;
   const std::vector<Op> & prog = r.c->prog[ut];
   for (size_t i=0; i<prog.size(); i++) do_op(ut, prog[i]);
   for (std::set<int>::const_iterator it = r.c->own[ut].begin(); it != r.c->own[ut].end(); it++) {Op op; op.kind = 'u'; op.c = *it; op.m = 0; do_op(ut, op);}
   if (ut != 0) {if (r.c->bar) (void) r.done[ut]->Notify();}
   else
   {
      if (r.c->bar) for (int i=1; i<r.c->nut; i++) (void) r.done[i]->Wait();
      Op op; op.kind = 'x'; op.c = -1; op.m = 0; do_op(0, op);
   }
   refresh_readable();
}

// fine=1: every mutex acquisition (Thread's queue locks, ...) and every signal is a decision point as well, so a pool thread can
// run between the individual steps of another thread's critical section (eg between "signal the thread" and "publish its batch")
static bool g_fine = false;

static Options base_options()
{
   Options o;
   o.tolerant_schedule = true;
   o.max_decisions = 8000;
   o.policy_fn = [](int kind, const void * obj) -> int {
      switch(kind)
      {
         case K_MUTEX_LOCK:   return ((g_run)&&(obj == (const void *) &g_run->pool->_poolLock)) ? (F_LOG|F_DECIDE) : (g_fine ? F_DECIDE : 0);
         case K_MUTEX_UNLOCK: return ((g_run)&&(obj == (const void *) &g_run->pool->_poolLock)) ? F_LOG : 0;
         case K_WC_WAIT: case K_WC_TIMEDWAIT: return F_LOG|F_DECIDE;
         case K_WC_NOTIFY: case K_SEM_POST: return g_fine ? (F_LOG|F_DECIDE) : F_LOG;
         case K_THREAD_SPAWN: case K_THREAD_EXIT: return F_LOG;
         case K_THREAD_SPAWNED: case K_THREAD_START: case K_THREAD_JOIN: return F_LOG|F_DECIDE;
         default: return 0;
      }
   };
   o.on_event = on_event;
   return o;
}

static Run * setup_run(const Case & c, Scheduler & s)
{
   Run * rp = new Run; Run & r = *rp;
   r.c = &c; r.pool = new ThreadPool((uint32) c.n); r.shutBegun = false; r.running = 0;
   for (int i=0; i<MAX_CLIENTS; i++) r.cl[i] = new SchedClient(i);
   for (int i=0; i<MAX_UT; i++) {r.done[i] = new WaitCondition; r.ctx[i].kind = 0; r.ctx[i].c = -1; r.ctx[i].m = 0;}
   g_chans.clear();
   g_run = rp;
   s.NameObject(&r.pool->_poolLock, "poolLock");
   for (int t=0; t<c.nut; t++) s.Spawn([t]{user_body(t);});
   return rp;
}

// tear-down outside the scheduler.  After a run that did not complete, threads are parked inside these objects for ever: leak them (README section 4)
static void teardown_run(Run * rp, const Result & res)
{
   Run & r = *rp;
   g_run = NULL;
   if (res.status != Result::COMPLETED) return;
   {
      // the pool is dead (Shutdown() ran); clients registered afterwards are taken off by hand
      DECLARE_MUTEXGUARD(r.pool->_poolLock);
      r.pool->_pendingMessages.Clear(); r.pool->_deferredMessages.Clear();
   }
   for (int ci=0; ci<MAX_CLIENTS; ci++) if (r.cl[ci]->GetThreadPool() != NULL) r.cl[ci]->SetThreadPool(NULL);
   delete r.pool;
   for (int ci=0; ci<MAX_CLIENTS; ci++) delete r.cl[ci];
   for (int ci=0; ci<MAX_UT; ci++) delete r.done[ci];
   delete rp;
}

static void run_case(int k, const std::string & line)
{
   Case c;
   if (!parse_case(line, c)) {printf("%d bad-case\n", k); return;}
   g_fine = c.fine;
   Options o = base_options();
   if (c.fine) o.max_decisions = 40000;
   o.schedule = c.sched;
   if (c.haveSeed) {o.policy = Options::RANDOM; o.seed = c.seed;} else o.policy = Options::NONPREEMPTIVE;
   Scheduler * s = new Scheduler(o);
   Run * rp = setup_run(c, *s); Run & r = *rp;
   Result res = s->Run();

   int i = 0;
   for (size_t j=0; j<res.log.size(); j++)
      if (res.log[j].kind == K_NOTE) printf("%d EV %d %s\n", k, i++, res.log[j].note.c_str());
   std::string e;
   for (int ci=0; ci<MAX_CLIENTS; ci++)
   {
      SchedClient * cl = r.cl[ci];
      if (cl->_accepted.empty() && cl->_entered.empty()) continue;
      if (!e.empty()) e += " ";
      e += std::to_string(ci) + ":[" + seq_text(cl->_exited) + "]";
      if (!is_prefix(cl->_exited, cl->_accepted)) oracle_fail("handled-not-a-prefix-of-submitted(final) c" + std::to_string(ci));
      if ((res.status == Result::COMPLETED)&&(cl->_entered != cl->_exited)) oracle_fail("handler-entered-but-not-returned c" + std::to_string(ci));
   }
   printf("%d END %s %s\n", k, res.StatusName(), e.c_str());
   printf("%d SCH %s\n", k, FormatSchedule(res.Schedule()).c_str());
   if (res.status == Result::DEADLOCK)   oracle_fail("deadlock " + res.detail);
   if (res.status == Result::STEP_LIMIT) oracle_fail("step-limit-reached (livelock?)");
   std::set<std::string> seen;
   for (size_t j=0; j<r.oracle.size(); j++) if (seen.insert(r.oracle[j]).second) printf("%d ORACLE FAIL %s\n", k, r.oracle[j].c_str());
   fflush(stdout);
   teardown_run(rp, res);
   if (res.status == Result::COMPLETED) delete s;
}

// --explore <max_preemptions> <max_runs>: every schedule of the case up to the preemption bound, printed as a complete case line
// (support for the tie, never the theorem; checks/c19.py then runs these lines like any other case)
static void explore_case(const std::string & line, int bound, size_t maxRuns)
{
   Case c;
   if (!parse_case(line, c)) return;
   g_fine = c.fine;
   ExploreOptions eo; eo.max_preemptions = bound; eo.max_runs = maxRuns; eo.base = base_options();
   Run * cur = NULL;
   std::string head = "sched,n=" + std::to_string(c.n) + ",bar=" + (c.bar ? "1" : "0") + (c.fine ? ",fine=1" : "") + ",seed=-,sch=";
   (void) Explore(eo,
      [&](Scheduler & s) {cur = setup_run(c, s);},
      [&](const Result & res) {
         std::string sch = FormatSchedule(res.Schedule());
         for (size_t i=0; i<sch.size(); i++) if (sch[i] == ',') sch[i] = '.';
         printf("%s%s|%s\n", head.c_str(), sch.c_str(), c.body.c_str());
         teardown_run(cur, res); cur = NULL;
         return true;
      });
   fflush(stdout);
}

int main(int argc, char ** argv)
{
   CompleteSetupSystem css;
   SetConsoleLogToStderr(true);   // an "ASSERTION FAILED: ..." line of a MASSERT must end up in the crash report, not between the result lines
   const bool explore = (argc >= 4)&&(strcmp(argv[1], "--explore") == 0);
   char * line = NULL; size_t cap = 0; ssize_t len;
   int k = 0;
   while((len = getline(&line, &cap, stdin)) >= 0)
   {
      std::string s(line, (size_t) len);
      while((!s.empty())&&((s[s.size()-1] == '\n')||(s[s.size()-1] == '\r'))) s.erase(s.size()-1);
      if (explore) explore_case(s, atoi(argv[2]), (size_t) atol(argv[3]));
      else run_case(k, s);
      fflush(stdout);
      k++;
   }
   free(line);
   fflush(stdout);
   _exit(0);
   return 0;
}
