// C15 harness: runs SetPattern/Match/... scripts against muscle::StringMatcher (through its public API,
// on one re-used object and through the object pool) and prints the same canonical text as the extracted
// Coq model (ocaml/pat_driver.ml).  It also evaluates the property's own statement with an independent
// implementation of the DOCUMENTED simple syntax (set-of-end-positions matcher, no regex library):
//   k ORACLE FAIL <class>    when Match / IsPatternUnique / EscapeRegexTokens contradict the documentation.
//
// case line:   <head>|op;op;...        (strings are hex)
//   sp:<pat>:<M>          SetPattern(pat, true)              M = S|U : is the regex inside the Ere.v model
//   sr:<pat>:<M>          SetPattern(pat, false)
//   ep:<str>:<M>          SetPattern(EscapeRegexTokens(str), true)
//   pl:<pat>:<0|1>:<M>    drop the pooled matcher, obtain one from the pool, SetPattern(pat, simple) on it
//   as:<pat>:<0|1>:<0|1>:<M>   StringMatcher tmp(pat, simple); tmp.SetNegate(neg); current = tmp;
//   ng:<0|1>              SetNegate
//   rs                    Reset()
//   m:<subject>           Match
//   e:<alphabet>:<n>      Match on every string over the alphabet of length <= n
//   sg:<pat>:<0|1>:<0|1>:<subject>:<M>   SegmentedStringMatcher(pat, simple, "/").Match(subject, prefixMatchOkay)
//   pm:<pat>:<subject>:<M>               PathMatcher: PutPathString(pat) then MatchesPath(subject)
#include <stdio.h>
#include <stdlib.h>
#include <string.h>
#include <string>
#include <vector>
#include <set>
#include <sstream>
#include <iostream>

#define private public
#define protected public
#include "regex/StringMatcher.h"
#include "regex/SegmentedStringMatcher.h"
#include "regex/PathMatcher.h"
#undef private
#undef protected
#include "system/SetupSystem.h"

using namespace muscle;

typedef std::string S;

static std::vector<S> split(const S & s, char c)
{
   std::vector<S> r; S cur;
   for (size_t i=0; i<s.size(); i++) {if (s[i]==c) {r.push_back(cur); cur.clear();} else cur += s[i];}
   r.push_back(cur);
   return r;
}
static S unhex(const S & h)
{
   S r;
   for (size_t i=0; i+1<h.size(); i+=2) r += (char) strtol(h.substr(i,2).c_str(), NULL, 16);
   return r;
}
static S hex(const S & s)
{
   static const char * d = "0123456789abcdef";
   S r;
   for (size_t i=0; i<s.size(); i++) {unsigned char c = (unsigned char) s[i]; r += d[c>>4]; r += d[c&15];}
   return r;
}
static S hexm(const String & s) {return hex(S(s(), s.Length()));}

static void enumerate(const S & alpha, int n, std::vector<S> & out)
{
   std::vector<S> level(1, S());
   out.push_back(S());
   for (int len=1; len<=n; len++)
   {
      std::vector<S> next;
      for (size_t a=0; a<alpha.size(); a++) for (size_t i=0; i<level.size(); i++) next.push_back(S(1, alpha[a]) + level[i]);
      out.insert(out.end(), next.begin(), next.end());
      level.swap(next);
   }
}

// ------------------------------------------------------------------------------------------------
// The documented simple syntax, implemented independently of regex and of the Coq model.
//   pattern := ['~'] ( '<' clause (',' clause)* '>'  |  alt )
//   alt     := branch ( ('|' | ',') branch )*          branch := atom*
//   atom    := '*' | '?' | '[' ['^'] item+ ']' | '(' alt ')' | '\' anychar | ordinary char
//   clause  := N | N '-' M | '-' M | N '-' | '-'       (decimal, < 2^32)
// Anything else (unbalanced brackets, { } ^ $, a stray ']', a leading backtick = raw regex, "<" not forming
// a range list, POSIX [: :] classes, ...) is "not documented": the oracle then makes no claim.
struct Node;
typedef std::vector<Node> Branch;
typedef std::vector<Branch> Alt;
struct Node
{
   enum Kind {LIT, ONE, RUN, CLASS, GROUP} kind;
   unsigned char c;
   bool neg;
   std::vector<std::pair<int,int> > items;
   std::vector<std::pair<int,int> > items24;   // the members as SetPattern's character translation leaves them (finding F24)
   Alt alt;
   Node() : kind(LIT), c(0), neg(false) {}
};

struct DocPattern
{
   bool documented;
   bool negate;
   bool isRange;
   std::vector<std::pair<unsigned long long, unsigned long long> > ranges;
   Alt alt;
   bool classMeta;     // a bracket expression holds one of , . + * ? backslash
   bool classMetaComplex; // ... in a way whose effect this oracle does not reproduce (backslash, range end point)
   bool gnuEscape;     // backslash followed by a character the regex engine gives a meaning
   DocPattern() : documented(false), negate(false), isRange(false), classMeta(false), classMetaComplex(false), gnuEscape(false) {}
};

static bool parseAlt(const S & p, size_t & i, Alt & out, bool inGroup, DocPattern & dp);

static bool parseClass(const S & p, size_t & i, Node & n, DocPattern & dp)   // p[i] is just after '['
{
   n.kind = Node::CLASS;
   if ((i < p.size())&&(p[i] == '^')) {n.neg = true; i++;}
   bool first = true;
   while(true)
   {
      if (i >= p.size()) return false;
      unsigned char c = (unsigned char) p[i];
      if ((c == ']')&&(!first)) {i++; break;}
      if ((c == '[')&&(i+1 < p.size())&&((p[i+1]=='.')||(p[i+1]==':')||(p[i+1]=='='))) return false;
      if (strchr(",.+*?\\", c)) dp.classMeta = true;
      if (c == '\\') dp.classMetaComplex = true;
      if ((c == '[')&&(i+1 < p.size())&&((p[i+1] == '*')||(p[i+1] == '?'))) dp.classMetaComplex = true;   // the translation turns it into "[." (a POSIX collating symbol)
      if ((i+2 < p.size())&&(p[i+1] == '-')&&(p[i+2] != ']'))
      {
         unsigned char d = (unsigned char) p[i+2];
         if ((d == '[')&&(i+3 < p.size())&&((p[i+3]=='.')||(p[i+3]==':')||(p[i+3]=='='))) return false;
         if (strchr(",.+*?\\", d)) dp.classMeta = true;
         if ((strchr(",.+*?\\", c))||(strchr(",.+*?\\", d))) dp.classMetaComplex = true;
         if (d < c) return false;
         n.items.push_back(std::make_pair((int)c, (int)d));
         n.items24.push_back(std::make_pair((int)c, (int)d));
         i += 3;
         // what follows a range must be ']' or an ordinary new item; a '-' here is not documented
         if ((i < p.size())&&(p[i] == '-')&&((i+1 >= p.size())||(p[i+1] != ']'))) return false;
      }
      else
      {
         if ((c == '-')&&(!first)&&((i+1 >= p.size())||(p[i+1] != ']'))) return false;
         n.items.push_back(std::make_pair((int)c, (int)c));
         // what the translation loop makes of this member:  , -> |   ? -> .   . -> \.   + -> \+   * -> .*
         if (c == ',') n.items24.push_back(std::make_pair((int)'|', (int)'|'));
         else if (c == '?') n.items24.push_back(std::make_pair((int)'.', (int)'.'));
         else
         {
            if ((c == '.')||(c == '+')) n.items24.push_back(std::make_pair((int)'\\', (int)'\\'));
            if (c == '*') n.items24.push_back(std::make_pair((int)'.', (int)'.'));
            n.items24.push_back(std::make_pair((int)c, (int)c));
         }
         i++;
      }
      first = false;
   }
   return !n.items.empty();
}

static bool parseAlt(const S & p, size_t & i, Alt & out, bool inGroup, DocPattern & dp)
{
   out.clear();
   out.push_back(Branch());
   while(i < p.size())
   {
      unsigned char c = (unsigned char) p[i];
      if ((c == '|')||(c == ',')) {out.push_back(Branch()); i++; continue;}
      if (c == ')') {if (inGroup) return true; else return false;}
      Node n;
      if (c == '*') {n.kind = Node::RUN; i++;}
      else if (c == '?') {n.kind = Node::ONE; i++;}
      else if (c == '[') {i++; if (!parseClass(p, i, n, dp)) return false;}
      else if (c == '(')
      {
         i++;
         n.kind = Node::GROUP;
         if (!parseAlt(p, i, n.alt, true, dp)) return false;
         if ((i >= p.size())||(p[i] != ')')) return false;
         i++;
      }
      else if (c == '\\')
      {
         if (i+1 >= p.size()) return false;
         n.kind = Node::LIT; n.c = (unsigned char) p[i+1];
         if (strchr("wWsSbB<>`'123456789", p[i+1])) dp.gnuEscape = true;
         i += 2;
      }
      else if ((c == ']')||(c == '{')||(c == '}')||(c == '^')||(c == '$')) return false;
      else {n.kind = Node::LIT; n.c = c; i++;}
      out.back().push_back(n);
   }
   return !inGroup;
}

static bool parseNumber(const S & s, unsigned long long & v)
{
   if ((s.empty())||(s.size() > 10)) return false;
   v = 0;
   for (size_t i=0; i<s.size(); i++) {if ((s[i] < '0')||(s[i] > '9')) return false; v = v*10 + (unsigned long long)(s[i]-'0');}
   return (v <= 4294967295ULL);
}

static void parseDoc(const S & pat, DocPattern & dp)
{
   S p = pat;
   if ((!p.empty())&&(p[0] == '~')) {dp.negate = true; p = p.substr(1);}
   if ((!p.empty())&&(p[0] == '`')) return;
   if ((!p.empty())&&(p[0] == '<'))
   {
      const size_t gt = p.find('>');
      if ((gt == S::npos)||(gt+1 != p.size())) return;
      dp.isRange = true;
      std::vector<S> cl = split(p.substr(1, p.size()-2), ',');
      for (size_t i=0; i<cl.size(); i++)
      {
         const S & c = cl[i];
         const size_t dash = c.find('-');
         unsigned long long lo = 0, hi = 4294967295ULL;
         if (dash == S::npos) {if (!parseNumber(c, lo)) return; hi = lo;}
         else
         {
            const S a = c.substr(0, dash), b = c.substr(dash+1);
            if ((!a.empty())&&(!parseNumber(a, lo))) return;
            if ((!b.empty())&&(!parseNumber(b, hi))) return;
            if (lo > hi) std::swap(lo, hi);
         }
         dp.ranges.push_back(std::make_pair(lo, hi));
      }
      dp.documented = true;
      return;
   }
   // "\<" at the very start is a literal '<' like everywhere else ("backslash makes the next character literal")
   size_t i = 0;
   DocPattern tmp;
   if (parseAlt(p, i, dp.alt, false, dp)) dp.documented = true;
   // a leading "\<" is stripped by the code before translation, so it is not a GNU word anchor there
   if ((p.size() >= 2)&&(p[0] == '\\')&&(p[1] == '<'))
   {
      bool other = false;
      for (size_t j=2; j+1<p.size(); j++) if (p[j] == '\\') {if (strchr("wWsSbB<>`'123456789", p[j+1])) other = true; j++;}
      dp.gnuEscape = other;
   }
}

static void endsAlt(const Alt & a, const S & s, const std::set<size_t> & from, std::set<size_t> & to);
static bool g_useItems24 = false;   // evaluate classes as finding F24 leaves them (only to CLASSIFY a mismatch)

static void endsAtom(const Node & n, const S & s, const std::set<size_t> & from, std::set<size_t> & to)
{
   to.clear();
   switch(n.kind)
   {
      case Node::LIT:  for (std::set<size_t>::const_iterator it=from.begin(); it!=from.end(); ++it) if ((*it < s.size())&&((unsigned char)s[*it] == n.c)) to.insert(*it+1); break;
      case Node::ONE:  for (std::set<size_t>::const_iterator it=from.begin(); it!=from.end(); ++it) if (*it < s.size()) to.insert(*it+1); break;
      case Node::RUN:  if (!from.empty()) for (size_t j=*from.begin(); j<=s.size(); j++) to.insert(j); break;
      case Node::CLASS:
         for (std::set<size_t>::const_iterator it=from.begin(); it!=from.end(); ++it) if (*it < s.size())
         {
            const int ch = (unsigned char) s[*it];
            bool in = false;
            const std::vector<std::pair<int,int> > & its = g_useItems24 ? n.items24 : n.items;
            for (size_t k=0; k<its.size(); k++) if ((its[k].first <= ch)&&(ch <= its[k].second)) in = true;
            if (in != n.neg) to.insert(*it+1);
         }
      break;
      case Node::GROUP: endsAlt(n.alt, s, from, to); break;
   }
}

static void endsAlt(const Alt & a, const S & s, const std::set<size_t> & from, std::set<size_t> & to)
{
   std::set<size_t> acc;
   for (size_t b=0; b<a.size(); b++)
   {
      std::set<size_t> cur = from, nxt;
      for (size_t k=0; k<a[b].size(); k++) {endsAtom(a[b][k], s, cur, nxt); cur.swap(nxt);}
      acc.insert(cur.begin(), cur.end());
   }
   to.swap(acc);
}

// 1 / 0 = the documentation says match / no match; *why is set to a hint for range subjects
static bool docMatch(const DocPattern & dp, const S & s, const char ** why)
{
   bool r;
   *why = NULL;
   if (dp.isRange)
   {
      r = false;
      bool digits = !s.empty();
      for (size_t i=0; i<s.size(); i++) if ((s[i] < '0')||(s[i] > '9')) digits = false;
      if (digits)
      {
         size_t z = 0; while((z+1 < s.size())&&(s[z] == '0')) z++;
         const S t = s.substr(z);
         if (t.size() <= 10)
         {
            unsigned long long v = 0; for (size_t i=0; i<t.size(); i++) v = v*10 + (unsigned long long)(t[i]-'0');
            for (size_t k=0; k<dp.ranges.size(); k++) if ((dp.ranges[k].first <= v)&&(v <= dp.ranges[k].second)) r = true;
            if (v > 4294967295ULL) *why = "range-wrap-subject";
         }
         else *why = "range-wrap-subject";
      }
      else if ((!s.empty())&&(s[0] >= '0')&&(s[0] <= '9')) *why = "range-junk-subject";
   }
   else
   {
      std::set<size_t> from, to; from.insert(0);
      endsAlt(dp.alt, s, from, to);
      r = (to.count(s.size()) > 0);
   }
   return dp.negate ? !r : r;
}

// ------------------------------------------------------------------------------------------------

struct CaseState
{
   StringMatcher own;
   StringMatcherRef pooled;
   StringMatcher * cur;
   bool sup;               // the current regex is inside the Ere model
   S pattern;              // the current pattern (simple syntax) or
   bool haveSimple;        // ... false when the state was not produced by a plain simple-syntax SetPattern
   bool isEscapeOf; S escapedFrom;
   std::set<S> fails;
   std::set<S> uniqueMatches;
   DocPattern dp; S dpFor; bool dpValid; S une;   // the documented reading of (pattern), computed once per pattern
   CaseState() : cur(&own), sup(true), haveSimple(false), isEscapeOf(false), dpValid(false) {}
};

static S flags(const StringMatcher & m, bool sup)
{
   std::ostringstream o;
   o << "g"; if (sup) o << (m._flags.IsBitSet(StringMatcher::STRINGMATCHER_FLAG_REGEXVALID)?1:0); else o << "-";
   o << ",n" << (m.IsNegate()?1:0) << ",x" << (m._flags.IsBitSet(StringMatcher::STRINGMATCHER_FLAG_CANMATCHMULTIPLEVALUES)?1:0)
     << ",v" << (m.IsPatternListOfUniqueValues()?1:0) << ",q" << (m.IsPatternUnique()?1:0) << ",s" << (m.IsSimple()?1:0) << ",r[";
   for (uint32 i=0; i<m._ranges.GetNumItems(); i++) {if (i) o << ","; o << m._ranges[i].GetMin() << "-" << m._ranges[i].GetMax();}
   o << "],p" << hexm(m.GetPattern());
   return o.str();
}

static S statics(const S & p)
{
   bool only = false;
   const bool cw = CanWildcardStringMatchMultipleValues(String(p.c_str()), &only);
   const bool cw2 = CanWildcardStringMatchMultipleValues(p.c_str());   // the one-argument form must agree
   std::ostringstream o;
   o << "esc=" << hexm(EscapeRegexTokens(String(p.c_str()))) << ",une=" << hexm(RemoveEscapeChars(String(p.c_str())))
     << ",tok=" << (HasRegexTokens(p.c_str())?1:0) << ",cw=" << ((cw&&cw2)?1:0) << "/" << (only?1:0);
   if (cw != cw2) o << "!cw-forms-disagree";
   return o.str();
}

static bool hasGnuEscape(const S & p)   // backslash + a character libc's regex gives a meaning (not the leading "\<")
{
   for (size_t j=0; j+1<p.size(); j++) if (p[j] == '\\')
   {
      if ((strchr("wWsSbB<>`'123456789", p[j+1]))&&(!((j == 0)&&(p[1] == '<')))) return true;
      j++;
   }
   return false;
}
static bool endsWithLoneBackslash(const S & p)
{
   size_t n = 0; while((n < p.size())&&(p[p.size()-1-n] == '\\')) n++;
   return (n%2) == 1;
}

static void oracle(CaseState & cs, const S & subj, bool got)
{
   StringMatcher & m = *cs.cur;
   if (!cs.haveSimple) return;
   // (1) the documented meaning
   if ((!cs.dpValid)||(cs.dpFor != cs.pattern))
   {
      cs.dp = DocPattern(); parseDoc(cs.pattern, cs.dp); cs.dpFor = cs.pattern; cs.dpValid = true;
      cs.une = S(RemoveEscapeChars(String(cs.pattern.c_str()))());
   }
   const DocPattern & dp = cs.dp;
   if (dp.documented)
   {
      const char * why = NULL;
      const bool want = docMatch(dp, subj, &why);
      if (want != got)
      {
         // which finding, if any, explains the difference?
         S cls = "doc-mismatch";
         if (dp.isRange)
         {
            if (why)
            {
               // findings F25/F26: only the leading digits are read, into a uint32 with wrap-around.  Does that explain it?
               unsigned long long v = 0; size_t i = 0;
               while((i < subj.size())&&(subj[i] >= '0')&&(subj[i] <= '9')) {v = v*10ULL + (unsigned long long)(subj[i]-'0'); i++;}   // wraps mod 2^64 like Atoull
               v &= 0xFFFFFFFFULL;
               bool r = false;
               for (size_t k=0; k<dp.ranges.size(); k++) if ((dp.ranges[k].first <= v)&&(v <= dp.ranges[k].second)) r = true;
               if ((dp.negate ? !r : r) == got) cls = why;
            }
         }
         else
         {
            bool explainedByF24 = false;
            if (dp.classMeta)
            {
               if (dp.classMetaComplex) explainedByF24 = true;   // not reproduced here
               else
               {
                  const char * w2 = NULL;
                  g_useItems24 = true;  const bool want24 = docMatch(dp, subj, &w2);  g_useItems24 = false;
                  explainedByF24 = (want24 == got);
               }
            }
            if (explainedByF24) cls = "class-meta";
            else if (dp.gnuEscape) cls = "F8-gnu-escape";
         }
         cs.fails.insert(cls + " (Match differs from the documented meaning of the pattern)");
      }
   }
   // (2) "unique" means at most one string matches, and it is RemoveEscapeChars(pattern)
   if (m.IsPatternUnique())
   {
      if (got)
      {
         cs.uniqueMatches.insert(subj);
         if ((cs.uniqueMatches.size() > 1)||(subj != cs.une))
         {
            S cls = "unique-unsound";
            if (hasGnuEscape(cs.pattern)) cls = "F8-gnu-escape";
            else if (endsWithLoneBackslash(cs.pattern)) cls = "unique-trailing-backslash";
            cs.fails.insert(cls + " (IsPatternUnique() yet a string other than RemoveEscapeChars(pattern) matches)");
         }
      }
   }
   // (3) EscapeRegexTokens(s) matches s and nothing else
   if (cs.isEscapeOf)
   {
      if (got != (subj == cs.escapedFrom))
      {
         S cls = ((!cs.escapedFrom.empty())&&(cs.escapedFrom[0] == '`')) ? "F7-escape-leading-backtick" : "escape-inexact";
         cs.fails.insert(cls + " (EscapeRegexTokens(s) does not match exactly s)");
      }
   }
}

static void run_case(int k, const S & body)
{
   CaseState cs;
   std::ostringstream o;
   std::vector<S> ops = split(body, ';');
   for (size_t n=0; n<ops.size(); n++)
   {
      if (ops[n].empty()) continue;
      std::vector<S> a = split(ops[n], ':');
      const S & c = a[0];
      if ((c == "sp")||(c == "sr")||(c == "ep")||(c == "pl"))
      {
         S p = unhex(a.size() > 1 ? a[1] : "");
         bool simple = (c != "sr");
         S marker;
         if (c == "pl") {simple = (a.size() > 2)&&(a[2] == "1"); marker = a.size() > 3 ? a[3] : "S";}
                   else marker = a.size() > 2 ? a[2] : "S";
         cs.isEscapeOf = false;
         if (c == "ep") {cs.isEscapeOf = true; cs.escapedFrom = p; p = S(EscapeRegexTokens(String(p.c_str()))());}
         if (c == "pl")
         {
            cs.pooled.Reset();                       // back to the pool: ObjectPool assigns the default object to it
            cs.pooled = GetStringMatcherFromPool();  // ... and hands a recycled object out again
            if (cs.pooled() == NULL) {printf("%d ORACLE FAIL pool returned NULL\n", k); return;}
            cs.cur = cs.pooled();
         }
         const status_t r = cs.cur->SetPattern(String(p.c_str()), simple);
         cs.sup = (marker == "S");
         cs.pattern = p; cs.haveSimple = simple; cs.uniqueMatches.clear();
         o << c << "=" << (cs.sup ? (r.IsOK() ? "ok" : "err") : "U") << "," << flags(*cs.cur, cs.sup) << "," << statics(p) << ";";
         if (c == "pl")
         {
            // the convenience form must agree with the two-step form on success/failure
            StringMatcherRef q = GetStringMatcherFromPool(String(p.c_str()), simple);
            if ((q() != NULL) != r.IsOK()) cs.fails.insert("pool-convenience-disagrees");
         }
      }
      else if (c == "as")
      {
         const S p = unhex(a.size() > 1 ? a[1] : "");
         const bool simple = (a.size() > 2)&&(a[2] == "1");
         const bool ng = (a.size() > 3)&&(a[3] == "1");
         StringMatcher tmp(String(p.c_str()), simple);
         tmp.SetNegate(ng);
         *cs.cur = tmp;
         cs.sup = ((a.size() > 4 ? a[4] : S("S")) == "S");
         cs.pattern = p; cs.haveSimple = false; cs.isEscapeOf = false; cs.uniqueMatches.clear();
         o << "as=" << flags(*cs.cur, cs.sup) << ";";
         if (!(*cs.cur == tmp)) cs.fails.insert("assign-not-equal");
      }
      else if (c == "sg")
      {
         const S p = unhex(a.size() > 1 ? a[1] : ""), subj = unhex(a.size() > 4 ? a[4] : "");
         const bool simple = (a.size() > 2)&&(a[2] == "1"), pre = (a.size() > 3)&&(a[3] == "1");
         const bool sup = ((a.size() > 5 ? a[5] : S("S")) == "S");
         SegmentedStringMatcher g;
         const status_t r = g.SetPattern(String(p.c_str()), simple);
         const bool got = g.Match(subj.c_str(), pre);
         if (sup) o << "sg=" << (r.IsOK()?"ok":"err") << ",n" << (g.IsNegate()?1:0) << ",q" << (g.IsPatternUnique()?1:0) << ",k" << g._segments.GetNumItems() << ",m" << (got?1:0) << ";";
             else o << "sg=U;";
         // the documented behaviour, with a fresh StringMatcher per segment: both strings are cut at '/' (empty pieces dropped)
         // and matched piece by piece ("*" pieces match anything); with prefixMatchOkay the subject may have more pieces
         if ((simple)&&(r.IsOK()))
         {
            S body = p; bool neg = false;
            if ((!body.empty())&&(body[0] == '~')) {neg = true; body = body.substr(1);}
            std::vector<S> ps = split(body, '/'), ss = split(subj, '/'), pp, sp2;
            for (size_t i=0; i<ps.size(); i++) if (!ps[i].empty()) pp.push_back(ps[i]);
            for (size_t i=0; i<ss.size(); i++) if (!ss[i].empty()) sp2.push_back(ss[i]);
            bool want = pre ? (pp.size() <= sp2.size()) : (pp.size() == sp2.size());
            for (size_t i=0; (want)&&(i<pp.size()); i++) if (pp[i] != "*") {StringMatcher f(String(pp[i].c_str())); if (!f.Match(sp2[i].c_str())) want = false;}
            if ((neg ? !want : want) != got) cs.fails.insert("glue-mismatch (SegmentedStringMatcher differs from piecewise matching)");
         }
      }
      else if (c == "pm")
      {
         const S p = unhex(a.size() > 1 ? a[1] : ""), subj = unhex(a.size() > 2 ? a[2] : "");
         const bool sup = ((a.size() > 3 ? a[3] : S("S")) == "S");
         PathMatcher pm;
         const status_t r = pm.PutPathString(String(p.c_str()), ConstQueryFilterRef());
         const bool got = pm.MatchesPath(subj.c_str(), NULL, NULL);
         uint32 k = 0;
         for (ConstHashtableIterator<uint32, Hashtable<String, PathMatcherEntry> > it(pm.GetEntries()); it.HasData(); it++) k = it.GetKey();
         if (sup) o << "pm=" << (r.IsOK()?"ok":"err") << ",k" << k << ",d" << GetPathDepth(subj.c_str()) << ",m" << (got?1:0) << ";";
             else o << "pm=U;";
         // piecewise with fresh matchers: the subject (without one leading '/') is cut at EVERY '/' (empty pieces included,
         // the empty path has none -- the same way PutPathString() cuts the pattern) and must have as many pieces as the
         // pattern has clauses.  For well-formed node paths (no empty clause) this is the only reading there is.
         if (r.IsOK())
         {
            std::vector<S> pc = split(p, '/');
            S sj = subj; if ((!sj.empty())&&(sj[0] == '/')) sj = sj.substr(1);
            std::vector<S> sc; if (!sj.empty()) sc = split(sj, '/');
            bool want = (sc.size() == pc.size());
            for (size_t i=0; (want)&&(i<pc.size()); i++) if (pc[i] != "*") {StringMatcher f(String(pc[i].c_str())); if (!f.Match(sc[i].c_str())) want = false;}
            if (want != got) cs.fails.insert("glue-mismatch (PathMatcher::MatchesPath differs from clause-by-clause matching)");
         }
      }
      else if (c == "ng") {cs.cur->SetNegate((a.size() > 1)&&(a[1] == "1")); cs.haveSimple = false; o << "ng=" << flags(*cs.cur, cs.sup) << ";";}
      else if (c == "rs") {cs.cur->Reset(); cs.sup = true; cs.haveSimple = false; cs.isEscapeOf = false; o << "rs=" << flags(*cs.cur, cs.sup) << ";";}
      else if (c == "m")
      {
         const S s = unhex(a.size() > 1 ? a[1] : "");
         const bool got = cs.cur->Match(s.c_str());
         if (cs.sup) o << "m=" << (got?1:0) << ";"; else o << "m=-;";
         oracle(cs, s, got);
      }
      else if (c == "e")
      {
         std::vector<S> subs; enumerate(unhex(a.size() > 1 ? a[1] : ""), atoi(a.size() > 2 ? a[2].c_str() : "0"), subs);
         S bits;
         for (size_t i=0; i<subs.size(); i++)
         {
            const bool got = cs.cur->Match(subs[i].c_str());
            bits += got ? '1' : '0';
            oracle(cs, subs[i], got);
         }
         if (cs.sup) o << "e=" << bits << ";"; else o << "e=-;";
      }
      else o << "?" << ops[n] << ";";
   }
   printf("%d %s\n", k, o.str().c_str());
   for (std::set<S>::const_iterator it=cs.fails.begin(); it!=cs.fails.end(); ++it) printf("%d ORACLE FAIL %s\n", k, it->c_str());
   fflush(stdout);
}

int main()
{
   CompleteSetupSystem css;
   S line;
   int k = 0;
   while(std::getline(std::cin, line))
   {
      const size_t p = line.find('|');
      if (p != S::npos) run_case(k, line.substr(p+1));
      k++;
   }
   return 0;
}
