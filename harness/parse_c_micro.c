/* C02: compiles lang/c/micromessage as C (not C++).  MicroMessage.c and MiniMessage.c both define the same
   non-static compile-time-assertion arrays; they are renamed here so both libraries link into one harness. */
#define int8_is_1_byte_assertion    um_int8_is_1_byte_assertion
#define uint8_is_1_byte_assertion   um_uint8_is_1_byte_assertion
#define int16_is_2_bytes_assertion  um_int16_is_2_bytes_assertion
#define uint16_is_2_bytes_assertion um_uint16_is_2_bytes_assertion
#define int32_is_4_bytes_assertion  um_int32_is_4_bytes_assertion
#define uint32_is_4_bytes_assertion um_uint32_is_4_bytes_assertion
#define float_is_4_bytes_assertion  um_float_is_4_bytes_assertion
#define int64_is_8_bytes_assertion  um_int64_is_8_bytes_assertion
#define uint64_is_8_bytes_assertion um_uint64_is_8_bytes_assertion
#define double_is_8_bytes_assertion um_double_is_8_bytes_assertion
#include "lang/c/micromessage/MicroMessage.c"
