// C01 harness: runs operation scripts against muscle::Message through its public API (8 Message
// registers), then prints for register 0: status of every operation, the field table with the internal
// representation state of every field, FlattenedSize + flattened bytes, checksums, the result of
// UnflattenFromBytes, re-flattened bytes, and operator== results -- in the same canonical text as the
// extracted Coq model (ocaml/msg_driver.ml).  Independently of the model it evaluates the property's own
// statement on the implementation (ORACLE FAIL lines): parsed Message has the same content (compared item
// by item through the public Find* API, bit for bit), re-serialises to the same bytes, same size, same
// checksum, and equality is unchanged by the trip.
#include <stdio.h>
#include <stdlib.h>
#include <string.h>
#include <string>
#include <vector>
#include <map>
#include <sstream>
#include <iostream>

#define private public
#define protected public
#include "message/Message.h"
#undef private
#undef protected
#include "system/SetupSystem.h"
#include "util/ByteBuffer.h"

using namespace muscle;

class DummyTag : public RefCountable {public: DummyTag() {}};

static std::vector<std::string> split(const std::string & s, char c)
{
   std::vector<std::string> r; std::string cur;
   for (size_t i=0; i<s.size(); i++) {if (s[i]==c) {r.push_back(cur); cur.clear();} else cur += s[i];}
   r.push_back(cur);
   return r;
}
static int hexval(char c) {return (c>='0'&&c<='9')?(c-'0'):((c>='a'&&c<='f')?(c-'a'+10):((c>='A'&&c<='F')?(c-'A'+10):0));}
static std::vector<uint8> unhex(const std::string & s)
{
   std::vector<uint8> r;
   for (size_t i=0; i+1<s.size(); i+=2) r.push_back((uint8)((hexval(s[i])<<4)|hexval(s[i+1])));
   return r;
}
static std::string hex(const uint8 * p, size_t n)
{
   static const char * d = "0123456789abcdef";
   std::string r; r.reserve(n*2);
   for (size_t i=0; i<n; i++) {r += d[p[i]>>4]; r += d[p[i]&15];}
   return r;
}
static String mkstr(const std::vector<uint8> & v)   // byte-exact String (embedded NULs possible: stream "n")
{
   String s;
   for (size_t i=0; i<v.size(); i++) s += (char) v[i];
   return s;
}
static std::string bytestr(const std::vector<uint8> & v) {return v.empty() ? std::string() : std::string((const char *) &v[0], v.size());}
static const uint8 * dataptr(const std::vector<uint8> & v) {static const uint8 z = 0; return v.empty() ? &z : &v[0];}

static std::map<uint64, RefCountableRef> g_tags;
static RefCountableRef tagref(uint64 id)
{
   std::map<uint64, RefCountableRef>::iterator it = g_tags.find(id);
   if (it != g_tags.end()) return it->second;
   RefCountableRef r(new DummyTag);
   g_tags[id] = r;
   return r;
}

static void unshare(Message & m);
static MessageRef deep_clone(const Message & s)
{
   MessageRef c = GetMessageFromPool(s);
   if (c()) unshare(*c());
   return c;
}
// Message::operator= clones field arrays but the clones still reference the same sub-Message objects;
// Message::operator== short-cuts on object identity, which the model (values only) does not have.
static void unshare(Message & m)
{
   std::vector<String> names;
   for (MessageFieldNameIterator it = m.GetFieldNameIterator(B_MESSAGE_TYPE); it.HasData(); it++) names.push_back(it.GetFieldName());
   for (size_t n=0; n<names.size(); n++)
   {
      const uint32 c = m.GetNumValuesInName(names[n], B_MESSAGE_TYPE);
      for (uint32 i=0; i<c; i++)
      {
         MessageRef sub;
         if (m.FindMessage(names[n], i, sub).IsOK() && sub()) (void) m.ReplaceMessage(false, names[n], i, deep_clone(*sub()));
      }
   }
}

static bool is_raw_code(uint32 tc) {return (Message::GetElementSize(tc) == 0)&&(tc != B_STRING_TYPE)&&(tc != B_ANY_TYPE);}

// t: type letter; v: item bytes.  idx/okToAdd only for mode 'r'.
static bool typed_op(Message & m, char mode, const String & fn, const std::string & t, const std::vector<uint8> & v, uint32 idx, bool oka)
{
   #define NEED(n) if (v.size() != (n)) {fprintf(stderr, "bad width for type %s\n", t.c_str()); exit(2);}
   #define DO3(Add, Prepend, Replace, val) ((mode=='a') ? m.Add(fn, val) : ((mode=='p') ? m.Prepend(fn, val) : m.Replace(oka, fn, idx, val))).IsOK()
   if (t == "b") {if (v.empty()) return false; const bool b = (v[0] != 0); return DO3(AddBool, PrependBool, ReplaceBool, b);}
   if (t == "c") {NEED(1); int8 x;   memcpy(&x, &v[0], 1); return DO3(AddInt8,   PrependInt8,   ReplaceInt8,   x);}
   if (t == "h") {NEED(2); int16 x;  memcpy(&x, &v[0], 2); return DO3(AddInt16,  PrependInt16,  ReplaceInt16,  x);}
   if (t == "i") {NEED(4); int32 x;  memcpy(&x, &v[0], 4); return DO3(AddInt32,  PrependInt32,  ReplaceInt32,  x);}
   if (t == "l") {NEED(8); int64 x;  memcpy(&x, &v[0], 8); return DO3(AddInt64,  PrependInt64,  ReplaceInt64,  x);}
   if (t == "f") {NEED(4); float x;  memcpy(&x, &v[0], 4); return DO3(AddFloat,  PrependFloat,  ReplaceFloat,  x);}
   if (t == "d") {NEED(8); double x; memcpy(&x, &v[0], 8); return DO3(AddDouble, PrependDouble, ReplaceDouble, x);}
   if (t == "P") {NEED(8);  Point p; memcpy(&p[0], &v[0], 8);  return DO3(AddPoint, PrependPoint, ReplacePoint, p);}
   if (t == "R") {NEED(16); Rect r;  memcpy(&r[0], &v[0], 16); return DO3(AddRect,  PrependRect,  ReplaceRect,  r);}
   if (t == "s") {const String s = mkstr(v); return DO3(AddString, PrependString, ReplaceString, s);}
   if (t == "o") {uint64 id = 0; for (size_t i=0; i<v.size(); i++) id = (id<<8)|v[i]; const void * p = (const void *)(uintptr_t)id; return DO3(AddPointer, PrependPointer, ReplacePointer, p);}
   if (t == "g") {uint64 id = 0; for (size_t i=0; i<v.size(); i++) id = (id<<8)|v[i]; RefCountableRef r = tagref(id); return DO3(AddTag, PrependTag, ReplaceTag, r);}
   if (t == "X")
   {
      if (mode == 'r') return m.ReplaceData(oka, fn, B_RAW_TYPE, idx, dataptr(v), (uint32)v.size()).IsOK();
      FlatCountableRef fc(GetByteBufferFromPool((uint32)v.size(), dataptr(v)));
      return ((mode=='a') ? m.AddFlat(fn, fc) : m.PrependFlat(fn, fc)).IsOK();
   }
   if (t == "F")
   {
      FlatCountableRef fc(GetByteBufferFromPool((uint32)v.size(), dataptr(v)));
      return ((mode=='a') ? m.AddFlat(fn, fc) : ((mode=='p') ? m.PrependFlat(fn, fc) : m.ReplaceFlat(oka, fn, idx, fc))).IsOK();
   }
   if ((t.size() > 1)&&(t[0] == 'x'))
   {
      const uint32 tc = (uint32) strtoul(t.c_str()+1, NULL, 10);
      if (!is_raw_code(tc)) return false;   // AddData on a typed code is a different operation: not generated
      if (mode == 'a') return m.AddData(fn, tc, dataptr(v), (uint32)v.size()).IsOK();
      if (mode == 'p') return m.PrependData(fn, tc, dataptr(v), (uint32)v.size()).IsOK();
      return m.ReplaceData(oka, fn, tc, idx, dataptr(v), (uint32)v.size()).IsOK();
   }
   fprintf(stderr, "bad type [%s]\n", t.c_str()); exit(2);
}

static std::string desc(const Message & m)
{
   std::ostringstream o;
   o << m.what << "/" << m._entries.GetNumItems() << "[";
   bool first = true;
   for (ConstHashtableIterator<String, muscle_private::MessageField> it(m._entries); it.HasData(); it++)
   {
      if (!first) o << ",";
      first = false;
      const muscle_private::MessageField & mf = it.GetValue();
      o << hex((const uint8 *) it.GetKey()(), it.GetKey().Length()) << ":" << mf._typeCode << ":" << mf.GetNumItems() << ":"
        << ((mf._state == muscle_private::MessageField::FIELD_STATE_INLINE) ? "I" : ((mf._state == muscle_private::MessageField::FIELD_STATE_ARRAY) ? "A" : "E"));
   }
   o << "]";
   return o.str();
}

// ---- the oracle's own comparison of two Messages through the public API (bit-identical contents) ----
static bool flattenable_type(uint32 tc) {return (tc != B_POINTER_TYPE)&&(tc != B_TAG_TYPE);}

static bool has_nonflattenable(const Message & m)
{
   for (MessageFieldNameIterator it = m.GetFieldNameIterator(); it.HasData(); it++)
   {
      uint32 tc = 0, c = 0;
      if (m.GetInfo(it.GetFieldName(), &tc, &c).IsError()) return true;
      if (!flattenable_type(tc)) return true;
      if (tc == B_MESSAGE_TYPE)
         for (uint32 i=0; i<c; i++) {MessageRef s; if (m.FindMessage(it.GetFieldName(), i, s).IsOK() && s() && has_nonflattenable(*s())) return true;}
   }
   return false;
}

static bool same_content(const Message & a, const Message & b, std::string & why)   // a = original, b = parsed
{
   if (a.what != b.what) {why = "what-code differs"; return false;}
   std::vector<String> an, bn;
   for (MessageFieldNameIterator it = a.GetFieldNameIterator(); it.HasData(); it++)
   {
      uint32 tc = 0; (void) a.GetInfo(it.GetFieldName(), &tc);
      if (flattenable_type(tc)) an.push_back(it.GetFieldName());
   }
   for (MessageFieldNameIterator it = b.GetFieldNameIterator(); it.HasData(); it++) bn.push_back(it.GetFieldName());
   if (an.size() != bn.size()) {why = "number of fields differs"; return false;}
   for (size_t n=0; n<an.size(); n++)
   {
      if ((an[n].Length() != bn[n].Length())||(memcmp(an[n](), bn[n](), an[n].Length()) != 0)) {why = "field name/order differs"; return false;}
      uint32 ta = 0, tb = 0, ca = 0, cb = 0;
      if (a.GetInfo(an[n], &ta, &ca).IsError() || b.GetInfo(bn[n], &tb, &cb).IsError()) {why = "GetInfo failed"; return false;}
      if (ta != tb) {why = "type code differs"; return false;}
      if (ca != cb) {why = "item count differs"; return false;}
      for (uint32 i=0; i<ca; i++)
      {
         if (ta == B_MESSAGE_TYPE)
         {
            MessageRef sa, sb;
            if (a.FindMessage(an[n], i, sa).IsError() || b.FindMessage(bn[n], i, sb).IsError() || (sa() == NULL) || (sb() == NULL)) {why = "FindMessage failed"; return false;}
            if (!same_content(*sa(), *sb(), why)) {why = "sub-Message: " + why; return false;}
         }
         else if (ta == B_STRING_TYPE)
         {
            const String * pa = NULL; const String * pb = NULL;
            if (a.FindString(an[n], i, &pa).IsError() || b.FindString(bn[n], i, &pb).IsError()) {why = "FindString failed"; return false;}
            if ((pa->Length() != pb->Length())||(memcmp(pa->Cstr(), pb->Cstr(), pa->Length()) != 0)) {why = "string item differs"; return false;}
         }
         else if (Message::GetElementSize(ta) == 0)   // raw field (ByteBuffer items, possibly of length zero)
         {
            FlatCountableRef fa, fb;
            if (a.FindFlat(an[n], i, fa).IsError() || b.FindFlat(bn[n], i, fb).IsError()) {why = "FindFlat failed"; return false;}
            const ByteBuffer * ba = dynamic_cast<const ByteBuffer *>(fa());
            const ByteBuffer * bb = dynamic_cast<const ByteBuffer *>(fb());
            if ((ba == NULL)||(bb == NULL)) {why = "raw item is not a ByteBuffer"; return false;}
            if ((ba->GetNumBytes() != bb->GetNumBytes())||((ba->GetNumBytes() > 0)&&(memcmp(ba->GetBuffer(), bb->GetBuffer(), ba->GetNumBytes()) != 0))) {why = "raw item bytes differ"; return false;}
         }
         else
         {
            const void * da = NULL; const void * db = NULL; uint32 sa = 0, sb = 0;
            if (a.FindData(an[n], ta, i, &da, &sa).IsError() || b.FindData(bn[n], tb, i, &db, &sb).IsError()) {why = "FindData failed"; return false;}
            if ((sa != sb)||((sa > 0)&&(memcmp(da, db, sa) != 0))) {why = "item bytes differ"; return false;}
         }
      }
   }
   return true;
}


// =====================================================================================================
// The harness's own IDEAL Message (independent of the Coq model): an ordered list of fields, each a type
// code and a plain vector of items.  Every script operation is applied to it with the semantics the API
// documents (add/prepend/replace/remove on a vector; a replace or remove at an invalid index fails and
// changes nothing; a name holds one type), and after EVERY operation the real Message must report the same
// status and, through the public Find* API, the same content.
struct IMsg;
struct IItem
{
   int kind;                    // 0 = leaf bytes, 1 = sub-Message, 2 = pointer/tag identity
   std::vector<uint8> bytes;
   IMsg * sub;
   uint64 id;
   IItem() : kind(0), sub(NULL), id(0) {}
   IItem(const IItem & r);
   IItem & operator=(const IItem & r);
   ~IItem();
};
struct IField {std::string name; uint32 tc; std::vector<IItem> items;};
struct IMsg {uint32 what; std::vector<IField> fields; IMsg() : what(0) {}};
IItem::IItem(const IItem & r) : kind(r.kind), bytes(r.bytes), sub(r.sub ? new IMsg(*r.sub) : NULL), id(r.id) {}
IItem & IItem::operator=(const IItem & r) {if (this != &r) {IMsg * n = r.sub ? new IMsg(*r.sub) : NULL; delete sub; sub = n; kind = r.kind; bytes = r.bytes; id = r.id;} return *this;}
IItem::~IItem() {delete sub;}

static int ifind(const IMsg & m, const std::string & name) {for (size_t i=0; i<m.fields.size(); i++) if (m.fields[i].name == name) return (int) i; return -1;}

static bool iadd(IMsg & m, bool prepend, const std::string & name, uint32 tc, const IItem & it)
{
   int f = ifind(m, name);
   if (f < 0) {IField nf; nf.name = name; nf.tc = tc; nf.items.push_back(it); m.fields.push_back(nf); return true;}
   if (m.fields[f].tc != tc) return false;
   if (prepend) m.fields[f].items.insert(m.fields[f].items.begin(), it); else m.fields[f].items.push_back(it);
   return true;
}
static bool ireplace(IMsg & m, bool oka, const std::string & name, uint32 tc, uint32 idx, const IItem & it)
{
   int f = ifind(m, name);
   const bool typed = (f >= 0)&&(m.fields[f].tc == tc);
   if (oka && ((!typed)||(idx >= m.fields[f].items.size()))) return iadd(m, false, name, tc, it);
   if ((!typed)||(idx >= m.fields[f].items.size())) return false;
   m.fields[f].items[idx] = it;
   return true;
}
static bool iremove_data(IMsg & m, const std::string & name, uint32 idx)
{
   int f = ifind(m, name);
   if ((f < 0)||(idx >= m.fields[f].items.size())) return false;
   m.fields[f].items.erase(m.fields[f].items.begin()+idx);
   if (m.fields[f].items.empty()) m.fields.erase(m.fields.begin()+f);
   return true;
}
static bool iremove_name(IMsg & m, const std::string & name)
{
   int f = ifind(m, name);
   if (f < 0) return false;
   m.fields.erase(m.fields.begin()+f);
   return true;
}
static bool irename(IMsg & m, const std::string & o, const std::string & n)
{
   if (o == n) return true;
   int f = ifind(m, o);
   if (f < 0) return false;
   IField moved = m.fields[f]; moved.name = n;
   m.fields.erase(m.fields.begin()+f);
   int g = ifind(m, n);
   if (g >= 0) m.fields[g] = moved; else m.fields.push_back(moved);
   return true;
}
static bool imove(IMsg & m, bool front, const std::string & name)
{
   int f = ifind(m, name);
   if (f < 0) return false;
   IField fld = m.fields[f];
   m.fields.erase(m.fields.begin()+f);
   if (front) m.fields.insert(m.fields.begin(), fld); else m.fields.push_back(fld);
   return true;
}
static bool icopy_name(IMsg & m, const std::string & o, const std::string & n)
{
   if (o == n) return true;
   int f = ifind(m, o);
   if (f < 0) return false;
   IField c = m.fields[f]; c.name = n;
   int g = ifind(m, n);
   if (g >= 0) m.fields[g] = c; else m.fields.push_back(c);
   return true;
}
static void istrip(IMsg & m)   // what a serialisation round trip keeps
{
   for (size_t i=0; i<m.fields.size(); )
   {
      if (!((m.fields[i].tc != B_POINTER_TYPE)&&(m.fields[i].tc != B_TAG_TYPE))) {m.fields.erase(m.fields.begin()+i); continue;}
      for (size_t j=0; j<m.fields[i].items.size(); j++) if (m.fields[i].items[j].sub) istrip(*m.fields[i].items[j].sub);
      i++;
   }
}

static uint64 tag_id_of(const RefCountableRef & r)
{
   for (std::map<uint64, RefCountableRef>::const_iterator it = g_tags.begin(); it != g_tags.end(); ++it) if (it->second() == r()) return it->first;
   return (uint64) -1;
}

// the real Message, read back through the public API, against the ideal one
static bool same_as_ideal(const Message & a, const IMsg & b, std::string & why)
{
   if (a.what != b.what) {why = "what-code"; return false;}
   size_t n = 0;
   for (MessageFieldNameIterator it = a.GetFieldNameIterator(); it.HasData(); it++, n++)
   {
      if (n >= b.fields.size()) {why = "more fields than the ideal Message"; return false;}
      const String & fn = it.GetFieldName();
      const IField & f = b.fields[n];
      if ((fn.Length() != f.name.size())||(memcmp(fn(), f.name.data(), f.name.size()) != 0)) {why = "field name/order"; return false;}
      uint32 tc = 0, c = 0;
      if (a.GetInfo(fn, &tc, &c).IsError()) {why = "GetInfo"; return false;}
      if (tc != f.tc) {why = "type code"; return false;}
      if (c != f.items.size()) {why = "item count"; return false;}
      for (uint32 i=0; i<c; i++)
      {
         const IItem & ii = f.items[i];
         if (tc == B_MESSAGE_TYPE)
         {
            MessageRef s;
            if (a.FindMessage(fn, i, s).IsError() || (s() == NULL) || (ii.sub == NULL)) {why = "FindMessage"; return false;}
            if (!same_as_ideal(*s(), *ii.sub, why)) {why = "sub-Message: " + why; return false;}
         }
         else if (tc == B_STRING_TYPE)
         {
            const String * ps = NULL;
            if (a.FindString(fn, i, &ps).IsError()) {why = "FindString"; return false;}
            if ((ps->Length() != ii.bytes.size())||((ii.bytes.size() > 0)&&(memcmp(ps->Cstr(), &ii.bytes[0], ii.bytes.size()) != 0))) {why = "string item"; return false;}
         }
         else if (tc == B_POINTER_TYPE)
         {
            void * p = NULL;
            if (a.FindPointer(fn, i, p).IsError()) {why = "FindPointer"; return false;}
            if ((uint64)(uintptr_t) p != ii.id) {why = "pointer item"; return false;}
         }
         else if (ii.kind == 2)   // tag object
         {
            RefCountableRef r;
            if (a.FindTag(fn, i, r).IsError()) {why = "FindTag"; return false;}
            if (tag_id_of(r) != ii.id) {why = "tag item"; return false;}
         }
         else if (Message::GetElementSize(tc) == 0)
         {
            FlatCountableRef fc;
            if (a.FindFlat(fn, i, fc).IsError()) {why = "FindFlat"; return false;}
            const ByteBuffer * bb = dynamic_cast<const ByteBuffer *>(fc());
            if (bb == NULL) {why = "raw item is not a ByteBuffer"; return false;}
            if ((bb->GetNumBytes() != ii.bytes.size())||((ii.bytes.size() > 0)&&(memcmp(bb->GetBuffer(), &ii.bytes[0], ii.bytes.size()) != 0))) {why = "raw item"; return false;}
         }
         else
         {
            const void * d = NULL; uint32 sz = 0;
            if (a.FindData(fn, tc, i, &d, &sz).IsError()) {why = "FindData"; return false;}
            if ((sz != ii.bytes.size())||(memcmp(d, &ii.bytes[0], sz) != 0)) {why = "item bytes"; return false;}
         }
      }
   }
   if (n != b.fields.size()) {why = "fewer fields than the ideal Message"; return false;}
   return true;
}

// the ideal counterpart of typed_op: the item a typed entry point stores, or no item when the entry point refuses the argument
static bool ideal_item(const std::string & t, const std::vector<uint8> & v, char mode, uint32 & tc, IItem & it)
{
   it = IItem();
   if (t == "b") {if (v.empty()) return false; tc = B_BOOL_TYPE; it.bytes.push_back(v[0] ? 1 : 0); return true;}
   if (t == "c") {tc = B_INT8_TYPE;   it.bytes = v; return true;}
   if (t == "h") {tc = B_INT16_TYPE;  it.bytes = v; return true;}
   if (t == "i") {tc = B_INT32_TYPE;  it.bytes = v; return true;}
   if (t == "l") {tc = B_INT64_TYPE;  it.bytes = v; return true;}
   if (t == "f") {tc = B_FLOAT_TYPE;  it.bytes = v; return true;}
   if (t == "d") {tc = B_DOUBLE_TYPE; it.bytes = v; return true;}
   if (t == "P") {tc = B_POINT_TYPE;  it.bytes = v; return true;}
   if (t == "R") {tc = B_RECT_TYPE;   it.bytes = v; return true;}
   if (t == "s") {tc = B_STRING_TYPE; it.bytes = v; return true;}
   if ((t == "o")||(t == "g")) {tc = (t == "o") ? B_POINTER_TYPE : B_TAG_TYPE; it.kind = 2; it.id = 0; for (size_t i=0; i<v.size(); i++) it.id = (it.id<<8)|v[i]; return true;}
   if (t == "X") {tc = B_RAW_TYPE; it.bytes = v; return !((mode == 'r')&&(v.empty()));}     // ReplaceData cannot store an empty item
   if (t == "F") {tc = B_RAW_TYPE; it.bytes = v; return true;}                                // Add/Prepend/ReplaceFlat(ByteBufferRef)
   if ((t.size() > 1)&&(t[0] == 'x'))
   {
      tc = (uint32) strtoul(t.c_str()+1, NULL, 10);
      it.bytes = v;
      return is_raw_code(tc) && !v.empty();                                                    // AddData/ReplaceData of zero bytes is refused
   }
   return false;
}

// ---- templated codec (stream "t"): shape test through the public API, the same definition as same_shape in Msg/TmplModel.v
static bool same_shape(const Message & t, const Message & p)
{
   std::vector<String> tn, pn;
   for (MessageFieldNameIterator it = t.GetFieldNameIterator(); it.HasData(); it++) {uint32 tc = 0; (void) t.GetInfo(it.GetFieldName(), &tc); if (flattenable_type(tc)) tn.push_back(it.GetFieldName());}
   for (MessageFieldNameIterator it = p.GetFieldNameIterator(); it.HasData(); it++) {uint32 tc = 0; (void) p.GetInfo(it.GetFieldName(), &tc); if (flattenable_type(tc)) pn.push_back(it.GetFieldName());}
   if (tn.size() != pn.size()) return false;
   for (size_t i=0; i<tn.size(); i++)
   {
      if ((tn[i].Length() != pn[i].Length())||(memcmp(tn[i](), pn[i](), tn[i].Length()) != 0)) return false;
      uint32 tt = 0, tp = 0, ct = 0, cp = 0;
      if (t.GetInfo(tn[i], &tt, &ct).IsError() || p.GetInfo(pn[i], &tp, &cp).IsError()) return false;
      if ((tt != tp)||(ct != cp)) return false;
      if (tt == B_MESSAGE_TYPE)
         for (uint32 j=0; j<ct; j++)
         {
            MessageRef a, b;
            if (t.FindMessage(tn[i], j, a).IsError() || p.FindMessage(pn[i], j, b).IsError() || (a() == NULL) || (b() == NULL)) return false;
            if (!same_shape(*a(), *b())) return false;
         }
   }
   return true;
}

// ---- what TemplatedFlatten(T) of p must describe, per Message.h ("Only fields whose counterparts are present in
// (templateMsg) will be written ... If a field is present in (templateMsg) but not in (this Message), then the values from
// (templateMsg) will be written") and MessageField::TemplatedFlatten ("the payload-field-values when possible, with
// template-field's values used to pad out"): u has T's flattenable fields, in T's order and with T's item counts; item i
// of a field comes from p when p has that field with the same type code and more than i items, else from T.
static bool leaf_item_eq(const Message & a, const String & fn, uint32 ia, const Message & b, uint32 ib, uint32 tc, std::string & why)
{
   if (tc == B_STRING_TYPE)
   {
      const String * pa = NULL; const String * pb = NULL;
      if (a.FindString(fn, ia, &pa).IsError() || b.FindString(fn, ib, &pb).IsError()) {why = "FindString failed"; return false;}
      if ((pa->Length() != pb->Length())||(memcmp(pa->Cstr(), pb->Cstr(), pa->Length()) != 0)) {why = "string item differs"; return false;}
   }
   else if (Message::GetElementSize(tc) == 0)
   {
      FlatCountableRef fa, fb;
      if (a.FindFlat(fn, ia, fa).IsError() || b.FindFlat(fn, ib, fb).IsError()) {why = "FindFlat failed"; return false;}
      const ByteBuffer * ba = dynamic_cast<const ByteBuffer *>(fa());
      const ByteBuffer * bb = dynamic_cast<const ByteBuffer *>(fb());
      if ((ba == NULL)||(bb == NULL)) {why = "raw item is not a ByteBuffer"; return false;}
      if ((ba->GetNumBytes() != bb->GetNumBytes())||((ba->GetNumBytes() > 0)&&(memcmp(ba->GetBuffer(), bb->GetBuffer(), ba->GetNumBytes()) != 0))) {why = "raw item bytes differ"; return false;}
   }
   else
   {
      const void * da = NULL; const void * db = NULL; uint32 sa = 0, sb = 0;
      if (a.FindData(fn, tc, ia, &da, &sa).IsError() || b.FindData(fn, tc, ib, &db, &sb).IsError()) {why = "FindData failed"; return false;}
      if ((sa != sb)||((sa > 0)&&(memcmp(da, db, sa) != 0))) {why = "item bytes differ"; return false;}
   }
   return true;
}

static bool same_as_merge(const Message & T, const Message & p, const Message & u, std::string & why)
{
   if (u.what != p.what) {why = "what-code is not the payload's"; return false;}
   std::vector<String> tn, un;
   for (MessageFieldNameIterator it = T.GetFieldNameIterator(); it.HasData(); it++) {uint32 tc = 0; (void) T.GetInfo(it.GetFieldName(), &tc); if (flattenable_type(tc)) tn.push_back(it.GetFieldName());}
   for (MessageFieldNameIterator it = u.GetFieldNameIterator(); it.HasData(); it++) un.push_back(it.GetFieldName());
   if (tn.size() != un.size()) {why = "number of fields is not the template's"; return false;}
   for (size_t n=0; n<tn.size(); n++)
   {
      const String & fn = tn[n];
      if ((fn.Length() != un[n].Length())||(memcmp(fn(), un[n](), fn.Length()) != 0)) {why = "field name/order is not the template's"; return false;}
      uint32 tt = 0, ct = 0, tu = 0, cu = 0, tp = 0, cp = 0;
      if (T.GetInfo(fn, &tt, &ct).IsError() || u.GetInfo(fn, &tu, &cu).IsError()) {why = "GetInfo failed"; return false;}
      if (tt != tu) {why = "type code is not the template's"; return false;}
      if (ct != cu) {why = "item count is not the template's"; return false;}
      const bool have = p.GetInfo(fn, &tp, &cp).IsOK() && (tp == tt);
      for (uint32 i=0; i<ct; i++)
      {
         const Message & src = (have && (i < cp)) ? p : T;
         if (tt == B_MESSAGE_TYPE)
         {
            MessageRef st, ss, su;
            if (T.FindMessage(fn, i, st).IsError() || src.FindMessage(fn, i, ss).IsError() || u.FindMessage(fn, i, su).IsError() || (st() == NULL) || (ss() == NULL) || (su() == NULL)) {why = "FindMessage failed"; return false;}
            if (!same_as_merge(*st(), *ss(), *su(), why)) {why = "sub-Message: " + why; return false;}
         }
         else if (!leaf_item_eq(src, fn, i, u, i, tt, why)) {why = std::string((&src == &p) ? "payload" : "template") + " item lost: " + why; return false;}
      }
   }
   return true;
}

// every field of every level holds at least one item (true of every Message the API builds)
static bool no_empty_fields(const Message & m)
{
   for (MessageFieldNameIterator it = m.GetFieldNameIterator(); it.HasData(); it++)
   {
      uint32 tc = 0, c = 0;
      if (m.GetInfo(it.GetFieldName(), &tc, &c).IsError() || (c == 0)) return false;
      if (tc == B_MESSAGE_TYPE) for (uint32 i=0; i<c; i++) {MessageRef s; if (m.FindMessage(it.GetFieldName(), i, s).IsError() || (s() == NULL) || !no_empty_fields(*s())) return false;}
   }
   return true;
}

// deterministic byte mutation shared with ocaml/msg_driver.ml (stream "g": parsing bytes that Flatten did NOT produce)
static uint32 g_lcg;
static uint32 lcg_next() {g_lcg = (uint32)((((uint64) g_lcg) * 1103515245ULL + 12345ULL) & 0x7fffffffULL); return g_lcg >> 12;}
static void mutate(std::vector<uint8> & b, uint32 seed)
{
   g_lcg = seed & 0x7fffffff;
   const uint32 nmut = 1 + (lcg_next() % 2);
   for (uint32 m=0; m<nmut; m++)
   {
      const uint32 len = (uint32) b.size();
      const uint32 kind = lcg_next() % 6;
      if (kind == 0) b.resize(lcg_next() % (len+1));
      else if (kind == 1) {if (len > 0) {const uint32 pos = lcg_next() % len; b[pos] ^= (uint8)(1u << (lcg_next() % 8));}}
      else if (kind == 2) {if (len > 0) {const uint32 pos = lcg_next() % len; b[pos] = (uint8)(lcg_next() % 256);}}
      else if (kind == 3)
      {
         if (len >= 4)
         {
            const uint32 pos = lcg_next() % (len-3);
            const uint32 tab[10] = {0, 1, 2, 0xffffffffu, 0x7fffffffu, len, len-pos, 0x80000000u, 12, 13};
            const uint32 v = tab[lcg_next() % 10];
            b[pos] = v & 255; b[pos+1] = (v>>8) & 255; b[pos+2] = (v>>16) & 255; b[pos+3] = (v>>24) & 255;
         }
      }
      else if (kind == 4) {if (len >= 4) {const uint32 pos = lcg_next() % (len-3); std::vector<uint8> d(b.begin()+pos, b.begin()+pos+4); b.insert(b.begin()+pos, d.begin(), d.end());}}
      else {const uint32 n = lcg_next() % 8; for (uint32 i=0; i<n; i++) b.push_back((uint8)(lcg_next() % 256));}
   }
}

static void run_case(int k, const std::string & head, const std::string & body)
{
   std::ostringstream out, orc;
   const bool in_domain = (head == "m")||(head == "t");   // "n": Strings with embedded NUL (F9); "g": Messages parsed from mutated bytes -- outside the property's domain
   {
      Message regs[8];
      IMsg ideal[8];
      bool ideal_live = in_domain;       // the ideal oracle stops at the first reported difference
      uint32 tm_seed = 0; bool tm_set = false;
      std::string st;
      std::vector<std::string> ops = split(body, ';');
      for (size_t n=0; n<ops.size(); n++)
      {
         if (ops[n].empty()) continue;
         std::vector<std::string> a = split(ops[n], ':');
         const std::string & c = a[0];
         #define REG(i) (regs[(unsigned)atoi(a[i].c_str()) & 7])
         #define IREG(i) (ideal[(unsigned)atoi(a[i].c_str()) & 7])
         #define FN(i) mkstr(unhex(a[i]))
         #define SN(i) bytestr(unhex(a[i]))
         bool ok = false, iok = false;
         {
            // ---- the operation on the ideal Message
            uint32 itc = 0; IItem iit;
            if ((c == "w")&&(a.size() == 3)) {IREG(1).what = (uint32) strtoul(a[2].c_str(), NULL, 10); iok = true;}
            else if (((c == "a")||(c == "p"))&&(a.size() == 5)) iok = ideal_item(a[3], unhex(a[4]), c[0], itc, iit) && iadd(IREG(1), c == "p", SN(2), itc, iit);
            else if (((c == "am")||(c == "pm"))&&(a.size() == 4)) {iit.kind = 1; iit.sub = new IMsg(IREG(3)); iok = iadd(IREG(1), c == "pm", SN(2), B_MESSAGE_TYPE, iit);}
            else if ((c == "r")&&(a.size() == 7)) iok = ideal_item(a[4], unhex(a[5]), 'r', itc, iit) && ireplace(IREG(1), a[6] == "1", SN(2), itc, (uint32) strtoul(a[3].c_str(), NULL, 10), iit);
            else if ((c == "rm")&&(a.size() == 6)) {iit.kind = 1; iit.sub = new IMsg(IREG(4)); iok = ireplace(IREG(1), a[5] == "1", SN(2), B_MESSAGE_TYPE, (uint32) strtoul(a[3].c_str(), NULL, 10), iit);}
            else if ((c == "x")&&(a.size() == 4))  iok = iremove_data(IREG(1), SN(2), (uint32) strtoul(a[3].c_str(), NULL, 10));
            else if ((c == "xn")&&(a.size() == 3)) iok = iremove_name(IREG(1), SN(2));
            else if ((c == "rn")&&(a.size() == 4)) iok = irename(IREG(1), SN(2), SN(3));
            else if ((c == "cl")&&(a.size() == 2)) {IREG(1).fields.clear(); iok = true;}
            else if ((c == "cp")&&(a.size() == 3)) {IMsg tmp = IREG(2); IREG(1) = tmp; iok = true;}
            else if ((c == "u")&&(a.size() == 2))  {istrip(IREG(1)); iok = true;}
            else if ((c == "mf")&&(a.size() == 3)) iok = imove(IREG(1), true, SN(2));
            else if ((c == "mb")&&(a.size() == 3)) iok = imove(IREG(1), false, SN(2));
            else if ((c == "cn")&&(a.size() == 4)) iok = icopy_name(IREG(1), SN(2), SN(3));
            else if ((c == "ct")||(c == "tm")) ideal_live = false;    // templates are compared with the model only
         }
         if ((c == "w")&&(a.size() == 3)) {REG(1).what = (uint32) strtoul(a[2].c_str(), NULL, 10); ok = true;}
         else if (((c == "a")||(c == "p"))&&(a.size() == 5)) ok = typed_op(REG(1), c[0], FN(2), a[3], unhex(a[4]), 0, false);
         else if (((c == "am")||(c == "pm"))&&(a.size() == 4))
         {
            Message & m = REG(1);
            const Message & src = REG(3);
            MessageRef copy = deep_clone(src);
            ok = ((c == "am") ? m.AddMessage(FN(2), copy) : m.PrependMessage(FN(2), copy)).IsOK();
         }
         else if ((c == "r")&&(a.size() == 7)) ok = typed_op(REG(1), 'r', FN(2), a[4], unhex(a[5]), (uint32) strtoul(a[3].c_str(), NULL, 10), a[6] == "1");
         else if ((c == "rm")&&(a.size() == 6))
         {
            MessageRef copy = deep_clone(REG(4));
            ok = REG(1).ReplaceMessage(a[5] == "1", FN(2), (uint32) strtoul(a[3].c_str(), NULL, 10), copy).IsOK();
         }
         else if ((c == "x")&&(a.size() == 4))  ok = REG(1).RemoveData(FN(2), (uint32) strtoul(a[3].c_str(), NULL, 10)).IsOK();
         else if ((c == "xn")&&(a.size() == 3)) ok = REG(1).RemoveName(FN(2)).IsOK();
         else if ((c == "rn")&&(a.size() == 4)) ok = REG(1).Rename(FN(2), FN(3)).IsOK();
         else if ((c == "cl")&&(a.size() == 2)) {REG(1).Clear(); ok = true;}
         else if ((c == "cp")&&(a.size() == 3)) {Message & d = REG(1); const Message & s = REG(2); if (&d != &s) {d = s; unshare(d);} ok = true;}
         else if ((c == "u")&&(a.size() == 2))
         {
            Message & m = REG(1);
            const uint32 fs = m.FlattenedSize();
            std::vector<uint8> buf(fs);
            m.FlattenToBytes(fs ? &buf[0] : NULL, fs);
            Message tmp;
            if (tmp.UnflattenFromBytes(fs ? &buf[0] : NULL, fs).IsOK()) {m = tmp; unshare(m); ok = true;}
         }
         else if ((c == "mf")&&(a.size() == 3)) ok = REG(1).MoveNameToFront(FN(2)).IsOK();
         else if ((c == "mb")&&(a.size() == 3)) ok = REG(1).MoveNameToBack(FN(2)).IsOK();
         else if ((c == "cn")&&(a.size() == 4)) {Message & m = REG(1); ok = m.CopyName(FN(2), m, FN(3)).IsOK(); if (ok) unshare(m);}
         else if ((c == "ct")&&(a.size() == 3))
         {
            // R = CreateMessageTemplate(S)
            MessageRef t = REG(2).CreateMessageTemplate();
            if (t()) {Message & d = REG(1); d = *t(); unshare(d); ok = true;}
         }
         else if ((c == "tm")&&(a.size() == 2)) {tm_seed = (uint32) strtoul(a[1].c_str(), NULL, 10); tm_set = true; ok = true;}
         else if ((c == "um")&&(a.size() == 3))
         {
            // flatten, mutate the bytes deterministically, parse what results (only compared with the model's parser)
            Message & m = REG(1);
            const uint32 fs = m.FlattenedSize();
            std::vector<uint8> buf(fs);
            m.FlattenToBytes(&buf[0], fs);
            mutate(buf, (uint32) strtoul(a[2].c_str(), NULL, 10));
            std::vector<uint8> exact(buf);     // exactly-sized heap block: ASan sees any read past the end
            Message tmp;
            if (tmp.UnflattenFromBytes(exact.empty() ? (const uint8 *) "" : &exact[0], (uint32) exact.size()).IsOK()) {m = tmp; unshare(m); ok = true;}
         }
         else {fprintf(stderr, "bad op [%s]\n", ops[n].c_str()); exit(2);}
         st += ok ? '1' : '0';
         if (ideal_live)
         {
            std::string why;
            if (ok != iok) {orc << k << " ORACLE FAIL API: status of op#" << n << " " << c << " is " << (ok?"ok":"error") << ", the ideal Message says " << (iok?"ok":"error") << "\n"; ideal_live = false;}
            else if (!same_as_ideal(REG(1), IREG(1), why)) {orc << k << " ORACLE FAIL API: after op#" << n << " " << c << " the Message differs from the ideal Message: " << why << "\n"; ideal_live = false;}
         }
      }

      const Message & m0 = regs[0];
      const Message & m1 = regs[1];
      out << k << " S " << st << "\n";
      out << k << " M " << desc(m0) << "\n";
      const uint32 fs = m0.FlattenedSize();
      std::vector<uint8> buf(fs);              // exactly fs bytes: ASan sees any overrun, the flattener aborts on underrun
      m0.FlattenToBytes(&buf[0], fs);
      out << k << " F " << fs << " " << hex(&buf[0], fs) << "\n";
      const uint32 chk = m0.CalculateChecksum(), chkall = m0.CalculateChecksum(true);
      out << k << " C " << chk << " " << chkall << "\n";
      if ((!head.empty())&&(head[0] == 't'))
      {
         // ---- templated serialisation of register 0 (payload) against register 1 (template)
         const Message & T = regs[1];
         {
            const uint32 tfs = T.FlattenedSize(); std::vector<uint8> tb(tfs); T.FlattenToBytes(&tb[0], tfs);
            out << k << " TT " << desc(T) << " " << hex(&tb[0], tfs) << "\n";
         }
         out << k << " TH " << (unsigned long long) T.TemplateHashCode64() << " " << (unsigned long long) m0.TemplateHashCode64() << "\n";
         if (same_shape(T, m0) && (T.TemplateHashCode64() != m0.TemplateHashCode64())) orc << k << " ORACLE FAIL templated: a Message and a template of the same shape have different TemplateHashCode64\n";
         const bool shape = same_shape(T, m0);
         {
            // any template: the exact-size buffer makes ASan see a write past TemplatedFlattenedSize(); 0xEE marks bytes never written
            const uint32 ts = m0.TemplatedFlattenedSize(T);
            uint8 * raw = new uint8[ts ? ts : 1];
            memset(raw, 0xEE, ts ? ts : 1);
            m0.TemplatedFlatten(T, DataFlattener(raw, ts));     // aborts unless exactly ts bytes are written
            std::vector<uint8> tb(raw, raw+ts);
            delete [] raw;
            out << k << " TF " << ts << " " << hex(tb.empty() ? (const uint8 *) "" : &tb[0], ts) << "\n";
            std::vector<uint8> exact(tb.begin(), tb.begin()+ts);
            Message u;
            DataUnflattener unf(exact.empty() ? (const uint8 *) "" : &exact[0], ts);
            if (u.TemplatedUnflatten(T, unf).IsOK())
            {
               const uint32 ufs = u.FlattenedSize(); std::vector<uint8> ub(ufs); u.FlattenToBytes(&ub[0], ufs);
               out << k << " TU ok " << desc(u) << " " << hex(&ub[0], ufs) << "\n";
               std::string why;
               if (shape)
               {
                  if (!same_content(m0, u, why)) orc << k << " ORACLE FAIL templated: the Message parsed back differs from the original: " << why << "\n";
                  if (u.CalculateChecksum() != chk) orc << k << " ORACLE FAIL templated: CalculateChecksum changed by the templated trip\n";
               }
               if (in_domain && no_empty_fields(T) && !same_as_merge(T, m0, u, why)) orc << k << " ORACLE FAIL templated: the Message parsed back is not the payload merged into the template: " << why << "\n";
            }
            else
            {
               out << k << " TU err\n";
               if (in_domain && no_empty_fields(T)) orc << k << " ORACLE FAIL templated: TemplatedUnflatten rejects the bytes TemplatedFlatten produced\n";
            }
            if (tm_set)
            {
               // malformed templated bytes: only compared with the model's templated parser
               std::vector<uint8> mb(exact);
               mutate(mb, tm_seed);
               std::vector<uint8> mexact(mb);
               Message v;
               DataUnflattener unf2(mexact.empty() ? (const uint8 *) "" : &mexact[0], (uint32) mexact.size());
               if (v.TemplatedUnflatten(T, unf2).IsOK())
               {
                  const uint32 vfs = v.FlattenedSize(); std::vector<uint8> vb(vfs); v.FlattenToBytes(&vb[0], vfs);
                  out << k << " TM ok " << desc(v) << " " << hex(&vb[0], vfs) << "\n";
               }
               else out << k << " TM err\n";
            }
         }
      }
      Message u0;
      if (u0.UnflattenFromBytes(&buf[0], fs).IsOK())
      {
         out << k << " U ok " << desc(u0) << "\n";
         const uint32 fs2 = u0.FlattenedSize();
         std::vector<uint8> buf2(fs2);
         u0.FlattenToBytes(&buf2[0], fs2);
         const bool same = (fs2 == fs)&&(memcmp(&buf[0], &buf2[0], fs) == 0);
         const uint32 chk2 = u0.CalculateChecksum();
         const bool eqMU = (m0 == u0), eqUM = (u0 == m0);
         out << k << " R " << (same ? std::string("same") : ("diff:" + hex(&buf2[0], fs2))) << " " << fs2 << " " << chk2 << " " << (eqMU?1:0) << " " << (eqUM?1:0) << "\n";

         const uint32 fs1 = m1.FlattenedSize();
         std::vector<uint8> buf1(fs1);
         m1.FlattenToBytes(&buf1[0], fs1);
         Message u1;
         const bool u1ok = u1.UnflattenFromBytes(&buf1[0], fs1).IsOK();
         const bool eq01 = (m0 == m1);
         if (u1ok) out << k << " P " << (eq01?1:0) << " " << ((u0 == u1)?1:0) << "\n";
              else out << k << " P " << (eq01?1:0) << " err\n";

         // ---------------- the property's own statement, on the implementation ----------------
         if (in_domain)
         {
            std::string why;
            if (!same_content(m0, u0, why)) orc << k << " ORACLE FAIL parsed Message differs from the original: " << why << "\n";
            if (!same) orc << k << " ORACLE FAIL re-serialising the parsed Message does not reproduce the original bytes\n";
            if (fs2 != fs) orc << k << " ORACLE FAIL FlattenedSize changed by the trip\n";
            if (chk2 != chk) orc << k << " ORACLE FAIL CalculateChecksum changed by the trip\n";
            if (eqMU != eqUM) orc << k << " ORACLE FAIL operator== not symmetric between original and parsed Message\n";
            if (u1ok && !has_nonflattenable(m0) && !has_nonflattenable(m1) && (eq01 != (u0 == u1))) orc << k << " ORACLE FAIL equality of two Messages changed by the trip\n";
            if (!has_nonflattenable(m0))
            {
               Message c0 = m0; unshare(c0);
               if ((c0 == m0) != eqMU) orc << k << " ORACLE FAIL parsed Message compares differently to the original than an unshared copy does\n";
            }
         }
      }
      else
      {
         out << k << " U err\n";
         if (in_domain) orc << k << " ORACLE FAIL UnflattenFromBytes rejects the bytes Flatten produced\n";
      }
   }
   g_tags.clear();
   fputs(out.str().c_str(), stdout);
   if (!orc.str().empty()) fputs(orc.str().c_str(), stdout);
   fflush(stdout);
}

int main()
{
   CompleteSetupSystem css;
   std::string line;
   int k = 0;
   while(std::getline(std::cin, line))
   {
      size_t p = line.find('|');
      if (p != std::string::npos) run_case(k, line.substr(0, p), line.substr(p+1));
      k++;
   }
   return 0;
}
