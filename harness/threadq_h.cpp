// C11 harness: runs small multi-threaded programs over a real muscle::Thread (owner <-> internal thread Message queues, both
// signalling mechanisms) under the controlled scheduler (harness/sched) and prints, per case, the decisions taken and -- per
// decision -- what the chosen thread did until its next decision point: signals sent, the whole protected state after each
// _queueLock critical section, parking, wake-ups, timeouts, thread creation/exit/join and API results, in the same canonical
// text as the extracted Coq LTS (ocaml/threadq_driver.ml).
// It also evaluates the property's own statement with bookkeeping of its own that does not depend on the Coq model and prints
// `k ORACLE FAIL <why>`: every Message is received exactly once and in the order in which it was queued (an ideal FIFO per
// direction fed from the observed enqueue order), nothing is left over or invented, a run never ends with a receiver parked
// while its queue is non-empty (lost wake-up; this also covers "shutdown + join completes" and "queued before start is
// delivered", because the NULL Message / the early Messages sit in that queue), and never livelocks.
//
// case line:   m=<s|w>,k=<d|e>,n=<threads>,seed=<N|->,sch=<c.c.c>|<tid>:<op>;<tid>:<op>;...
//    m: s = socket pair, w = wait-condition.   thread 0 is the owner.
//    k: d = the default InternalThreadEntry (blocks in WaitForNextMessageFromOwner), e = an event-driven InternalThreadEntry
//       that select()s on GetInternalThreadWakeupSocket() first and then polls WaitForNextMessageFromOwner(ref, 0) until it
//       times out (the MessageTransceiverThread / AsyncDataIO pattern; socket mode only).
//    op: si:<id> sin (SendMessageToInternalThread, Message / NULL)   so:<id> son (SendMessageToOwner)
//        rp rn rt (GetNextReplyFromInternalThread poll / never / timed)   st (StartInternalThread)
//        sd0 sd1 (ShutdownInternalThread(false/true))   jn (WaitForInternalThreadToExit)   gs (GetOwnerWakeupSocket)
//        ur uu (RegisterOwnerThreadSocket / UnregisterOwnerThreadSocket of the case's user socket, SOCKET_SET_READ)
//        up (write a byte to the other end of that socket: it becomes ready-for-read)   ue (read it empty)
//        -- everything but si/so/up only in thread 0.
//    The internal thread's MessageReceivedFromOwner reacts to Message <id> as react(id) below (replies / exit).
//    f=1 (optional head entry): "fine" run -- EVERY Mutex lock in muscle (object pools, socket pool, ..) is a decision point, so
//       threads also interleave inside StartInternalThread / CreateConnectedSocketPair etc.  The Coq LTS has no such steps, so
//       only `k FINE` is printed (by both sides) and the oracle alone judges the run (search for a failing input).
//    f=2: "free" run -- no scheduler at all: the owner program (n must be 1) runs in a real thread against the real internal
//       thread, blocking in the real select() / condition variable (the code path the scheduler replaces elsewhere).  Only
//       `k FREE` is printed; the oracle checks order, exactly-once and that every blocking receive eventually returns its
//       Message (a 30 s watchdog reports a hang).  Supporting evidence for the runtime residue, not part of the tie.
//    f=3: "timed" run -- no scheduler, REAL clocks: exercises WaitCondition::WaitUntilAux / the real select() with a finite
//       wakeupTime, which the controlled scheduler never executes.  Head: m=<s|w>,f=3,dir=<I|O> (I: the internal thread is the
//       receiver of Messages the owner sends; O: the owner is the receiver of replies the internal thread sends).  Body:
//       r:<op>;..;s:<op>;..  receiver script (p poll, t receive with deadline now+5 s, u .. now+1 s, n untimed, z<ms> sleep) and
//       sender script (s send the next Message, z<ms> sleep).  Only `k TIMED` is printed; the oracle reports a Message lost /
//       duplicated / reordered, and a timed receive that came back at its deadline (within 0.25 s) although a Message it had
//       not yet been given was queued at least 1.5 s before that deadline (the wake-up can only have been the timeout).  A
//       failing scenario is run a second time on its own and reported only if it fails again.  `--timed-batch` runs all the
//       f=3 lines on stdin concurrently (wall time = the longest scenario).
//    sch: explicit decisions ("2" run thread 2, "2!" fire thread 2's timeout), entries that are not enabled are skipped;
//    beyond them: seed=N random policy, seed=- non-preemptive policy.  Internal threads get the ids n, n+1, .. as created.
// modes:  (default) cases on stdin -> traces;   --explore <max_preemptions> <max_runs>: for each stdin case print every
//    schedule up to the bound as a complete case line.
#include <stdio.h>
#include <stdlib.h>
#include <string.h>
#include <unistd.h>
#include <poll.h>
#include <sys/ioctl.h>
#include <string>
#include <vector>
#include <map>
#include <sstream>
#include <memory>
#include <mutex>
#include <thread>
#include <signal.h>

#define private public
#define protected public
#include "system/Thread.h"
#undef private
#undef protected
#include "system/SetupSystem.h"
#include "sched/sched.h"

using namespace muscle;
using namespace vsched;

enum { OP_SI = 0, OP_SO, OP_RECV, OP_START, OP_SHUTDOWN, OP_JOIN, OP_GETSOCK, OP_USER };
enum { U_REG = 0, U_UNREG, U_PING, U_EAT };
enum { W_POLL = 0, W_NEVER, W_TIMED };
struct Op { int kind; long arg; bool null; };     // arg: message id / wake kind / wait flag

struct Case {
   bool sockets; bool evd; bool fine; bool freeRun; int n; bool haveSeed; uint64_t seed; std::vector<Choice> sched;
   std::vector<std::vector<Op> > prog;
   std::string head, body;
};

static std::vector<std::string> split(const std::string & s, char c)
{
   std::vector<std::string> r; std::string cur;
   for (size_t i=0; i<s.size(); i++) {if (s[i]==c) {r.push_back(cur); cur.clear();} else cur += s[i];}
   r.push_back(cur);
   return r;
}

static bool parse_num(const std::string & s, long & out)
{
   if (s.empty() || s.size() > 6) return false;
   for (size_t i=0; i<s.size(); i++) if (s[i] < '0' || s[i] > '9') return false;
   out = atol(s.c_str());
   return true;
}

static bool parse_case(const std::string & line, Case & c)
{
   const size_t bar = line.find('|');
   if (bar == std::string::npos) return false;
   c.head = line.substr(0, bar); c.body = line.substr(bar+1);
   c.sockets = true; c.evd = false; c.fine = false; c.freeRun = false; c.n = 0; c.haveSeed = false; c.seed = 0; c.sched.clear();
   std::vector<std::string> hs = split(c.head, ',');
   for (size_t i=0; i<hs.size(); i++)
   {
      const std::string & h = hs[i];
      if (h.compare(0, 2, "m=") == 0) {if (h == "m=s") c.sockets = true; else if (h == "m=w") c.sockets = false; else return false;}
      else if (h.compare(0, 2, "k=") == 0) {if (h == "k=d") c.evd = false; else if (h == "k=e") c.evd = true; else return false;}
      else if (h.compare(0, 2, "f=") == 0) {if (h == "f=1") c.fine = true; else if (h == "f=2") c.freeRun = true; else if (h != "f=0") return false;}
      else if (h.compare(0, 2, "n=") == 0) c.n = atoi(h.c_str()+2);
      else if (h.compare(0, 5, "seed=") == 0) {if (h.size() > 5 && h[5] != '-') {c.haveSeed = true; c.seed = strtoull(h.c_str()+5, NULL, 10);}}
      else if (h.compare(0, 4, "sch=") == 0)
      {
         std::string s = h.substr(4);
         for (size_t k=0; k<s.size(); k++) if (s[k] == '.') s[k] = ',';
         if (!ParseSchedule(s, c.sched)) return false;
      }
   }
   std::vector<std::pair<int, Op> > toks;
   std::vector<std::string> os = split(c.body, ';');
   int maxT = -1;
   for (size_t i=0; i<os.size(); i++)
   {
      if (os[i].empty()) continue;
      const size_t col = os[i].find(':');
      if (col == std::string::npos) return false;
      long t; if (!parse_num(os[i].substr(0, col), t) || t > 15) return false;
      const std::string o = os[i].substr(col+1);
      Op op; op.arg = 0; op.null = false;
      if (o.compare(0, 3, "si:") == 0)      {op.kind = OP_SI; if (!parse_num(o.substr(3), op.arg) || op.arg > 999) return false;}
      else if (o == "sin")                  {op.kind = OP_SI; op.null = true;}
      else if (o.compare(0, 3, "so:") == 0) {op.kind = OP_SO; if (!parse_num(o.substr(3), op.arg) || op.arg > 999) return false;}
      else if (o == "son")                  {op.kind = OP_SO; op.null = true;}
      else if (o == "rp") {op.kind = OP_RECV; op.arg = W_POLL;}
      else if (o == "rn") {op.kind = OP_RECV; op.arg = W_NEVER;}
      else if (o == "rt") {op.kind = OP_RECV; op.arg = W_TIMED;}
      else if (o == "st") op.kind = OP_START;
      else if (o == "sd0") {op.kind = OP_SHUTDOWN; op.arg = 0;}
      else if (o == "sd1") {op.kind = OP_SHUTDOWN; op.arg = 1;}
      else if (o == "jn") op.kind = OP_JOIN;
      else if (o == "gs") op.kind = OP_GETSOCK;
      else if (o == "ur") {op.kind = OP_USER; op.arg = U_REG;}
      else if (o == "uu") {op.kind = OP_USER; op.arg = U_UNREG;}
      else if (o == "up") {op.kind = OP_USER; op.arg = U_PING;}
      else if (o == "ue") {op.kind = OP_USER; op.arg = U_EAT;}
      else return false;
      if (t != 0 && op.kind != OP_SI && op.kind != OP_SO && !(op.kind == OP_USER && op.arg == U_PING)) return false;    // only the owner receives / controls the life cycle
      if ((int) t > maxT) maxT = (int) t;
      toks.push_back(std::make_pair((int) t, op));
   }
   if (c.n < maxT+1) c.n = maxT+1;
   if (c.n < 1) c.n = 1;
   if (c.n > 16) return false;
   if (c.evd && !c.sockets) return false;     // there is no wake-up socket to select() on
   if (c.freeRun && c.n != 1) return false;   // a free run has one sender per direction, so that the expected order is known
   c.prog.assign(c.n, std::vector<Op>());
   for (size_t i=0; i<toks.size(); i++) c.prog[toks[i].first].push_back(toks[i].second);
   return true;
}

// the subclass's reaction to Message <id>, the same function as in ocaml/threadq_driver.ml: Messages to send -- replies to the
// owner (channel 1) or further work for the internal thread itself (channel 0, SendMessageToInternalThread) -- and "exit now"
struct Out { int ch; long id; };      // id -1 = a NULL Message
static void react(long id, std::vector<Out> & outs, bool & quit)
{
   outs.clear(); quit = false;
   Out o; o.ch = 1;
   switch(id % 8)
   {
      case 1: o.ch = 0; o.id = 2000+id*8; outs.push_back(o); break;                                   // to itself (a Message that causes no further reaction)
      case 2: o.id = 1000+id*10; outs.push_back(o); break;
      case 3: o.id = 1000+id*10; outs.push_back(o); o.id = 1000+id*10+1; outs.push_back(o); break;
      case 4: o.id = 1000+id*10; outs.push_back(o); quit = true; break;
      case 5: quit = true; break;
      case 6: o.id = -1; outs.push_back(o); break;
      case 7: o.id = 1000+id*10; outs.push_back(o); o.id = 1000+id*10+1; outs.push_back(o); o.id = 1000+id*10+2; outs.push_back(o); break;
      default: break;
   }
}

static std::string id_text(const MessageRef & m) {if (m() == NULL) return "-"; char b[24]; snprintf(b, sizeof(b), "%lu", (unsigned long) m()->what); return b;}
static long id_of(const MessageRef & m) {return m() ? (long) m()->what : -1;}

// ---------------------------------------------------------------------------------------------------------------------
struct Run;
static Run * g_run = NULL;
static bool g_fine = false;
static bool g_free = false;    // the current case is a "free" run (no scheduler)
static std::mutex g_freeMutex; // guards the oracle's bookkeeping in a free run
static long g_curCase = 0;    // the current case is a "fine" run (every Mutex lock is a decision point)

class TestThread : public Thread
{
public:
   TestThread(bool useSockets, bool evd) : Thread(useSockets), _evd(evd) {}
   virtual status_t MessageReceivedFromOwner(const MessageRef & ref, uint32 numLeft);
   virtual void InternalThreadEntry();
   const bool _evd;
};

struct Run {
   TestThread * tt;                      // heap; leaked when threads are abandoned
   ConstSocketRef uA, uB;                // the case's user socket (uA is what the owner registers) and its other end
   const Case * c;
   // --- oracle bookkeeping (independent of the model)
   std::vector<long> snap[2];            // last observed content of each queue (ids, -1 = NULL)
   std::vector<long> order[2];           // the order in which Messages entered each queue, as observed at the critical sections
   size_t nrecv[2];                      // how many of them the reader has been given
   std::map<long, int> sentCount[2], recvCount[2];
   std::vector<std::string> oracle;
};

static void oracle_fail(const std::string & why) {if (g_run->oracle.size() < 8) g_run->oracle.push_back(why);}

static Thread::ThreadSpecificData & tsd_of(int ch) {return g_run->tt->_threadData[ch];}   // 0 = MESSAGE_THREAD_INTERNAL, 1 = MESSAGE_THREAD_OWNER
static const char * CH = "io";

static int chan_of_obj(const void * p)
{
   for (int ch=0; ch<2; ch++)
   {
      Thread::ThreadSpecificData & t = tsd_of(ch);
      if (p == (const void *) &t || p == (const void *) &t._queueLock) return ch;
      if (!g_run->c->sockets && p == (const void *) &t._waitCondition.GetObject()) return ch;
   }
   return -1;
}

static int fd_bytes(int fd)
{
   if (fd < 0) return 0;
   int n = 0;
   return (ioctl(fd, FIONREAD, &n) == 0) ? n : 0;
}

static int sock_bytes(int ch)
{
   const int fd = tsd_of(ch)._messageSocket.GetFileDescriptor();
   if (fd < 0) return 0;
   int n = 0;
   return (ioctl(fd, FIONREAD, &n) == 0) ? n : 0;
}

static std::vector<long> queue_ids(int ch)
{
   std::vector<long> r;
   const Queue<MessageRef> & q = tsd_of(ch)._messages;
   for (uint32 i=0; i<q.GetNumItems(); i++) r.push_back(id_of(q[i]));
   return r;
}

static std::string dump_state()
{
   const TestThread & t = *g_run->tt;
   std::ostringstream o;
   o << "{a" << (t._messageSocketsAllocated ? 1 : 0) << "r" << (t._threadRunning ? 1 : 0) << "o" << ((t._threadData[0]._messageSocket.GetFileDescriptor() >= 0) ? 1 : 0);
   for (int ch=0; ch<2; ch++)
   {
      o << "|";
      const std::vector<long> ids = queue_ids(ch);
      for (size_t i=0; i<ids.size(); i++) {if (i) o << ","; if (ids[i] < 0) o << "-"; else o << ids[i];}
      o << "/" << sock_bytes(ch) << "/";
      if (g_run->c->sockets) o << 0; else o << tsd_of(ch)._waitCondition.GetObject()._pendingNotificationsCount;
   }
   {
      // the owner's SOCKET_SET_READ table: is the user socket registered, bytes readable on it, its isFlagged value
      const Hashtable<ConstSocketRef, bool> & tab = t._threadData[1]._socketSets[Thread::SOCKET_SET_READ];
      o << "|u" << (tab.ContainsKey(g_run->uA) ? 1 : 0) << "," << fd_bytes(g_run->uA.GetFileDescriptor()) << "," << (tab.GetWithDefault(g_run->uA, false) ? 1 : 0);
   }
   o << "}";
   return o.str();
}

// ---- the real sockets are the truth: before the scheduler takes any decision it is told which signal sockets are readable
static volatile uint32_t g_readable[2] = {0, 0};
static muscle_verif_hook_t g_inner = NULL;

static void refresh_readable()
{
   for (int ch=0; ch<2; ch++)
   {
      uint32_t r = 0;
      if (g_run->c->sockets)
      {
         const int fd = tsd_of(ch)._messageSocket.GetFileDescriptor();
         if (fd >= 0)
         {
            struct pollfd p; p.fd = fd; p.events = POLLIN; p.revents = 0;
            if (poll(&p, 1, 0) > 0 && (p.revents & (POLLIN|POLLHUP|POLLERR))) r = 1;
            // ... and the user-registered sockets select() would watch as well
            for (uint32 i=0; i<Thread::NUM_SOCKET_SETS; i++)
               for (HashtableIterator<ConstSocketRef, bool> iter(tsd_of(ch)._socketSets[i], HTIT_FLAG_NOREGISTER); iter.HasData(); iter++)
               {
                  struct pollfd q; q.fd = iter.GetKey().GetFileDescriptor(); q.revents = 0;
                  q.events = (i == Thread::SOCKET_SET_READ) ? POLLIN : ((i == Thread::SOCKET_SET_WRITE) ? POLLOUT : POLLPRI);
                  if (q.fd >= 0 && poll(&q, 1, 0) > 0 && (q.revents & (q.events|POLLHUP|POLLERR))) r = 1;
               }
         }
      }
      g_readable[ch] = r;
   }
}

static int WrapperHook(int kind, const void * obj, const void * arg)
{
   if (kind == K_ATOMIC_INC || kind == K_ATOMIC_DEC || kind == K_ATOMIC_CAS || g_run == NULL) return g_inner(kind, obj, arg);
   if (!g_fine && (kind == K_MUTEX_LOCK || kind == K_MUTEX_UNLOCK || kind == K_MUTEX_TRYLOCK) && chan_of_obj(obj) < 0) return g_inner(kind, obj, arg);   // not one of ours: never a decision
   if (kind != K_THREAD_START) refresh_readable();
   if (kind == K_SEM_WAIT || kind == K_SEM_TIMEDWAIT)
   {
      // select() on the signal socket: parked in the scheduler until the real socket is readable; nothing is consumed
      const int ch = chan_of_obj(obj);
      if (ch >= 0) return g_inner((kind == K_SEM_WAIT) ? K_WC_WAIT : K_WC_TIMEDWAIT, obj, (const void *) &g_readable[ch]);
   }
   return g_inner(kind, obj, arg);
}

static void install_wrapper()
{
   if (muscle_verif_hook_ref() != &WrapperHook) {g_inner = muscle_verif_hook_ref(); muscle_verif_hook_ref() = &WrapperHook;}
}

// ---- the oracle's ideal FIFOs, fed from what the critical sections did to the real queues
static void observe_queue(int ch)
{
   Run & r = *g_run;
   const std::vector<long> now = queue_ids(ch);
   std::vector<long> & was = r.snap[ch];
   if (now.size() == was.size()+1 && std::vector<long>(now.begin(), now.end()-1) == was) r.order[ch].push_back(now.back());   // one appended at the tail
   else if (now.size()+1 == was.size() && std::vector<long>(was.begin()+1, was.end()) == now) {/* one removed at the head */}
   else if (now != was) oracle_fail(std::string("a critical section changed queue ") + CH[ch] + " by something other than one append at the tail or one removal at the head");
   was = now;
}

static void oracle_received(int ch, long id)
{
   std::unique_lock<std::mutex> lk(g_freeMutex, std::defer_lock); if (g_free) lk.lock();
   Run & r = *g_run;
   r.recvCount[ch][id]++;
   if (id >= 0 && r.recvCount[ch][id] > r.sentCount[ch][id]) {std::ostringstream o; o << "Message " << id << " was received on " << CH[ch] << " more often than it was sent"; oracle_fail(o.str());}
   if (r.nrecv[ch] >= r.order[ch].size()) {std::ostringstream o; o << "a Message (" << id << ") was received on " << CH[ch] << " that never entered the queue"; oracle_fail(o.str());}
   else if (r.order[ch][r.nrecv[ch]] != id) {std::ostringstream o; o << "out of order on " << CH[ch] << ": received " << id << " where " << r.order[ch][r.nrecv[ch]] << " was queued first"; oracle_fail(o.str());}
   r.nrecv[ch]++;
}

status_t TestThread :: MessageReceivedFromOwner(const MessageRef & ref, uint32 numLeft)
{
   char buf[64]; snprintf(buf, sizeof(buf), "R%s/%u", id_text(ref).c_str(), (unsigned) numLeft); Scheduler::Note(buf);
   oracle_received(0, id_of(ref));
   if (ref() == NULL) return B_SHUTTING_DOWN;
   std::vector<Out> outs; bool quit;
   react((long) ref()->what, outs, quit);
   for (size_t i=0; i<outs.size(); i++)
   {
      const int ch = outs[i].ch; const long id = outs[i].id;
      {
         std::unique_lock<std::mutex> lk(g_freeMutex, std::defer_lock); if (g_free) lk.lock();
         g_run->sentCount[ch][id]++;
         if (g_free) g_run->order[ch].push_back(id);    // (free runs have one sender per queue: the owner, or this thread) -- see below
      }
      MessageRef m = (id < 0) ? MessageRef() : GetMessageFromPool((uint32) id);
      if (ch == 0) (void) SendMessageToInternalThread(m); else (void) SendMessageToOwner(m);
   }
   return quit ? B_ERROR("quit") : B_NO_ERROR;
}

// the event-driven way to write the internal thread (MessageTransceiverThread, AsyncDataIO): block on the wake-up socket, then poll
void TestThread :: InternalThreadEntry()
{
   if (!_evd) {Thread::InternalThreadEntry(); return;}
   while(true)
   {
      if (_threadData[MESSAGE_THREAD_INTERNAL]._messageSocket.GetFileDescriptor() < 0) break;
      // select() on GetInternalThreadWakeupSocket(): under the controlled scheduler the blocking happens inside the scheduler
      if (muscle_verif_hook_ref()) (void) muscle_verif_hook_ref()(MUSCLE_VERIF_SEM_WAIT, &_threadData[MESSAGE_THREAD_INTERNAL], 0);
      else
      {
         SocketMultiplexer sm;
         (void) sm.RegisterSocketForReadReady(_threadData[MESSAGE_THREAD_INTERNAL]._messageSocket.GetFileDescriptor());
         if (sm.WaitForEvents().IsError()) break;
      }
      bool quit = false;
      MessageRef ref; uint32 numLeft = 0;
      while(WaitForNextMessageFromOwner(ref, 0, &numLeft).IsOK())
      {
         if (MessageReceivedFromOwner(ref, numLeft).IsError()) {quit = true; break;}
      }
      if (quit) break;
   }
}

static void on_event(const Event & e)
{
   char buf[64];
   switch(e.kind)
   {
      case K_MUTEX_UNLOCK:
      {
         const int ch = chan_of_obj(e.ptr);
         if (ch >= 0 && e.aux == 0) {observe_queue(ch); Scheduler::Note(dump_state());}
         break;
      }
      case K_SEM_POST:   {const int ch = chan_of_obj(e.ptr); snprintf(buf, sizeof(buf), "S%c", (ch >= 0) ? CH[ch] : '?'); Scheduler::Note(buf); break;}
      case K_WC_NOTIFY:  {const int ch = chan_of_obj(e.ptr); snprintf(buf, sizeof(buf), "N%c", (ch >= 0) ? CH[ch] : '?'); Scheduler::Note(buf); break;}
      case K_WC_WAIT: case K_WC_TIMEDWAIT:
      {
         const int ch = chan_of_obj(e.ptr);
         snprintf(buf, sizeof(buf), "P%c%ld", (ch >= 0) ? CH[ch] : '?', (g_run->c->sockets && ch >= 0) ? (long) sock_bytes(ch) : e.aux); Scheduler::Note(buf);
         break;
      }
      case K_WOKEN:        Scheduler::Note("K"); break;
      case K_TIMEOUT:      Scheduler::Note("T"); break;
      case K_THREAD_SPAWN: Scheduler::Note("F"); break;
      case K_THREAD_JOIN:  Scheduler::Note("J"); break;
      case K_BEGIN:        if (e.ptr) Scheduler::Note("B"); break;
      case K_END:          if (e.ptr) Scheduler::Note(std::string("E") + dump_state()); break;
      default: break;
   }
}

static void thread_body(int me)
{
   if (!g_free) install_wrapper();
   Run & r = *g_run;
   TestThread & tt = *r.tt;
   const std::vector<Op> & prog = r.c->prog[me];
   const uint64 far = GetRunTime64() + SecondsToMicros(3600);
   for (size_t i=0; i<prog.size(); i++)
   {
      const Op & op = prog[i];
      std::string res;
      switch(op.kind)
      {
         case OP_SI: case OP_SO:
         {
            const int ch = (op.kind == OP_SI) ? 0 : 1;
            const long id = op.null ? -1 : op.arg;
            {
               std::unique_lock<std::mutex> lk(g_freeMutex, std::defer_lock); if (g_free) lk.lock();
               r.sentCount[ch][id]++;
               if (g_free) r.order[ch].push_back(id);
            }
            MessageRef m = op.null ? MessageRef() : GetMessageFromPool((uint32) op.arg);
            const status_t ret = (ch == 0) ? tt.SendMessageToInternalThread(m) : tt.SendMessageToOwner(m);
            res = ret.IsOK() ? "ok" : (std::string("err:") + ret());
            if (ret.IsError()) oracle_fail("a send failed");
            break;
         }
         case OP_RECV:
         {
            MessageRef m; uint32 left = 12345;
            const uint64 when = (op.arg == W_POLL) ? 0 : ((op.arg == W_NEVER) ? MUSCLE_TIME_NEVER : far);
            status_t ret = tt.GetNextReplyFromInternalThread(m, when, &left);
            // free run: a blocking receive may legitimately come back empty-handed (a late signal byte); "always wakes" = it gets its Message eventually
            while(g_free && op.arg == W_NEVER && ret == B_TIMED_OUT) ret = tt.GetNextReplyFromInternalThread(m, when, &left);
            if (ret.IsOK()) {char b[48]; snprintf(b, sizeof(b), "m%s/%u", id_text(m).c_str(), (unsigned) left); res = b; oracle_received(1, id_of(m));}
            else if (ret == B_TIMED_OUT) res = "to";
            else if (ret == B_BAD_OBJECT) res = "bo";
            else if (ret == B_IO_READY)
            {
               res = "io";
               const Hashtable<ConstSocketRef, bool> & tab = tt._threadData[1]._socketSets[Thread::SOCKET_SET_READ];
               if (!(tab.ContainsKey(r.uA) && fd_bytes(r.uA.GetFileDescriptor()) > 0)) oracle_fail("B_IO_READY although no registered user socket is ready");
               if (!tt.IsOwnerThreadSocketReady(r.uA, Thread::SOCKET_SET_READ)) oracle_fail("B_IO_READY but IsOwnerThreadSocketReady() says no");
            }
            else {res = std::string("err:") + ret(); oracle_fail("unexpected status from GetNextReplyFromInternalThread");}
            break;
         }
         case OP_START:
         {
            const status_t ret = tt.StartInternalThread();
            res = ret.IsOK() ? "ok" : ((ret == B_ALREADY_RUNNING) ? "ar" : (std::string("err:") + ret()));
            if (ret.IsError() && !(ret == B_ALREADY_RUNNING)) oracle_fail("StartInternalThread failed");
            break;
         }
         case OP_SHUTDOWN:
            if (tt.IsInternalThreadRunning())     // it is about to queue a NULL Message
            {
               std::unique_lock<std::mutex> lk(g_freeMutex, std::defer_lock); if (g_free) lk.lock();
               g_run->sentCount[0][-1]++;
               if (g_free) g_run->order[0].push_back(-1);
            }
            tt.ShutdownInternalThread(op.arg != 0);
            res = "v";
            break;
         case OP_JOIN:
         {
            const status_t ret = tt.WaitForInternalThreadToExit();
            res = ret.IsOK() ? "ok" : ((ret == B_BAD_OBJECT) ? "bo" : (std::string("err:") + ret()));
            break;
         }
         case OP_USER:
         {
            if (op.arg == U_REG || op.arg == U_UNREG)
            {
               const status_t ret = (op.arg == U_REG) ? tt.RegisterOwnerThreadSocket(r.uA, Thread::SOCKET_SET_READ) : tt.UnregisterOwnerThreadSocket(r.uA, Thread::SOCKET_SET_READ);
               res = ret.IsOK() ? "ok" : ((ret == B_BAD_OBJECT) ? "bo" : ((ret == B_DATA_NOT_FOUND) ? "nf" : (std::string("err:") + ret())));
            }
            else if (op.arg == U_PING) {const char b = 'u'; (void) send_ignore_eintr(r.uB.GetFileDescriptor(), &b, 1, 0); res = "v";}
            else {char buf[256]; while(recv_ignore_eintr(r.uA.GetFileDescriptor(), buf, sizeof(buf), 0) > 0) {/* empty */} res = "v";}
            break;
         }
         default:
            (void) tt.GetOwnerWakeupSocket();
            res = "v";
            break;
      }
      if (!g_free) Scheduler::Note(std::string("=") + res + dump_state());
   }
   if (!g_free) refresh_readable();
}

// ---- free runs: no scheduler, the real blocking primitives
static void on_watchdog(int)
{
   char buf[160];
   const int n = snprintf(buf, sizeof(buf), "%ld ORACLE FAIL free run hung for 30 s: a blocked thread was never woken, or shutdown did not complete\n", g_curCase);
   if (n > 0) {ssize_t w = write(1, buf, (size_t) n); (void) w;}
   _exit(3);
}

static void run_case_free(long k, const Case & c)
{
   printf("%ld FREE\n", k); fflush(stdout);
   Run * r = new Run;
   g_run = r; g_fine = false; g_free = true; g_curCase = k;
   r->c = &c;
   r->tt = new TestThread(c.sockets, c.evd);
   (void) CreateConnectedSocketPair(r->uA, r->uB, false);
   for (int ch=0; ch<2; ch++) {r->snap[ch].clear(); r->order[ch].clear(); r->nrecv[ch] = 0; r->sentCount[ch].clear(); r->recvCount[ch].clear();}
   r->oracle.clear();
   signal(SIGALRM, on_watchdog);
   alarm(30);
   std::thread owner([]{thread_body(0);});
   owner.join();
   if (r->tt->IsInternalThreadRunning()) r->tt->ShutdownInternalThread(true);   // (the generated programs end with it anyway)
   alarm(0);
   // exactly once: whatever was sent has been received or is still queued
   for (int ch=0; ch<2; ch++)
   {
      std::map<long, int> acc = r->recvCount[ch];
      const std::vector<long> left = queue_ids(ch);
      for (size_t i=0; i<left.size(); i++) acc[left[i]]++;
      if (acc != r->sentCount[ch]) {std::ostringstream o; o << "free run: at the end the Messages received plus those still queued on " << CH[ch] << " are not the Messages sent"; oracle_fail(o.str());}
   }
   for (size_t i=0; i<r->oracle.size(); i++) printf("%ld ORACLE FAIL %s\n", k, r->oracle[i].c_str());
   fflush(stdout);
   delete r->tt; delete r;
   g_run = NULL; g_free = false;
}

static std::string choice_text(const Choice & c) {char b[24]; snprintf(b, sizeof(b), "%d%s", c.tid, c.timeout ? "!" : ""); return b;}

static Options base_options()
{
   Options o;
   o.tolerant_schedule = true;
   o.max_decisions = 4000;
   o.timeout_weight_percent = 15;
   o.user_kinds_decide = false;
   o.policy_fn = [](int kind, const void * obj) -> int {
      switch(kind)
      {
         case K_MUTEX_LOCK: case K_MUTEX_UNLOCK:
            if (g_run && (obj == (const void *) &tsd_of(0)._queueLock || obj == (const void *) &tsd_of(1)._queueLock)) return F_LOG|F_DECIDE;
            return (g_fine && kind == K_MUTEX_LOCK) ? F_DECIDE : 0;
         case K_WC_WAIT: case K_WC_TIMEDWAIT: return F_LOG|F_DECIDE;
         case K_WC_NOTIFY: case K_SEM_POST: case K_THREAD_SPAWN: return F_LOG;
         case K_THREAD_SPAWNED: case K_THREAD_JOIN: return F_LOG|F_DECIDE;
         default: return 0;
      }
   };
   o.on_event = on_event;
   return o;
}

static void setup_run(Run & r, const Case & c, Scheduler & s)
{
   r.c = &c;
   r.tt = new TestThread(c.sockets, c.evd);
   (void) CreateConnectedSocketPair(r.uA, r.uB, false);
   for (int ch=0; ch<2; ch++) {r.snap[ch].clear(); r.order[ch].clear(); r.nrecv[ch] = 0; r.sentCount[ch].clear(); r.recvCount[ch].clear();}
   r.oracle.clear();
   g_readable[0] = g_readable[1] = 0;
   for (int t=0; t<c.n; t++) s.Spawn([t]{thread_body(t);});
}

// the verdict at the end of a run, from the scheduler's own report and the real queues
static void judge_end(Run & r, const Result & res)
{
   if (res.status == Result::STEP_LIMIT) oracle_fail("step limit reached (livelock?)");
   if (res.status == Result::DEADLOCK)
   {
      // which channels have a reader parked in a blocking wait?  (res.detail: "t3:wait(o5,count=0) t0:join(t3)")
      for (int ch=0; ch<2; ch++)
      {
         bool parked = false;
         for (size_t i=res.log.size(); i-- > 0; )
         {
            const Event & e = res.log[i];
            if ((e.kind == K_WC_WAIT || e.kind == K_WC_TIMEDWAIT) && chan_of_obj(e.ptr) == ch)
            {
               // parked iff no WOKEN/TIMEOUT of the same thread follows
               parked = true;
               for (size_t j=i+1; j<res.log.size(); j++) if (res.log[j].tid == e.tid && (res.log[j].kind == K_WOKEN || res.log[j].kind == K_TIMEOUT)) parked = false;
               break;
            }
         }
         if (parked && ch == 1 && tsd_of(1)._socketSets[Thread::SOCKET_SET_READ].ContainsKey(r.uA) && fd_bytes(r.uA.GetFileDescriptor()) > 0)
            oracle_fail("lost wake-up: the owner is parked for ever although its registered user socket is ready-for-read: " + res.detail);
         if (parked && tsd_of(ch)._messages.HasItems())
         {
            std::ostringstream o; o << "lost wake-up: the reader of queue " << CH[ch] << " is parked for ever while " << tsd_of(ch)._messages.GetNumItems() << " Message(s) are queued: " << res.detail;
            oracle_fail(o.str());
         }
      }
   }
   // exactly once: whatever was sent has been received or is still queued; nothing else was received
   for (int ch=0; ch<2; ch++)
   {
      std::map<long, int> acc = r.recvCount[ch];
      const std::vector<long> left = queue_ids(ch);
      for (size_t i=0; i<left.size(); i++) acc[left[i]]++;
      bool inFlight = (res.status != Result::COMPLETED);   // a sender may be stopped between counting and queueing
      if (!inFlight && acc != r.sentCount[ch]) {std::ostringstream o; o << "at the end the Messages received plus those still queued on " << CH[ch] << " are not the Messages sent"; oracle_fail(o.str());}
      for (std::map<long, int>::const_iterator it = acc.begin(); it != acc.end(); ++it)
      {
         std::map<long, int>::const_iterator s = r.sentCount[ch].find(it->first);
         if (s == r.sentCount[ch].end() || it->second > s->second) {std::ostringstream o; o << "Message " << it->first << " appears on " << CH[ch] << " more often than it was sent"; oracle_fail(o.str());}
      }
   }
}

static std::string format_trace(const Result & res)
{
   std::ostringstream o;
   o << res.StatusName();
   for (size_t i=0; i<res.steps.size(); i++)
   {
      const Step & st = res.steps[i];
      o << " " << choice_text(st.taken) << "<";
      for (size_t k=0; k<st.enabled.size(); k++) o << (k ? "," : "") << choice_text(st.enabled[k]);
      o << ">";
      const size_t to = (i+1 < res.steps.size()) ? res.steps[i+1].log_pos : res.log.size();
      for (size_t k=st.log_pos; k<to; k++) if (res.log[k].kind == K_NOTE) o << res.log[k].note;
   }
   return o.str();
}

static void cleanup_run(Run * r, Scheduler * s, const Result & res)
{
   if (res.status == Result::COMPLETED)
   {
      if (r->tt->IsInternalThreadRunning()) (void) r->tt->WaitForInternalThreadToExit();   // (it has finished: the run completed)
      delete r->tt; delete s; delete r;
   }
   else
   {
      // abandoned threads are parked for ever inside the scheduler and still reference these objects: leak them, but give the descriptors back
      for (int ch=0; ch<2; ch++) r->tt->_threadData[ch]._messageSocket.Reset();
      for (uint32 i=0; i<Thread::NUM_SOCKET_SETS; i++) r->tt->_threadData[1]._socketSets[i].Clear();
      r->uA.Reset(); r->uB.Reset();
   }
}

static void run_case(long k, const Case & c)
{
   Run * r = new Run;
   g_run = r;
   g_fine = c.fine;
   Options o = base_options();
   o.schedule = c.sched;
   if (c.haveSeed) {o.policy = Options::RANDOM; o.seed = c.seed;} else o.policy = Options::NONPREEMPTIVE;
   Scheduler * s = new Scheduler(o);
   setup_run(*r, c, *s);
   const Result res = s->Run();
   judge_end(*r, res);
   if (c.fine) printf("%ld FINE\n", k); else printf("%ld %s\n", k, format_trace(res).c_str());
   for (size_t i=0; i<r->oracle.size(); i++) printf("%ld ORACLE FAIL %s\n", k, r->oracle[i].c_str());
   fflush(stdout);
   if (c.fine && !r->oracle.empty())
   {
      // the decisions taken, as an explicit schedule ('.'-separated, ready for sch=) -- for a seed-independent replay
      std::string sch = FormatSchedule(res.Schedule());
      for (size_t i=0; i<sch.size(); i++) if (sch[i] == ',') sch[i] = '.';
      fprintf(stderr, "C11 fine run %ld failed its oracle; schedule: sch=%s\n", k, sch.c_str());
   }
   cleanup_run(r, s, res);
   g_run = NULL;
}

static void explore_case(const Case & c, int maxPre, size_t maxRuns)
{
   ExploreOptions eo; eo.max_preemptions = maxPre; eo.max_runs = maxRuns;
   Run * cur = NULL;
   eo.base = base_options();
   eo.base.tolerant_schedule = false;
   Explore(eo,
      [&](Scheduler & s) {cur = new Run; g_run = cur; setup_run(*cur, c, s);},
      [&](const Result & res) {
         std::string sch = FormatSchedule(res.Schedule());
         for (size_t i=0; i<sch.size(); i++) if (sch[i] == ',') sch[i] = '.';
         printf("m=%c,k=%c,n=%d,seed=-,sch=%s|%s\n", c.sockets ? 's' : 'w', c.evd ? 'e' : 'd', c.n, sch.c_str(), c.body.c_str());
         if (res.status == Result::COMPLETED)
         {
            if (cur->tt->IsInternalThreadRunning()) (void) cur->tt->WaitForInternalThreadToExit();
            delete cur->tt; delete cur;
         }
         else
         {
            for (int ch=0; ch<2; ch++) cur->tt->_threadData[ch]._messageSocket.Reset();
            for (uint32 i=0; i<Thread::NUM_SOCKET_SETS; i++) cur->tt->_threadData[1]._socketSets[i].Clear();
            cur->uA.Reset(); cur->uB.Reset();
         }
         cur = NULL; g_run = NULL;
         return true;
      });
   fflush(stdout);
}

// ---------------------------------------------------------------------------------------------------------------------
// f=3: timed scenarios on the real clock (self-contained: no scheduler, no globals shared between scenarios)

struct TOp { char kind; long ms; };     // receiver: p t u n z ; sender: s z

struct TimedCase {
   bool sockets; char dir; std::vector<TOp> rscript, sscript; std::string line;
};

static bool parse_timed(const std::string & line, TimedCase & c)
{
   const size_t bar = line.find('|');
   if (bar == std::string::npos) return false;
   const std::string head = line.substr(0, bar), body = line.substr(bar+1);
   if (head.find("f=3") == std::string::npos) return false;
   c.line = line; c.sockets = (head.find("m=w") == std::string::npos); c.dir = (head.find("dir=O") != std::string::npos) ? 'O' : 'I';
   c.rscript.clear(); c.sscript.clear();
   std::vector<std::string> os = split(body, ';');
   for (size_t i=0; i<os.size(); i++)
   {
      if (os[i].size() < 3 || os[i][1] != ':') {if (os[i].empty()) continue; return false;}
      TOp op; op.kind = os[i][2]; op.ms = (os[i].size() > 3) ? atol(os[i].c_str()+3) : 0;
      if (os[i][0] == 'r') {if (!strchr("ptunz", op.kind)) return false; c.rscript.push_back(op);}
      else if (os[i][0] == 's') {if (!strchr("sz", op.kind)) return false; c.sscript.push_back(op);}
      else return false;
   }
   return true;
}

struct TimedState {
   std::mutex mu;
   std::vector<uint64> sentAt;            // sentAt[id-1]: when the send of Message <id> had returned
   std::vector<long> got;                 // ids in the order received
   std::vector<std::string> fails;
   volatile bool recvDone;                // the receiver script has finished
   TimedState() : recvDone(false) {}
   void Fail(const std::string & w) {std::unique_lock<std::mutex> lk(mu); if (fails.size() < 6) fails.push_back(w);}
};

class TimedThread : public Thread
{
public:
   TimedThread(bool sockets, const TimedCase * c, TimedState * st) : Thread(sockets), _c(c), _st(st) {}
   virtual void InternalThreadEntry();
   void RunReceiver(bool fromInternal);
   void RunSender(bool fromInternal);
   const TimedCase * _c; TimedState * _st;
};

static void sleep_ms(long ms) {if (ms > 0) (void) Snooze64(MillisToMicros(ms));}

void TimedThread :: RunSender(bool fromInternal)
{
   long nextID = 1;
   for (size_t i=0; i<_c->sscript.size(); i++)
   {
      const TOp & op = _c->sscript[i];
      if (op.kind == 'z') sleep_ms(op.ms);
      else
      {
         MessageRef m = GetMessageFromPool((uint32) nextID);
         {std::unique_lock<std::mutex> lk(_st->mu); _st->sentAt.push_back(0);}
         const status_t r = fromInternal ? SendMessageToOwner(m) : SendMessageToInternalThread(m);
         const uint64 now = GetRunTime64();
         {std::unique_lock<std::mutex> lk(_st->mu); _st->sentAt[nextID-1] = now;}
         if (r.IsError()) _st->Fail("a send failed");
         nextID++;
      }
   }
}

void TimedThread :: RunReceiver(bool fromInternal)
{
   for (size_t i=0; i<_c->rscript.size(); i++)
   {
      const TOp & op = _c->rscript[i];
      if (op.kind == 'z') {sleep_ms(op.ms); continue;}
      const uint64 tc = GetRunTime64();
      const uint64 D = (op.kind == 't') ? SecondsToMicros(5) : ((op.kind == 'u') ? SecondsToMicros(1) : 0);
      const uint64 when = (op.kind == 'p') ? 0 : ((op.kind == 'n') ? MUSCLE_TIME_NEVER : (tc+D));
      size_t hadBefore; {std::unique_lock<std::mutex> lk(_st->mu); hadBefore = _st->got.size();}
      MessageRef m;
      const status_t r = fromInternal ? WaitForNextMessageFromOwner(m, when) : GetNextReplyFromInternalThread(m, when);
      const uint64 tr = GetRunTime64();
      if (r.IsOK())
      {
         const long id = m() ? (long) m()->what : -1;
         std::unique_lock<std::mutex> lk(_st->mu);
         if (id != (long) _st->got.size()+1) {char b[128]; snprintf(b, sizeof(b), "received Message %ld where Message %ld was due (lost, duplicated or out of order)", id, (long) _st->got.size()+1); if (_st->fails.size() < 6) _st->fails.push_back(b);}
         _st->got.push_back(id);
      }
      else if (!(r == B_TIMED_OUT)) _st->Fail(std::string("unexpected status from a receive: ") + r());
      if (D > 0)
      {
         // the decision rule: back only at the deadline although a Message not yet given to us was queued >= 1.5 s before it
         const uint64 dl = tc+D;
         std::unique_lock<std::mutex> lk(_st->mu);
         const bool atDeadline = (tr + MillisToMicros(250) >= dl);
         if (atDeadline && _st->sentAt.size() > hadBefore && _st->sentAt[hadBefore] != 0 && _st->sentAt[hadBefore] + MillisToMicros(1500) <= dl)
         {
            char b[256]; snprintf(b, sizeof(b), "lost wake-up: a receive with a %d s deadline came back %s only after %.2f s although Message %ld had been queued %.2f s after the call (the wake-up was the timeout)",
               (int) MicrosToSeconds(D), r.IsOK() ? "with the Message" : "empty-handed", (double)(tr-tc)/1000000.0, (long) hadBefore+1,
               (_st->sentAt[hadBefore] > tc) ? (double)(_st->sentAt[hadBefore]-tc)/1000000.0 : 0.0);
            if (_st->fails.size() < 6) _st->fails.push_back(b);
         }
         if (r == B_TIMED_OUT && tr + MillisToMicros(100) < dl) {if (_st->fails.size() < 6) _st->fails.push_back("a timed receive reported B_TIMED_OUT well before its deadline");}
      }
   }
   {std::unique_lock<std::mutex> lk(_st->mu); _st->recvDone = true;}
}

void TimedThread :: InternalThreadEntry()
{
   if (_c->dir == 'I') RunReceiver(true); else RunSender(true);
   // then wait for the NULL Message of ShutdownInternalThread(), keeping whatever else arrives for the final count
   while(true)
   {
      MessageRef m;
      const status_t r = WaitForNextMessageFromOwner(m, MUSCLE_TIME_NEVER);
      if (r.IsError()) {if (r == B_TIMED_OUT) continue; break;}
      if (m() == NULL) break;
      std::unique_lock<std::mutex> lk(_st->mu);
      const long id = (long) m()->what;
      if (id != (long) _st->got.size()+1 && _st->fails.size() < 6) _st->fails.push_back("a Message was received out of order while draining");
      _st->got.push_back(id);
   }
}

static std::vector<std::string> run_timed_once(const TimedCase & c)
{
   TimedState st;
   TimedThread * tt = new TimedThread(c.sockets, &c, &st);
   if (tt->StartInternalThread().IsError()) {delete tt; return std::vector<std::string>(1, "StartInternalThread failed");}
   if (c.dir == 'I') tt->RunSender(false); else tt->RunReceiver(false);
   // let the receiver finish its script before the NULL Message is queued (it never blocks for longer than its deadlines,
   // and the scripts end every untimed receive with a Message); the watchdog bounds this
   while(true) {{std::unique_lock<std::mutex> lk(st.mu); if (st.recvDone) break;} sleep_ms(10);}
   tt->ShutdownInternalThread(true);
   if (c.dir == 'O')
   {
      // whatever the owner did not ask for is still in the reply queue
      MessageRef m;
      while(tt->GetNextReplyFromInternalThread(m, 0).IsOK())
      {
         const long id = m() ? (long) m()->what : -1;
         if (id != (long) st.got.size()+1 && st.fails.size() < 6) st.fails.push_back("a reply was left over out of order");
         st.got.push_back(id);
      }
   }
   size_t nsent = 0; for (size_t i=0; i<c.sscript.size(); i++) if (c.sscript[i].kind == 's') nsent++;
   if (st.got.size() != nsent) {char b[128]; snprintf(b, sizeof(b), "%ld Message(s) sent but %ld received (exactly-once violated)", (long) nsent, (long) st.got.size()); st.fails.push_back(b);}
   delete tt;
   return st.fails;
}

static std::vector<std::string> run_timed(const TimedCase & c)
{
   std::vector<std::string> f = run_timed_once(c);
   if (f.empty()) return f;
   std::vector<std::string> f2 = run_timed_once(c);     // on its own this time; report only what happens twice
   if (f2.empty()) return f2;
   f2[0] += " [seen in two consecutive runs]";
   return f2;
}

static void on_timed_watchdog(int)
{
   const char * m = "0 ORACLE FAIL timed scenarios hung for 40 s: a blocked receive was never woken, or shutdown did not complete\n";
   ssize_t w = write(1, m, strlen(m)); (void) w;
   _exit(3);
}

static void timed_batch(const std::vector<std::string> & lines)
{
   std::vector<TimedCase> cs(lines.size()); std::vector<int> okv(lines.size(), 0);
   std::vector<std::vector<std::string> > res(lines.size());
   for (size_t i=0; i<lines.size(); i++) okv[i] = parse_timed(lines[i], cs[i]) ? 1 : 0;
   signal(SIGALRM, on_timed_watchdog); alarm(40);
   std::vector<std::thread> ths;
   for (size_t i=0; i<lines.size(); i++) if (okv[i]) ths.push_back(std::thread([&cs, &res, i]{res[i] = run_timed_once(cs[i]);}));
   for (size_t i=0; i<ths.size(); i++) ths[i].join();
   // second chance, one at a time, for whatever failed under the concurrent load
   for (size_t i=0; i<lines.size(); i++) if (okv[i] && !res[i].empty())
   {
      alarm(40);
      std::vector<std::string> f2 = run_timed_once(cs[i]);
      if (f2.empty()) res[i].clear(); else {f2[0] += " [seen in two consecutive runs]"; res[i] = f2;}
   }
   alarm(0);
   for (size_t i=0; i<lines.size(); i++)
   {
      if (!okv[i]) {printf("%ld BADCASE\n", (long) i); continue;}
      printf("%ld TIMED\n", (long) i);
      for (size_t j=0; j<res[i].size(); j++) printf("%ld ORACLE FAIL %s\n", (long) i, res[i][j].c_str());
   }
   fflush(stdout);
}

int main(int argc, char ** argv)
{
   CompleteSetupSystem css;
   if (argc >= 2 && strcmp(argv[1], "--timed-batch") == 0)
   {
      std::vector<std::string> lines; char * ln = NULL; size_t cp = 0; ssize_t l;
      while((l = getline(&ln, &cp, stdin)) >= 0) {while(l > 0 && (ln[l-1] == '\n' || ln[l-1] == '\r')) ln[--l] = 0; lines.push_back(ln);}
      timed_batch(lines);
      _exit(0);
   }
   int maxPre = -1; size_t maxRuns = 0;
   if (argc >= 4 && strcmp(argv[1], "--explore") == 0) {maxPre = atoi(argv[2]); maxRuns = (size_t) atol(argv[3]);}
   char * line = NULL; size_t cap = 0; ssize_t len; long k = 0;
   while((len = getline(&line, &cap, stdin)) >= 0)
   {
      while(len > 0 && (line[len-1] == '\n' || line[len-1] == '\r')) line[--len] = 0;
      {
         TimedCase tc;
         if (maxPre < 0 && parse_timed(line, tc))
         {
            printf("%ld TIMED\n", k); fflush(stdout);
            signal(SIGALRM, on_timed_watchdog); alarm(40);
            const std::vector<std::string> f = run_timed(tc);
            alarm(0);
            for (size_t j=0; j<f.size(); j++) printf("%ld ORACLE FAIL %s\n", k, f[j].c_str());
            fflush(stdout); k++; continue;
         }
      }
      Case c;
      if (!parse_case(line, c)) {if (maxPre < 0) {printf("%ld BADCASE\n", k); fflush(stdout);} k++; continue;}
      if (maxPre >= 0) explore_case(c, maxPre, maxRuns); else if (c.freeRun) run_case_free(k, c); else run_case(k, c);
      k++;
   }
   fflush(stdout);
   _exit(0);
}
