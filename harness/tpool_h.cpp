// C19 harness: drives a real muscle::ThreadPool with IThreadPoolClient objects whose handlers are gated by the
// harness (a handler call blocks until the case script lets it return), so the script decides the order of handler
// completions relative to submissions, registrations, un-registrations and Shutdown() without any hook in muscle.
// After every operation the harness waits for the quiescent state (every pool thread that owns a batch sits inside a
// gated handler; blocking calls -- SetThreadPool(NULL), Shutdown() -- run in helper threads and are either finished or
// provably blocked), then prints the operation's result, the handler events it caused and the pool's protected state
// (read through `#define private public`) in the same canonical text as the extracted Coq LTS (ocaml/tpool_driver.ml).
//
// It also evaluates the property's own statement with bookkeeping of its own that does not depend on the Coq model
// (`k ORACLE FAIL <why>`): per-client handled sequence is a prefix of / finally equal to the accepted submissions,
// never two handlers of one client at once (atomic in-handler counter), never more running handlers than pool threads,
// no idle capacity while an un-handled client has accepted Messages, un-registration returns only after everything
// accepted was handled, Shutdown() and un-registration terminate (watchdog).
//
// case line:   n=<maxThreads>|op;op;...
//    r:<c> client c->SetThreadPool(&pool)      s:<c> c->SendMessageToThreadPool(next Message id)
//    g:<c> let the running handler of client c return      u:<c> c->SetThreadPool(NULL) (helper thread)      x pool.Shutdown() (helper thread)
#include <stdio.h>
#include <stdlib.h>
#include <string.h>
#include <unistd.h>
#include <stdint.h>
#include <string>
#include <vector>
#include <map>
#include <set>
#include <algorithm>
#include <sstream>
#include <memory>
#include <thread>
#include <mutex>
#include <condition_variable>
#include <atomic>
#include <chrono>
#include <functional>

#define private public
#define protected public
#include "system/ThreadPool.h"
#include "system/WaitCondition.h"
#undef private
#undef protected
#include "system/SetupSystem.h"
#include "syslog/SysLog.h"
#include "message/Message.h"

using namespace muscle;

static const int MAX_CLIENTS = 8;
static const int HANG_SECONDS = 120;

static int g_case = -1;
static std::mutex g_m;                    // protects everything below and the per-client bookkeeping
static std::condition_variable g_cv;
static bool g_freeRun = false;
static std::vector<std::string> g_fail;   // oracle failures of the current case
static int g_running = 0;                 // handlers currently executing
static int g_maxThreads = 1;

// watchdog: a blocking call that does not come back is a deadlock (or a lost wake-up)
static std::atomic<int64_t> g_deadline(0);
static const char * volatile g_what = "";
static int64_t now_ms() {return std::chrono::duration_cast<std::chrono::milliseconds>(std::chrono::steady_clock::now().time_since_epoch()).count();}
static std::atomic<bool> g_alreadyFailed(false);   // an oracle failure was recorded for this case: a later hang is a consequence, do not wait long for it
static void arm(const char * what) {g_what = what; g_deadline.store(now_ms()+(g_alreadyFailed.load() ? 10 : HANG_SECONDS)*1000);}
static void disarm() {g_deadline.store(0);}
static void watchdog()
{
   for(;;)
   {
      std::this_thread::sleep_for(std::chrono::milliseconds(200));
      const int64_t d = g_deadline.load();
      if ((d != 0)&&(now_ms() > d))
      {
         printf("%d ORACLE FAIL hang %s\n", g_case, (const char *) g_what);
         {
            // what was found before the hang must not be lost with the process
            std::unique_lock<std::mutex> lk(g_m, std::try_to_lock);
            std::set<std::string> seen;
            for (size_t i=0; i<g_fail.size(); i++) if (seen.insert(g_fail[i]).second) printf("%d ORACLE FAIL %s\n", g_case, g_fail[i].c_str());
         }
         fflush(stdout);
         _exit(3);
      }
   }
}
static void nap() {std::this_thread::sleep_for(std::chrono::microseconds(30));}

static void fail_locked(const std::string & s) {g_fail.push_back(s); g_alreadyFailed.store(true);}   // g_m held
static void fail(const std::string & s) {std::lock_guard<std::mutex> lk(g_m); fail_locked(s);}

class GatedClient : public IThreadPoolClient
{
public:
   GatedClient(int idx) : IThreadPoolClient(NULL), _idx(idx), _inHandler(0), _parked(false), _release(false), _reported(false), _curMsg(0), _curLeft(0), _curTid(-1), _curThr(NULL), _used(false) {}

   virtual void MessageReceivedFromThreadPool(const MessageRef & msg, uint32 numLeft)
   {
      const int prev = _inHandler.fetch_add(1);
      std::unique_lock<std::mutex> lk(g_m);
      if (prev != 0) fail_locked("two-handlers-at-once c" + std::to_string(_idx));
      if (++g_running > g_maxThreads) fail_locked("more-running-handlers-than-threads");
      const uint32 id = msg() ? msg()->what : 0;
      _entered.push_back(id);
      _curMsg = id; _curLeft = numLeft; _reported = false; _release = false; _parked = true;
      g_cv.notify_all();
      while((!_release)&&(!g_freeRun)) g_cv.wait(lk);
      _parked = false; _release = false;
      _exited.push_back(id);
      g_running--;
      _inHandler.fetch_sub(1);
      g_cv.notify_all();
   }

   const int _idx;
   std::atomic<int> _inHandler;
   bool _parked, _release, _reported;
   uint32 _curMsg, _curLeft;
   int _curTid;
   ThreadPool::ThreadPoolThread * _curThr;
   bool _used;                                  // a submit was attempted
   std::vector<uint32> _accepted, _entered, _exited;
};

struct Helper { std::thread th; std::atomic<bool> done; bool active; Helper() : done(false), active(false) {} };

struct Ctx
{
   ThreadPool * pool;
   GatedClient * cl[MAX_CLIENTS];
   Helper unreg[MAX_CLIENTS];
   Helper shut;
   bool shutBegun, shutDone;
   int busy;              // pool threads still inside a batch when Shutdown() began
   uint32 nextMsg;
   std::vector<std::string> ev;
};

static int idx_of(Ctx & x, IThreadPoolClient * c) {for (int i=0; i<MAX_CLIENTS; i++) if (x.cl[i] == c) return i; return -1;}

static std::string msgs_of(const Queue<MessageRef> & q)
{
   std::string r;
   for (uint32 i=0; i<q.GetNumItems(); i++) {if (i) r += "."; r += std::to_string(q[i]() ? q[i]()->what : 0);}
   return r;
}
static std::string seq_text(const std::vector<uint32> & v)
{
   std::string r;
   for (size_t i=0; i<v.size(); i++) {if (i) r += "."; r += std::to_string(v[i]);}
   return r;
}
static bool is_prefix(const std::vector<uint32> & a, const std::vector<uint32> & b)
{
   if (a.size() > b.size()) return false;
   for (size_t i=0; i<a.size(); i++) if (a[i] != b[i]) return false;
   return true;
}

// not shutting down: quiescent iff every thread in _activeThreads sits in a gated handler
static void wait_quiescent(Ctx & x)
{
   arm("waiting-for-quiescence");
   for(;;)
   {
      bool q = true;
      {
         DECLARE_MUTEXGUARD(x.pool->_poolLock);
         for (HashtableIterator<uint32, ThreadPool::ThreadPoolThreadRef> it(x.pool->_activeThreads); it.HasData(); it++)
         {
            ThreadPool::ThreadPoolThread * t = it.GetValue()();
            IThreadPoolClient * c = t->_currentClient;
            if (c == NULL) {q = false; break;}
            GatedClient * gc = static_cast<GatedClient *>(c);
            std::lock_guard<std::mutex> lk(g_m);
            if ((!gc->_parked)||(gc->_release)) {q = false; break;}
         }
      }
      if (q) break;
      nap();
   }
   disarm();
}

static void wait_parked(GatedClient * c)
{
   arm("waiting-for-next-handler-call-of-batch");
   std::unique_lock<std::mutex> lk(g_m);
   while(!c->_parked) g_cv.wait_for(lk, std::chrono::milliseconds(50));
   lk.unlock();
   disarm();
}

static void wait_flag(std::atomic<bool> & f, const char * what)
{
   arm(what);
   while(!f.load()) nap();
   disarm();
}

// after an operation: bring the system to its stable state and collect the events
static void settle(Ctx & x)
{
   if (!x.shutBegun) wait_quiescent(x);
   bool again = true;
   while(again)
   {
      again = false;
      // a client whose UnregisterClient() is not (or no longer) in _waitingForCompletion is on its way out
      for (int i=0; i<MAX_CLIENTS; i++)
      {
         Helper & h = x.unreg[i];
         if (!h.active) continue;
         bool waiting;
         {
            DECLARE_MUTEXGUARD(x.pool->_poolLock);
            waiting = x.pool->_waitingForCompletion.ContainsKey(x.cl[i]);
         }
         if ((!waiting)||(h.done.load()))
         {
            wait_flag(h.done, "unregister-not-returning-although-not-waiting");
            h.th.join(); h.active = false; h.done.store(false);
            x.ev.push_back("R" + std::to_string(i));
            std::lock_guard<std::mutex> lk(g_m);
            GatedClient * c = x.cl[i];
            if ((!x.shutBegun)&&(c->_exited != c->_accepted))
               fail_locked("unregister-returned-before-all-handled c" + std::to_string(i) + " handled=" + seq_text(c->_exited) + " accepted=" + seq_text(c->_accepted));
            if (c->_parked) fail_locked("unregister-returned-while-handler-running c" + std::to_string(i));
         }
      }
      if ((x.shut.active)&&(x.busy == 0))
      {
         wait_flag(x.shut.done, "shutdown-not-returning-although-all-batches-done");
         x.shut.th.join(); x.shut.active = false; x.shutDone = true;
         x.ev.push_back("D");
         again = true;     // Shutdown's final section notified every waiting UnregisterClient()
         // give the notified helpers the chance to leave _waitingForCompletion-independent state: they were removed from the table by Shutdown itself
      }
   }
}

// handler events: a newly parked handler is an Enter; which pool thread runs it is read from the pool
static void collect_enters(Ctx & x)
{
   if (!x.shutBegun)
   {
      DECLARE_MUTEXGUARD(x.pool->_poolLock);
      std::lock_guard<std::mutex> lk(g_m);
      int owners[MAX_CLIENTS]; for (int i=0; i<MAX_CLIENTS; i++) owners[i] = 0;
      for (HashtableIterator<uint32, ThreadPool::ThreadPoolThreadRef> it(x.pool->_activeThreads); it.HasData(); it++)
      {
         ThreadPool::ThreadPoolThread * t = it.GetValue()();
         const int ci = idx_of(x, t->_currentClient);
         if (ci < 0) {fail_locked("active-thread-without-known-client"); continue;}
         owners[ci]++;
         x.cl[ci]->_curTid = (int) t->GetThreadID();
         x.cl[ci]->_curThr = t;
      }
      for (int i=0; i<MAX_CLIENTS; i++)
      {
         if (owners[i] > 1) fail_locked("two-pool-threads-own-client c" + std::to_string(i));
         if ((x.cl[i]->_parked)&&(owners[i] != 1)) fail_locked("running-handler-without-owning-thread c" + std::to_string(i));
      }
      // idle threads hold nothing
      for (HashtableIterator<uint32, ThreadPool::ThreadPoolThreadRef> it(x.pool->_availableThreads); it.HasData(); it++)
      {
         ThreadPool::ThreadPoolThread * t = it.GetValue()();
         if ((t->_currentClient != NULL)||(t->_internalQueue.HasItems())) fail_locked("available-thread-holds-work");
      }
   }
   std::lock_guard<std::mutex> lk(g_m);
   for (int i=0; i<MAX_CLIENTS; i++)
   {
      GatedClient * c = x.cl[i];
      if ((c->_parked)&&(!c->_reported))
      {
         c->_reported = true;
         char buf[96]; snprintf(buf, sizeof(buf), "E%d.%u.%d.%u", i, c->_curMsg, c->_curTid, c->_curLeft);
         x.ev.push_back(buf);
      }
   }
}

// the property's statement on the harness's own bookkeeping, at a quiescent point
static void oracle_quiescent(Ctx & x)
{
   std::lock_guard<std::mutex> lk(g_m);
   int parked = 0;
   for (int i=0; i<MAX_CLIENTS; i++) if (x.cl[i]->_parked) parked++;
   for (int i=0; i<MAX_CLIENTS; i++)
   {
      GatedClient * c = x.cl[i];
      if (!is_prefix(c->_entered, c->_accepted)) fail_locked("handled-not-a-prefix-of-submitted c" + std::to_string(i) + " handled=" + seq_text(c->_entered) + " accepted=" + seq_text(c->_accepted));
      if ((!x.shutBegun)&&(!c->_parked)&&(c->_accepted.size() > c->_entered.size())&&(parked < g_maxThreads))
         fail_locked("idle-capacity-while-client-has-unhandled-messages c" + std::to_string(i));
   }
}

static std::string dump(Ctx & x)
{
   std::string s;
   char buf[64];
   DECLARE_MUTEXGUARD(x.pool->_poolLock);
   std::lock_guard<std::mutex> lk(g_m);
   ThreadPool * p = x.pool;
   snprintf(buf, sizeof(buf), "sh%d n%u av[", p->_shuttingDown ? 1 : 0, p->_threadIDCounter); s += buf;
   {bool f = true; for (HashtableIterator<uint32, ThreadPool::ThreadPoolThreadRef> it(p->_availableThreads); it.HasData(); it++) {if (!f) s += ","; f = false; s += std::to_string(it.GetKey());}}
   s += "] ac[";
   {bool f = true; for (HashtableIterator<uint32, ThreadPool::ThreadPoolThreadRef> it(p->_activeThreads); it.HasData(); it++) {if (!f) s += ","; f = false; s += std::to_string(it.GetKey());}}
   s += "] rg[";
   {bool f = true; for (HashtableIterator<IThreadPoolClient *, bool> it(p->_registeredClients); it.HasData(); it++) {if (!f) s += ","; f = false; s += std::to_string(idx_of(x, it.GetKey())) + ":" + (it.GetValue() ? "1" : "0");}}
   s += "] pe[";
   {bool f = true; for (HashtableIterator<IThreadPoolClient *, Queue<MessageRef> > it(p->_pendingMessages); it.HasData(); it++) {if (!f) s += ","; f = false; s += std::to_string(idx_of(x, it.GetKey())) + ":" + msgs_of(it.GetValue());}}
   s += "] de[";
   {bool f = true; for (HashtableIterator<IThreadPoolClient *, Queue<MessageRef> > it(p->_deferredMessages); it.HasData(); it++) {if (!f) s += ","; f = false; s += std::to_string(idx_of(x, it.GetKey())) + ":" + msgs_of(it.GetValue());}}
   s += "] wa[";
   {bool f = true; for (HashtableIterator<IThreadPoolClient *, WaitCondition *> it(p->_waitingForCompletion); it.HasData(); it++) {if (!f) s += ","; f = false; s += std::to_string(idx_of(x, it.GetKey()));}}
   s += "] cl[";
   {bool f = true; for (int i=0; i<MAX_CLIENTS; i++) if (x.cl[i]->GetThreadPool() != NULL) {if (!f) s += ","; f = false; s += std::to_string(i);}}
   s += "] run[";
   {
      std::vector<std::pair<int, std::string> > r;
      for (int i=0; i<MAX_CLIENTS; i++)
      {
         GatedClient * c = x.cl[i];
         if ((c->_parked)&&(c->_curThr)) r.push_back(std::make_pair(c->_curTid, std::to_string(c->_curTid) + ":" + std::to_string(idx_of(x, c->_curThr->_currentClient)) + ":" + msgs_of(c->_curThr->_internalQueue)));
      }
      std::sort(r.begin(), r.end());
      for (size_t i=0; i<r.size(); i++) {if (i) s += ","; s += r[i].second;}
   }
   s += "]";
   return s;
}

static void run_case(int k, const std::string & line)
{
   g_case = k;
   if (line.compare(0, 6, "sched,") == 0) {printf("%d sched-case\n", k); return;}   // stage-2 cases are run by tpool_sched_h.cpp
   const size_t bar = line.find('|');
   if (bar == std::string::npos) {printf("%d bad-case\n", k); return;}
   const std::string head = line.substr(0, bar), body = line.substr(bar+1);
   int n = 1;
   {
      std::stringstream ss(head); std::string h;
      while(std::getline(ss, h, ',')) if (h.compare(0, 2, "n=") == 0) n = atoi(h.c_str()+2);
   }
   {
      std::lock_guard<std::mutex> lk(g_m);
      g_freeRun = false; g_fail.clear(); g_alreadyFailed.store(false); g_running = 0; g_maxThreads = n;
   }
   Ctx * xp = new Ctx; Ctx & x = *xp;
   x.pool = new ThreadPool((uint32) n);
   for (int i=0; i<MAX_CLIENTS; i++) x.cl[i] = new GatedClient(i);
   x.shutBegun = x.shutDone = false; x.busy = 0; x.nextMsg = 0;

   std::vector<std::string> ops;
   {std::stringstream ss(body); std::string o; while(std::getline(ss, o, ';')) if (!o.empty()) ops.push_back(o);}

   for (size_t i=0; i<ops.size(); i++)
   {
      const std::string & o = ops[i];
      x.ev.clear();
      std::string res = "bad";
      const size_t col = o.find(':');
      const std::string kind = o.substr(0, col);
      const int c = (col == std::string::npos) ? -1 : atoi(o.c_str()+col+1);
      const bool cok = (c >= 0)&&(c < MAX_CLIENTS)&&(col != std::string::npos);
      if ((kind == "r")&&(cok))
      {
         if ((x.unreg[c].active)||(x.cl[c]->GetThreadPool() != NULL)) res = "noop";
         else {x.cl[c]->SetThreadPool(x.pool); res = (x.cl[c]->GetThreadPool() != NULL) ? "ok" : "err";}
      }
      else if ((kind == "s")&&(cok))
      {
         if (x.unreg[c].active) res = "skip";
         else
         {
            const uint32 id = ++x.nextMsg;
            x.cl[c]->_used = true;
            const status_t ret = x.cl[c]->SendMessageToThreadPool(GetMessageFromPool(id));
            if (ret.IsOK()) {std::lock_guard<std::mutex> lk(g_m); x.cl[c]->_accepted.push_back(id); res = "ok";}
            else if (ret == B_BAD_OBJECT) res = "badobj";
            else if (ret == B_BAD_ARGUMENT) res = "badarg";
            else res = "err";
         }
      }
      else if ((kind == "g")&&(cok))
      {
         GatedClient * gc = x.cl[c];
         bool doit = false; uint32 left = 0;
         {
            std::lock_guard<std::mutex> lk(g_m);
            if ((gc->_parked)&&(!gc->_release))
            {
               doit = true; left = gc->_curLeft;
               char buf[96]; snprintf(buf, sizeof(buf), "X%d.%u.%d", c, gc->_curMsg, gc->_curTid);
               x.ev.push_back(buf);
               gc->_release = true;
               g_cv.notify_all();
            }
         }
         if (doit)
         {
            res = "ok";
            // the released handler returns; wait until it has (so that "parked" below means the NEXT call)
            arm("released-handler-not-returning");
            {std::unique_lock<std::mutex> lk(g_m); while(gc->_release) g_cv.wait_for(lk, std::chrono::milliseconds(50));}
            disarm();
            if (x.shutBegun) {if (left > 0) wait_parked(gc); else x.busy--;}
         }
         else res = "noop";
      }
      else if ((kind == "u")&&(cok))
      {
         if ((x.unreg[c].active)||(x.cl[c]->GetThreadPool() == NULL)) res = "noop";
         else
         {
            Helper & h = x.unreg[c];
            h.done.store(false); h.active = true;
            GatedClient * gc = x.cl[c];
            h.th = std::thread([gc, &h]() {gc->SetThreadPool(NULL); h.done.store(true);});
            // stable when it returned or sits in _waitingForCompletion
            arm("unregister-neither-waiting-nor-returning");
            for(;;)
            {
               if (h.done.load()) {res = "ret"; break;}
               bool waiting;
               {DECLARE_MUTEXGUARD(x.pool->_poolLock); waiting = x.pool->_waitingForCompletion.ContainsKey(gc);}
               if (waiting) {res = "wait"; break;}
               nap();
            }
            disarm();
         }
      }
      else if (kind == "x")
      {
         if (x.shutBegun) res = "noop";
         else
         {
            {std::lock_guard<std::mutex> lk(g_m); x.busy = 0; for (int j=0; j<MAX_CLIENTS; j++) if (x.cl[j]->_parked) x.busy++;}
            x.shutBegun = true; x.shut.active = true; x.shut.done.store(false);
            ThreadPool * p = x.pool; Helper & h = x.shut;
            h.th = std::thread([p, &h]() {(void) p->Shutdown(); h.done.store(true);});
            arm("shutdown-not-swapping-its-thread-tables");
            for(;;)
            {
               if (h.done.load()) break;
               bool st;
               {DECLARE_MUTEXGUARD(p->_poolLock); st = (p->_shuttingDown)&&(p->_availableThreads.IsEmpty())&&(p->_activeThreads.IsEmpty());}
               if (st) break;
               nap();
            }
            disarm();
            res = "ok";
         }
      }
      settle(x);
      collect_enters(x);
      oracle_quiescent(x);
      std::sort(x.ev.begin(), x.ev.end());
      std::string evs; for (size_t j=0; j<x.ev.size(); j++) {if (j) evs += ","; evs += x.ev[j];}
      printf("%d %d %s %s ev[%s] %s\n", k, (int) i, o.c_str(), res.c_str(), evs.c_str(), dump(x).c_str());
   }

   // drain: gates off, everything accepted runs to completion; then tear down
   {std::lock_guard<std::mutex> lk(g_m); g_freeRun = true; g_cv.notify_all();}
   if (x.shut.active) {arm("shutdown-not-returning-after-all-handlers-returned"); x.shut.th.join(); disarm(); x.shut.active = false; x.shutDone = true;}
   for (int i=0; i<MAX_CLIENTS; i++)
   {
      Helper & h = x.unreg[i];
      if (!h.active) continue;
      arm("unregister-not-returning-after-all-handlers-returned");
      while(!h.done.load())
      {
         if (x.shutDone)
         {
            // a client that un-registers from a pool whose Shutdown() already ran waits for a notification nobody will send: release it by hand (clean-up only)
            DECLARE_MUTEXGUARD(x.pool->_poolLock);
            for (HashtableIterator<IThreadPoolClient *, WaitCondition *> it(x.pool->_waitingForCompletion); it.HasData(); it++) (void) it.GetValue()->Notify();
            x.pool->_waitingForCompletion.Clear();
         }
         nap();
      }
      h.th.join(); h.active = false;
      disarm();
      if (!x.shutBegun)
      {
         std::lock_guard<std::mutex> lk(g_m);
         if (x.cl[i]->_exited != x.cl[i]->_accepted) fail_locked("unregister-returned-before-all-handled(drain) c" + std::to_string(i));
      }
   }
   for (int i=0; i<MAX_CLIENTS; i++)
   {
      if (x.cl[i]->GetThreadPool() == NULL) continue;
      if (x.shutDone)
      {
         DECLARE_MUTEXGUARD(x.pool->_poolLock);
         x.pool->_pendingMessages.Clear(); x.pool->_deferredMessages.Clear();
      }
      arm("final-unregister-not-returning");
      x.cl[i]->SetThreadPool(NULL);
      disarm();
      if (!x.shutBegun)
      {
         std::lock_guard<std::mutex> lk(g_m);
         if (x.cl[i]->_exited != x.cl[i]->_accepted) fail_locked("unregister-returned-before-all-handled(final) c" + std::to_string(i));
      }
   }
   arm("pool-destructor-not-returning");
   delete x.pool;
   disarm();
   {
      std::lock_guard<std::mutex> lk(g_m);
      std::string e;
      for (int i=0; i<MAX_CLIENTS; i++)
      {
         GatedClient * c = x.cl[i];
         if (!c->_used) continue;
         if (!e.empty()) e += " ";
         e += std::to_string(i) + ":[" + seq_text(c->_exited) + "]";
         if (!is_prefix(c->_exited, c->_accepted)) fail_locked("handled-not-a-prefix-of-submitted(final) c" + std::to_string(i));
         if ((!x.shutBegun)&&(c->_exited != c->_accepted)) fail_locked("accepted-message-never-handled c" + std::to_string(i) + " handled=" + seq_text(c->_exited) + " accepted=" + seq_text(c->_accepted));
         if (c->_entered != c->_exited) fail_locked("handler-entered-but-not-returned c" + std::to_string(i));
      }
      printf("%d end %s\n", k, e.c_str());
      std::set<std::string> seen;
      for (size_t i=0; i<g_fail.size(); i++) if (seen.insert(g_fail[i]).second) printf("%d ORACLE FAIL %s\n", k, g_fail[i].c_str());
   }
   for (int i=0; i<MAX_CLIENTS; i++) delete x.cl[i];
   delete xp;
}

int main(int, char **)
{
   CompleteSetupSystem css;
   SetConsoleLogToStderr(true);   // an "ASSERTION FAILED: ..." line of a MASSERT must end up in the crash report, not between the result lines
   std::thread(watchdog).detach();
   char * line = NULL; size_t cap = 0; ssize_t len;
   int k = 0;
   while((len = getline(&line, &cap, stdin)) >= 0)
   {
      std::string s(line, (size_t) len);
      while((!s.empty())&&((s[s.size()-1] == '\n')||(s[s.size()-1] == '\r'))) s.erase(s.size()-1);
      run_case(k, s);
      fflush(stdout);
      k++;
   }
   free(line);
   fflush(stdout);
   _exit(0);   // the watchdog thread is detached
   return 0;
}
