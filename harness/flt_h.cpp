// C14 harness: query filters (regex/QueryFilter.{h,cpp}) through their public API.
// A case builds Messages in 8 registers and a stack of filters (constructors + setters, the archive factory, or
// CreateQueryFilterFromExpression); for the filter on top of the stack it prints, in the same canonical text as
// the extracted Coq model (ocaml/flt_driver.ml):
//    k B <status of every op>      k V <Matches() on registers 0..7 at every `ev` op>
//    k F <filter tree read from the objects' members>    k D <Matches() on registers 0..7>
//    k A <archive Message>         k R ok <restored filter> <its decisions> | k R err
// Independently of the model it evaluates the property's own statement on the implementation (ORACLE FAIL lines):
//   * Matches() == the documented semantics, evaluated by spec_eval() below on the harness's OWN copy of the filter
//     tree and of the Messages (plain structs filled from the case text, never read back from muscle objects);
//     float comparisons there are the compiler's IEEE comparisons on the decoded values;
//   * Matches() leaves the Message's flattened bytes unchanged;
//   * the filter restored from its archive (after a Flatten/Unflatten trip of the archive) decides identically;
//   * (head X) the filter built from an expression string decides identically to the tree the generator says the
//     grammar denotes (the filter below it on the stack).
#include <stdio.h>
#include <stdlib.h>
#include <string.h>
#include <string>
#include <vector>
#include <memory>
#include <algorithm>
#include <sstream>
#include <iostream>

#define private public
#define protected public
#include "message/Message.h"
#include "regex/QueryFilter.h"
#include "regex/StringMatcher.h"
#include "reflector/DataNode.h"
#undef private
#undef protected
#include "system/SetupSystem.h"
#include "util/ByteBuffer.h"

using namespace muscle;

typedef std::vector<uint8> Bytes;

static std::vector<std::string> split(const std::string & s, char c)
{
   std::vector<std::string> r; std::string cur;
   for (size_t i=0; i<s.size(); i++) {if (s[i]==c) {r.push_back(cur); cur.clear();} else cur += s[i];}
   r.push_back(cur);
   return r;
}
static int hexval(char c) {return (c>='0'&&c<='9')?(c-'0'):((c>='a'&&c<='f')?(c-'a'+10):((c>='A'&&c<='F')?(c-'A'+10):0));}
static Bytes unhex(const std::string & s)
{
   Bytes r;
   for (size_t i=0; i+1<s.size(); i+=2) r.push_back((uint8)((hexval(s[i])<<4)|hexval(s[i+1])));
   return r;
}
static std::string hex(const uint8 * p, size_t n)
{
   static const char * d = "0123456789abcdef";
   std::string r; r.reserve(n*2);
   for (size_t i=0; i<n; i++) {r += d[p[i]>>4]; r += d[p[i]&15];}
   return r;
}
static std::string hex(const Bytes & b) {return b.empty() ? std::string() : hex(&b[0], b.size());}
static String mkstr(const Bytes & v) {String s; for (size_t i=0; i<v.size(); i++) s += (char) v[i]; return s;}
static const uint8 * dataptr(const Bytes & v) {static const uint8 z = 0; return v.empty() ? &z : &v[0];}
static uint32 u32(const std::string & s) {return (uint32) strtoul(s.c_str(), NULL, 10);}

// ------------------------------------------------------------------ the harness's own copies (oracle side)
struct OMsg;
struct OItem {Bytes bytes; std::shared_ptr<OMsg> sub;};
struct OField {Bytes name; uint32 tc; std::vector<OItem> items;};
struct OMsg {uint32 what; std::vector<OField> fields; OMsg() : what(0) {}};

struct OF
{
   char kind;            // W E N S R M & ~ ^
   char t;               // numeric type letter / 's' 'n' for strings
   Bytes name, val, msk, def;
   bool hasVal, hasDef, hasKid;
   uint32 idx, op, mop, tc, n, mn, mx;
   std::vector<std::shared_ptr<OF> > kids;
   std::shared_ptr<OMsg> defmsg;
   OF() : kind('?'), t(' '), hasVal(false), hasDef(false), hasKid(false), idx(0), op(0), mop(0), tc(0), n(0), mn(0), mx(0) {}
};
struct ONode {bool present; uint32 numChildren; Bytes name; ONode() : present(false), numChildren(0) {}};

static const OItem * ofind(const OMsg & m, const Bytes & name, uint32 tc, uint32 idx, uint32 * retTC)
{
   for (size_t i=0; i<m.fields.size(); i++)
      if (m.fields[i].name == name)
      {
         const OField & f = m.fields[i];
         if ((tc != B_ANY_TYPE)&&(tc != f.tc)) return NULL;
         if (idx >= f.items.size()) return NULL;
         if (retTC) *retTC = f.tc;
         return &f.items[idx];
      }
   return NULL;
}

template<class T> static bool cmpop(uint32 op, const T & a, const T & b)
{
   switch(op)
   {
      case 0: return a == b;   // documented operator numbering of NumericQueryFilter::OP_*
      case 1: return a <  b;
      case 2: return a >  b;
      case 3: return a <= b;
      case 4: return a >= b;
      case 5: return a != b;
      default: return false;
   }
}
template<class T> static T maskint(uint32 mop, T v, T m)
{
   switch(mop)
   {
      case 1: return (T)(v & m);
      case 2: return (T)(v | m);
      case 3: return (T)(v ^ m);
      case 4: return (T)(~(v & m));
      case 5: return (T)(~(v | m));
      case 6: return (T)(~(v ^ m));
      default: return v;
   }
}
template<class T> static bool spec_int(uint32 op, uint32 mop, const Bytes & v, const Bytes & m, const Bytes & operand)
{
   T a, b, k; memcpy(&a, &v[0], sizeof(T)); memcpy(&k, &m[0], sizeof(T)); memcpy(&b, &operand[0], sizeof(T));
   if (mop != 0) a = maskint<T>(mop, a, k);
   return cmpop<T>(op, a, b);
}
static bool spec_bool(uint32 op, uint32 mop, const Bytes & v, const Bytes & m, const Bytes & operand)
{
   bool a = (v[0] != 0), k = (m[0] != 0), b = (operand[0] != 0);
   switch(mop)
   {
      case 1: a = a && k; break;
      case 2: a = a || k; break;
      case 3: a = (a != k); break;
      case 4: a = !(a && k); break;
      case 5: a = !(a || k); break;
      case 6: a = !(a != k); break;
      default: break;
   }
   return cmpop<int>(op, a?1:0, b?1:0);
}
template<class T> static bool spec_fp(uint32 op, uint32 mop, const Bytes & v, const Bytes & operand)
{
   T a, b; memcpy(&a, &v[0], sizeof(T)); memcpy(&b, &operand[0], sizeof(T));
   if (mop != 0) a = T();         // "mask operations are not defined for floats, doubles, Points, or Rects": a default-constructed value
   return cmpop<T>(op, a, b);
}
// Tuple<N,float> ordering as support/Tuple.h defines it: == all components equal; < and > decided by the first
// component that differs in that direction; <= is !>, >= is !<, != is !==
static bool spec_tuple(int n, uint32 op, uint32 mop, const Bytes & v, const Bytes & operand)
{
   float a[4], b[4];
   memcpy(a, &v[0], n*4); memcpy(b, &operand[0], n*4);
   if (mop != 0) {if (n == 2) {const Point d; memcpy(a, &d[0], 8);} else {const Rect d; memcpy(a, &d[0], 16);}}   // a default-constructed Point / Rect
   bool eq = true, lt = false, gt = false;
   for (int i=0; i<n; i++) if (a[i] != b[i]) eq = false;
   for (int i=0; i<n; i++) {if (a[i] < b[i]) {lt = true; break;} if (a[i] > b[i]) break;}
   for (int i=0; i<n; i++) {if (a[i] > b[i]) {gt = true; break;} if (a[i] < b[i]) break;}
   switch(op)
   {
      case 0: return eq;
      case 1: return lt;
      case 2: return gt;
      case 3: return !gt;
      case 4: return !lt;
      case 5: return !eq;
      default: return false;
   }
}
static uint32 tc_of_letter(char t)
{
   switch(t)
   {
      case 'b': return B_BOOL_TYPE;  case 'c': return B_INT8_TYPE;   case 'h': return B_INT16_TYPE; case 'i': return B_INT32_TYPE;
      case 'l': return B_INT64_TYPE; case 'f': return B_FLOAT_TYPE;  case 'd': return B_DOUBLE_TYPE; case 'P': return B_POINT_TYPE;
      case 'R': return B_RECT_TYPE;  case 's': return B_STRING_TYPE; case 'X': return B_RAW_TYPE;   case 'C': return B_INT32_TYPE;
      default:  return 0;
   }
}
static size_t width_of_letter(char t)
{
   switch(t) {case 'b': case 'c': return 1; case 'h': return 2; case 'i': case 'f': case 'C': return 4; case 'l': case 'd': case 'P': return 8; case 'R': return 16; default: return 0;}
}
static bool spec_num(char t, uint32 op, uint32 mop, const Bytes & v, const Bytes & m, const Bytes & operand)
{
   switch(t)
   {
      case 'b': return spec_bool(op, mop, v, m, operand);
      case 'c': return spec_int<int8>(op, mop, v, m, operand);
      case 'h': return spec_int<int16>(op, mop, v, m, operand);
      case 'i': case 'C': return spec_int<int32>(op, mop, v, m, operand);
      case 'l': return spec_int<int64>(op, mop, v, m, operand);
      case 'f': return spec_fp<float>(op, mop, v, operand);
      case 'd': return spec_fp<double>(op, mop, v, operand);
      case 'P': return spec_tuple(2, op, mop, v, operand);
      case 'R': return spec_tuple(4, op, mop, v, operand);
      default:  return false;
   }
}

static std::string lowered(const std::string & s) {std::string r = s; for (size_t i=0; i<r.size(); i++) if ((r[i] >= 'A')&&(r[i] <= 'Z')) r[i] = (char)(r[i]+32); return r;}
static bool starts(const std::string & s, const std::string & p) {return (s.size() >= p.size())&&(s.compare(0, p.size(), p) == 0);}
static bool ends(const std::string & s, const std::string & p) {return (s.size() >= p.size())&&(s.compare(s.size()-p.size(), p.size(), p) == 0);}
// String::IndexOf(x) >= 0 as documented, with its edge: an empty subject string contains nothing (not even "")
static bool contains(const std::string & s, const std::string & x) {return (!s.empty())&&(s.find(x) != std::string::npos);}
// IndexOfIgnoreCase(x) >= 0: additionally an empty needle is never found
static bool containsIC(const std::string & s, const std::string & x) {return (!s.empty())&&(!x.empty())&&(s.find(x) != std::string::npos);}

static bool spec_str(uint32 op, const Bytes & vb, const Bytes & sb)
{
   const std::string v(vb.begin(), vb.end()), s(sb.begin(), sb.end());
   const std::string lv = lowered(v), ls = lowered(s);
   switch(op)
   {
      case StringQueryFilter::OP_EQUAL_TO:                 return s == v;
      case StringQueryFilter::OP_LESS_THAN:                return s <  v;
      case StringQueryFilter::OP_GREATER_THAN:             return s >  v;
      case StringQueryFilter::OP_LESS_THAN_OR_EQUAL_TO:    return s <= v;
      case StringQueryFilter::OP_GREATER_THAN_OR_EQUAL_TO: return s >= v;
      case StringQueryFilter::OP_NOT_EQUAL_TO:             return s != v;
      case StringQueryFilter::OP_STARTS_WITH:              return starts(s, v);
      case StringQueryFilter::OP_ENDS_WITH:                return ends(s, v);
      case StringQueryFilter::OP_CONTAINS:                 return contains(s, v);
      case StringQueryFilter::OP_START_OF:                 return starts(v, s);
      case StringQueryFilter::OP_END_OF:                   return ends(v, s);
      case StringQueryFilter::OP_SUBSTRING_OF:             return contains(v, s);
      case StringQueryFilter::OP_EQUAL_TO_IGNORECASE:                 return ls == lv;
      case StringQueryFilter::OP_LESS_THAN_IGNORECASE:                return ls <  lv;
      case StringQueryFilter::OP_GREATER_THAN_IGNORECASE:             return ls >  lv;
      case StringQueryFilter::OP_LESS_THAN_OR_EQUAL_TO_IGNORECASE:    return ls <= lv;
      case StringQueryFilter::OP_GREATER_THAN_OR_EQUAL_TO_IGNORECASE: return ls >= lv;
      case StringQueryFilter::OP_NOT_EQUAL_TO_IGNORECASE:             return ls != lv;
      case StringQueryFilter::OP_STARTS_WITH_IGNORECASE:   return starts(ls, lv);
      case StringQueryFilter::OP_ENDS_WITH_IGNORECASE:     return ends(ls, lv);
      case StringQueryFilter::OP_CONTAINS_IGNORECASE:      return containsIC(ls, lv);
      case StringQueryFilter::OP_START_OF_IGNORECASE:      return starts(lv, ls);
      case StringQueryFilter::OP_END_OF_IGNORECASE:        return ends(lv, ls);
      case StringQueryFilter::OP_SUBSTRING_OF_IGNORECASE:  return containsIC(lv, ls);
      // the pattern operators are defined by StringMatcher (property C15): the documented equivalents
      case StringQueryFilter::OP_SIMPLE_WILDCARD_MATCH:               return StringMatcher(mkstr(vb), true).Match(mkstr(sb)());
      case StringQueryFilter::OP_REGULAR_EXPRESSION_MATCH:            return StringMatcher(mkstr(vb), false).Match(mkstr(sb)());
      case StringQueryFilter::OP_SIMPLE_WILDCARD_MATCH_IGNORECASE:    return StringMatcher(ToCaseInsensitive(mkstr(vb)), true).Match(mkstr(sb)());
      case StringQueryFilter::OP_REGULAR_EXPRESSION_MATCH_IGNORECASE: return StringMatcher(ToCaseInsensitive(mkstr(vb)), false).Match(mkstr(sb)());
      default: return false;
   }
}

static bool spec_raw(uint32 op, const Bytes & my, const Bytes & his)
{
   switch(op)
   {
      case RawDataQueryFilter::OP_EQUAL_TO:                 return his == my;
      case RawDataQueryFilter::OP_LESS_THAN:                return his <  my;      // std::vector<uint8>: lexicographic on unsigned bytes
      case RawDataQueryFilter::OP_GREATER_THAN:             return his >  my;
      case RawDataQueryFilter::OP_LESS_THAN_OR_EQUAL_TO:    return his <= my;
      case RawDataQueryFilter::OP_GREATER_THAN_OR_EQUAL_TO: return his >= my;
      case RawDataQueryFilter::OP_NOT_EQUAL_TO:             return his != my;
      case RawDataQueryFilter::OP_STARTS_WITH: return (my.size() <= his.size())&&(std::equal(my.begin(), my.end(), his.begin()));
      case RawDataQueryFilter::OP_ENDS_WITH:   return (my.size() <= his.size())&&(std::equal(my.begin(), my.end(), his.end()-my.size()));
      case RawDataQueryFilter::OP_CONTAINS:    return std::search(his.begin(), his.end(), my.begin(), my.end()) != his.end() || my.empty();
      case RawDataQueryFilter::OP_START_OF:    return (his.size() <= my.size())&&(std::equal(his.begin(), his.end(), my.begin()));
      case RawDataQueryFilter::OP_END_OF:      return (his.size() <= my.size())&&(std::equal(his.begin(), his.end(), my.end()-his.size()));
      case RawDataQueryFilter::OP_SUBSET_OF:   return std::search(my.begin(), my.end(), his.begin(), his.end()) != my.end() || his.empty();
      default: return false;
   }
}

static bool is_fixed_tc(uint32 tc)
{
   switch(tc) {case B_BOOL_TYPE: case B_INT8_TYPE: case B_INT16_TYPE: case B_INT32_TYPE: case B_INT64_TYPE: case B_FLOAT_TYPE: case B_DOUBLE_TYPE: case B_POINT_TYPE: case B_RECT_TYPE: return true; default: return false;}
}

static bool spec_eval(const OF & f, const OMsg & m, const ONode & node)
{
   switch(f.kind)
   {
      case 'W': return (f.mn <= m.what)&&(m.what <= f.mx);
      case 'E': return ofind(m, f.name, f.tc, f.idx, NULL) != NULL;
      case 'N':
      {
         const Bytes * v = NULL;
         OMsg tmp;
         const OMsg * mm = &m;
         if (f.t == 'C')
         {
            // "filter based on the number of child nodes the DataNode in question has" (0 when there is no node)
            const uint32 c = node.present ? node.numChildren : 0;
            OField fld; fld.tc = B_INT32_TYPE; OItem it; it.bytes.resize(4); memcpy(&it.bytes[0], &c, 4); fld.items.push_back(it);
            tmp.fields.push_back(fld);
            mm = &tmp;
         }
         const OItem * it = ofind(*mm, f.name, tc_of_letter(f.t), f.idx, NULL);
         if (it) v = &it->bytes; else if (f.hasDef) v = &f.def;
         if (v == NULL) return false;
         return spec_num(f.t, f.op, f.mop, *v, f.msk, f.val);
      }
      case 'S':
      {
         if (f.t == 'n') return node.present ? spec_str(f.op, f.val, node.name) : false;
         const OItem * it = ofind(m, f.name, B_STRING_TYPE, f.idx, NULL);
         const Bytes * s = it ? &it->bytes : (f.hasDef ? &f.def : NULL);
         return s ? spec_str(f.op, f.val, *s) : false;
      }
      case 'R':
      {
         uint32 ftc = 0;
         const OItem * it = ofind(m, f.name, f.tc, f.idx, &ftc);
         Bytes his;
         if (it)
         {
            if (it->sub) return false;          // raw comparison against a sub-Message field: not specified, never generated
            his = it->bytes;
            if (ftc == B_STRING_TYPE) his.push_back(0);     // "the raw bytes of a field": a String's bytes include its NUL terminator
         }
         else if (f.hasDef) his = f.def;
         else return false;
         if (!f.hasVal) return false;
         return spec_raw(f.op, f.val, his);
      }
      case 'M':
      {
         const OItem * it = ofind(m, f.name, B_MESSAGE_TYPE, f.idx, NULL);
         const OMsg * sub = (it && it->sub) ? it->sub.get() : (f.defmsg ? f.defmsg.get() : NULL);
         if (sub == NULL) return false;
         return f.hasKid ? spec_eval(*f.kids[0], *sub, node) : true;
      }
      case '&': case '~':
      {
         uint32 cnt = 0;
         for (size_t i=0; i<f.kids.size(); i++) if (spec_eval(*f.kids[i], m, node)) cnt++;
         // "matches iff more than (n) of its children match"; n greater than the number of children is treated as numKids-1;
         // with no children: And/Or filters always match, Nand/Nor filters never do
         bool more;
         if (f.kids.empty()) more = true;
         else more = (cnt > std::min<uint32>(f.n, (uint32)f.kids.size()-1));
         return (f.kind == '&') ? more : !more;
      }
      case '^':
      {
         uint32 cnt = 0;
         for (size_t i=0; i<f.kids.size(); i++) if (spec_eval(*f.kids[i], m, node)) cnt++;
         return (cnt % 2) == 1;
      }
      default: return false;
   }
}

// ------------------------------------------------------------------ canonical text of muscle objects
static std::string desc_msg(const Message & m);
static std::string desc_item(const Message & m, const String & fn, uint32 tc, uint32 i)
{
   if (tc == B_STRING_TYPE) {const String * ps = NULL; return (m.FindString(fn, i, &ps).IsOK()) ? hex((const uint8 *) ps->Cstr(), ps->Length()) : std::string("!");}
   if (tc == B_MESSAGE_TYPE) {MessageRef s; return (m.FindMessage(fn, i, s).IsOK() && s()) ? ("<" + desc_msg(*s()) + ">") : std::string("!");}
   const void * p = NULL; uint32 n = 0;
   if (m.FindData(fn, tc, i, &p, &n).IsError()) return "";
   return hex((const uint8 *) p, n);
}
static std::string desc_msg(const Message & m)
{
   std::vector<std::pair<std::string, std::string> > fl;
   for (MessageFieldNameIterator it = m.GetFieldNameIterator(); it.HasData(); it++)
   {
      const String & fn = it.GetFieldName();
      uint32 tc = 0, c = 0;
      (void) m.GetInfo(fn, &tc, &c);
      std::ostringstream o;
      const std::string hn = hex((const uint8 *) fn(), fn.Length());
      o << hn << "=" << tc << "[";
      for (uint32 i=0; i<c; i++) {if (i) o << ","; o << desc_item(m, fn, tc, i);}
      o << "]";
      fl.push_back(std::make_pair(hn, o.str()));
   }
   std::sort(fl.begin(), fl.end());
   std::ostringstream o;
   o << m.what << "(";
   for (size_t i=0; i<fl.size(); i++) o << fl[i].second;
   o << ")";
   return o.str();
}

template<class T> static std::string podhex(const T & v) {Bytes b(sizeof(T)); memcpy(&b[0], &v, sizeof(T)); return hex(b);}
static std::string podhex(const bool & v) {return v ? "01" : "00";}
static std::string podhex(const Point & v) {Bytes b(8); memcpy(&b[0], &v[0], 8); return hex(b);}
static std::string podhex(const Rect & v) {Bytes b(16); memcpy(&b[0], &v[0], 16); return hex(b);}

static std::string desc_filter(const QueryFilter * f);
template<class F> static std::string desc_num(const F * f, char letter)
{
   std::ostringstream o;
   o << "N" << letter << "(" << hex((const uint8 *) f->GetFieldName()(), f->GetFieldName().Length()) << "," << f->GetIndex() << "," << (unsigned) f->_op << "," << (unsigned) f->_maskOp
     << "," << podhex(f->_value) << "," << podhex(f->_mask) << "," << (f->_assumeDefault ? podhex(f->_default) : std::string("-")) << ")";
   return o.str();
}
static std::string desc_bb(const ConstByteBufferRef & r)
{
   if (r() == NULL) return "-";
   if ((r()->GetBuffer() == NULL)||(r()->GetNumBytes() == 0)) return "";     // an empty buffer (only ever an assumed-default given through the C++ API)
   return hex(r()->GetBuffer(), r()->GetNumBytes());
}
static std::string desc_kids(const Queue<ConstQueryFilterRef> & q)
{
   std::string r = "[";
   for (uint32 i=0; i<q.GetNumItems(); i++) {if (i) r += " "; r += q[i]() ? desc_filter(q[i]()) : std::string("NULL");}
   return r + "]";
}
static std::string desc_filter(const QueryFilter * f)
{
   std::ostringstream o;
   switch(f->TypeCode())
   {
      case QUERY_FILTER_TYPE_WHATCODE:
      {
         const WhatCodeQueryFilter * w = static_cast<const WhatCodeQueryFilter *>(f);
         o << "W(" << w->_minWhatCode << "," << w->_maxWhatCode << ")";
      }
      break;
      case QUERY_FILTER_TYPE_VALUEEXISTS:
      {
         const ValueExistsQueryFilter * e = static_cast<const ValueExistsQueryFilter *>(f);
         o << "E(" << hex((const uint8 *) e->GetFieldName()(), e->GetFieldName().Length()) << "," << e->GetIndex() << "," << e->GetTypeCode() << ")";
      }
      break;
      case QUERY_FILTER_TYPE_BOOL:   return desc_num(static_cast<const BoolQueryFilter *>(f), 'b');
      case QUERY_FILTER_TYPE_DOUBLE: return desc_num(static_cast<const DoubleQueryFilter *>(f), 'd');
      case QUERY_FILTER_TYPE_FLOAT:  return desc_num(static_cast<const FloatQueryFilter *>(f), 'f');
      case QUERY_FILTER_TYPE_INT64:  return desc_num(static_cast<const Int64QueryFilter *>(f), 'l');
      case QUERY_FILTER_TYPE_INT32:  return desc_num(static_cast<const Int32QueryFilter *>(f), 'i');
      case QUERY_FILTER_TYPE_INT16:  return desc_num(static_cast<const Int16QueryFilter *>(f), 'h');
      case QUERY_FILTER_TYPE_INT8:   return desc_num(static_cast<const Int8QueryFilter *>(f), 'c');
      case QUERY_FILTER_TYPE_POINT:  return desc_num(static_cast<const PointQueryFilter *>(f), 'P');
      case QUERY_FILTER_TYPE_RECT:   return desc_num(static_cast<const RectQueryFilter *>(f), 'R');
      case QUERY_FILTER_TYPE_CHILDCOUNT: return desc_num(static_cast<const ChildCountQueryFilter *>(f), 'C');
      case QUERY_FILTER_TYPE_STRING: case QUERY_FILTER_TYPE_NODENAME:
      {
         const StringQueryFilter * s = static_cast<const StringQueryFilter *>(f);
         o << "S" << ((f->TypeCode() == QUERY_FILTER_TYPE_NODENAME) ? "n" : "s") << "(" << hex((const uint8 *) s->GetFieldName()(), s->GetFieldName().Length()) << "," << s->GetIndex()
           << "," << (unsigned) s->_op << "," << hex((const uint8 *) s->_value(), s->_value.Length()) << ","
           << (s->_assumeDefault ? hex((const uint8 *) s->_default(), s->_default.Length()) : std::string("-")) << ")";
      }
      break;
      case QUERY_FILTER_TYPE_RAWDATA:
      {
         const RawDataQueryFilter * r = static_cast<const RawDataQueryFilter *>(f);
         o << "R(" << hex((const uint8 *) r->GetFieldName()(), r->GetFieldName().Length()) << "," << r->GetIndex() << "," << (unsigned) r->_op << "," << r->_typeCode
           << "," << desc_bb(r->_value) << "," << desc_bb(r->_default) << ")";
      }
      break;
      case QUERY_FILTER_TYPE_MESSAGE:
      {
         const MessageQueryFilter * m = static_cast<const MessageQueryFilter *>(f);
         o << "M(" << hex((const uint8 *) m->GetFieldName()(), m->GetFieldName().Length()) << "," << m->GetIndex() << ","
           << (m->_childFilter() ? desc_filter(m->_childFilter()) : std::string("-")) << ","
           << (m->_optDefaultChildMessage() ? desc_msg(*m->_optDefaultChildMessage()) : std::string("-")) << ")";
      }
      break;
      case QUERY_FILTER_TYPE_MINMATCH:
      {
         const MinimumThresholdQueryFilter * m = static_cast<const MinimumThresholdQueryFilter *>(f);
         o << "&(" << m->GetMinMatchCount() << "," << desc_kids(m->GetChildren()) << ")";
      }
      break;
      case QUERY_FILTER_TYPE_MAXMATCH:
      {
         const MaximumThresholdQueryFilter * m = static_cast<const MaximumThresholdQueryFilter *>(f);
         o << "~(" << m->GetMaxMatchCount() << "," << desc_kids(m->GetChildren()) << ")";
      }
      break;
      case QUERY_FILTER_TYPE_XOR:
         o << "^(" << desc_kids(static_cast<const XorQueryFilter *>(f)->GetChildren()) << ")";
      break;
      default: o << "?" << f->TypeCode();
   }
   return o.str();
}

// ------------------------------------------------------------------ building
static MessageRef deep_clone(const Message & s);
static void unshare(Message & m)
{
   std::vector<String> names;
   for (MessageFieldNameIterator it = m.GetFieldNameIterator(B_MESSAGE_TYPE); it.HasData(); it++) names.push_back(it.GetFieldName());
   for (size_t n=0; n<names.size(); n++)
   {
      const uint32 c = m.GetNumValuesInName(names[n], B_MESSAGE_TYPE);
      for (uint32 i=0; i<c; i++)
      {
         MessageRef sub;
         if (m.FindMessage(names[n], i, sub).IsOK() && sub()) (void) m.ReplaceMessage(false, names[n], i, deep_clone(*sub()));
      }
   }
}
static MessageRef deep_clone(const Message & s) {MessageRef c = GetMessageFromPool(s); if (c()) unshare(*c()); return c;}

static bool is_raw_code(uint32 tc) {return (Message::GetElementSize(tc) == 0)&&(tc != B_STRING_TYPE)&&(tc != B_ANY_TYPE);}

static bool typed_add(Message & m, const String & fn, const std::string & t, const Bytes & v)
{
   if (t.size() == 1)
   {
      const size_t w = width_of_letter(t[0]);
      if ((w > 0)&&(v.size() != w)) return false;
      switch(t[0])
      {
         case 'b': return m.AddBool(fn, v[0] != 0).IsOK();
         case 'c': {int8 x;   memcpy(&x, &v[0], 1); return m.AddInt8(fn, x).IsOK();}
         case 'h': {int16 x;  memcpy(&x, &v[0], 2); return m.AddInt16(fn, x).IsOK();}
         case 'i': {int32 x;  memcpy(&x, &v[0], 4); return m.AddInt32(fn, x).IsOK();}
         case 'l': {int64 x;  memcpy(&x, &v[0], 8); return m.AddInt64(fn, x).IsOK();}
         case 'f': {float x;  memcpy(&x, &v[0], 4); return m.AddFloat(fn, x).IsOK();}
         case 'd': {double x; memcpy(&x, &v[0], 8); return m.AddDouble(fn, x).IsOK();}
         case 'P': {Point p;  memcpy(&p[0], &v[0], 8);  return m.AddPoint(fn, p).IsOK();}
         case 'R': {Rect r;   memcpy(&r[0], &v[0], 16); return m.AddRect(fn, r).IsOK();}
         case 's': return m.AddString(fn, mkstr(v)).IsOK();
         case 'X': return m.AddData(fn, B_RAW_TYPE, dataptr(v), (uint32) v.size()).IsOK();
         default:  break;
      }
   }
   if ((t.size() > 1)&&(t[0] == 'x'))
   {
      const uint32 tc = (uint32) strtoul(t.c_str()+1, NULL, 10);
      if (!is_raw_code(tc)) return false;
      return m.AddData(fn, tc, dataptr(v), (uint32) v.size()).IsOK();
   }
   fprintf(stderr, "bad type [%s]\n", t.c_str()); exit(2);
}
static uint32 tc_of_type(const std::string & t) {return (t.size() == 1) ? tc_of_letter(t[0]) : (uint32) strtoul(t.c_str()+1, NULL, 10);}

static void oadd(OMsg & m, const Bytes & name, uint32 tc, const OItem & it)
{
   for (size_t i=0; i<m.fields.size(); i++) if (m.fields[i].name == name) {m.fields[i].items.push_back(it); return;}
   OField f; f.name = name; f.tc = tc; f.items.push_back(it);
   m.fields.push_back(f);
}
static std::shared_ptr<OMsg> oclone(const OMsg & s)
{
   std::shared_ptr<OMsg> r(new OMsg);
   r->what = s.what;
   r->fields = s.fields;
   for (size_t i=0; i<r->fields.size(); i++)
      for (size_t j=0; j<r->fields[i].items.size(); j++)
         if (r->fields[i].items[j].sub) r->fields[i].items[j].sub = oclone(*r->fields[i].items[j].sub);
   return r;
}

template<class T> static T pod(const Bytes & b) {T x; memcpy(&x, &b[0], sizeof(T)); return x;}
template<> bool pod<bool>(const Bytes & b) {return b[0] != 0;}
template<> Point pod<Point>(const Bytes & b) {Point p; memcpy(&p[0], &b[0], 8); return p;}
template<> Rect pod<Rect>(const Bytes & b) {Rect r; memcpy(&r[0], &b[0], 16); return r;}

template<class F> static QueryFilterRef make_num(const OF & o)
{
   typedef typename F::DataType DT;
   F * f = o.hasDef ? new F(mkstr(o.name), (uint8) o.op, pod<DT>(o.val), o.idx, pod<DT>(o.def)) : new F(mkstr(o.name), (uint8) o.op, pod<DT>(o.val), o.idx);
   f->SetMask((uint8) o.mop, pod<DT>(o.msk));
   return QueryFilterRef(f);
}

// what kind of expression-parsing failure this is (goes into the failure signature, for known-finding matching):
//  [synonym-inside-word]   the expression has a letter directly followed by one of the synonym keywords "and ", "or ", "xor ",
//                          "not ", "is ", "equals " (e.g. the field name "eyecolor" followed by a blank)
//  [fieldname-suffix-kept] the parsed tree differs from the denoted one only in field names that kept their ":index" / "|default" suffix
static std::string strip_suffixes(const std::string & d)
{
   // in a filter description, remove from every hex field name (the text after '(' up to the first ',') everything from the first 3a (':') or 7c ('|') byte on
   std::string r;
   size_t i = 0;
   while(i < d.size())
   {
      r += d[i];
      if ((d[i] == '(')&&(i >= 1)&&((d[i-1] == 'E')||(d[i-1] == 's')||(d[i-1] == 'n')||(d[i-1] == 'R')||(d[i-1] == 'M')||((i >= 2)&&(d[i-2] == 'N'))))
      {
         size_t j = i+1;
         std::string nm;
         while((j < d.size())&&(d[j] != ',')) nm += d[j++];
         for (size_t q=0; q+1<nm.size(); q+=2) if ((nm.compare(q, 2, "3a") == 0)||(nm.compare(q, 2, "7c") == 0)) {nm = nm.substr(0, q); break;}
         r += nm;
         i = j;
         continue;
      }
      i++;
   }
   return r;
}
static std::string expr_tag(const Bytes & expr, const std::string & parsed, const std::string & denoted)
{
   std::string r;
   const std::string e(expr.begin(), expr.end());
   static const char * syn[] = {"and ", "or ", "xor ", "not ", "is ", "equals "};
   bool inq = false;
   for (size_t i=1; i<e.size(); i++)
   {
      if (e[i-1] == '"') inq = !inq;
      if (inq) continue;
      const char p = e[i-1];
      if (((p >= 'a')&&(p <= 'z'))||((p >= 'A')&&(p <= 'Z'))||((p >= '0')&&(p <= '9')))
         for (size_t s=0; s<6; s++) if (strncasecmp(e.c_str()+i, syn[s], strlen(syn[s])) == 0) {r = " [synonym-inside-word]"; break;}
   }
   if ((!parsed.empty())&&(parsed != denoted)&&(strip_suffixes(parsed) == denoted)) r += " [fieldname-suffix-kept]";
   return r;
}

struct Entry {ConstQueryFilterRef f; std::shared_ptr<OF> o;};    // o is NULL for filters that did not come from f-ops

static std::string bits(const QueryFilter * f, Message * regs, const DataNode * node, std::ostringstream & orc, int k)
{
   std::string r;
   for (int i=0; i<8; i++)
   {
      const uint32 fs = regs[i].FlattenedSize();
      Bytes before(fs); regs[i].FlattenToBytes(&before[0], fs);
      DummyConstMessageRef ref(regs[i]);
      ConstMessageRef cref = ref;
      const bool b = f->Matches(cref, node);
      r += b ? '1' : '0';
      const uint32 fs2 = regs[i].FlattenedSize();
      Bytes after(fs2); regs[i].FlattenToBytes(&after[0], fs2);
      if (before != after) orc << k << " ORACLE FAIL Matches() modified the Message in register " << i << "\n";
      if (cref() != &regs[i]) orc << k << " ORACLE FAIL Matches() retargeted the Message reference in register " << i << "\n";
   }
   return r;
}

static void run_case(int k, const std::string & head, const std::string & body)
{
   std::ostringstream out, orc, vout;
   {
      Message regs[8];
      OMsg oregs[8];
      std::vector<Entry> stack;
      ONode onode;
      DataNodeRef nodeRef;
      std::vector<DataNodeRef> kidsKeep;
      std::string st;
      int exprBelow = -1;       // stack index of the tree an expression is expected to denote
      Bytes exprText;
      std::vector<std::string> ops = split(body, ';');
      for (size_t n=0; n<ops.size(); n++)
      {
         if (ops[n].empty()) continue;
         std::vector<std::string> a = split(ops[n], ':');
         const std::string & c = a[0];
         #define REGI(i) ((unsigned)atoi(a[i].c_str()) & 7)
         bool ok = false;
         if ((c == "w")&&(a.size() == 3)) {regs[REGI(1)].what = u32(a[2]); oregs[REGI(1)].what = u32(a[2]); ok = true;}
         else if ((c == "a")&&(a.size() == 5))
         {
            const Bytes nm = unhex(a[2]), v = unhex(a[4]);
            ok = typed_add(regs[REGI(1)], mkstr(nm), a[3], v);
            if (ok) {OItem it; it.bytes = v; if (a[3] == "b") it.bytes[0] = v[0] ? 1 : 0; oadd(oregs[REGI(1)], nm, tc_of_type(a[3]), it);}
         }
         else if ((c == "am")&&(a.size() == 4))
         {
            const Bytes nm = unhex(a[2]);
            ok = regs[REGI(1)].AddMessage(mkstr(nm), deep_clone(regs[REGI(3)])).IsOK();
            if (ok) {OItem it; it.sub = oclone(oregs[REGI(3)]); oadd(oregs[REGI(1)], nm, B_MESSAGE_TYPE, it);}
         }
         else if ((c == "nk")&&(a.size() == 5))
         {
            // wrap register r <count> times: each level is a Message with the given what-code, an optional "fn" string,
            // and the previous level as its one "kid" sub-Message (deep archive nesting)
            const uint32 count = u32(a[2]), what = u32(a[3]);
            MessageRef cur = GetMessageFromPool(regs[REGI(1)]);
            std::shared_ptr<OMsg> ocur = oclone(oregs[REGI(1)]);
            ok = (cur() != NULL);
            for (uint32 i=0; (ok)&&(i<count); i++)
            {
               MessageRef outer = GetMessageFromPool(what);
               std::shared_ptr<OMsg> oouter(new OMsg); oouter->what = what;
               if (a[4] != "-")
               {
                  const Bytes fn = unhex(a[4]);
                  ok = outer()->AddString("fn", mkstr(fn)).IsOK();
                  OItem it; it.bytes = fn; Bytes nm; nm.push_back('f'); nm.push_back('n'); oadd(*oouter, nm, B_STRING_TYPE, it);
               }
               if (ok) ok = outer()->AddMessage("kid", cur).IsOK();
               OItem it; it.sub = ocur; Bytes nm; nm.push_back('k'); nm.push_back('i'); nm.push_back('d'); oadd(*oouter, nm, B_MESSAGE_TYPE, it);
               cur = outer; ocur = oouter;
            }
            if (ok) {regs[REGI(1)] = *cur(); oregs[REGI(1)] = *ocur;}
         }
         else if ((c == "n")&&(a.size() == 3))
         {
            onode.present = true; onode.numChildren = u32(a[1]); onode.name = unhex(a[2]);
            nodeRef.SetRef(new DataNode);
            nodeRef()->Init(mkstr(onode.name), GetMessageFromPool(0));
            for (uint32 i=0; i<onode.numChildren; i++)
            {
               DataNodeRef kid(new DataNode);
               char buf[32]; sprintf(buf, "k%u", (unsigned) i);
               kid()->Init(buf, GetMessageFromPool(0));
               (void) nodeRef()->PutChild(kid, NULL, NULL);
               kidsKeep.push_back(kid);
            }
            ok = true;
         }
         else if ((c == "fw")&&(a.size() == 3))
         {
            std::shared_ptr<OF> o(new OF); o->kind = 'W'; o->mn = u32(a[1]); o->mx = u32(a[2]);
            Entry e; e.f = QueryFilterRef(new WhatCodeQueryFilter(o->mn, o->mx)); e.o = o; stack.push_back(e); ok = true;
         }
         else if ((c == "fe")&&(a.size() == 4))
         {
            std::shared_ptr<OF> o(new OF); o->kind = 'E'; o->name = unhex(a[1]); o->idx = u32(a[2]); o->tc = u32(a[3]);
            Entry e; e.f = QueryFilterRef(new ValueExistsQueryFilter(mkstr(o->name), o->tc, o->idx)); e.o = o; stack.push_back(e); ok = true;
         }
         else if ((c == "fn")&&(a.size() == 9)&&(a[1].size() == 1))
         {
            std::shared_ptr<OF> o(new OF); o->kind = 'N'; o->t = a[1][0]; o->name = unhex(a[2]); o->idx = u32(a[3]); o->op = u32(a[4]) & 255; o->mop = u32(a[5]) & 255;
            o->val = unhex(a[6]); o->msk = unhex(a[7]); o->hasDef = (a[8] != "-"); if (o->hasDef) o->def = unhex(a[8]);
            const size_t w = width_of_letter(o->t);
            if ((w > 0)&&(o->val.size() == w)&&(o->msk.size() == w)&&((!o->hasDef)||(o->def.size() == w)))
            {
               if (o->t == 'b') {o->val[0] = o->val[0] ? 1 : 0; o->msk[0] = o->msk[0] ? 1 : 0; if (o->hasDef) o->def[0] = o->def[0] ? 1 : 0;}
               Entry e; e.o = o;
               switch(o->t)
               {
                  case 'b': e.f = make_num<BoolQueryFilter>(*o);   break;
                  case 'c': e.f = make_num<Int8QueryFilter>(*o);   break;
                  case 'h': e.f = make_num<Int16QueryFilter>(*o);  break;
                  case 'i': e.f = make_num<Int32QueryFilter>(*o);  break;
                  case 'l': e.f = make_num<Int64QueryFilter>(*o);  break;
                  case 'f': e.f = make_num<FloatQueryFilter>(*o);  break;
                  case 'd': e.f = make_num<DoubleQueryFilter>(*o); break;
                  case 'P': e.f = make_num<PointQueryFilter>(*o);  break;
                  case 'R': e.f = make_num<RectQueryFilter>(*o);   break;
                  case 'C':
                  {
                     ChildCountQueryFilter * f = new ChildCountQueryFilter((uint8) o->op, pod<int32>(o->val));
                     f->SetFieldName(mkstr(o->name)); f->SetIndex(o->idx); f->SetMask((uint8) o->mop, pod<int32>(o->msk));
                     if (o->hasDef) f->SetAssumedDefault(pod<int32>(o->def));
                     e.f = QueryFilterRef(f);
                  }
                  break;
                  default: break;
               }
               if (e.f()) {stack.push_back(e); ok = true;}
            }
         }
         else if ((c == "fs")&&(a.size() == 7))
         {
            std::shared_ptr<OF> o(new OF); o->kind = 'S'; o->t = (a[1] == "n") ? 'n' : 's'; o->name = unhex(a[2]); o->idx = u32(a[3]); o->op = u32(a[4]) & 255;
            o->val = unhex(a[5]); o->hasDef = (a[6] != "-"); if (o->hasDef) o->def = unhex(a[6]);
            StringQueryFilter * f;
            if (o->t == 'n') {f = new NodeNameQueryFilter((uint8) o->op, mkstr(o->val)); f->SetFieldName(mkstr(o->name)); f->SetIndex(o->idx);}
                        else f = new StringQueryFilter(mkstr(o->name), (uint8) o->op, mkstr(o->val), o->idx);
            if (o->hasDef) f->SetAssumedDefault(mkstr(o->def));
            Entry e; e.f = QueryFilterRef(f); e.o = o; stack.push_back(e); ok = true;
         }
         else if ((c == "fr")&&(a.size() == 7))
         {
            if (a[5] != "")     // an empty value buffer is outside the modelled domain; an empty assumed-default is allowed (direct API only)
            {
               std::shared_ptr<OF> o(new OF); o->kind = 'R'; o->name = unhex(a[1]); o->idx = u32(a[2]); o->op = u32(a[3]) & 255; o->tc = u32(a[4]);
               o->hasVal = (a[5] != "-"); if (o->hasVal) o->val = unhex(a[5]);
               o->hasDef = (a[6] != "-"); if (o->hasDef) o->def = unhex(a[6]);
               ConstByteBufferRef vb, db;
               if (o->hasVal) vb = GetByteBufferFromPool((uint32) o->val.size(), &o->val[0]);
               if (o->hasDef) db = GetByteBufferFromPool((uint32) o->def.size(), dataptr(o->def));
               Entry e; e.f = QueryFilterRef(new RawDataQueryFilter(mkstr(o->name), (uint8) o->op, vb, o->tc, o->idx, db)); e.o = o; stack.push_back(e); ok = true;
            }
         }
         else if ((c == "fm")&&(a.size() == 5))
         {
            std::shared_ptr<OF> o(new OF); o->kind = 'M'; o->name = unhex(a[1]); o->idx = u32(a[2]);
            ConstQueryFilterRef kid; bool oracleKnown = true;
            if ((a[3] == "1")&&(!stack.empty()))
            {
               kid = stack.back().f; o->hasKid = true;
               if (stack.back().o) o->kids.push_back(stack.back().o); else oracleKnown = false;
               stack.pop_back();
            }
            ConstMessageRef dm;
            if (a[4] != "-") {dm = deep_clone(regs[REGI(4)]); o->defmsg = oclone(oregs[REGI(4)]);}
            Entry e; e.f = QueryFilterRef(new MessageQueryFilter(kid, dm, mkstr(o->name), o->idx)); if (oracleKnown) e.o = o; stack.push_back(e); ok = true;
         }
         else if (((c == "f&")||(c == "f~"))&&(a.size() == 3))
         {
            std::shared_ptr<OF> o(new OF); o->kind = c[1]; o->n = u32(a[1]);
            size_t cnt = (size_t) atoi(a[2].c_str()); if (cnt > stack.size()) cnt = stack.size();
            MultiQueryFilter * f = (c == "f&") ? (MultiQueryFilter *) new MinimumThresholdQueryFilter(o->n) : (MultiQueryFilter *) new MaximumThresholdQueryFilter(o->n);
            bool oracleKnown = true;
            for (size_t i=stack.size()-cnt; i<stack.size(); i++) {(void) f->GetChildren().AddTail(stack[i].f); if (stack[i].o) o->kids.push_back(stack[i].o); else oracleKnown = false;}
            stack.resize(stack.size()-cnt);
            Entry e; e.f = QueryFilterRef(f); if (oracleKnown) e.o = o; stack.push_back(e); ok = true;
         }
         else if ((c == "f^")&&(a.size() == 2))
         {
            std::shared_ptr<OF> o(new OF); o->kind = '^';
            size_t cnt = (size_t) atoi(a[1].c_str()); if (cnt > stack.size()) cnt = stack.size();
            XorQueryFilter * f = new XorQueryFilter;
            bool oracleKnown = true;
            for (size_t i=stack.size()-cnt; i<stack.size(); i++) {(void) f->GetChildren().AddTail(stack[i].f); if (stack[i].o) o->kids.push_back(stack[i].o); else oracleKnown = false;}
            stack.resize(stack.size()-cnt);
            Entry e; e.f = QueryFilterRef(f); if (oracleKnown) e.o = o; stack.push_back(e); ok = true;
         }
         else if ((c == "ev")&&(a.size() == 1))
         {
            // evaluate the object on top of the stack now (this is what makes it a USED object: a StringQueryFilter compiles and caches its matcher)
            if (!stack.empty())
            {
               const std::string d = bits(stack.back().f(), regs, nodeRef(), orc, k);
               vout << k << " V " << d << "\n";
               if (stack.back().o)
               {
                  std::string sp;
                  for (int i=0; i<8; i++) sp += spec_eval(*stack.back().o, oregs[i], onode) ? '1' : '0';
                  if (sp != d) orc << k << " ORACLE FAIL Matches() differs from the documented semantics: got " << d << " expected " << sp << " for " << desc_filter(stack.back().f()) << " (intermediate evaluation)\n";
               }
               ok = true;
            }
         }
         else if ((c == "sfa")&&(a.size() == 1))
         {
            // stack: .. T G  ->  T->SetFromArchive(archive of G) on the SAME object T; G is dropped.  A failed call drops T as well.
            if (stack.size() >= 2)
            {
               Entry g = stack.back(); stack.pop_back();
               Entry t = stack.back(); stack.pop_back();
               Message arch;
               if (g.f()->SaveToArchive(arch).IsOK())
               {
                  QueryFilter * obj = const_cast<QueryFilter *>(t.f());
                  if (obj->SetFromArchive(arch).IsOK())
                  {
                     t.o = g.o;      // from now on the object must decide like G
                     stack.push_back(t);
                     ok = true;
                  }
               }
            }
         }
         else if (((c == "so")||(c == "sv"))&&(a.size() == 2))
         {
            // StringQueryFilter::SetOperator / SetValue on the object on top of the stack
            StringQueryFilter * sq = stack.empty() ? NULL : dynamic_cast<StringQueryFilter *>(const_cast<QueryFilter *>(stack.back().f()));
            if (sq)
            {
               std::shared_ptr<OF> no;
               if (stack.back().o) no.reset(new OF(*stack.back().o));
               if (c == "so") {const uint8 op = (uint8)(u32(a[1]) & 255); sq->SetOperator(op); if (no) no->op = op;}
                         else {const Bytes v = unhex(a[1]); sq->SetValue(mkstr(v)); if (no) no->val = v;}
               stack.back().o = no;
               ok = true;
            }
         }
         else if ((c == "h")&&(a.size() == 2))
         {
            // the archive arrives as bytes: Flatten / Unflatten first, as it would over a connection
            const Message & src = regs[REGI(1)];
            const uint32 fs = src.FlattenedSize();
            Bytes buf(fs); src.FlattenToBytes(&buf[0], fs);
            Message arch;
            if (arch.UnflattenFromBytes(&buf[0], fs).IsOK())
            {
               QueryFilterRef f = GetGlobalQueryFilterFactory()()->CreateQueryFilter(arch);
               if (f()) {Entry e; e.f = f; stack.push_back(e); ok = true;}
            }
         }
         else if ((c == "e")&&(a.size() == 2))
         {
            exprBelow = ((int) stack.size()) - 1;
            exprText = unhex(a[1]);
            ConstQueryFilterRef f = CreateQueryFilterFromExpression(mkstr(exprText));
            if (f()) {Entry e; e.f = f; stack.push_back(e); ok = true;}
            else
            {
               if ((head == "X")&&(exprBelow >= 0))
                  orc << k << " ORACLE FAIL expression rejected (" << f.GetStatus()() << ") although the documented grammar denotes " << desc_filter(stack[exprBelow].f()) << expr_tag(exprText, "", "") << "\n";
               exprBelow = -1;
            }
         }
         else {fprintf(stderr, "bad op [%s]\n", ops[n].c_str()); exit(2);}
         st += ok ? '1' : '0';
      }

      out << k << " B " << st << "\n";
      out << vout.str();
      if (stack.empty()) out << k << " F none\n";
      else
      {
         const Entry & top = stack.back();
         const DataNode * node = nodeRef();
         out << k << " F " << desc_filter(top.f()) << "\n";
         const std::string d = bits(top.f(), regs, node, orc, k);
         out << k << " D " << d << "\n";
         if (top.o)
         {
            std::string sp;
            for (int i=0; i<8; i++) sp += spec_eval(*top.o, oregs[i], onode) ? '1' : '0';
            if (sp != d) orc << k << " ORACLE FAIL Matches() differs from the documented semantics: got " << d << " expected " << sp << " for " << desc_filter(top.f()) << "\n";
         }
         if ((head == "X")&&(exprBelow >= 0)&&(exprBelow+1 == (int) stack.size()-1))
         {
            const std::string de = bits(stack[exprBelow].f(), regs, node, orc, k);
            if (de != d) orc << k << " ORACLE FAIL expression-built filter decides " << d << " but the tree its grammar denotes decides " << de << ": parsed " << desc_filter(top.f()) << " denoted " << desc_filter(stack[exprBelow].f())
                             << expr_tag(exprText, desc_filter(top.f()), desc_filter(stack[exprBelow].f())) << "\n";
         }
         Message arch;
         if (top.f()->SaveToArchive(arch).IsOK())
         {
            out << k << " A " << desc_msg(arch) << "\n";
            const uint32 fs = arch.FlattenedSize();
            Bytes buf(fs); arch.FlattenToBytes(&buf[0], fs);
            Message arch2;
            if (arch2.UnflattenFromBytes(&buf[0], fs).IsError()) orc << k << " ORACLE FAIL the archive Message does not survive Flatten/Unflatten\n";
            QueryFilterRef g = GetGlobalQueryFilterFactory()()->CreateQueryFilter(arch2);
            if (g())
            {
               const std::string dr = bits(g(), regs, node, orc, k);
               out << k << " R ok " << desc_filter(g()) << " " << dr << "\n";
               if (dr != d) orc << k << " ORACLE FAIL filter restored from its archive decides " << dr << " but the original decides " << d << " for " << desc_filter(top.f()) << "\n";
            }
            else
            {
               out << k << " R err\n";
               orc << k << " ORACLE FAIL a filter's own archive is rejected by the factory: " << desc_filter(top.f()) << "\n";
            }
         }
         else
         {
            out << k << " A err\n";
            orc << k << " ORACLE FAIL SaveToArchive failed for " << desc_filter(top.f()) << "\n";
         }
      }
      // release the node's children before the node
      if (nodeRef()) {nodeRef()->Reset(); }
   }
   fputs(out.str().c_str(), stdout);
   if (!orc.str().empty()) fputs(orc.str().c_str(), stdout);
   fflush(stdout);
}

int main()
{
   CompleteSetupSystem css;
   std::string line;
   int k = 0;
   while(std::getline(std::cin, line))
   {
      size_t p = line.find('|');
      if (p != std::string::npos) run_case(k, line.substr(0, p), line.substr(p+1));
      k++;
   }
   return 0;
}
