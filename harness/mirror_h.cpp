// C04 harness: scripted multi-client histories against a real in-process muscle::ReflectServer
// (StorageReflectSession sessions on socket pairs, see refl_common.h).
//
// One case per stdin line:   <label>|op;op;op...        fields ':'  items '&'   (batch: fields '~', sub-ops '+')
//   a                      attach one more session (index = number of sessions attached so far)
//   d:K                    close client K's connection (the server detaches session K)
//   s:K:F:path=v&path=v    PR_COMMAND_SETDATA, F = SETDATANODE_FLAG_* bits, relative literal paths, int32 payload field "v"
//   r:K:Q:pat&pat@f        PR_COMMAND_REMOVEDATA (Q=1: PR_NAME_REMOVE_QUIETLY), patterns relative to the session node
//   p:K:Q:pat&pat@f        PR_COMMAND_SETPARAMETERS with SUBSCRIBE:<pat> fields (Q=1: PR_NAME_SUBSCRIBE_QUIETLY)
//   m:K:N                  PR_COMMAND_SETPARAMETERS with PR_NAME_MAX_UPDATE_MESSAGE_ITEMS = N
//   u:K:pat&pat            PR_COMMAND_REMOVEPARAMETERS of SUBSCRIBE:<pat> (wildcards escaped)
//   um:K                   PR_COMMAND_REMOVEPARAMETERS of PR_NAME_MAX_UPDATE_MESSAGE_ITEMS
//   g:K:pat&pat@f          PR_COMMAND_GETDATA
//   b:K:sub+sub            PR_COMMAND_BATCH of the commands above written as  s~F~items  r~Q~pats  p~Q~subs  m~N  u~pats  um  g~pats
// filter f:  g<n> (v > n)   l<n> (v < n)   e<n> (v == n)   x (field v exists)
// Absolute patterns name the host clause "H" (-> "_unknown_") and the session clause by session index (-> real id).
//
// After EVERY op the server is pumped to quiescence and one line is printed:
//   k j M{per client: the PR_RESULT_DATAITEMS Messages received}  T{true tree, DFS, payload, subscriber table}
//       E{per session: max items, _subscriptions entries grouped by clause count}  V{per client: its mirror}
// plus, when the property's own statement fails on the implementation,
//   k ORACLE FAIL <what> op#j c<K> <detail>
// The oracle is independent of the Coq model: each client's mirror (removals first, then sets, of every update, in order;
// on its own unsubscribe the client drops what its remaining subscriptions no longer cover) must equal the set of foreign
// nodes of the real tree accepted by a plain muscle::PathMatcher::MatchesPath over the client's own subscription list.
#include "refl_common.h"
#include "regex/PathMatcher.h"
#include "regex/QueryFilter.h"
#include "regex/StringMatcher.h"

using namespace muscle;
using namespace refl;

// Session ids come from a file-static counter of the library that cannot be reset, and their size matters: the iteration
// order and the hash sums of the pooled subscriber tables depend on them ({1->2} and {2->1} share a sum only while ids are as
// small as counts).  Every case builds its own server, so it numbers its sessions 0,1,2,.. itself, exactly as a freshly
// started server process would; a case then behaves the same whatever its position in the input (and when replayed alone).
static uint32 g_nextSessionID = 0;
class MSession : public HSession
{
public:
   MSession()
   {
      _sessionID = g_nextSessionID++;
      char buf[64]; muscleSprintf(buf, UINT32_FORMAT_SPEC, _sessionID);
      _idString = buf;
   }
};
typedef World<MSession> W;

static std::string itos(long v) {std::ostringstream o; o << v; return o.str();}

static std::string CanonPath(const W & w, const std::string & p)
{
   const std::string pre = "/_unknown_";
   if (p.compare(0, pre.size(), pre) != 0) return p;
   if (p.size() == pre.size()) return "/H";
   if (p[pre.size()] != '/') return p;
   size_t i = pre.size()+1, j = i;
   while((j < p.size())&&(p[j] >= '0')&&(p[j] <= '9')) j++;
   if ((j == i)||((j < p.size())&&(p[j] != '/'))) return "/H" + p.substr(pre.size());
   const unsigned long id = strtoul(p.substr(i, j-i).c_str(), NULL, 10);
   return "/H/" + itos((long)id - (long)w.RealID(0)) + p.substr(j);
}

// a session clause is a decimal session index or a comma list of them; delta = +RealID(0) / -RealID(0)
static std::string ShiftSessionClause(const std::string & cl, long delta)
{
   if ((cl.empty())||(cl.find_first_not_of("0123456789,") != std::string::npos)) return cl;
   std::vector<std::string> seg = Split(cl, ',');
   std::string r;
   for (size_t i=0; i<seg.size(); i++) {if (i) r += ","; r += seg[i].empty() ? std::string("") : itos(atol(seg[i].c_str()) + delta);}
   return r;
}

// script pattern -> pattern for the real server (host clause H, session clause = index)
static std::string RealPattern(const W & w, const std::string & pat)
{
   if ((pat.empty())||(pat[0] != '/')) return pat;
   std::vector<std::string> cl = Split(pat.substr(1), '/');
   if ((cl.size() >= 1)&&(cl[0] == "H")) cl[0] = "_unknown_";
   if (cl.size() >= 2) cl[1] = ShiftSessionClause(cl[1], (long)w.RealID(0));
   std::string r;
   for (size_t i=0; i<cl.size(); i++) r += "/" + cl[i];
   return r;
}

// ---- payloads: the number n written "path=n" stands for the Message {v:int32 n; a:int32 n iff n even; b:int32 [n/3 (, n iff n>=6)]
//      iff n%3==0; c: iff n%5<=1, the string "s" when n is odd, int32 7 when n is even}; "-" is the empty Message.  The fields
//      a, b, c exist so that filters differing in ONE attribute (field name, value index, type code) are told apart by some payload.
static void FillPayload(Message & m, int32 n)
{
   (void) m.AddInt32("v", n);
   if (n < 0) return;
   if ((n%2) == 0) (void) m.AddInt32("a", n);
   if ((n%3) == 0) {(void) m.AddInt32("b", n/3); if (n >= 6) (void) m.AddInt32("b", n);}
   if ((n%5) <= 1) {if (n%2) (void) m.AddString("c", "s"); else (void) m.AddInt32("c", 7);}
}

// ---- filters.  spec :=  x | x<f>[I|S][i<idx>] | (g|l|e)[<f>]<int>[i<idx>] | A[spec.spec...] | O[...] | X[...] | N[spec]
//      f in {a,b,c} (default v): ValueExistsQueryFilter(field, type code, index), Int32QueryFilter(field, index, op, value),
//      And / Or / Xor / Nand(one child = not)
static ConstQueryFilterRef ParseFilter(const std::string & f, size_t & pos)
{
   if (pos >= f.size()) return ConstQueryFilterRef();
   const char c = f[pos];
   if ((c == 'A')||(c == 'O')||(c == 'X')||(c == 'N'))
   {
      pos++; if ((pos < f.size())&&(f[pos] == '[')) pos++;
      MultiQueryFilter * mq = (c == 'A') ? (MultiQueryFilter *) new AndQueryFilter : ((c == 'O') ? (MultiQueryFilter *) new OrQueryFilter
                            : ((c == 'X') ? (MultiQueryFilter *) new XorQueryFilter : (MultiQueryFilter *) new NandQueryFilter));
      ConstQueryFilterRef ret(mq);
      while((pos < f.size())&&(f[pos] != ']'))
      {
         ConstQueryFilterRef kid = ParseFilter(f, pos);
         if (kid()) (void) mq->GetChildren().AddTail(kid);
         if ((pos < f.size())&&(f[pos] == '.')) pos++;
      }
      if (pos < f.size()) pos++;   // ']'
      return ret;
   }
   pos++;
   std::string field = "v";
   if ((pos < f.size())&&((f[pos] == 'a')||(f[pos] == 'b')||(f[pos] == 'c'))) {field = std::string(1, f[pos]); pos++;}
   if (c == 'x')
   {
      uint32 tc = B_ANY_TYPE;
      if ((pos < f.size())&&(f[pos] == 'I')) {tc = B_INT32_TYPE;  pos++;}
      else if ((pos < f.size())&&(f[pos] == 'S')) {tc = B_STRING_TYPE; pos++;}
      uint32 idx = 0;
      if ((pos < f.size())&&(f[pos] == 'i')) {pos++; size_t st = pos; while((pos < f.size())&&(isdigit(f[pos]))) pos++; idx = (uint32) atol(f.substr(st, pos-st).c_str());}
      return ConstQueryFilterRef(new ValueExistsQueryFilter(field.c_str(), tc, idx));
   }
   size_t st = pos; if ((pos < f.size())&&(f[pos] == '-')) pos++;
   while((pos < f.size())&&(isdigit(f[pos]))) pos++;
   const int32 n = (int32) atol(f.substr(st, pos-st).c_str());
   uint32 idx = 0;
   if ((pos < f.size())&&(f[pos] == 'i')) {pos++; size_t s2 = pos; while((pos < f.size())&&(isdigit(f[pos]))) pos++; idx = (uint32) atol(f.substr(s2, pos-s2).c_str());}
   uint8 op = Int32QueryFilter::OP_EQUAL_TO;
   if (c == 'g') op = Int32QueryFilter::OP_GREATER_THAN;
   if (c == 'l') op = Int32QueryFilter::OP_LESS_THAN;
   return ConstQueryFilterRef(new Int32QueryFilter(field.c_str(), op, n, idx));
}

// every filter made in this case, archived, with its spec: the server's filter objects are recognised by their archives
static std::vector<std::pair<MessageRef, std::string> > g_filterSpecs;

static ConstQueryFilterRef MkFilter(const std::string & f)
{
   if (f.empty()) return ConstQueryFilterRef();
   size_t pos = 0;
   ConstQueryFilterRef ret = ParseFilter(f, pos);
   if (ret())
   {
      bool known = false;
      for (size_t i=0; i<g_filterSpecs.size(); i++) if (g_filterSpecs[i].second == f) {known = true; break;}
      if (!known) {MessageRef a = MkMsg(0); if (ret()->SaveToArchive(*a()).IsOK()) g_filterSpecs.push_back(std::make_pair(a, f));}
   }
   return ret;
}

static std::string FilterSpec(const QueryFilter * qf)
{
   if (qf == NULL) return "";
   Message a; a.what = 0;
   if (qf->SaveToArchive(a).IsOK())
      for (size_t i=0; i<g_filterSpecs.size(); i++) if (*g_filterSpecs[i].first() == a) return std::string("@") + g_filterSpecs[i].second;
   return "@?";
}

static void SplitSub(const std::string & s, std::string & pat, std::string & flt)
{
   const size_t at = s.find('@');
   if (at == std::string::npos) {pat = s; flt = "";} else {pat = s.substr(0, at); flt = s.substr(at+1);}
}

static std::string Payload(const Message * m)
{
   int32 v;
   if ((m)&&(m->FindInt32("v", v).IsOK())) return itos(v);
   return "-";
}

struct ClientState
{
   ClientState() : tainted(false) {}
   std::map<std::string, std::string> mirror;    // canonical path -> payload text
   PathMatcher subs;                             // the client's own idea of its subscriptions (real patterns)
   std::set<std::string> params;                 // the SUBSCRIBE: parameter names it holds on the server (as it spelled them)
   std::map<std::string, std::string> subflt;    // per subscription entry (adjusted path): the filter text it subscribed with
   bool tainted;                                 // the oracle no longer applies (quiet flags / explicit GETDATA were used)
};

struct Ctx
{
   W * w;
   std::vector<ClientState> cs;
   bool quietUsed;
   int nQuiet, nCmds;                                    // of the op being built: quiet SETDATA / REMOVEDATA sub-commands, all sub-commands
   std::vector<std::pair<int, std::string> > stale;      // (sender, canonical path): changed by an all-quiet command of that sender
};

// a quiet SETDATA / REMOVEDATA of session K: the mirror oracle stays applicable for the clients none of whose subscription
// paths reaches below K's session node (quiet_frame), and for the sender itself (only its own subtree changes, which its
// mirror statement leaves out); everybody who can see the sender's subtree is out
static void QuietMixed(Ctx & c, int K)
{
   W & w = *c.w;
   const std::string idStr = itos((long)w.RealID(K));
   for (size_t ci=0; ci<c.cs.size(); ci++) if ((int)ci != K)
   {
      for (std::map<std::string,std::string>::const_iterator it = c.cs[ci].subflt.begin(); it != c.cs[ci].subflt.end(); ++it)
      {
         std::vector<std::string> cl = Split(it->first, '/');
         if (cl.size() < 2) continue;
         StringMatcher m0(cl[0].c_str()), m1(cl[1].c_str());
         if ((m0.Match("_unknown_"))&&(m1.Match(idStr.c_str()))) {c.cs[ci].tainted = true; break;}
      }
   }
}

// builds the protocol Message of one (sub-)command; fs = fields after the session index
static MessageRef BuildCommand(Ctx & c, int K, const std::string & code, const std::vector<std::string> & fs, std::vector<std::string> & unsubbed)
{
   W & w = *c.w;
   c.nCmds++;
   if (code == "s")
   {
      MessageRef m = MkMsg(PR_COMMAND_SETDATA);
      const uint32 flags = (fs.size() > 0) ? (uint32) atol(fs[0].c_str()) : 0;
      if (flags & (1u<<SETDATANODE_FLAG_QUIET)) c.nQuiet++;
      std::vector<std::string> items = (fs.size() > 1 && !fs[1].empty()) ? Split(fs[1], '&') : std::vector<std::string>();
      for (size_t i=0; i<items.size(); i++)
      {
         const size_t eq = items[i].find('=');
         const std::string path = items[i].substr(0, eq);
         MessageRef d = MkMsg(0);
         if (eq != std::string::npos) FillPayload(*d(), (int32) atol(items[i].c_str()+eq+1));
         (void) m()->AddMessage(path.c_str(), d);
      }
      if (flags) (void) m()->AddInt32(PR_NAME_FLAGS, (int32) flags);
      return m;
   }
   if ((code == "r")||(code == "g"))
   {
      MessageRef m = MkMsg((code == "r") ? PR_COMMAND_REMOVEDATA : PR_COMMAND_GETDATA);
      size_t at = 0;
      if (code == "r")
      {
         if ((fs.size() > 0)&&(fs[0] == "1")) {(void) m()->AddBool(PR_NAME_REMOVE_QUIETLY, true); c.nQuiet++;}
         at = 1;
      }
      std::vector<std::string> pats = (fs.size() > at && !fs[at].empty()) ? Split(fs[at], '&') : std::vector<std::string>();
      // an explicit GETDATA whose keys are all subscriptions the sender holds (same path, same filter, distinct) leaves its
      // mirror exact (cmd_covered / getdata_covered_J); any other one adds nodes its subscriptions do not cover
      std::set<std::string> seenKeys;
      for (size_t i=0; i<pats.size(); i++)
      {
         std::string pat, flt; SplitSub(pats[i], pat, flt);
         if (code == "g")
         {
            String adj(RealPattern(w, pat).c_str()); c.cs[K].subs.AdjustStringPrefix(adj, "*/*");
            std::map<std::string,std::string>::const_iterator it = c.cs[K].subflt.find(adj());
            if ((pat.empty())||(seenKeys.count(adj()) > 0)||(it == c.cs[K].subflt.end())||(it->second != flt)) c.cs[K].tainted = true;
            seenKeys.insert(adj());
         }
         (void) m()->AddString(PR_NAME_KEYS, RealPattern(w, pat).c_str());
         MessageRef fm = MkMsg(0);   // a dummy (empty) filter Message stops the "bleed-down" of the previous filter
         ConstQueryFilterRef qf = MkFilter(flt);
         if (qf()) (void) qf()->SaveToArchive(*fm());
         (void) m()->AddMessage(PR_NAME_FILTERS, fm);
      }
      return m;
   }
   if (code == "p")
   {
      MessageRef m = MkMsg(PR_COMMAND_SETPARAMETERS);
      const bool quiet = (fs.size() > 0)&&(fs[0] == "1");
      if (quiet) {(void) m()->AddBool(PR_NAME_SUBSCRIBE_QUIETLY, true); c.cs[K].tainted = true;}
      std::vector<std::string> subs = (fs.size() > 1 && !fs[1].empty()) ? Split(fs[1], '&') : std::vector<std::string>();
      for (size_t i=0; i<subs.size(); i++)
      {
         std::string pat, flt; SplitSub(subs[i], pat, flt);
         const std::string rp = RealPattern(w, pat);
         const std::string fn = std::string(PR_NAME_SUBSCRIBE_PREFIX) + rp;
         ConstQueryFilterRef qf = MkFilter(flt);
         if (m()->HasName(fn.c_str())) continue;   // one field per name
         if (qf()) {MessageRef fm = MkMsg(0); (void) qf()->SaveToArchive(*fm()); (void) m()->AddMessage(fn.c_str(), fm);}
              else (void) m()->AddBool(fn.c_str(), true);
         (void) c.cs[K].subs.PutPathFromString(rp.c_str(), qf, "*/*");
         (void) c.cs[K].params.insert(rp);
         {String adj(rp.c_str()); c.cs[K].subs.AdjustStringPrefix(adj, "*/*"); c.cs[K].subflt[adj()] = flt;}
      }
      return m;
   }
   if (code == "m")
   {
      MessageRef m = MkMsg(PR_COMMAND_SETPARAMETERS);
      (void) m()->AddInt32(PR_NAME_MAX_UPDATE_MESSAGE_ITEMS, (int32) atol(fs.size() > 0 ? fs[0].c_str() : "0"));
      return m;
   }
   if (code == "u")
   {
      MessageRef m = MkMsg(PR_COMMAND_REMOVEPARAMETERS);
      std::vector<std::string> pats = (fs.size() > 0 && !fs[0].empty()) ? Split(fs[0], '&') : std::vector<std::string>();
      for (size_t i=0; i<pats.size(); i++)
      {
         const std::string rp = RealPattern(w, pats[i]);
         String esc = EscapeRegexTokens(String((std::string(PR_NAME_SUBSCRIBE_PREFIX)+rp).c_str()));
         (void) m()->AddString(PR_NAME_KEYS, esc);
         unsubbed.push_back(rp);
         // the client's own record follows its commands in order; REMOVEPARAMETERS works on parameter NAMES: a name the
         // client does not hold as a parameter removes nothing on the server (Refl/Params.v), so nothing here either
         if (c.cs[K].params.erase(rp) > 0)
         {
            String adj(rp.c_str());
            c.cs[K].subs.AdjustStringPrefix(adj, "*/*");
            (void) c.cs[K].subs.RemovePathString(adj);
            (void) c.cs[K].subflt.erase(adj());
         }
      }
      return m;
   }
   if (code == "um")
   {
      MessageRef m = MkMsg(PR_COMMAND_REMOVEPARAMETERS);
      (void) m()->AddString(PR_NAME_KEYS, PR_NAME_MAX_UPDATE_MESSAGE_ITEMS);
      return m;
   }
   return MessageRef();
}

// net effect of the Messages of one op on one client: path -> last payload set, or "-" when last removed
typedef std::map<std::string, std::string> NetMap;

static void ApplyToMirror(const W & w, ClientState & c, const Message & m, std::ostringstream & out, NetMap & net, std::vector<std::string> & bag)
{
   out << "[R:";
   const String * s;
   for (int32 i=0; m.FindString(PR_NAME_REMOVED_DATAITEMS, i, &s).IsOK(); i++)
   {
      const std::string p = CanonPath(w, s->Cstr());
      if (i) out << ",";
      out << p;
      c.mirror.erase(p);
      net[p] = "-";
      bag.push_back("R"+p);
   }
   out << ";S:";
   bool first = true;
   for (MessageFieldNameIterator it = m.GetFieldNameIterator(B_MESSAGE_TYPE); it.HasData(); it++)
   {
      const std::string p = CanonPath(w, it.GetFieldName()());
      MessageRef v;
      for (int32 i=0; m.FindMessage(it.GetFieldName(), i, v).IsOK(); i++)
      {
         if (!first) out << ",";
         first = false;
         const std::string pv = Payload(v());
         out << p << "=" << pv;
         c.mirror[p] = pv;
         net[p] = pv;
         bag.push_back("S"+p+"="+pv);
      }
   }
   out << "]";
}

struct Dumper
{
   Dumper(const W & ww, std::ostringstream & oo) : w(ww), o(oo), first(true) {}
   void operator()(DataNode & n)
   {
      if (n.GetDepth() == 0) return;
      String np; (void) n.GetNodePath(np);
      if (!first) o << " ";
      first = false;
      o << CanonPath(w, np()) << "=" << Payload(n.GetData()()) << "{";
      std::vector<std::pair<long,unsigned long> > subs;
      for (ConstHashtableIterator<uint32, uint32> it(n.GetSubscribers()); it.HasData(); it++) subs.push_back(std::make_pair((long)it.GetKey()-(long)w.RealID(0), (unsigned long)it.GetValue()));
      std::sort(subs.begin(), subs.end());
      for (size_t i=0; i<subs.size(); i++) {if (i) o << ","; o << subs[i].first << ":" << subs[i].second;}
      o << "}";
   }
   const W & w; std::ostringstream & o; bool first;
};

struct Collector   // all nodes of the real tree, for the oracle
{
   std::vector<DataNode *> nodes;
   void operator()(DataNode & n) {if (n.GetDepth() > 0) nodes.push_back(&n);}
};

static std::string CanonPattern(const W & w, const std::string & realPat)   // inverse of RealPattern for stored fixPaths (no leading slash)
{
   std::vector<std::string> cl = Split(realPat, '/');
   if ((cl.size() >= 1)&&(cl[0] == "_unknown_")) cl[0] = "H";
   if (cl.size() >= 2) cl[1] = ShiftSessionClause(cl[1], -(long)w.RealID(0));
   std::string r;
   for (size_t i=0; i<cl.size(); i++) r += (i ? "/" : "") + cl[i];
   return r;
}

struct Snapper   // canonical path -> payload text of every node
{
   Snapper(const W & ww) : w(ww) {}
   void operator()(DataNode & n)
   {
      if (n.GetDepth() == 0) return;
      String np; (void) n.GetNodePath(np);
      m[CanonPath(w, np())] = Payload(n.GetData()());
   }
   const W & w;
   std::map<std::string, std::string> m;
};

static void Snapshot(W & w, std::map<std::string, std::string> & out)
{
   for (size_t ci=0; ci<w.NumSessions(); ci++) if (w.alive(ci))
   {
      Snapper sn(w);
      WalkTree(w.session(ci).GetGlobalRoot(), sn);
      out = sn.m;
      return;
   }
}

static void RunCase(long k, const std::string & line)
{
   const size_t bar = line.find('|');
   if (bar == std::string::npos) return;
   std::vector<std::string> ops = Split(line.substr(bar+1), ';');
   // label starting with 'x': print per client the NET EFFECT of the op's Messages (N{..}) instead of the Messages themselves:
   // and the sorted bag of everything sent.  With several subscribers the split points of a client's updates depend on the
   // iteration order of the pooled subscriber tables (ImmutableHashtablePool cache: a node may get a table object that was built
   // in another order for another node; max-items flushes and the set-then-remove flush are server-wide), which the model does
   // not reproduce; net effect and bag do not depend on it.
   const bool netMode = (bar > 0)&&(line[0] == 'x');
   // label starting with 'z': the "malformed path" stream (paths / patterns with empty clauses, e.g. a trailing '/').  The mirror
   // oracle is not applied there (PathMatcher::MatchesPath tokenises away empty clauses); the refcount oracle below always is.
   const bool malformed = (bar > 0)&&(line[0] == 'z');
   g_nextSessionID = 0;
   g_filterSpecs.clear();
   W w;
   Ctx c; c.w = &w; c.quietUsed = false;
   int j = -1;
   for (size_t oi=0; oi<ops.size(); oi++)
   {
      if (ops[oi].empty()) continue;
      j++;
      std::vector<std::string> f = Split(ops[oi], ':');
      const std::string code = f[0];
      const int K = (f.size() > 1) ? atoi(f[1].c_str()) : -1;
      std::vector<std::string> unsubbed;
      bool valid = true;
      c.nQuiet = 0; c.nCmds = 0;
      std::map<std::string, std::string> before;
      bool allQuiet = false;
      if (code == "a")
      {
         (void) w.AddSession();
         c.cs.push_back(ClientState());
      }
      else if ((K < 0)||(K >= (int)w.NumSessions())||(!w.alive(K))||(!w.client(K).sock())) valid = false;
      else if (code == "d") w.CloseClient(K);
      else if (code == "b")
      {
         std::vector<MessageRef> subs;
         std::vector<std::string> so = (f.size() > 2 && !f[2].empty()) ? Split(f[2], '+') : std::vector<std::string>();
         for (size_t i=0; i<so.size(); i++)
         {
            std::vector<std::string> sf = Split(so[i], '~');
            const std::string sc = sf[0];
            sf.erase(sf.begin());
            MessageRef sm = BuildCommand(c, K, sc, sf, unsubbed);
            if (sm()) subs.push_back(sm);
         }
         allQuiet = (c.nQuiet > 0)&&(c.nQuiet == c.nCmds);
         if (allQuiet) Snapshot(w, before); else if (c.nQuiet > 0) QuietMixed(c, K);
         w.client(K).Send(MkBatch(subs));
      }
      else
      {
         std::vector<std::string> fs(f.begin()+2, f.end());
         MessageRef m = BuildCommand(c, K, code, fs, unsubbed);
         allQuiet = (c.nQuiet > 0)&&(c.nQuiet == c.nCmds);
         if (allQuiet) Snapshot(w, before); else if (c.nQuiet > 0) QuietMixed(c, K);
         if (m()) w.client(K).Send(m); else valid = false;
      }

      const int rounds = w.Pump();
      // an all-quiet command tells nobody anything: the paths whose payload / existence it changed are out of the mirror
      // statement of every other session from now on (mirror_converges_announced); a command that mixes quiet and announced
      // changes takes the clients that can see the sender out altogether (QuietMixed)
      if ((valid)&&(allQuiet))
      {
         std::map<std::string, std::string> after; Snapshot(w, after);
         for (std::map<std::string,std::string>::const_iterator it = before.begin(); it != before.end(); ++it)
         {
            std::map<std::string,std::string>::const_iterator a = after.find(it->first);
            if ((a == after.end())||(a->second != it->second)) c.stale.push_back(std::make_pair(K, it->first));
         }
         for (std::map<std::string,std::string>::const_iterator it = after.begin(); it != after.end(); ++it)
            if (before.find(it->first) == before.end()) c.stale.push_back(std::make_pair(K, it->first));
      }
      if (rounds >= 2000) {printf("%ld ORACLE FAIL no-quiescence op#%d\n", k, j);}

      std::ostringstream o;
      o << j << " " << code << (valid ? "" : "!") << (netMode ? " N{" : " M{");
      bool firstc = true;
      for (size_t ci=0; ci<w.NumSessions(); ci++)
      {
         Client & cl = w.client(ci);
         std::ostringstream mo;
         NetMap net;
         std::vector<std::string> bag;   // everything sent, however it is split into Messages
         for (size_t mi=0; mi<cl.inbox.size(); mi++)
         {
            const Message * m = cl.inbox[mi]();
            if ((m)&&(m->what == PR_RESULT_DATAITEMS)) ApplyToMirror(w, c.cs[ci], *m, mo, net, bag);
         }
         cl.inbox.clear();
         if (netMode)
         {
            if (!net.empty())
            {
               if (!firstc) o << " ";
               firstc = false;
               o << "c" << ci << ":{";
               bool fn = true;
               for (NetMap::const_iterator it = net.begin(); it != net.end(); ++it) {if (!fn) o << ","; fn = false; o << it->first << "=" << it->second;}
               o << "}[";
               std::sort(bag.begin(), bag.end());
               for (size_t bi=0; bi<bag.size(); bi++) {if (bi) o << ","; o << bag[bi];}
               o << "]";
            }
         }
         else if (!mo.str().empty()) {if (!firstc) o << " "; firstc = false; o << "c" << ci << ":" << mo.str();}
      }
      o << "}";

      // the client's own part of an unsubscribe: forget the pattern, drop what is no longer covered
      if ((valid)&&(!unsubbed.empty()))
      {
         ClientState & me = c.cs[K];
         for (std::map<std::string,std::string>::iterator it = me.mirror.begin(); it != me.mirror.end(); )
         {
            Message dm; if (it->second != "-") FillPayload(dm, (int32) atol(it->second.c_str()));
            // canonical path back to the real one for matching
            const std::string rp = RealPattern(w, it->first);
            if (me.subs.MatchesPath(rp.c_str(), &dm, NULL)) ++it; else me.mirror.erase(it++);
         }
      }

      // true tree
      int liveIdx = -1;
      for (size_t ci=0; ci<w.NumSessions(); ci++) if (w.alive(ci)) {liveIdx = (int)ci; break;}
      o << " T{";
      Collector col;
      if (liveIdx >= 0)
      {
         Dumper d(w, o);
         WalkTree(w.session(liveIdx).GetGlobalRoot(), d);
         WalkTree(w.session(liveIdx).GetGlobalRoot(), col);
      }
      o << "} E{";
      bool firste = true;
      for (size_t ci=0; ci<w.NumSessions(); ci++) if (w.alive(ci))
      {
         HSession & s = w.session(ci);
         if (!firste) o << " ";
         firste = false;
         o << ci << "(" << s._maxSubscriptionMessageItems << ")[";
         bool fg = true;
         for (ConstHashtableIterator<uint32, Hashtable<String, PathMatcherEntry> > it(s._subscriptions.GetEntries()); it.HasData(); it++)
         {
            if (!fg) o << "|";
            fg = false;
            o << it.GetKey() << ":";
            bool fe = true;
            for (ConstHashtableIterator<String, PathMatcherEntry> e(it.GetValue()); e.HasData(); e++)
            {
               if (!fe) o << ",";
               fe = false;
               o << CanonPattern(w, e.GetKey()()) << FilterSpec(e.GetValue().GetFilter()());
            }
         }
         o << "]";
      }
      o << "} V{";
      bool firstv = true;
      for (size_t ci=0; ci<w.NumSessions(); ci++) if (w.alive(ci))
      {
         if (!firstv) o << " ";
         firstv = false;
         o << ci << "{";
         bool fm = true;
         for (std::map<std::string,std::string>::const_iterator it = c.cs[ci].mirror.begin(); it != c.cs[ci].mirror.end(); ++it)
         {
            if (!fm) o << ",";
            fm = false;
            o << it->first << "=" << it->second;
         }
         o << "}";
      }
      o << "}";
      printf("%ld %s\n", k, o.str().c_str());

      // ---- the refcount oracle (refcount_inv on the implementation): every node's subscriber table holds, for every attached
      //      session, the number of that session's subscription entries that match the node (brute force over the entries),
      //      and nothing for anybody else
      {
         std::string why;
         for (size_t ni=0; (why.empty())&&(ni<col.nodes.size()); ni++)
         {
            DataNode & n = *col.nodes[ni];
            String np; (void) n.GetNodePath(np);
            const Hashtable<uint32, uint32> & tb = n.GetSubscribers();
            for (size_t ci=0; (why.empty())&&(ci<w.NumSessions()); ci++) if (w.alive(ci))
            {
               const uint32 have = tb[w.RealID(ci)];
               const uint32 want = w.session(ci)._subscriptions.GetMatchCount(n, NULL, 0);
               if (have != want) why = "refcount op#" + itos(j) + " c" + itos((long)ci) + " " + CanonPath(w, np()) + " table=" + itos(have) + " entries=" + itos(want);
            }
            for (ConstHashtableIterator<uint32, uint32> it(tb); (why.empty())&&(it.HasData()); it++)
            {
               const long k2 = (long)it.GetKey() - (long)w.RealID(0);
               if ((k2 < 0)||(k2 >= (long)w.NumSessions())||(!w.alive((size_t)k2))) why = "refcount-stale op#" + itos(j) + " c" + itos(k2) + " " + CanonPath(w, np());
            }
         }
         if (!why.empty()) printf("%ld ORACLE FAIL %s\n", k, why.c_str());
      }

      // ---- the oracle: mirror == brute force over the real tree
      for (size_t ci=0; ci<w.NumSessions(); ci++) if ((!malformed)&&(w.alive(ci))&&(!c.quietUsed)&&(!c.cs[ci].tainted))
      {
         ClientState & me = c.cs[ci];
         const std::string ownRoot = "/H/" + itos((long)ci);
         std::set<std::string> skip;   // changed quietly by somebody else
         for (size_t si=0; si<c.stale.size(); si++) if (c.stale[si].first != (int)ci) skip.insert(c.stale[si].second);
         std::map<std::string,std::string> expect;
         for (size_t ni=0; ni<col.nodes.size(); ni++)
         {
            DataNode & n = *col.nodes[ni];
            String np; (void) n.GetNodePath(np);
            const std::string cp = CanonPath(w, np());
            if ((cp == ownRoot)||(cp.compare(0, ownRoot.size()+1, ownRoot+"/") == 0)) continue;
            if (skip.count(cp) > 0) continue;
            if (me.subs.MatchesPath(np(), n.GetData()(), &n)) expect[cp] = Payload(n.GetData()());
         }
         std::string why;
         for (std::map<std::string,std::string>::const_iterator it = expect.begin(); (why.empty())&&(it != expect.end()); ++it)
         {
            std::map<std::string,std::string>::const_iterator h = me.mirror.find(it->first);
            if (h == me.mirror.end()) why = "mirror-missing op#" + itos(j) + " c" + itos((long)ci) + " " + it->first + "=" + it->second;
            else if (h->second != it->second) why = "mirror-stale op#" + itos(j) + " c" + itos((long)ci) + " " + it->first + " holds " + h->second + " tree " + it->second;
         }
         for (std::map<std::string,std::string>::const_iterator it = me.mirror.begin(); (why.empty())&&(it != me.mirror.end()); ++it)
         {
            const std::string & cp = it->first;
            if ((cp == ownRoot)||(cp.compare(0, ownRoot.size()+1, ownRoot+"/") == 0)) continue;
            if (skip.count(cp) > 0) continue;
            if (expect.find(cp) == expect.end()) why = "mirror-extra op#" + itos(j) + " c" + itos((long)ci) + " " + cp + "=" + it->second;
         }
         if (!why.empty()) printf("%ld ORACLE FAIL %s\n", k, why.c_str());
      }
      fflush(stdout);
   }
   w.Shutdown();
   g_filterSpecs.clear();   // pooled Messages must be gone before the ObjectPools are
}

int main(int, char **)
{
   CompleteSetupSystem css;
   QuietLogs();
   std::string line;
   long k = 0;
   while(std::getline(std::cin, line)) {RunCase(k, line); k++; fflush(stdout);}
   return 0;
}
