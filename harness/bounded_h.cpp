// C07 harness: one client's traffic can never hang or crash the server.
// A real in-process muscle::ReflectServer (refl_common.h), StorageReflectSession sessions on socket pairs, scripted clients.
//
// One case per stdin line:   <label>|op;op;op...        fields ':'  items '&'   (batch: fields '~', sub-ops '+')
//   a                      attach one more session (index = number of sessions attached so far); session 0 is the WITNESS
//   d:K                    close client K's connection (the server detaches session K)
//   x:K:B                  client K stops (B=1) / resumes (B=0) reading: the server-side DataIO of session K reports no
//                          writable socket, exactly what a full TCP send buffer looks like to ReflectServer::HandleEvents, so
//                          replies pile up in the gateway's outgoing Message queue
//   s:K:F:path=v&path=v    PR_COMMAND_SETDATA, F = SETDATANODE_FLAG_* bits (1 DONTCREATE, 2 DONTOVERWRITE, 4 QUIET, 16 ENABLESUPERCEDE),
//                          relative literal paths, int32 payload field "v"
//   r:K:Q:pat&pat@f        PR_COMMAND_REMOVEDATA (Q=1: PR_NAME_REMOVE_QUIETLY)
//   p:K:Q:pat&pat@f        PR_COMMAND_SETPARAMETERS with SUBSCRIBE:<pat> fields (Q=1: PR_NAME_SUBSCRIBE_QUIETLY)
//   m:K:N  /  um:K         PR_NAME_MAX_UPDATE_MESSAGE_ITEMS = N  /  back to the default
//   u:K:pat&pat            PR_COMMAND_REMOVEPARAMETERS of SUBSCRIBE:<pat> (wildcards escaped)
//   g:K:pat&pat@f          PR_COMMAND_GETDATA
//   pi:K:T                 PR_COMMAND_PING carrying int32 "t" = T
//   no:K                   PR_COMMAND_NOOP
//   un:K:W                 what = BEGIN_PR_COMMANDS+W, a code the server bounces with PR_RESULT_ERRORUNIMPLEMENTED
//   dn:K:W                 what = BEGIN_PR_COMMANDS+W, a privileged command -> PR_RESULT_ERRORACCESSDENIED
//   jr:K:pat&pat@f         PR_COMMAND_JETTISONRESULTS   (jr:K:-  = no PR_NAME_KEYS field: everything)
//   jt:K:id&id             PR_COMMAND_JETTISONDATATREES (jt:K:-  = no PR_NAME_TREE_REQUEST_ID field; #N = the field as int32 N: wrong type)
//   gt:K:ID:pat&pat@f      PR_COMMAND_GETDATATREES with request id ID ('-' = none, #N = int32 N: wrong type)
//   b:K:sub+sub            PR_COMMAND_BATCH of the commands above written with '~' (s~F~items jr~pats pi~T ...)
//   nb:K:D:sub             the sub-command wrapped in D nested PR_COMMAND_BATCH Messages
//   M:K:<msg>              (flood stream) an arbitrary structurally valid Message, see ParseMsg below
// filter f:  g<n> (v > n)   l<n> (v < n)   e<n> (v == n)   x (field v exists)
//
// Label M..: after EVERY op the server is pumped to quiescence and one line is printed (compared with the Coq model):
//   k j code M{per client: Messages received}  Q{per non-reading session: its outgoing Message queue, read in-process}
//       T{true tree, DFS, payload, subscriber table}  E{per session: max items, _subscriptions entries}
// Label F..: only `k F <number of ops>` is printed at the end of the case.
// The property's own statement is evaluated after EVERY op of EVERY case, independently of the model: the witness (client 0,
// while attached and reading) sends a PR_COMMAND_PING and must receive its PR_RESULT_PONG within PING_ROUNDS event-loop turns;
// a handler that does not return within the watchdog time is reported as `k ORACLE FAIL hang op#j <op>` and ends the process;
// one op (dispatch + pump to quiescence) that burns more than C07_CPU_BUDGET_S (default 3) seconds of PROCESS CPU TIME -- a
// measure that does not depend on how loaded the machine is; ordinary ops take milliseconds -- is reported as
// `k ORACLE FAIL slow-handler op#j <op>`: the single-threaded server answered nobody during that time.  CPU time still varies
// with the load of the machine (page faults), so the same is also measured in a load-independent unit: one op whose malloc()
// calls add up to more than C07_ALLOC_BUDGET_MB (default 32) megabytes -- ordinary ops stay below one megabyte -- is
// reported as `k ORACLE FAIL resource-hog op#j <op>` (byte counter installed with the sanitizer's malloc hook).
#include <signal.h>
#include <unistd.h>
#include <time.h>
#include <sys/resource.h>
extern "C" int __sanitizer_install_malloc_and_free_hooks(void (*malloc_hook)(const volatile void *, size_t), void (*free_hook)(const volatile void *));   // libasan
#include "refl_common.h"
#include "regex/PathMatcher.h"
#include "regex/QueryFilter.h"
#include "regex/StringMatcher.h"

using namespace muscle;
using namespace refl;

static std::string itos(long v) {std::ostringstream o; o << v; return o.str();}

// ---------------------------------------------------------------- a DataIO whose peer may stop reading

class ThrottledDataIO : public TCPSocketDataIO
{
public:
   ThrottledDataIO(const ConstSocketRef & s) : TCPSocketDataIO(s, false), _blocked(false) {}
   virtual io_status_t Write(const void * b, uint32 n) {return _blocked ? io_status_t(0) : TCPSocketDataIO::Write(b, n);}
   virtual const ConstSocketRef & GetWriteSelectSocket() const {return _blocked ? GetNullSocket() : TCPSocketDataIO::GetWriteSelectSocket();}
   bool _blocked;
};

class BSession : public StorageReflectSession
{
public:
   BSession() : _tio(NULL) {}
   virtual const char * GetTypeName() const {return "BSession";}
   virtual DataIORef CreateDataIO(const ConstSocketRef & s) {_tio = new ThrottledDataIO(s); return DataIORef(_tio);}
   ThrottledDataIO * _tio;
};
DECLARE_REFTYPES(BSession);

typedef World<BSession> W;

// ---------------------------------------------------------------- watchdog

static volatile long g_case = -1;
static volatile int g_op = -1;
static char g_opText[200];
static int g_watchdogSecs = 20;
static double g_cpuBudget = 3.0;
static double g_maxCpu = 0.0;

static volatile unsigned long long g_allocBytes = 0;
static unsigned long long g_allocBudget = 32ULL*1024ULL*1024ULL;
static unsigned long long g_maxAlloc = 0;
static void OnMalloc(const volatile void *, size_t n) {g_allocBytes += n;}
static void OnFree(const volatile void *) {}

static double CpuNow()
{
   struct timespec ts;
   if (clock_gettime(CLOCK_PROCESS_CPUTIME_ID, &ts) != 0) return 0.0;
   return (double)ts.tv_sec + ((double)ts.tv_nsec)/1e9;
}

static void OnAlarm(int)
{
   char buf[400];
   const int n = snprintf(buf, sizeof(buf), "%ld ORACLE FAIL hang op#%d %s\n", (long)g_case, (int)g_op, g_opText);
   if (n > 0) {ssize_t r = write(1, buf, (size_t)n); (void) r;}
   const char * e = "ASSERTION FAILED: watchdog: a handler did not return (server hang)\n";
   {ssize_t r = write(2, e, strlen(e)); (void) r;}
   _exit(3);
}

// ---------------------------------------------------------------- canonical names

static std::string CanonPath(const W & w, const std::string & p)
{
   const std::string pre = "/_unknown_";
   if (p.compare(0, pre.size(), pre) != 0) return p;
   if (p.size() == pre.size()) return "/H";
   if (p[pre.size()] != '/') return p;
   size_t i = pre.size()+1, j = i;
   while((j < p.size())&&(p[j] >= '0')&&(p[j] <= '9')) j++;
   if ((j == i)||((j < p.size())&&(p[j] != '/'))) return "/H" + p.substr(pre.size());
   const unsigned long id = strtoul(p.substr(i, j-i).c_str(), NULL, 10);
   return "/H/" + itos((long)id - (long)w.RealID(0)) + p.substr(j);
}

static std::string ShiftSessionClause(const std::string & cl, long delta)
{
   if ((cl.empty())||(cl.find_first_not_of("0123456789,") != std::string::npos)) return cl;
   std::vector<std::string> seg = Split(cl, ',');
   std::string r;
   for (size_t i=0; i<seg.size(); i++) {if (i) r += ","; r += seg[i].empty() ? std::string("") : itos(atol(seg[i].c_str()) + delta);}
   return r;
}

static std::string RealPattern(const W & w, const std::string & pat)
{
   if ((pat.empty())||(pat[0] != '/')) return pat;
   std::vector<std::string> cl = Split(pat.substr(1), '/');
   if ((cl.size() >= 1)&&(cl[0] == "H")) cl[0] = "_unknown_";
   if (cl.size() >= 2) cl[1] = ShiftSessionClause(cl[1], (long)w.RealID(0));
   std::string r;
   for (size_t i=0; i<cl.size(); i++) r += "/" + cl[i];
   return r;
}

static std::string CanonPattern(const W & w, const std::string & realPat)
{
   std::vector<std::string> cl = Split(realPat, '/');
   if ((cl.size() >= 1)&&(cl[0] == "_unknown_")) cl[0] = "H";
   if (cl.size() >= 2) cl[1] = ShiftSessionClause(cl[1], -(long)w.RealID(0));
   std::string r;
   for (size_t i=0; i<cl.size(); i++) r += (i ? "/" : "") + cl[i];
   return r;
}

static ConstQueryFilterRef MkFilter(const std::string & f)
{
   if (f.empty()) return ConstQueryFilterRef();
   if (f == "x") return ConstQueryFilterRef(new ValueExistsQueryFilter("v"));
   const int32 n = (int32) atol(f.c_str()+1);
   uint8 op = Int32QueryFilter::OP_EQUAL_TO;
   if (f[0] == 'g') op = Int32QueryFilter::OP_GREATER_THAN;
   if (f[0] == 'l') op = Int32QueryFilter::OP_LESS_THAN;
   return ConstQueryFilterRef(new Int32QueryFilter("v", op, n));
}

static std::string FilterSpec(const QueryFilter * qf)
{
   if (qf == NULL) return "";
   const Int32QueryFilter * i = dynamic_cast<const Int32QueryFilter *>(qf);
   if (i)
   {
      const char c = (i->GetOperator() == Int32QueryFilter::OP_GREATER_THAN) ? 'g' : ((i->GetOperator() == Int32QueryFilter::OP_LESS_THAN) ? 'l' : 'e');
      return std::string("@") + c + itos(i->GetValue());
   }
   if (dynamic_cast<const ValueExistsQueryFilter *>(qf)) return "@x";
   return "@?";
}

static void SplitSub(const std::string & s, std::string & pat, std::string & flt)
{
   const size_t at = s.find('@');
   if (at == std::string::npos) {pat = s; flt = "";} else {pat = s.substr(0, at); flt = s.substr(at+1);}
}

static std::string Payload(const Message * m)
{
   int32 v;
   if ((m)&&(m->FindInt32("v", v).IsOK())) return itos(v);
   return "-";
}

// ---------------------------------------------------------------- arbitrary Messages (flood stream)
//
//   msg   := '{' what { ',' field } '}'          what := decimal | 'c' decimal  (BEGIN_PR_COMMANDS + n)
//   field := '(' name ',' type { ',' value } ')'  name := hex of the bytes of the field name (may be empty)
//   type  := 's' (values: hex strings)  'm' (values: msg)  'i' int32  'l' int64  'b' bool  'y' int8  'h' int16
//            'f' float (decimal)  'd' double (decimal)  'r' raw (hex, type code B_RAW_TYPE)  'p' point  'e' rect

static int HexVal(char c) {return (c >= '0' && c <= '9') ? (c-'0') : ((c >= 'a' && c <= 'f') ? (c-'a'+10) : ((c >= 'A' && c <= 'F') ? (c-'A'+10) : -1));}

static std::string UnHex(const std::string & h)
{
   std::string r;
   for (size_t i=0; i+1<h.size(); i+=2) {const int a = HexVal(h[i]), b = HexVal(h[i+1]); if ((a < 0)||(b < 0)) break; r += (char)((a<<4)|b);}
   return r;
}

struct MsgParser
{
   MsgParser(const std::string & s) : _s(s), _i(0), _ok(true) {}

   std::string Token()   // up to the next , ( ) { }
   {
      const size_t st = _i;
      while((_i < _s.size())&&(strchr(",(){}", _s[_i]) == NULL)) _i++;
      return _s.substr(st, _i-st);
   }
   bool Eat(char c) {if ((_i < _s.size())&&(_s[_i] == c)) {_i++; return true;} return false;}
   char Peek() const {return (_i < _s.size()) ? _s[_i] : '\0';}

   MessageRef Msg(int depth)
   {
      if ((!Eat('{'))||(depth > 200)) {_ok = false; return MessageRef();}
      const std::string wt = Token();
      uint32 what = 0;
      if ((!wt.empty())&&(wt[0] == 'c')) what = (uint32)BEGIN_PR_COMMANDS + (uint32) strtoul(wt.c_str()+1, NULL, 10);
                                    else what = (uint32) strtoul(wt.c_str(), NULL, 10);
      MessageRef m = GetMessageFromPool(what);
      while(Eat(','))
      {
         if (!Eat('(')) {_ok = false; return m;}
         const std::string name = UnHex(Token());
         if (!Eat(',')) {_ok = false; return m;}
         const std::string ty = Token();
         const char t = ty.empty() ? 's' : ty[0];
         while(Eat(','))
         {
            if (t == 'm')
            {
               MessageRef sub = Msg(depth+1);
               if (sub()) (void) m()->AddMessage(name.c_str(), sub);
               if (!_ok) return m;
            }
            else
            {
               const std::string v = Token();
               switch(t)
               {
                  case 's': (void) m()->AddString(name.c_str(), UnHex(v).c_str());               break;
                  case 'i': (void) m()->AddInt32(name.c_str(), (int32) strtoll(v.c_str(), NULL, 10)); break;
                  case 'l': (void) m()->AddInt64(name.c_str(), (int64) strtoll(v.c_str(), NULL, 10)); break;
                  case 'b': (void) m()->AddBool(name.c_str(), v == "1");                         break;
                  case 'y': (void) m()->AddInt8(name.c_str(), (int8) atoi(v.c_str()));           break;
                  case 'h': (void) m()->AddInt16(name.c_str(), (int16) atoi(v.c_str()));         break;
                  case 'f': (void) m()->AddFloat(name.c_str(), (float) atof(v.c_str()));         break;
                  case 'd': (void) m()->AddDouble(name.c_str(), atof(v.c_str()));                break;
                  case 'p': (void) m()->AddPoint(name.c_str(), Point((float)atof(v.c_str()), 1.0f)); break;
                  case 'e': (void) m()->AddRect(name.c_str(), Rect(0.0f, 0.0f, (float)atof(v.c_str()), 1.0f)); break;
                  case 'r': {const std::string raw = UnHex(v); (void) m()->AddData(name.c_str(), B_RAW_TYPE, raw.data(), (uint32)raw.size());} break;
                  default:  (void) m()->AddString(name.c_str(), v.c_str());                      break;
               }
            }
         }
         if (!Eat(')')) {_ok = false; return m;}
      }
      if (!Eat('}')) _ok = false;
      return m;
   }

   const std::string _s; size_t _i; bool _ok;
};

// ---------------------------------------------------------------- commands of the modelled stream

struct Ctx {W * w;};

static std::vector<std::string> Items(const std::vector<std::string> & fs, size_t at)
{
   return ((fs.size() > at)&&(!fs[at].empty())) ? Split(fs[at], '&') : std::vector<std::string>();
}

static void AddKeys(const W & w, Message & m, const std::vector<std::string> & pats)
{
   for (size_t i=0; i<pats.size(); i++)
   {
      std::string pat, flt; SplitSub(pats[i], pat, flt);
      (void) m.AddString(PR_NAME_KEYS, RealPattern(w, pat).c_str());
      MessageRef fm = MkMsg(0);   // a dummy (empty) filter Message stops the "bleed-down" of the previous filter
      ConstQueryFilterRef qf = MkFilter(flt);
      if (qf()) (void) qf()->SaveToArchive(*fm());
      (void) m.AddMessage(PR_NAME_FILTERS, fm);
   }
}

static MessageRef BuildCommand(Ctx & c, int K, const std::string & code, const std::vector<std::string> & fs)
{
   W & w = *c.w;
   if (code == "s")
   {
      MessageRef m = MkMsg(PR_COMMAND_SETDATA);
      const uint32 flags = (fs.size() > 0) ? (uint32) atol(fs[0].c_str()) : 0;
      std::vector<std::string> items = Items(fs, 1);
      for (size_t i=0; i<items.size(); i++)
      {
         const size_t eq = items[i].find('=');
         const std::string path = items[i].substr(0, eq);
         MessageRef d = MkMsg(0);
         if (eq != std::string::npos) (void) d()->AddInt32("v", (int32) atol(items[i].c_str()+eq+1));
         (void) m()->AddMessage(path.c_str(), d);
      }
      if (flags) (void) m()->AddInt32(PR_NAME_FLAGS, (int32) flags);
      return m;
   }
   if ((code == "r")||(code == "g"))
   {
      MessageRef m = MkMsg((code == "r") ? PR_COMMAND_REMOVEDATA : PR_COMMAND_GETDATA);
      size_t at = 0;
      if (code == "r")
      {
         if ((fs.size() > 0)&&(fs[0] == "1")) (void) m()->AddBool(PR_NAME_REMOVE_QUIETLY, true);
         at = 1;
      }
      AddKeys(w, *m(), Items(fs, at));
      return m;
   }
   if (code == "p")
   {
      MessageRef m = MkMsg(PR_COMMAND_SETPARAMETERS);
      if ((fs.size() > 0)&&(fs[0] == "1")) (void) m()->AddBool(PR_NAME_SUBSCRIBE_QUIETLY, true);
      std::vector<std::string> subs = Items(fs, 1);
      for (size_t i=0; i<subs.size(); i++)
      {
         std::string pat, flt; SplitSub(subs[i], pat, flt);
         const std::string fn = std::string(PR_NAME_SUBSCRIBE_PREFIX) + RealPattern(w, pat);
         ConstQueryFilterRef qf = MkFilter(flt);
         if (m()->HasName(fn.c_str())) continue;   // one field per name
         if (qf()) {MessageRef fm = MkMsg(0); (void) qf()->SaveToArchive(*fm()); (void) m()->AddMessage(fn.c_str(), fm);}
              else (void) m()->AddBool(fn.c_str(), true);
      }
      return m;
   }
   if (code == "m")
   {
      MessageRef m = MkMsg(PR_COMMAND_SETPARAMETERS);
      (void) m()->AddInt32(PR_NAME_MAX_UPDATE_MESSAGE_ITEMS, (int32) atol(fs.size() > 0 ? fs[0].c_str() : "0"));
      return m;
   }
   if (code == "u")
   {
      MessageRef m = MkMsg(PR_COMMAND_REMOVEPARAMETERS);
      std::vector<std::string> pats = Items(fs, 0);
      for (size_t i=0; i<pats.size(); i++)
      {
         String esc = EscapeRegexTokens(String((std::string(PR_NAME_SUBSCRIBE_PREFIX)+RealPattern(w, pats[i])).c_str()));
         (void) m()->AddString(PR_NAME_KEYS, esc);
      }
      return m;
   }
   if (code == "um")
   {
      MessageRef m = MkMsg(PR_COMMAND_REMOVEPARAMETERS);
      (void) m()->AddString(PR_NAME_KEYS, PR_NAME_MAX_UPDATE_MESSAGE_ITEMS);
      return m;
   }
   if (code == "pi")
   {
      MessageRef m = MkMsg(PR_COMMAND_PING);
      (void) m()->AddInt32("t", (int32) atol(fs.size() > 0 ? fs[0].c_str() : "0"));
      return m;
   }
   if (code == "no") return MkMsg(PR_COMMAND_NOOP);
   if ((code == "un")||(code == "dn")) return MkMsg((uint32)BEGIN_PR_COMMANDS + (uint32) atol(fs.size() > 0 ? fs[0].c_str() : "0"));
   if (code == "jr")
   {
      MessageRef m = MkMsg(PR_COMMAND_JETTISONRESULTS);
      if ((fs.size() > 0)&&(fs[0] == "-")) return m;
      AddKeys(w, *m(), Items(fs, 0));
      return m;
   }
   if (code == "jt")
   {
      MessageRef m = MkMsg(PR_COMMAND_JETTISONDATATREES);
      if ((fs.size() > 0)&&(fs[0] == "-")) return m;
      std::vector<std::string> ids = Items(fs, 0);
      for (size_t i=0; i<ids.size(); i++)
      {
         if ((!ids[i].empty())&&(ids[i][0] == '#')) (void) m()->AddInt32(PR_NAME_TREE_REQUEST_ID, (int32) atol(ids[i].c_str()+1));   // wrong type: no string field
                                               else (void) m()->AddString(PR_NAME_TREE_REQUEST_ID, ids[i].c_str());
      }
      return m;
   }
   if (code == "gt")
   {
      MessageRef m = MkMsg(PR_COMMAND_GETDATATREES);
      if ((fs.size() > 0)&&(fs[0] != "-"))
      {
         if (fs[0][0] == '#') (void) m()->AddInt32(PR_NAME_TREE_REQUEST_ID, (int32) atol(fs[0].c_str()+1));   // wrong type: the reply carries no id
                         else (void) m()->AddString(PR_NAME_TREE_REQUEST_ID, fs[0].c_str());
      }
      AddKeys(w, *m(), Items(fs, 1));
      return m;
   }
   return MessageRef();
}

// canonical text of one Message of the server->client direction
static std::string MsgText(const W & w, const Message & m)
{
   std::ostringstream out;
   if (m.what == PR_RESULT_DATAITEMS)
   {
      out << "[R:";
      const String * s;
      for (int32 i=0; m.FindString(PR_NAME_REMOVED_DATAITEMS, i, &s).IsOK(); i++) {if (i) out << ","; out << CanonPath(w, s->Cstr());}
      out << ";S:";
      bool first = true;
      for (MessageFieldNameIterator it = m.GetFieldNameIterator(B_MESSAGE_TYPE); it.HasData(); it++)
      {
         const std::string p = CanonPath(w, it.GetFieldName()());
         MessageRef v;
         for (int32 i=0; m.FindMessage(it.GetFieldName(), i, v).IsOK(); i++)
         {
            if (!first) out << ",";
            first = false;
            out << p << "=" << Payload(v());
         }
      }
      out << "]";
   }
   else if (m.what == PR_RESULT_DATATREES)
   {
      const String * id = NULL; (void) m.FindString(PR_NAME_TREE_REQUEST_ID, &id);
      out << "TR(" << (id ? id->Cstr() : "-") << "){";
      bool first = true;
      for (MessageFieldNameIterator it = m.GetFieldNameIterator(B_MESSAGE_TYPE); it.HasData(); it++)
      {
         if (!first) out << ",";
         first = false;
         out << CanonPath(w, it.GetFieldName()());
      }
      out << "}";
   }
   else if (m.what == PR_RESULT_PONG) out << "PONG(" << m.GetInt32("t", -1) << ")";
   else if ((m.what == PR_RESULT_ERRORUNIMPLEMENTED)||(m.what == PR_RESULT_ERRORACCESSDENIED))
   {
      MessageRef rej; (void) m.FindMessage(PR_NAME_REJECTED_MESSAGE, rej);
      out << "ERR(" << ((m.what == PR_RESULT_ERRORUNIMPLEMENTED) ? "U" : "D") << ":" << (rej() ? itos((long)rej()->what - (long)BEGIN_PR_COMMANDS) : std::string("?")) << ")";
   }
   else out << "?" << m.what;
   return out.str();
}

struct Dumper
{
   Dumper(const W & ww, std::ostringstream & oo) : w(ww), o(oo), first(true) {}
   void operator()(DataNode & n)
   {
      if (n.GetDepth() == 0) return;
      String np; (void) n.GetNodePath(np);
      if (!first) o << " ";
      first = false;
      o << CanonPath(w, np()) << "=" << Payload(n.GetData()()) << "{";
      std::vector<std::pair<long,unsigned long> > subs;
      for (ConstHashtableIterator<uint32, uint32> it(n.GetSubscribers()); it.HasData(); it++) subs.push_back(std::make_pair((long)it.GetKey()-(long)w.RealID(0), (unsigned long)it.GetValue()));
      std::sort(subs.begin(), subs.end());
      for (size_t i=0; i<subs.size(); i++) {if (i) o << ","; o << subs[i].first << ":" << subs[i].second;}
      o << "}";
   }
   const W & w; std::ostringstream & o; bool first;
};

static const int PING_ROUNDS = 40;     // event-loop turns within which the witness's PONG must be back
static const int WITNESS_TAG = -777;

struct Runner
{
   Runner(long kk) : k(kk), nextPing(0) {}

   bool Blocked(size_t ci) {return (w.alive(ci))&&(w.session(ci)._tio)&&(w.session(ci)._tio->_blocked);}

   // steps clients and the server until nothing moves (sessions whose client does not read are left alone)
   int Pump(int maxRounds = 400)
   {
      int idle = 0, rounds = 0;
      while((idle < 3)&&(rounds < maxRounds))
      {
         bool moved = false;
         for (size_t i=0; i<w.NumSessions(); i++) if (w.client(i).sock()) moved |= w.client(i).Step();
         (void) w.srv.ServerProcessLoop(0);
         for (size_t i=0; i<w.NumSessions(); i++) if (w.client(i).sock()) moved |= w.client(i).Step();
         for (size_t i=0; i<w.NumSessions(); i++)
         {
            if ((w.alive(i))&&(!Blocked(i))&&(w.session(i).GetGateway()())&&(w.session(i).GetGateway()()->HasBytesToOutput())) moved = true;
         }
         idle = moved ? 0 : (idle+1);
         rounds++;
      }
      return rounds;
   }

   // the property's statement: the witness's ping is answered
   void WitnessPing(int j, const std::string & opText)
   {
      if ((w.NumSessions() == 0)||(!w.alive(0))||(!w.client(0).sock())||(Blocked(0))) return;
      const int32 tag = ++nextPing;
      MessageRef m = MkMsg(PR_COMMAND_PING);
      (void) m()->AddInt32("w", WITNESS_TAG);
      (void) m()->AddInt32("n", tag);
      w.client(0).Send(m);
      bool got = false;
      int rounds = 0;
      for (; (rounds < PING_ROUNDS)&&(!got); rounds++)
      {
         for (size_t i=0; i<w.NumSessions(); i++) if (w.client(i).sock()) (void) w.client(i).Step();
         (void) w.srv.ServerProcessLoop(0);
         for (size_t i=0; i<w.NumSessions(); i++) if (w.client(i).sock()) (void) w.client(i).Step();
         std::vector<MessageRef> & in = w.client(0).inbox;
         for (size_t mi=0; mi<in.size(); mi++)
         {
            const Message * r = in[mi]();
            if ((r)&&(r->what == PR_RESULT_PONG)&&(r->GetInt32("w", 0) == WITNESS_TAG))
            {
               if (r->GetInt32("n", 0) == tag) got = true;
               in.erase(in.begin()+mi); mi--;
            }
         }
      }
      if (!got) printf("%ld ORACLE FAIL witness-ping-unanswered op#%d %s (session 0 %s)\n", k, j, opText.c_str(), w.alive(0) ? "attached" : "gone");
      else if (!w.alive(0)) printf("%ld ORACLE FAIL witness-dropped op#%d %s\n", k, j, opText.c_str());
   }

   // returns false when the op named a session that is not there (the op is skipped)
   bool DoOp(const std::string & op)
   {
      std::vector<std::string> f = Split(op, ':');
      const std::string code = f[0];
      const int K = (f.size() > 1) ? atoi(f[1].c_str()) : -1;
      Ctx c; c.w = &w;
      if (code == "a") {(void) w.AddSession(); return true;}
      if ((K < 0)||(K >= (int)w.NumSessions())||(!w.alive(K))||(!w.client(K).sock())) return false;
      if (code == "d") {w.CloseClient(K); return true;}
      if (code == "x")
      {
         if (w.session(K)._tio == NULL) return false;
         w.session(K)._tio->_blocked = ((f.size() > 2)&&(f[2] == "1"));
         return true;
      }
      if (code == "b")
      {
         std::vector<MessageRef> subs;
         std::vector<std::string> so = ((f.size() > 2)&&(!f[2].empty())) ? Split(f[2], '+') : std::vector<std::string>();
         for (size_t i=0; i<so.size(); i++)
         {
            std::vector<std::string> sf = Split(so[i], '~');
            const std::string sc = sf[0];
            sf.erase(sf.begin());
            MessageRef sm = BuildCommand(c, K, sc, sf);
            if (sm()) subs.push_back(sm);
         }
         w.client(K).Send(MkBatch(subs));
         return true;
      }
      if (code == "nb")
      {
         const int depth = (f.size() > 2) ? atoi(f[2].c_str()) : 0;
         std::vector<std::string> sf = Split((f.size() > 3) ? f[3] : std::string("no"), '~');
         const std::string sc = sf[0];
         sf.erase(sf.begin());
         MessageRef cur = BuildCommand(c, K, sc, sf);
         if (cur() == NULL) return false;
         for (int d=0; d<depth; d++) {std::vector<MessageRef> one; one.push_back(cur); cur = MkBatch(one);}
         w.client(K).Send(cur);
         return true;
      }
      if (code == "M")
      {
         // the Message text may itself contain no ':' (see the grammar), so it is field 2
         MsgParser p((f.size() > 2) ? f[2] : std::string(""));
         MessageRef m = p.Msg(0);
         if (m() == NULL) return false;
         w.client(K).Send(m);
         return true;
      }
      std::vector<std::string> fs(f.begin()+2, f.end());
      MessageRef m = BuildCommand(c, K, code, fs);
      if (m() == NULL) return false;
      w.client(K).Send(m);
      return true;
   }

   void PrintState(int j, const std::string & code, bool valid)
   {
      std::ostringstream o;
      o << j << " " << code << (valid ? "" : "!") << " M{";
      bool firstc = true;
      for (size_t ci=0; ci<w.NumSessions(); ci++)
      {
         Client & cl = w.client(ci);
         std::ostringstream mo;
         for (size_t mi=0; mi<cl.inbox.size(); mi++) if (cl.inbox[mi]()) mo << MsgText(w, *cl.inbox[mi]());
         cl.inbox.clear();
         if (!mo.str().empty()) {if (!firstc) o << " "; firstc = false; o << "c" << ci << ":" << mo.str();}
      }
      o << "} Q{";
      bool firstq = true;
      for (size_t ci=0; ci<w.NumSessions(); ci++) if (Blocked(ci))
      {
         if (!firstq) o << " ";
         firstq = false;
         o << ci << ":";
         AbstractMessageIOGateway * gw = w.session(ci).GetGateway()();
         if (gw)
         {
            const Queue<MessageRef> & oq = gw->GetOutgoingMessageQueue();
            for (uint32 qi=0; qi<oq.GetNumItems(); qi++) if (oq[qi]()) o << MsgText(w, *oq[qi]());
         }
      }
      o << "} T{";
      int liveIdx = -1;
      for (size_t ci=0; ci<w.NumSessions(); ci++) if (w.alive(ci)) {liveIdx = (int)ci; break;}
      if (liveIdx >= 0) {Dumper d(w, o); WalkTree(w.session(liveIdx).GetGlobalRoot(), d);}
      o << "} E{";
      bool firste = true;
      for (size_t ci=0; ci<w.NumSessions(); ci++) if (w.alive(ci))
      {
         BSession & s = w.session(ci);
         if (!firste) o << " ";
         firste = false;
         o << ci << "(" << s._maxSubscriptionMessageItems << ")[";
         bool fg = true;
         for (ConstHashtableIterator<uint32, Hashtable<String, PathMatcherEntry> > it(s._subscriptions.GetEntries()); it.HasData(); it++)
         {
            if (!fg) o << "|";
            fg = false;
            o << it.GetKey() << ":";
            bool fe = true;
            for (ConstHashtableIterator<String, PathMatcherEntry> e(it.GetValue()); e.HasData(); e++)
            {
               if (!fe) o << ",";
               fe = false;
               o << CanonPattern(w, e.GetKey()()) << FilterSpec(e.GetValue().GetFilter()());
            }
         }
         o << "]";
      }
      o << "}";
      printf("%ld %s\n", k, o.str().c_str());
   }

   void Run(const std::string & line)
   {
      const size_t bar = line.find('|');
      if (bar == std::string::npos) return;
      const bool modelled = (line[0] != 'F');
      std::vector<std::string> ops = Split(line.substr(bar+1), ';');
      int j = -1;
      for (size_t oi=0; oi<ops.size(); oi++)
      {
         if (ops[oi].empty()) continue;
         j++;
         g_op = j;
         strncpy(g_opText, ops[oi].c_str(), sizeof(g_opText)-1); g_opText[sizeof(g_opText)-1] = '\0';
         alarm((unsigned) g_watchdogSecs);
         const double cpu0 = CpuNow();
         const unsigned long long alloc0 = g_allocBytes;
         const bool valid = DoOp(ops[oi]);
         const int rounds = Pump();
         const double cpu = CpuNow()-cpu0;
         if (cpu > g_maxCpu) g_maxCpu = cpu;
         if (rounds >= 400) printf("%ld ORACLE FAIL no-quiescence op#%d %s\n", k, j, g_opText);
         const unsigned long long alloc = g_allocBytes-alloc0;
         if (alloc > g_maxAlloc) g_maxAlloc = alloc;
         if (cpu > g_cpuBudget) printf("%ld ORACLE FAIL slow-handler op#%d %s\n", k, j, g_opText);
         else if (alloc > g_allocBudget) printf("%ld ORACLE FAIL resource-hog op#%d %s\n", k, j, g_opText);
         if (modelled) PrintState(j, Split(ops[oi], ':')[0], valid);
         else for (size_t ci=0; ci<w.NumSessions(); ci++) w.client(ci).inbox.clear();
         WitnessPing(j, g_opText);
         alarm(0);
         fflush(stdout);
      }
      if (!modelled) printf("%ld F %d\n", k, j+1);
      alarm((unsigned) g_watchdogSecs);
      w.Shutdown();
      alarm(0);
   }

   long k;
   W w;
   int32 nextPing;
};

int main(int, char **)
{
   CompleteSetupSystem css;
   QuietLogs();
   const char * ws = getenv("C07_WATCHDOG_S");
   if ((ws)&&(atoi(ws) > 0)) g_watchdogSecs = atoi(ws);
   const char * cb = getenv("C07_CPU_BUDGET_S");
   if ((cb)&&(atof(cb) > 0.0)) g_cpuBudget = atof(cb);
   const char * ab = getenv("C07_ALLOC_BUDGET_MB");
   if ((ab)&&(atol(ab) > 0)) g_allocBudget = ((unsigned long long) atol(ab))*1024ULL*1024ULL;
   (void) __sanitizer_install_malloc_and_free_hooks(OnMalloc, OnFree);
   signal(SIGALRM, OnAlarm);
   std::string line;
   long k = 0;
   while(std::getline(std::cin, line))
   {
      g_case = k; g_op = -1; g_opText[0] = '\0';
      {Runner r(k); r.Run(line);}
      k++;
      fflush(stdout);
   }
   if (getenv("C07_REPORT_CPU"))
   {
      struct rusage ru; getrusage(RUSAGE_SELF, &ru);
      fprintf(stderr, "C07 max op cpu %.3f s, max op malloc %llu MB, maxrss %ld MB\n", g_maxCpu, g_maxAlloc/(1024ULL*1024ULL), ru.ru_maxrss/1024);
   }
   return 0;
}
