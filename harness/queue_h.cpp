// C16 harness: runs operation scripts against muscle::Queue<int> (trivial items) and
// muscle::Queue<Tracked> (owning items), printing results, user-visible contents and the
// internal representation (_queue kind, _itemCount, _headIndex, _tailIndex, _queueSize, raw slots,
// the in-object array while it is not the active one) after every operation, in the same canonical
// text as the extracted Coq model.  Case kinds: T / O (one queue), T2 / O2 (two queues A and B).
#include <stdio.h>
#include <stdlib.h>
#include <string.h>
#include <string>
#include <vector>
#include <sstream>
#include <iostream>
#include <algorithm>
#include <new>

#define private public
#define protected public
#include "util/Queue.h"
#undef private
#undef protected

using namespace muscle;

static long g_live = 0;   // live Tracked objects (constructor/destructor balance)

struct Tracked   // non-trivial => IsPerItemClearNecessary() is true ("owning" item kind); copy-assignment only
{
   Tracked() : _v(0) {g_live++;}
   Tracked(int v) : _v(v) {g_live++;}
   Tracked(const Tracked & r) : _v(r._v) {g_live++;}
   ~Tracked() {g_live--;}
   Tracked & operator=(const Tracked & r) {_v = r._v; return *this;}
   bool operator==(const Tracked & r) const {return _v == r._v;}
   bool operator!=(const Tracked & r) const {return _v != r._v;}
   bool operator<(const Tracked & r) const {return _v < r._v;}
   int _v;
};
static inline int val(const Tracked & t) {return t._v;}
static inline int val(int t) {return t;}

static inline int key4(int v) {return (v >= 0) ? (v/4) : -((-v+3)/4);}   // floor(v/4)
// compares the keys only, so that Sort()'s stability is observable
template<class T> class KeyCompareFunctor
{
public:
   int Compare(const T & a, const T & b, void *) const {const int ka = key4(val(a)), kb = key4(val(b)); return (ka < kb) ? -1 : ((kb < ka) ? 1 : 0);}
};
static bool key_less(int a, int b) {return key4(a) < key4(b);}
static inline bool owningKind(const Tracked *) {return true;}
static inline bool owningKind(const int *) {return false;}

static std::vector<std::string> split(const std::string & s, char c)
{
   std::vector<std::string> r; std::string cur;
   for (size_t i=0; i<s.size(); i++) {if (s[i]==c) {r.push_back(cur); cur.clear();} else cur += s[i];}
   r.push_back(cur);
   return r;
}
static std::vector<int> ints(const std::string & s)
{
   std::vector<int> r; if (s.empty()) return r;
   std::vector<std::string> p = split(s, ',');
   for (size_t i=0; i<p.size(); i++) r.push_back(atoi(p[i].c_str()));
   return r;
}

template<class T> static void show_state(std::ostringstream & o, const Queue<T> & q, bool owning)
{
   const bool small = (q._queue == q._smallQueue);
   const char * st = (q._queue == NULL) ? "N" : (small ? "S" : "H");
   o << st << "/" << q._itemCount << "/";
   if (q._itemCount == 0) o << "_/_"; else o << q._headIndex << "/" << q._tailIndex;
   o << "/" << q._queueSize << "/[";
   for (uint32 i=0; i<q.GetNumItems(); i++) {if (i) o << ","; o << val(q[i]);}
   o << "]/{";
   for (uint32 i=0; i<q._queueSize; i++) {if (i) o << ","; o << val(q._queue[i]);}
   o << "}<";
   if (!small) for (uint32 i=0; i<ARRAYITEMS(q._smallQueue); i++) {if (i) o << ","; o << val(q._smallQueue[i]);}
   o << ">";
}

typedef std::vector<int> Ideal;
static Ideal slice(const Ideal & src, size_t start, size_t num)
{
   Ideal r;
   for (size_t i=start; (i<src.size())&&(r.size()<num); i++) r.push_back(src[i]);
   return r;
}

// one single-queue operation on (q, ideal); returns false on a syntax error
template<class T> static bool apply_op(Queue<T> & q, Ideal & ideal, const std::string & ops, std::ostringstream & o)
{
   std::vector<std::string> a = split(ops, ':');
   const std::string & c = a[0];
   #define I(k) atoi(a[k].c_str())
   #define U(k) ((uint32)strtoul(a[k].c_str(), NULL, 10))
   if (c == "at") {o << (q.AddTail(T(I(1))).IsOK() ? "ok" : "err"); ideal.push_back(I(1));}
   else if (c == "ah") {o << (q.AddHead(T(I(1))).IsOK() ? "ok" : "err"); ideal.insert(ideal.begin(), I(1));}
   else if (c == "rh") {T v; if (q.RemoveHead(v).IsOK()) o << "v" << val(v); else o << "none"; if (!ideal.empty()) ideal.erase(ideal.begin());}
   else if (c == "rt") {T v; if (q.RemoveTail(v).IsOK()) o << "v" << val(v); else o << "none"; if (!ideal.empty()) ideal.pop_back();}
   else if (c == "rhm") {o << "n" << q.RemoveHeadMulti(U(1)); size_t m = std::min((size_t)U(1), ideal.size()); ideal.erase(ideal.begin(), ideal.begin()+m);}
   else if (c == "rtm") {o << "n" << q.RemoveTailMulti(U(1)); size_t m = std::min((size_t)U(1), ideal.size()); ideal.erase(ideal.end()-m, ideal.end());}
   else if (c == "ra") {T v; if (q.RemoveItemAt(U(1), v).IsOK()) o << "v" << val(v); else o << "none"; if (U(1) < ideal.size()) ideal.erase(ideal.begin()+U(1));}
   else if (c == "ia") {o << (q.InsertItemAt(U(1), T(I(2))).IsOK() ? "ok" : "err"); size_t p = std::min((size_t)U(1), ideal.size()); ideal.insert(ideal.begin()+p, I(2));}
   else if (c == "rp") {o << (q.ReplaceItemAt(U(1), T(I(2))).IsOK() ? "ok" : "err"); if (U(1) < ideal.size()) ideal[U(1)] = I(2);}
   else if (c == "g")  {T v; if (q.GetItemAt(U(1), v).IsOK()) o << "v" << val(v); else o << "none";}
   else if (c == "cl") {q.Clear(I(1) != 0); o << "-"; ideal.clear();}
   else if (c == "es") {const bool okk = q.EnsureSize(U(1), I(2)!=0, U(3), I(4)!=0).IsOK(); o << (okk ? "ok" : "err"); if ((okk)&&(I(2))) ideal.resize(U(1), 0);}
   else if (c == "sw") {if ((U(1) < q.GetNumItems())&&(U(2) < q.GetNumItems())) {q.Swap(U(1), U(2)); std::swap(ideal[U(1)], ideal[U(2)]);} o << "-";}
   else if (c == "rv") {q.ReverseItemOrdering(U(1), U(2)); o << "-";
                        if ((U(1) < U(2))&&(!ideal.empty())) {size_t t = std::min((size_t)U(2)-1, ideal.size()-1); size_t f = U(1); while(f < t) std::swap(ideal[f++], ideal[t--]);}}
   else if (c == "nm") {q.Normalize(); o << "-";}
   else if (c == "io") {o << "i" << q.IndexOf(T(I(1)), U(2), U(3));}
   else if (c == "lo") {o << "i" << q.LastIndexOf(T(I(1)), U(2), U(3));}
   else if ((c == "atm")||(c == "ahm")||(c == "cf"))
   {
      std::vector<int> xs = ints(a.size() > 1 ? a[1] : "");
      std::vector<T> ts; for (size_t i=0; i<xs.size(); i++) ts.push_back(T(xs[i]));
      T dummy;
      const T * p = ts.empty() ? &dummy : &ts[0];
      if (c == "atm") {o << (q.AddTailMulti(p, (uint32)ts.size()).IsOK() ? "ok" : "err"); ideal.insert(ideal.end(), xs.begin(), xs.end());}
      else if (c == "ahm") {o << (q.AddHeadMulti(p, (uint32)ts.size()).IsOK() ? "ok" : "err"); ideal.insert(ideal.begin(), xs.begin(), xs.end());}
      else {Queue<T> other; for (size_t i=0; i<ts.size(); i++) (void) other.AddTail(ts[i]); o << (q.CopyFrom(other).IsOK() ? "ok" : "err"); ideal = xs;}
   }
   else if (c == "iia")
   {
      std::vector<int> xs = ints(a.size() > 2 ? a[2] : "");
      std::vector<T> ts; for (size_t i=0; i<xs.size(); i++) ts.push_back(T(xs[i]));
      T dummy;
      o << (q.InsertItemsAt(U(1), ts.empty() ? &dummy : &ts[0], (uint32)ts.size()).IsOK() ? "ok" : "err");
      size_t p = std::min((size_t)U(1), ideal.size()); ideal.insert(ideal.begin()+p, xs.begin(), xs.end());
   }
   else if (c == "rfi") {o << (q.RemoveFirstInstanceOf(T(I(1))).IsOK() ? "ok" : "err"); for (size_t i=0; i<ideal.size(); i++) if (ideal[i]==I(1)) {ideal.erase(ideal.begin()+i); break;}}
   else if (c == "rli") {o << (q.RemoveLastInstanceOf(T(I(1))).IsOK() ? "ok" : "err"); for (size_t i=ideal.size(); i>0; i--) if (ideal[i-1]==I(1)) {ideal.erase(ideal.begin()+(i-1)); break;}}
   else if (c == "rai") {o << "n" << q.RemoveAllInstancesOf(T(I(1))); std::vector<int> nw; for (size_t i=0; i<ideal.size(); i++) if (ideal[i]!=I(1)) nw.push_back(ideal[i]); ideal = nw;}
   else if (c == "so")
   {
      if (I(1)) q.Sort(KeyCompareFunctor<T>(), U(2), U(3)); else q.Sort(U(2), U(3));
      o << "-";
      size_t t = std::min((size_t)U(3), ideal.size());
      if (U(2) < t) {if (I(1)) std::stable_sort(ideal.begin()+U(2), ideal.begin()+t, key_less); else std::stable_sort(ideal.begin()+U(2), ideal.begin()+t);}
   }
   else if (c == "it")
   {
      o << "l"; bool first = true; uint32 guard = 0;
      for (QueueIterator<T> it(q, U(1), I(2)); (it.HasData())&&(guard <= q.GetNumItems()); it++, guard++) {if (!first) o << ","; first = false; o << val(it.GetValue());}
   }
   else if ((c == "rsd")||(c == "rd"))
   {
      if (c == "rd") {o << "n" << q.RemoveDuplicateItems(); std::stable_sort(ideal.begin(), ideal.end());}
                else o << "n" << q.RemoveSortedDuplicateItems();
      Ideal nw; for (size_t i=0; i<ideal.size(); i++) if ((nw.empty())||(nw.back() != ideal[i])) nw.push_back(ideal[i]);
      ideal = nw;
   }
   else if ((c == "atr")||(c == "ahr")||(c == "rar"))
   {
      // the argument is a reference into the Queue's own storage
      if (U(1) < q.GetNumItems())
      {
         const int x = ideal[U(1)];
         if (c == "atr") {o << (q.AddTail(q[U(1)]).IsOK() ? "ok" : "err"); ideal.push_back(x);}
         else if (c == "ahr") {o << (q.AddHead(q[U(1)]).IsOK() ? "ok" : "err"); ideal.insert(ideal.begin(), x);}
         else {o << "n" << q.RemoveAllInstancesOf(q[U(1)]); Ideal nw; for (size_t i=0; i<ideal.size(); i++) if (ideal[i]!=x) nw.push_back(ideal[i]); ideal = nw;}
      }
      else o << ((c == "rar") ? "n0" : "err");
   }
   else if (c == "iar")
   {
      if (U(2) < q.GetNumItems()) {const int x = ideal[U(2)]; o << (q.InsertItemAt(U(1), q[U(2)]).IsOK() ? "ok" : "err"); size_t p = std::min((size_t)U(1), ideal.size()); ideal.insert(ideal.begin()+p, x);}
      else o << "err";
   }
   else if (c == "rpr")
   {
      if ((U(1) < q.GetNumItems())&&(U(2) < q.GetNumItems())) {o << (q.ReplaceItemAt(U(1), q[U(2)]).IsOK() ? "ok" : "err"); ideal[U(1)] = ideal[U(2)];}
      else o << "err";
   }
   else if (c == "stf") {o << (q.ShrinkToFit(U(1)).IsOK() ? "ok" : "err");}
   else if (c == "eca") {o << (q.EnsureCanAdd(U(1)).IsOK() ? "ok" : "err");}
   else if (c == "rpa") {q.ReplaceAllItems(T(I(1))); o << "-"; for (size_t i=0; i<ideal.size(); i++) ideal[i] = I(1);}
   else if (c == "gap")
   {
      o << "l"; bool first = true;
      for (uint32 w=0; w<2; w++) {uint32 len = 0; const T * p = q.GetArrayPointer(w, len); if (p) for (uint32 i=0; i<len; i++) {if (!first) o << ","; first = false; o << val(p[i]);}}
   }
   else if (c == "adp")
   {
      // AdoptRawDataArray(n, array, |xs|): xs followed by the spare slots (default items for the owning kind, as the API demands)
      std::vector<int> xs = ints(a.size() > 1 ? a[1] : ""), sp = ints(a.size() > 2 ? a[2] : "");
      const uint32 n = (uint32)(xs.size()+sp.size());
      T * arr = new T[n];
      for (size_t i=0; i<xs.size(); i++) arr[i] = T(xs[i]);
      for (size_t i=0; i<sp.size(); i++) arr[xs.size()+i] = T(owningKind(arr) ? 0 : sp[i]);
      q.AdoptRawDataArray(n, arr, (uint32)xs.size());
      ideal = xs; o << "-";
   }
   else if (c == "rel")
   {
      uint32 len = 0;
      T * p = q.ReleaseRawDataArray(&len);
      o << "-r"; for (uint32 i=0; (p)&&(i<len); i++) {if (i) o << ","; o << val(p[i]);}
      delete [] p;
      ideal.clear();
   }
   else if (c == "isp")
   {
      o << "i" << q.InsertItemAtSortedPosition(T(I(1)));
      size_t p = 0;
      if ((!ideal.empty())&&(ideal[0] <= I(1))) {for (size_t i=ideal.size(); i>0; i--) if (ideal[i-1] <= I(1)) {p = i; break;}}
      ideal.insert(ideal.begin()+p, I(1));
   }
   else return false;
   return true;
}

// one operation that involves both queues (or a queue as its own argument); this = A (t=0) or B (t=1)
template<class T> static bool apply_op2(Queue<T> & qa, Ideal & ia, Queue<T> & qb, Ideal & ib, const std::string & ops, std::ostringstream & o)
{
   std::vector<std::string> a = split(ops, ':');
   const std::string & c = a[0];
   const bool tb = (a.size() > 1)&&(a[1] == "1");
   Queue<T> & t = tb ? qb : qa;  Ideal & it = tb ? ib : ia;
   Queue<T> & r = tb ? qa : qb;  Ideal & ir = tb ? ia : ib;
   if (c == "sc") {t.SwapContents(r); std::swap(it, ir); o << "-";}
   else if (c == "pl") {t = std::move(r); it = ir; ir.clear(); o << "-";}
   else if (c == "cq") {o << (t.CopyFrom(r).IsOK() ? "ok" : "err"); it = ir;}
   else if (c == "as") {t = r; it = ir; o << "-";}
   else if (c == "eq") {o << ((qa == qb) ? "ok" : "err");}
   else if (c == "cmp") {o << "v" << ((t < r) ? -1 : ((t > r) ? 1 : 0)); if ((t <= r) != (!(t > r))) o << "!"; if ((t >= r) != (!(t < r))) o << "!";}
   else if (c == "stw") {o << (t.StartsWith(r) ? "ok" : "err");}
   else if (c == "enw") {o << (t.EndsWith(r) ? "ok" : "err");}
   else if ((c == "atq")||(c == "ahq"))
   {
      const bool self = (a[2] == "1");
      const Ideal xs = slice(self ? it : ir, U(3), U(4));
      if (c == "atq") {o << (t.AddTailMulti(self ? t : r, U(3), U(4)).IsOK() ? "ok" : "err"); it.insert(it.end(), xs.begin(), xs.end());}
                 else {o << (t.AddHeadMulti(self ? t : r, U(3), U(4)).IsOK() ? "ok" : "err"); it.insert(it.begin(), xs.begin(), xs.end());}
   }
   else if (c == "iiq")
   {
      const bool self = (a[2] == "1");
      const Ideal xs = slice(self ? it : ir, U(4), U(5));
      o << (t.InsertItemsAt(U(3), self ? t : r, U(4), U(5)).IsOK() ? "ok" : "err");
      size_t p = std::min((size_t)U(3), it.size()); it.insert(it.begin()+p, xs.begin(), xs.end());
   }
   else return false;
   return true;
}

// ---- result oracle: what the operation must answer, computed from the ideal sequence(s) BEFORE the operation
// (independent of the Coq model); "" = this operation has no result that could be wrong
static std::string jn(const char * pfx, const Ideal & v) {std::ostringstream o; o << pfx; for (size_t i=0; i<v.size(); i++) {if (i) o << ","; o << v[i];} return o.str();}
static std::string num(const char * pfx, long n) {std::ostringstream o; o << pfx << n; return o.str();}
static long countOf(const Ideal & v, int x) {long c = 0; for (size_t i=0; i<v.size(); i++) if (v[i] == x) c++; return c;}
static std::string expected_result(const Ideal & v, const Ideal & w, const std::string & ops)
{
   // v = the ideal sequence of [this] queue, w = of the other one (two-queue operations)
   std::vector<std::string> a = split(ops, ':');
   const std::string & c = a[0];
   const size_t sz = v.size();
   if ((c=="at")||(c=="ah")||(c=="ia")||(c=="atm")||(c=="ahm")||(c=="iia")||(c=="cf")||(c=="cq")||(c=="atq")||(c=="ahq")||(c=="iiq")) return "ok";
   // the uint32 sums of these three must stay below MUSCLE_NO_LIMIT, else B_RESOURCE_LIMIT and nothing changes
   if (c=="es") return (((uint64)U(1))+((uint64)U(3)) >= 0xFFFFFFFFull) ? "err" : "ok";
   if ((c=="stf")||(c=="eca")) return (((uint64)sz)+((uint64)U(1)) >= 0xFFFFFFFFull) ? "err" : "ok";
   if ((c=="cl")||(c=="sw")||(c=="rv")||(c=="nm")||(c=="so")||(c=="rpa")||(c=="sc")||(c=="pl")||(c=="as")||(c=="adp")) return "-";
   if (c=="rh") return sz ? num("v", v[0]) : "none";
   if (c=="rt") return sz ? num("v", v[sz-1]) : "none";
   if ((c=="ra")||(c=="g")) return (U(1) < sz) ? num("v", v[U(1)]) : "none";
   if (c=="rp") return (U(1) < sz) ? "ok" : "err";
   if ((c=="rhm")||(c=="rtm")) return num("n", (long)std::min((size_t)U(1), sz));
   if (c=="io") {if (U(2) < sz) {size_t e = std::min((size_t)U(3), sz); for (size_t i=U(2); i<e; i++) if (v[i] == I(1)) return num("i", (long)i);} return "i-1";}
   if (c=="lo") {if (U(3) < sz) {size_t s0 = std::min((size_t)U(2), sz-1); for (long i=(long)s0; i>=(long)U(3); i--) if (v[(size_t)i] == I(1)) return num("i", i);} return "i-1";}
   if ((c=="rfi")||(c=="rli")) return countOf(v, I(1)) ? "ok" : "err";
   if (c=="rai") return num("n", countOf(v, I(1)));
   if (c=="it") {Ideal r; uint32 idx = U(1); const uint32 d = (uint32)I(2); for (size_t g=0; (g<=sz)&&(idx<sz); g++) {r.push_back(v[idx]); idx += d;} return jn("l", r);}
   if ((c=="rsd")||(c=="rd")) {Ideal t = v; if (c=="rd") std::stable_sort(t.begin(), t.end()); long kept = 0; for (size_t i=0; i<t.size(); i++) if ((i==0)||(t[i] != t[i-1])) kept++; return num("n", (long)sz-kept);}
   if (c=="isp") {size_t p = 0; if ((sz)&&(v[0] <= I(1))) {for (size_t i=sz; i>0; i--) if (v[i-1] <= I(1)) {p = i; break;}} return num("i", (long)p);}
   if ((c=="atr")||(c=="ahr")) return (U(1) < sz) ? "ok" : "err";
   if (c=="iar") return (U(2) < sz) ? "ok" : "err";
   if (c=="rpr") return ((U(1) < sz)&&(U(2) < sz)) ? "ok" : "err";
   if (c=="rar") return (U(1) < sz) ? num("n", countOf(v, v[U(1)])) : "n0";
   if (c=="gap") return jn("l", v);
   if (c=="eq") return (v == w) ? "ok" : "err";
   if (c=="cmp") return num("v", (v < w) ? -1 : ((w < v) ? 1 : 0));      // std::vector compares lexicographically
   if (c=="stw") return ((w.size() <= sz)&&(std::equal(w.begin(), w.end(), v.begin()))) ? "ok" : "err";
   if (c=="enw") return ((w.size() <= sz)&&(std::equal(w.begin(), w.end(), v.begin()+(sz-w.size())))) ? "ok" : "err";
   return "";
}

// ---- property oracle, evaluated on the implementation after every operation
template<class T> static bool oracle(int k, const char * name, const Queue<T> & q, const Ideal & ideal, bool owning, size_t n, const std::string & c, std::ostringstream & orc)
{
   bool same = (q.GetNumItems() == ideal.size());
   for (size_t i=0; same && i<ideal.size(); i++) if (val(q[(uint32)i]) != ideal[i]) same = false;
   if (!same)
   {
      orc << k << " ORACLE FAIL queue " << name << " differs from ideal sequence after op#" << n << " " << c << " (kind " << (owning?"owning":"trivial") << ")\n";
      return false;
   }
   if (owning)
   {
      // stale-item clause: every slot outside the live window holds the default item ...
      std::vector<bool> live(q._queueSize, false);
      for (uint32 i=0; i<q._itemCount; i++) live[q.InternalizeIndex(i)] = true;
      for (uint32 i=0; i<q._queueSize; i++) if ((!live[i])&&(val(q._queue[i]) != 0))
      {
         orc << k << " ORACLE FAIL stale item retained outside the window of " << name << " after op#" << n << " " << c << "\n";
         return false;
      }
      // ... and so does the in-object array while it is not in use
      if (q._queue != q._smallQueue) for (uint32 i=0; i<ARRAYITEMS(q._smallQueue); i++) if (val(q._smallQueue[i]) != 0)
      {
         orc << k << " ORACLE FAIL stale item retained in the unused in-object array of " << name << " after op#" << n << " " << c << "\n";
         return false;
      }
   }
   return true;
}

template<class T> static bool run_case(int k, const std::string & body, bool owning, bool two)
{
   std::ostringstream o;
   std::ostringstream orc;
   {
      // The Queues live in buffers pre-filled with 0xbe, the byte ASan fills fresh heap memory with, so that the
      // never-written slots of trivial items are deterministic too and ALL raw slots can be compared with the model.
      alignas(Queue<T>) static char bufa[sizeof(Queue<T>)];
      alignas(Queue<T>) static char bufb[sizeof(Queue<T>)];
      memset(bufa, 0xbe, sizeof(bufa)); memset(bufb, 0xbe, sizeof(bufb));
      struct Holder {Queue<T> * _q; Holder(char * b) : _q(new (b) Queue<T>()) {} ~Holder() {_q->~Queue<T>();}};
      Holder ha(bufa), hb(bufb);
      Queue<T> & qa = *ha._q; Queue<T> & qb = *hb._q;
      Ideal ia, ib;             // the harness's own ideal sequences: the property oracle
      std::vector<std::string> ops = split(body, ';');
      for (size_t n=0; n<ops.size(); n++)
      {
         if (ops[n].empty()) continue;
         std::string c = split(ops[n], ':')[0];
         bool ok;
         std::ostringstream res;    // the operation's answer
         std::string want;          // what the ideal sequence(s) say it must be
         if ((two)&&(ops[n].compare(0, 2, "b.") == 0)) {want = expected_result(ib, ia, ops[n].substr(2)); ok = apply_op(qb, ib, ops[n].substr(2), res);}
         else
         {
            const std::vector<std::string> aa = split(ops[n], ':');
            const bool thisIsB = (two)&&(aa.size() > 1)&&(aa[1] == "1")&&((c=="sc")||(c=="pl")||(c=="cq")||(c=="as")||(c=="stw")||(c=="enw")||(c=="cmp")||(c=="atq")||(c=="ahq")||(c=="iiq"));
            want = thisIsB ? expected_result(ib, ia, ops[n]) : expected_result(ia, ib, ops[n]);
            ok = apply_op(qa, ia, ops[n], res);
            if ((!ok)&&(two)) ok = apply_op2(qa, ia, qb, ib, ops[n], res);
         }
         if (!ok) {fprintf(stderr, "bad op [%s]\n", ops[n].c_str()); exit(2);}
         o << res.str();
         if ((!want.empty())&&(want != res.str()))
         {
            orc << k << " ORACLE FAIL result of op#" << n << " " << c << " differs from the ideal sequence's (kind " << (owning?"owning":"trivial") << ")\n";
            o << " "; show_state(o, qa, owning); if (two) {o << "|"; show_state(o, qb, owning);} o << ";";
            break;
         }
         o << " ";
         show_state(o, qa, owning);
         if (two) {o << "|"; show_state(o, qb, owning);}
         o << ";";
         if (!oracle(k, "A", qa, ia, owning, n, c, orc)) break;
         if ((two)&&(!oracle(k, "B", qb, ib, owning, n, c, orc))) break;
      }
   }
   printf("%d %s\n", k, o.str().c_str());
   if (!orc.str().empty()) fputs(orc.str().c_str(), stdout);
   if (g_live != 0) {printf("%d ORACLE FAIL constructor/destructor imbalance %ld\n", k, g_live); g_live = 0;}
   fflush(stdout);
   return true;
}

int main()
{
   (void) GetDefaultObjectForType<Tracked>();  // the static default item is constructed once; not part of any case
   g_live = 0;
   std::string line;
   int k = 0;
   while(std::getline(std::cin, line))
   {
      size_t p = line.find('|');
      if (p != std::string::npos)
      {
         const std::string kind = line.substr(0, p);
         const std::string body = line.substr(p+1);
         const bool two = (kind.size() > 1)&&(kind[1] == '2');
         if (kind[0] == 'O') run_case<Tracked>(k, body, true, two);
                        else run_case<int>(k, body, false, two);
      }
      k++;
   }
   return 0;
}
