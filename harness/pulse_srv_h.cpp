// C20 -- runtime residue: the scheduler as ReflectServer drives it (reflector/ReflectServer.cpp: GetPulseTimeAux for
// every session/gateway/factory/policy before the wait, PulseAux after it), against the REAL clock.
// A real in-process ReflectServer gets sessions on socket pairs; each session owns a small tree of timer nodes
// (children and grandchildren via PutPulseChild) with one-shot and repeating times, some of which are re-scheduled
// from another timer's Pulse() via InvalidatePulseTime(), detached, or destroyed.  The property's own statement is
// evaluated on what the callbacks observe:
//    never early          : Pulse() is never entered before the time the node asked for (callback time and real clock)
//    the time asked for   : args.GetScheduledTime() is what the node's last GetPulseTime() returned
//    asked again          : GetPulseTime() is called again after every Pulse() and after every InvalidatePulseTime()
//    nothing is lost      : every requested finite time is eventually served (the loop runs until then, bounded)
//    wake-up time         : the next-pulse time ServerProcessLoop() reports is never later than the earliest pending request
// Only lower bounds on real time are checked, so a loaded machine cannot make it fail.  One line `k ok ...` per case.
#include <stdio.h>
#include <stdlib.h>
#include <string>
#include <vector>
#include <iostream>

#include "reflector/ReflectServer.h"
#include "reflector/AbstractReflectSession.h"
#include "system/SetupSystem.h"
#include "util/NetworkUtilityFunctions.h"
#include "util/PulseNode.h"

using namespace muscle;

static std::vector<std::string> g_fail;
static void fail(const std::string & s) {if (g_fail.size() < 20) g_fail.push_back(s);}
static uint32 g_rng = 1;
static uint32 rnd(uint32 n) {g_rng = g_rng*1664525u + 1013904223u; return (g_rng>>8)%n;}

class Timer;
static std::vector<Timer *> g_timers;   // all live timers

class Timer : public PulseNode
{
public:
   Timer(int id) : _id(id), _next(0), _asked(false), _lastReturned(MUSCLE_TIME_NEVER), _fired(0), _period(0), _repeats(0), _victim(NULL), _victimAction(0), _nkids(0) {}
   virtual ~Timer() {for (size_t i=0; i<g_timers.size(); i++) if (g_timers[i] == this) {g_timers.erase(g_timers.begin()+i); break;}}

   uint64 Pending() const {return (_next < _times.size()) ? _times[_next] : MUSCLE_TIME_NEVER;}

   virtual uint64 GetPulseTime(const PulseArgs & args)
   {
      if ((args.GetScheduledTime() != _lastReturned)&&(_asked)) fail("GetPulseTime received a previous value that is not what the node returned last");
      _asked = true;
      _lastReturned = Pending();
      return _lastReturned;
   }

   virtual void Pulse(const PulseArgs & args)
   {
      const uint64 real = GetRunTime64();
      if (!_asked) fail("Pulse called although the node has not been asked since it fired / was invalidated");
      if (_next >= _times.size()) {fail("Pulse called on a node that asked for never"); return;}
      if (args.GetScheduledTime() != _times[_next]) fail("Pulse called with a scheduled time the node did not ask for");
      if (args.GetCallbackTime() < _times[_next]) fail("Pulse called before the requested time (callback time)");
      if (real < _times[_next]) fail("Pulse called before the requested time (real clock)");
      _fired++; _next++;
      _asked = false;   // must be asked again before the next Pulse
      if ((_repeats > 0)&&(_next >= _times.size())) {_repeats--; _times.push_back(args.GetScheduledTime()+_period);}
      if (_victim)
      {
         Timer * v = _victim; _victim = NULL;
         bool alive = false; for (size_t i=0; i<g_timers.size(); i++) if (g_timers[i] == v) alive = true;
         if (alive)
         {
            if (_victimAction == 0) {v->_times.insert(v->_times.begin()+v->_next, real+2000); v->_asked = false; v->InvalidatePulseTime();}     // pull it earlier
            else if (_victimAction == 1) {if (v->GetPulseParent()) {PulseNode * p = v->GetPulseParent(); p->RemovePulseChild(v); v->_asked = false; p->PutPulseChild(v);}}   // detach + re-attach
            else if ((v != this)&&(v->_nkids == 0)) {v->_times.resize(v->_next); delete v;}   // (a childless node cannot have a PulseAux frame below which we run)                                                                        // destroy
         }
      }
   }

   int _id; size_t _next; bool _asked; uint64 _lastReturned; int _fired;
   std::vector<uint64> _times; uint64 _period; int _repeats;
   Timer * _victim; int _victimAction; int _nkids;
};

class TSession : public AbstractReflectSession
{
public:
   TSession() : _own(-1) {}
   virtual void MessageReceivedFromGateway(const MessageRef &, void *) {}
   virtual status_t AttachedToServer()
   {
      MRETURN_ON_ERROR(AbstractReflectSession::AttachedToServer());
      for (size_t i=0; i<_roots.size(); i++) PutPulseChild(_roots[i]);
      return B_NO_ERROR;
   }
   virtual void AboutToDetachFromServer() {ClearPulseChildren(); AbstractReflectSession::AboutToDetachFromServer();}
   // the session is itself a timer as well
   virtual uint64 GetPulseTime(const PulseArgs & args) {return muscleMin(AbstractReflectSession::GetPulseTime(args), _own.Pending());}
   virtual void Pulse(const PulseArgs & args)
   {
      AbstractReflectSession::Pulse(args);
      if (args.GetCallbackTime() >= _own.Pending()) {_own._fired++; _own._next++;}
   }
   std::vector<Timer *> _roots;
   Timer _own;   // used as a plain record (never attached)
};

static bool run_case(int k, const std::string & spec)
{
   // spec: seed;sessions;timersPerSession;spacingMicros
   int seed = 1, nsess = 2, per = 4; long spacing = 3000;
   sscanf(spec.c_str(), "%d;%d;%d;%ld", &seed, &nsess, &per, &spacing);
   g_rng = (uint32) seed; g_fail.clear();
   int expected = 0, total = 0;
   {
      ReflectServer srv;
      std::vector<AbstractReflectSessionRef> sessions; std::vector<ConstSocketRef> peers;
      const uint64 t0 = GetRunTime64() + 20000;
      std::vector<Timer *> all;
      for (int s=0; s<nsess; s++)
      {
         TSession * ts = new TSession; AbstractReflectSessionRef ref(ts);
         ts->_own._times.push_back(t0 + rnd(10)*spacing);
         Timer * prev = NULL;
         for (int i=0; i<per; i++)
         {
            Timer * t = new Timer(s*100+i); g_timers.push_back(t); all.push_back(t);
            const int kind = rnd(6);
            if (kind == 0) {/* never */}
            else if (kind == 1) t->_times.push_back(t0 > 50000 ? t0-50000 : 0);                      // in the past: as soon as possible
            else if (kind == 2) {t->_times.push_back(t0 + rnd(12)*spacing); t->_period = spacing*(1+rnd(3)); t->_repeats = 1+rnd(3);}
            else {t->_times.push_back(t0 + rnd(12)*spacing); if (rnd(2)) t->_times.push_back(t->_times[0] + rnd(5)*spacing);}   // possibly equal times
            if ((prev)&&(rnd(3) == 0)) {prev->PutPulseChild(t); prev->_nkids++;}   // grandchild
            else ts->_roots.push_back(t);
            prev = t;
         }
         ConstSocketRef a, b;
         if (CreateConnectedSocketPair(a, b).IsError()) {printf("%d ORACLE FAIL could not create a socket pair\n", k); return false;}
         peers.push_back(b);
         if (srv.AddNewSession(ref, a).IsError()) {printf("%d ORACLE FAIL AddNewSession failed\n", k); return false;}
         sessions.push_back(ref);
      }
      // some timers act on others from inside Pulse()
      for (size_t i=0; i+1<all.size(); i++) if (rnd(4) == 0) {all[i]->_victim = all[(i+1+rnd((uint32)all.size()-1))%all.size()]; all[i]->_victimAction = rnd(3);}

      const uint64 deadline = GetRunTime64() + 10000000;   // 10 s
      while(GetRunTime64() < deadline)
      {
         uint64 next = MUSCLE_TIME_NEVER;
         if (srv.ServerProcessLoop(GetRunTime64()+5000, &next).IsError()) {fail("ServerProcessLoop returned an error"); break;}
         // wake-up time: never later than the earliest pending request of an attached, asked timer
         uint64 minPending = MUSCLE_TIME_NEVER; bool pending = false;
         for (size_t i=0; i<g_timers.size(); i++)
         {
            const Timer * t = g_timers[i];
            if (t->Pending() != MUSCLE_TIME_NEVER) {pending = true; if ((t->_asked)&&(t->GetPulseParent())&&(t->Pending() < minPending)) minPending = t->Pending();}
         }
         for (size_t s=0; s<sessions.size(); s++) if (static_cast<TSession *>(sessions[s]())->_own.Pending() != MUSCLE_TIME_NEVER) pending = true;
         if (next > minPending) fail("the next-pulse time reported by ServerProcessLoop is later than the earliest pending request");
         if (!pending) break;
      }
      for (size_t i=0; i<g_timers.size(); i++) {total += g_timers[i]->_fired; if (g_timers[i]->Pending() != MUSCLE_TIME_NEVER) fail("a requested time was never served (timer silently never fired)");}
      for (size_t s=0; s<sessions.size(); s++) {TSession * ts = static_cast<TSession *>(sessions[s]()); total += ts->_own._fired; if (ts->_own.Pending() != MUSCLE_TIME_NEVER) fail("a session's own requested time was never served");}
      expected = total;
      // tear-down (sessions first, then the timers they do not own)
      for (size_t s=0; s<sessions.size(); s++) sessions[s]()->EndSession();
      (void) srv.ServerProcessLoop(0);
      sessions.clear(); peers.clear();
      srv.Cleanup();
      while(!g_timers.empty()) delete g_timers[0];
   }
   if (g_fail.empty()) printf("%d ok\n", k);
   else for (size_t i=0; i<g_fail.size(); i++) {bool dup = false; for (size_t j=0; j<i; j++) if (g_fail[j] == g_fail[i]) dup = true; if (!dup) printf("%d ORACLE FAIL %s\n", k, g_fail[i].c_str());}
   if (getenv("PULSE_SRV_DEBUG")) fprintf(stderr, "case %d: %d Pulse() calls served\n", k, expected);
   fflush(stdout);
   return true;
}

int main()
{
   CompleteSetupSystem css;
   std::string line; int k = 0;
   while(std::getline(std::cin, line))
   {
      const size_t p = line.find('|');
      if (p != std::string::npos) run_case(k, line.substr(p+1));
      k++;
   }
   return 0;
}
