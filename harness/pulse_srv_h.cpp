// C20 -- runtime residue: the scheduler as ReflectServer drives it (reflector/ReflectServer.cpp: GetPulseTimeAux for
// every serviced root before the wait, PulseAux after it), against the REAL clock.
//
// ROSTER (kept in step with checks/c20.py PULSE_NODE_KINDS): every kind of PulseNode the ReflectServer services gets
// instrumented instances with scripted GetPulseTime()/Pulse():
//    session        AbstractReflectSession subclass (the session itself is a timer)
//    gateway        the session's AbstractMessageIOGateway (MessageIOGateway subclass)
//    factory        ReflectSessionFactory registered with PutAcceptFactory()
//    server         the ReflectServer object itself (subclass overriding GetPulseTime/Pulse)
//    outpolicy      AbstractSessionIOPolicy installed with SetOutputPolicy(), shared by several sessions, holders idle or busy
//    inpolicy       AbstractSessionIOPolicy installed with SetInputPolicy(),  shared by several sessions, holders idle or busy
//    child          plain PulseNode children/grandchildren (PutPulseChild) of each of the above
// Timers are one-shot, repeating, in the past, equal, or "never"; some are pulled earlier via InvalidatePulseTime(),
// detached+re-attached or destroyed from inside another timer's Pulse().
//
// ORACLE (the property's own statement, on what the callbacks observe; only lower bounds on real time and
// clock-independent facts are used, so a loaded machine cannot make it fail):
//    never early        Pulse() is never entered before the time the node asked for (callback time and real clock)
//    the time asked for args.GetScheduledTime() is what the node's last GetPulseTime() returned
//    asked              after every server cycle every serviced node with a pending request has been asked for its time
//                       (unless it fired / was withdrawn in that very cycle) -- clock-independent
//    wake-up time       the next-pulse time ServerProcessLoop() reports is not later than any such node's request
//    nothing is lost    every requested finite time is eventually served (bounded loop)
// One line `k ok kinds=<roster counts> served=<kinds whose Pulse() ran>` per case, or `k ORACLE FAIL <kind>: <why>`.
#include <stdio.h>
#include <stdlib.h>
#include <string>
#include <vector>
#include <iostream>

#include "reflector/ReflectServer.h"
#include "reflector/AbstractReflectSession.h"
#include "reflector/AbstractSessionIOPolicy.h"
#include "iogateway/MessageIOGateway.h"
#include "system/SetupSystem.h"
#include "syslog/SysLog.h"
#include "util/NetworkUtilityFunctions.h"
#include "util/PulseNode.h"

using namespace muscle;

static std::vector<std::string> g_fail;
static void fail(const std::string & kind, const std::string & s) {if (g_fail.size() < 20) g_fail.push_back(kind + ": " + s);}
static uint32 g_rng = 1;
static uint32 rnd(uint32 n) {g_rng = g_rng*1664525u + 1013904223u; return (g_rng>>8)%n;}

enum {K_SESSION=0, K_GATEWAY, K_FACTORY, K_SERVER, K_OUTPOLICY, K_INPOLICY, K_CHILD, NUM_KINDS};
static const char * g_kindNames[NUM_KINDS] = {"session", "gateway", "factory", "server", "outpolicy", "inpolicy", "child"};

// the scripted timer behind every instrumented node
struct Core;
extern bool g_servedKinds[16];
struct Core
{
   Core(int kind) : _kind(kind), _next(0), _asked(false), _lastReturned(MUSCLE_TIME_NEVER), _fired(0), _period(0), _repeats(0),
                    _serviced(true), _touched(false), _exactPrev(true) {}
   const char * Kind() const {return g_kindNames[_kind];}
   uint64 Pending() const {return (_next < _times.size()) ? _times[_next] : MUSCLE_TIME_NEVER;}

   uint64 OnGet(uint64 prevArg)
   {
      if ((_exactPrev)&&(_asked)&&(prevArg != _lastReturned)) fail(Kind(), "GetPulseTime received a previous value that is not what the node returned last");
      _asked = true; _lastReturned = Pending();
      return _lastReturned;
   }
   // returns true iff this timer was due and has been served
   bool OnPulse(uint64 sched, uint64 cb)
   {
      const uint64 real = GetRunTime64();
      if (_next >= _times.size()) {if (_exactPrev) fail(Kind(), "Pulse called on a node that asked for never"); return false;}
      if ((!_exactPrev)&&(cb < _times[_next])) return false;   // composite node pulsed for its base class's sake
      if (!_asked) fail(Kind(), "Pulse called although the node has not been asked since it fired / was invalidated");
      if ((_exactPrev)&&(sched != _times[_next])) fail(Kind(), "Pulse called with a scheduled time the node did not ask for");
      if (sched > _times[_next]) fail(Kind(), "Pulse called with a scheduled time later than the one asked for");
      if (cb < _times[_next]) fail(Kind(), "Pulse called before the requested time (callback time)");
      if (real < _times[_next]) fail(Kind(), "Pulse called before the requested time (real clock)");
      _fired++; _next++; _asked = false; _touched = true; g_servedKinds[_kind] = true;
      if ((_repeats > 0)&&(_next >= _times.size())) {_repeats--; _times.push_back(sched+_period);}
      return true;
   }

   int _kind; std::vector<uint64> _times; size_t _next; bool _asked; uint64 _lastReturned; int _fired;
   uint64 _period; int _repeats;
   bool _serviced;   // attached below something the server services
   bool _touched;    // fired or withdrawn during the current server cycle
   bool _exactPrev;  // false for nodes whose GetPulseTime is min(base class, ours)
};
bool g_servedKinds[16];
static std::vector<Core *> g_cores;
static void reg(Core * c) {g_cores.push_back(c);}
static void unreg(Core * c) {for (size_t i=0; i<g_cores.size(); i++) if (g_cores[i] == c) {g_cores.erase(g_cores.begin()+i); break;}}

class Timer;
static std::vector<Timer *> g_timers;

// child: a plain PulseNode hung below any serviced node
class Timer : public PulseNode
{
public:
   Timer() : _c(K_CHILD), _victim(NULL), _victimAction(0), _nkids(0) {reg(&_c); g_timers.push_back(this);}
   virtual ~Timer() {unreg(&_c); for (size_t i=0; i<g_timers.size(); i++) if (g_timers[i] == this) {g_timers.erase(g_timers.begin()+i); break;}}
   virtual uint64 GetPulseTime(const PulseArgs & args) {return _c.OnGet(args.GetScheduledTime());}
   virtual void Pulse(const PulseArgs & args)
   {
      if (!_c.OnPulse(args.GetScheduledTime(), args.GetCallbackTime())) return;
      if (_victim)
      {
         Timer * v = _victim; _victim = NULL;
         bool alive = false; for (size_t i=0; i<g_timers.size(); i++) if (g_timers[i] == v) alive = true;
         if (alive)
         {
            if (_victimAction == 0) {v->_c._times.insert(v->_c._times.begin()+v->_c._next, GetRunTime64()+2000); v->_c._asked = false; v->_c._touched = true; v->InvalidatePulseTime();}
            else if (_victimAction == 1) {if (v->GetPulseParent()) {PulseNode * p = v->GetPulseParent(); p->RemovePulseChild(v); v->_c._asked = false; v->_c._touched = true; p->PutPulseChild(v);}}
            else if ((v != this)&&(v->_nkids == 0)) delete v;   // (a childless node cannot have a PulseAux frame below which we run)
         }
      }
   }
   Core _c; Timer * _victim; int _victimAction; int _nkids;
};

class TGateway : public MessageIOGateway
{
public:
   TGateway() : _c(K_GATEWAY) {_c._exactPrev = false; reg(&_c);}
   virtual ~TGateway() {unreg(&_c);}
   virtual uint64 GetPulseTime(const PulseArgs & args) {return muscleMin(MessageIOGateway::GetPulseTime(args), _c.OnGet(args.GetScheduledTime()));}
   virtual void Pulse(const PulseArgs & args) {MessageIOGateway::Pulse(args); (void) _c.OnPulse(args.GetScheduledTime(), args.GetCallbackTime());}
   Core _c;
};

class TSession : public AbstractReflectSession
{
public:
   TSession() : _c(K_SESSION), _pretendOutput(false), _readyForInput(true), _gw(NULL) {_c._exactPrev = false; reg(&_c);}
   virtual ~TSession() {unreg(&_c);}
   virtual void MessageReceivedFromGateway(const MessageRef &, void *) {}
   virtual AbstractMessageIOGatewayRef CreateGateway() {_gw = new TGateway; _gw->_c._times = _gwTimes; return AbstractMessageIOGatewayRef(_gw);}
   virtual bool HasBytesToOutput() const {return _pretendOutput || AbstractReflectSession::HasBytesToOutput();}
   virtual bool IsReadyForInput() const {return _readyForInput && AbstractReflectSession::IsReadyForInput();}
   virtual status_t AttachedToServer()
   {
      MRETURN_ON_ERROR(AbstractReflectSession::AttachedToServer());
      for (size_t i=0; i<_kids.size(); i++) PutPulseChild(_kids[i]);
      return B_NO_ERROR;
   }
   virtual void AboutToDetachFromServer() {ClearPulseChildren(); AbstractReflectSession::AboutToDetachFromServer();}
   virtual uint64 GetPulseTime(const PulseArgs & args) {return muscleMin(AbstractReflectSession::GetPulseTime(args), _c.OnGet(args.GetScheduledTime()));}
   virtual void Pulse(const PulseArgs & args) {AbstractReflectSession::Pulse(args); (void) _c.OnPulse(args.GetScheduledTime(), args.GetCallbackTime());}
   Core _c; bool _pretendOutput, _readyForInput; std::vector<Timer *> _kids; TGateway * _gw; std::vector<uint64> _gwTimes;
};

class TFactory : public ReflectSessionFactory
{
public:
   TFactory() : _c(K_FACTORY) {reg(&_c);}
   virtual ~TFactory() {unreg(&_c);}
   virtual AbstractReflectSessionRef CreateSession(const String &, const IPAddressAndPort &) {return AbstractReflectSessionRef();}
   virtual uint64 GetPulseTime(const PulseArgs & args) {return _c.OnGet(args.GetScheduledTime());}
   virtual void Pulse(const PulseArgs & args) {(void) _c.OnPulse(args.GetScheduledTime(), args.GetCallbackTime());}
   Core _c;
};

class TPolicy : public AbstractSessionIOPolicy
{
public:
   TPolicy(bool input) : _c(input ? K_INPOLICY : K_OUTPOLICY) {reg(&_c);}
   virtual ~TPolicy() {unreg(&_c);}
   virtual void PolicyHolderAdded(const PolicyHolder &)   {}
   virtual void PolicyHolderRemoved(const PolicyHolder &) {}
   virtual void BeginIO(uint64) {}
   virtual bool OkayToTransfer(const PolicyHolder &) {return true;}
   virtual uint32 GetMaxTransferChunkSize(const PolicyHolder &) {return MUSCLE_NO_LIMIT;}
   virtual void BytesTransferred(const PolicyHolder &, uint32) {}
   virtual void EndIO(uint64) {}
   virtual uint64 GetPulseTime(const PulseArgs & args) {return _c.OnGet(args.GetScheduledTime());}
   virtual void Pulse(const PulseArgs & args) {(void) _c.OnPulse(args.GetScheduledTime(), args.GetCallbackTime());}
   Core _c;
};

class TServer : public ReflectServer
{
public:
   TServer() : _c(K_SERVER) {reg(&_c);}
   virtual ~TServer() {unreg(&_c);}
   virtual uint64 GetPulseTime(const PulseArgs & args) {return _c.OnGet(args.GetScheduledTime());}
   virtual void Pulse(const PulseArgs & args) {(void) _c.OnPulse(args.GetScheduledTime(), args.GetCallbackTime());}
   Core _c;
};

static void script(Core & c, uint64 t0, long spacing, bool forceFinite)
{
   const int kind = forceFinite ? (2+rnd(4)) : rnd(6);
   if (kind == 0) {/* never */}
   else if (kind == 1) c._times.push_back(t0 > 50000 ? t0-50000 : 0);                                        // in the past: as soon as possible
   else if (kind == 2) {c._times.push_back(t0 + rnd(12)*spacing); c._period = spacing*(1+rnd(3)); c._repeats = 1+rnd(3);}
   else {c._times.push_back(t0 + rnd(12)*spacing); if (rnd(2)) c._times.push_back(c._times[0] + rnd(5)*spacing);}   // possibly equal times
}

static bool run_case(int k, const std::string & spec)
{
   // spec: seed;sessions;timersPerHost;spacingMicros
   int seed = 1, nsess = 2, per = 3; long spacing = 3000;
   sscanf(spec.c_str(), "%d;%d;%d;%ld", &seed, &nsess, &per, &spacing);
   g_rng = (uint32) seed; g_fail.clear(); for (int i=0; i<16; i++) g_servedKinds[i] = false;
   int kinds[NUM_KINDS]; for (int i=0; i<NUM_KINDS; i++) kinds[i] = 0;
   {
      // policies outlive the sessions that hold them
      TPolicy outPol(false), inPol(true), outPol2(false);
      TServer srv;
      std::vector<AbstractReflectSessionRef> sessions; std::vector<ConstSocketRef> peers;
      const uint64 t0 = GetRunTime64() + 20000;
      std::vector<Timer *> all;

      // children of a host: a few timers, some of them grandchildren
      struct H {static void kids(PulseNode * host, std::vector<Timer *> * deferTo, int per, uint64 t0, long spacing, std::vector<Timer *> & all)
      {
         Timer * prev = NULL;
         for (int i=0; i<per; i++)
         {
            Timer * t = new Timer; all.push_back(t); script(t->_c, t0, spacing, false);
            if ((prev)&&(rnd(3) == 0)) {prev->PutPulseChild(t); prev->_nkids++;}
            else if (deferTo) deferTo->push_back(t);
            else host->PutPulseChild(t);
            prev = t;
         }
      }};

      script(srv._c, t0, spacing, false);         H::kids(&srv, NULL, per, t0, spacing, all);
      script(outPol._c, t0, spacing, true);       H::kids(&outPol, NULL, 1+rnd(2), t0, spacing, all);
      script(inPol._c, t0, spacing, true);        H::kids(&inPol, NULL, 1+rnd(2), t0, spacing, all);
      script(outPol2._c, t0, spacing, true);

      TFactory * fac = new TFactory; ReflectSessionFactoryRef facRef(fac);
      script(fac->_c, t0, spacing, false);        H::kids(fac, NULL, 1+rnd(2), t0, spacing, all);
      if (srv.PutAcceptFactory(0, facRef, localhostIP).IsError()) {printf("%d ORACLE FAIL factory: PutAcceptFactory failed\n", k); return false;}

      // which holders of the shared policies are busy:  0 = all idle, 1 = some busy, 2 = all busy
      const int outMode = rnd(3), inMode = rnd(3);
      for (int s=0; s<nsess; s++)
      {
         TSession * ts = new TSession; AbstractReflectSessionRef ref(ts);
         script(ts->_c, t0, spacing, false);
         {Core g(K_GATEWAY); script(g, t0, spacing, false); ts->_gwTimes = g._times; unreg(&g);}
         H::kids(ts, &ts->_kids, per, t0, spacing, all);
         ts->_pretendOutput = (outMode == 2)||((outMode == 1)&&(s%2 == 0));
         ts->_readyForInput = (inMode == 2)||((inMode == 1)&&(s%2 == 0));
         ConstSocketRef a, b;
         if (CreateConnectedSocketPair(a, b).IsError()) {printf("%d ORACLE FAIL session: could not create a socket pair\n", k); return false;}
         peers.push_back(b);
         if (srv.AddNewSession(ref, a).IsError()) {printf("%d ORACLE FAIL session: AddNewSession failed\n", k); return false;}
         ts->SetOutputPolicy(DummyAbstractSessionIOPolicyRef((s == nsess-1)&&(nsess > 2) ? outPol2 : outPol));   // the last session of a big case has a policy of its own
         ts->SetInputPolicy(DummyAbstractSessionIOPolicyRef(inPol));
         if (ts->_gw) H::kids(ts->_gw, NULL, 1, t0, spacing, all);
         sessions.push_back(ref);
      }
      if (nsess <= 2) outPol2._c._times.clear();   // not installed anywhere: must not be expected to fire
      // some timers act on others from inside Pulse()
      for (size_t i=0; i+1<all.size(); i++) if (rnd(4) == 0) {all[i]->_victim = all[(i+1+rnd((uint32)all.size()-1))%all.size()]; all[i]->_victimAction = rnd(3);}
      for (size_t i=0; i<g_cores.size(); i++) kinds[g_cores[i]->_kind]++;

      const uint64 deadline = GetRunTime64() + 10000000;   // 10 s
      while(GetRunTime64() < deadline)
      {
         for (size_t i=0; i<g_cores.size(); i++) g_cores[i]->_touched = false;
         uint64 next = MUSCLE_TIME_NEVER;
         if (srv.ServerProcessLoop(GetRunTime64()+3000, &next).IsError()) {fail("server", "ServerProcessLoop returned an error"); break;}
         bool pending = false;
         for (size_t i=0; i<g_cores.size(); i++)
         {
            const Core * c = g_cores[i];
            if (c->Pending() == MUSCLE_TIME_NEVER) continue;
            pending = true;
            if ((!c->_serviced)||(c->_touched)) continue;
            if (!c->_asked) fail(c->Kind(), "a serviced node with a pending request was not asked for its time by the server cycle");
            else if (next > c->Pending()) fail(c->Kind(), "the next-pulse time reported by ServerProcessLoop is later than a pending request");
         }
         if ((!pending)||(!g_fail.empty())) break;
      }
      for (size_t i=0; i<g_cores.size(); i++) if ((g_cores[i]->_serviced)&&(g_cores[i]->Pending() != MUSCLE_TIME_NEVER)&&(g_fail.empty()))
         fail(g_cores[i]->Kind(), "a requested time was never served (timer silently never fired)");

      // tear-down
      for (size_t s=0; s<sessions.size(); s++) {sessions[s]()->SetOutputPolicy(AbstractSessionIOPolicyRef()); sessions[s]()->SetInputPolicy(AbstractSessionIOPolicyRef()); sessions[s]()->EndSession();}
      (void) srv.ServerProcessLoop(0);
      (void) srv.RemoveAcceptFactory(0);
      sessions.clear(); peers.clear(); facRef.Reset();
      srv.Cleanup();
      while(!g_timers.empty()) delete g_timers[0];
   }
   if (g_fail.empty())
   {
      printf("%d ok kinds=", k);
      for (int i=0; i<NUM_KINDS; i++) printf("%s%s:%d", i?",":"", g_kindNames[i], kinds[i]);
      printf(" served=");
      {bool first = true; for (int i=0; i<NUM_KINDS; i++) if (g_servedKinds[i]) {printf("%s%s", first?"":",", g_kindNames[i]); first = false;}}
      printf("\n");
   }
   else for (size_t i=0; i<g_fail.size(); i++) {bool dup = false; for (size_t j=0; j<i; j++) if (g_fail[j] == g_fail[i]) dup = true; if (!dup) printf("%d ORACLE FAIL %s\n", k, g_fail[i].c_str());}
   fflush(stdout);
   return true;
}

int main()
{
   CompleteSetupSystem css;
   SetConsoleLogLevel(MUSCLE_LOG_CRITICALERROR);
   std::string line; int k = 0;
   while(std::getline(std::cin, line))
   {
      const size_t p = line.find('|');
      if (p != std::string::npos) run_case(k, line.substr(p+1));
      k++;
   }
   return 0;
}
