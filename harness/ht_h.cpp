// C09 harness: runs operation scripts against muscle::Hashtable / OrderedKeysHashtable /
// OrderedValuesHashtable <int,int> (default or colliding hash functor) with several live
// HashtableIterators, printing after every operation the result, every table's iteration order
// (read through the internal ITER_NEXT links, cross-checked against the ITER_PREV links), _numItems,
// _tableSize, auto-sort flag, the registered-iterator list and every iterator's owner / cookie /
// flags / scratch pair -- the same canonical text as the extracted Coq model (ocaml/ht_driver.ml).
//
// Independently of the model it evaluates the property's own statement (ORACLE lines):
//   * an ideal ordered map (std::vector of pairs per table) is updated by the textbook meaning of
//     every operation and compared with what the public API returns and iterates (both directions);
//   * iterator safety: after an advance an iterator shows a pair that is in its table; a mutation
//     never changes what an iterator shows except to a pair that the mutation removed;
//   * traversal: an iterator created at one end and advanced to the other end, while the mutations
//     in between did not change the relative order of surviving entries, has shown every entry that
//     was present throughout exactly once and no entry twice.
// Header of a case:  <P|K|V><0|1>,<ntables>,<niters>|ops   (1 = colliding hash functor)
//                    <p|k|v><0|1>,...|ops   = the same with an owning key and value type (struct Own: a move empties its source)
//                    B<P|K|V><0|1>,...|ops  = big-population case: printed as "k big", oracle only.
//                    S<0|1|2>,<size>|ops    = storage case (Hashtable<int,int> with hash = key / key%3 / key*2654435761):
//                                             after every op the whole slot array is printed: hash, key, value, BUCKET_PREV,
//                                             BUCKET_NEXT, MAP_TO, MAPPED_FROM of every slot, _freeHeadIdx, _numItems, index width --
//                                             compared with the extracted storage-layer model (coq/theories/Cont/HtStore.v).
#include <stdio.h>
#include <stdlib.h>
#include <string.h>
#include <string>
#include <vector>
#include <map>
#include <set>
#include <algorithm>
#include <sstream>
#include <iostream>
#include <atomic>

#define private public
#define protected public
#include "util/Hashtable.h"
#undef private
#undef protected

using namespace muscle;


// An owning key / value type whose move really empties its source: the integer lives on the heap, a move
// steals the allocation and leaves the source reading as a poison value.  Every comparison goes through
// the conversion to int.  (Header letters p/k/v and s0..s2 select the tables instantiated with it.)
struct Own
{
   int * p; bool gone;
   static const int POISON = -987654321;
   Own() : p(NULL), gone(false) {}
   Own(int v) : p(new int(v)), gone(false) {}
   Own(const Own & o) : p(o.p ? new int(*o.p) : NULL), gone(o.gone) {}
   Own(Own && o) : p(o.p), gone(o.gone) {o.p = NULL; o.gone = true;}
   ~Own() {delete p;}
   Own & operator=(const Own & o) {if (this != &o) {int * np = o.p ? new int(*o.p) : NULL; delete p; p = np; gone = o.gone;} return *this;}
   Own & operator=(Own && o) {if (this != &o) {delete p; p = o.p; gone = o.gone; o.p = NULL; o.gone = true;} return *this;}
   operator int() const {return gone ? POISON : (p ? *p : 0);}
};

struct CollidingHF   // three hash codes only: long bucket chains, entries of different keys share everything
{
   uint32 operator()(const int & k) const {return ((uint32)k)%3;}
   bool AreKeysEqual(const int & a, const int & b) const {return a==b;}
   uint32 operator()(const Own & k) const {return ((uint32)(int)k)%3;}
   bool AreKeysEqual(const Own & a, const Own & b) const {return ((int)a)==((int)b);}
};
typedef PODHashFunctor<int> NormalHF;
struct NormalOwnHF
{
   uint32 operator()(const Own & k) const {const int i = k; return PODHashFunctor<int>()(i);}
   bool AreKeysEqual(const Own & a, const Own & b) const {return ((int)a)==((int)b);}
};

static std::vector<std::string> split(const std::string & s, char c)
{
   std::vector<std::string> r; std::string cur;
   for (size_t i=0; i<s.size(); i++) {if (s[i]==c) {r.push_back(cur); cur.clear();} else cur += s[i];}
   r.push_back(cur);
   return r;
}

typedef std::pair<int,int> KV;
typedef std::vector<KV> Ideal;

// ---- class-specific pieces (the plain Hashtable has no auto-sort, Reposition, ...)
template<class K, class V, class HF> static bool GetAuto(const Hashtable<K,V,HF> &) {return true;}
template<class K, class V, class HF> static void SetAuto(Hashtable<K,V,HF> &, bool, bool) {}
template<class K, class V, class HF> static int  Repos(Hashtable<K,V,HF> & t, int k) {return t.ContainsKey(K(k)) ? 0 : 1;}
template<class K, class V, class HF> static bool GetAuto(const OrderedKeysHashtable<K,V,CompareFunctor<K>,HF> & t) {return t.GetAutoSortEnabled();}
template<class K, class V, class HF> static void SetAuto(OrderedKeysHashtable<K,V,CompareFunctor<K>,HF> & t, bool e, bool n) {t.SetAutoSortEnabled(e, n);}
template<class K, class V, class HF> static int  Repos(OrderedKeysHashtable<K,V,CompareFunctor<K>,HF> & t, int k) {return t.Reposition(K(k)).IsOK() ? 0 : 1;}
template<class K, class V, class HF> static bool GetAuto(const OrderedValuesHashtable<K,V,CompareFunctor<V>,HF> & t) {return t.GetAutoSortEnabled();}
template<class K, class V, class HF> static void SetAuto(OrderedValuesHashtable<K,V,CompareFunctor<V>,HF> & t, bool e, bool n) {t.SetAutoSortEnabled(e, n);}
template<class K, class V, class HF> static int  Repos(OrderedValuesHashtable<K,V,CompareFunctor<V>,HF> & t, int k) {return t.Reposition(K(k)).IsOK() ? 0 : 1;}

static int st(status_t s)
{
   if (s.IsOK()) return 0;
   if (s == B_DATA_NOT_FOUND) return 1;
   if (s == B_BAD_ARGUMENT) return 2;
   return 3;
}

static int ideal_find(const Ideal & v, int k) {for (size_t i=0; i<v.size(); i++) if (v[i].first == k) return (int)i; return -1;}

template<class T, class HF, class KT, class VT> struct Runner
{
   typedef HashtableIterator<KT,VT,HF> IterT;
   typedef HashtableBase<KT,VT,HF> BaseT;
   typedef typename BaseT::HashtableEntryBase EntryT;

   char var; bool big; int NT, NI; int caseNo;
   std::vector<T*> tab;
   std::vector<IterT*> it;
   std::ostringstream o;      // canonical output of the case
   std::ostringstream orc;    // oracle failures
   bool failed;

   // ---------------- oracle state
   std::vector<Ideal> ideal;                  // ideal ordered map per table
   std::vector<std::map<int,long> > birth;    // key -> sequence number of the insertion that created the live entry
   std::vector<bool> sortedExp;               // ordered classes: the table must currently be sorted
   std::vector<bool> autoOn;                  // ideal auto-sort flag (stays with the object)
   long seq;                                  // operation counter
   struct Trav
   {
      bool active;        // a traversal check is still possible
      int owner;          // table index the iterator walks (follows SwapContents); -1 = detached
      bool bw;
      long startSeq;
      bool fromEnd;       // created by GetIterator() (not GetIteratorAt)
      bool mpNoop;        // a MoveToPosition/PutAtPosition that left the order unchanged happened meanwhile
      std::vector<std::pair<int,long> > visited;
      bool hasShown; int shownKey; int shownVal;
   };
   std::vector<Trav> trav;

   Runner(char v, bool b, int nt, int ni, int k) : var(v), big(b), NT(nt), NI(ni), caseNo(k), failed(false), seq(0)
   {
      for (int i=0; i<NT; i++) tab.push_back(new T);
      it.assign(NI, (IterT*)NULL);
      ideal.resize(NT); birth.resize(NT); sortedExp.assign(NT, true); autoOn.assign(NT, true);
      Trav z; z.active=false; z.owner=-1; z.bw=false; z.startSeq=0; z.fromEnd=false; z.mpNoop=false; z.hasShown=false; z.shownKey=0; z.shownVal=0;
      trav.assign(NI, z);
   }
   ~Runner()
   {
      // destroy the tables first: live iterators must survive that (they are detached by Clear(true))
      for (int i=0; i<NT; i++) delete tab[i];
      for (int i=0; i<NI; i++) if (it[i]) {(void) it[i]->HasData(); delete it[i];}
   }

   void fail(const std::string & why, size_t n, const std::string & opname)
   {
      if (!failed) orc << caseNo << " ORACLE FAIL " << why << " after op#" << n << " " << opname << " (class " << var << ")\n";
      failed = true;
   }

   // ---------------- canonical state text
   void show_pairs(const Ideal & a)
   {
      const size_t n = a.size();
      if (n <= 24) {for (size_t i=0; i<n; i++) {if (i) o << ","; o << a[i].first << "=" << a[i].second;}}
      else
      {
         long long sum = 0;
         for (size_t i=0; i<n; i++) sum = (sum + (long long)(i+1) * ((((long long)a[i].first*31 + a[i].second) % 1000003) + 1000003)) % 1000000007LL;
         for (size_t i=0; i<6; i++) {if (i) o << ","; o << a[i].first << "=" << a[i].second;}
         o << ",..#" << sum << "..";
         for (size_t i=n-6; i<n; i++) {o << "," << a[i].first << "=" << a[i].second;}
      }
   }

   Ideal walk_links(const T & t, bool backwards) const
   {
      Ideal r;
      const EntryT * e = t.IndexToEntryChecked(backwards ? t._iterTailIdx : t._iterHeadIdx);
      uint32 guard = t._numItems;
      while((e)&&(guard-- > 0))
      {
         r.push_back(KV(e->_key, e->_value));
         e = backwards ? t.GetEntryIterPrevChecked(e) : t.GetEntryIterNextChecked(e);
      }
      return r;
   }

   int slot_of_imp(const typename BaseT::IteratorImpType * p) const
   {
      for (int i=0; i<NI; i++) if ((it[i])&&(&it[i]->_imp == p)) return i;
      return -1;
   }
   int table_of(const BaseT * p) const
   {
      for (int i=0; i<NT; i++) if (static_cast<const BaseT *>(tab[i]) == p) return i;
      return -1;
   }

   void show_state()
   {
      for (int t=0; t<NT; t++)
      {
         const T & x = *tab[t];
         Ideal f = walk_links(x, false), b = walk_links(x, true);
         std::reverse(b.begin(), b.end());
         o << " T" << t << ":" << x._numItems << "/" << x._tableSize << "/" << (GetAuto(x)?1:0) << "/[";
         show_pairs(f);
         o << "]/b" << ((f == b) ? 1 : 0) << "/{";
         bool first = true; int guard = NI+2;
         for (const typename BaseT::IteratorImpType * p = x._iterList; (p)&&(guard-- > 0); p = p->_nextIter)
         {
            if (!first) o << ","; first = false;
            o << slot_of_imp(p);
         }
         o << "}";
      }
      for (int i=0; i<NI; i++)
      {
         o << " I" << i << ":";
         if (it[i] == NULL) {o << "-"; continue;}
         const typename BaseT::IteratorImpType & m = it[i]->_imp;
         // an iterator that never registered keeps a plain pointer to its table (never followed once the cookie is NULL)
         if (m._flags & HTIT_FLAG_NOREGISTER) o << "u"; else if (m._owner) o << table_of(m._owner); else o << "x";
         o << "/";
         if (m._iterCookie) {if (m._owner) o << static_cast<const EntryT *>(m._iterCookie)->_key; else o << "?";} else o << "_";
         o << "/" << ((m._flags & HTIT_FLAG_BACKWARDS) ? "b" : "f") << "/" << ((m._flags & HTIT_FLAG_NOREGISTER) ? "n" : "r") << "/";
         if (m._scratchKeyAndValue.IsObjectConstructed()) o << m._scratchKeyAndValue.GetObjectUnchecked()._key << "=" << m._scratchKeyAndValue.GetObjectUnchecked()._value;
                                                     else o << "_";
      }
   }

   // ---------------- oracle helpers
   Ideal read_public(T & t, bool backwards)
   {
      Ideal r;
      for (IterT i(t, backwards ? HTIT_FLAG_BACKWARDS : 0); i.HasData(); i++) r.push_back(KV(i.GetKey(), i.GetValue()));
      return r;
   }

   static bool key_less(const KV & a, const KV & b) {return a.first < b.first;}

   // compares table t with its ideal map; for the ordered classes the ideal order is re-read from the
   // table afterwards (its order is fixed by "sorted" + content only up to ties / manual moves)
   void check_table(int t, size_t n, const std::string & opname)
   {
      T & x = *tab[t];
      Ideal f = read_public(x, false);
      Ideal b = read_public(x, true);
      std::reverse(b.begin(), b.end());
      if (f != b) {fail("forward and backward iteration disagree", n, opname); return;}
      if (x.GetNumItems() != ideal[t].size()) {fail("GetNumItems differs from the ideal map", n, opname); return;}
      if (var == 'P')
      {
         if (f != ideal[t]) {fail("table differs from the ideal ordered map", n, opname); return;}
      }
      else
      {
         Ideal a = f, c = ideal[t];
         std::sort(a.begin(), a.end()); std::sort(c.begin(), c.end());
         if (a != c) {fail("table content differs from the ideal map", n, opname); return;}
         if (sortedExp[t])
         {
            for (size_t i=1; i<f.size(); i++)
            {
               const bool bad = (var == 'K') ? (f[i-1].first > f[i].first) : (f[i-1].second > f[i].second);
               if (bad) {fail("auto-sorting table is not in sorted order", n, opname); return;}
            }
            if (var == 'K')
            {
               Ideal s = ideal[t]; std::stable_sort(s.begin(), s.end(), key_less);
               if (s != f) {fail("key-sorted table differs from the sorted ideal map", n, opname); return;}
            }
         }
         ideal[t] = f;
      }
      for (size_t i=0; i<f.size(); i++)
      {
         VT v(0);
         if ((!x.ContainsKey(KT(f[i].first)))||(x.GetValue(KT(f[i].first), v).IsError())||(v != f[i].second)) {fail("lookup of an iterated key fails", n, opname); return;}
         if ((f.size() <= 64)&&(x.IndexOfKey(KT(f[i].first)) != (int32)i)) {fail("IndexOfKey disagrees with the iteration order", n, opname); return;}
      }
   }

   // ---------------- ideal-map updates
   void id_put(int t, int k, int v)   // append / replace, then keep the class's own order
   {
      const int i = ideal_find(ideal[t], k);
      if (i >= 0) ideal[t][i].second = v;
      else {ideal[t].push_back(KV(k, v)); birth[t][k] = seq;}
      if ((var != 'P')&&(!autoOn[t])) sortedExp[t] = false;
   }
   void id_remove(int t, int k)
   {
      const int i = ideal_find(ideal[t], k);
      if (i >= 0) {ideal[t].erase(ideal[t].begin()+i); birth[t].erase(k);}
   }
   void id_move(int t, int k, size_t pos)   // entry with key k ends up at index min(pos, size-1)
   {
      const int i = ideal_find(ideal[t], k);
      if (i < 0) return;
      KV kv = ideal[t][i];
      ideal[t].erase(ideal[t].begin()+i);
      if (pos > ideal[t].size()) pos = ideal[t].size();
      ideal[t].insert(ideal[t].begin()+pos, kv);
      if (var != 'P') sortedExp[t] = false;
   }
   void id_move_rel(int t, int k, int k2, bool behind)
   {
      const int i = ideal_find(ideal[t], k);
      if ((i < 0)||(k == k2)||(ideal_find(ideal[t], k2) < 0)) return;
      KV kv = ideal[t][i];
      ideal[t].erase(ideal[t].begin()+i);
      const int j = ideal_find(ideal[t], k2);
      ideal[t].insert(ideal[t].begin()+j+(behind?1:0), kv);
      if (var != 'P') sortedExp[t] = false;
   }
   void id_clear(int t) {ideal[t].clear(); birth[t].clear(); sortedExp[t] = true;}

   // ---------------- iterator bookkeeping
   void detach_travs_of(int t) {for (int i=0; i<NI; i++) if (trav[i].owner == t) {trav[i].owner = -1; trav[i].active = false;}}

   void note_shown(int i)
   {
      Trav & tr = trav[i];
      tr.hasShown = (it[i])&&(it[i]->HasData());
      if (tr.hasShown) {tr.shownKey = it[i]->GetKey(); tr.shownVal = it[i]->GetValue();}
   }

   // after creation / advance of iterator i: it must show a pair of its table (or nothing)
   void check_landing(int i, size_t n, const std::string & opname, bool isCreate)
   {
      Trav & tr = trav[i];
      note_shown(i);
      if (!tr.hasShown)
      {
         // end of the traversal: everything present throughout must have been shown
         if ((tr.active)&&(tr.owner >= 0)&&(tr.fromEnd))
         {
            const int t = tr.owner;
            std::set<std::pair<int,long> > seen(tr.visited.begin(), tr.visited.end());
            for (size_t j=0; j<ideal[t].size(); j++)
            {
               const int k = ideal[t][j].first;
               const long b = birth[t][k];
               if ((b < tr.startSeq)&&(seen.count(std::make_pair(k, b)) == 0))
               {
                  fail(std::string("iterator skipped an entry that was present throughout an unreordered traversal") + (tr.mpNoop ? " [mp-noop]" : ""), n, opname);
                  break;
               }
            }
         }
         tr.active = false;
         return;
      }
      if (tr.owner < 0) {if (!isCreate) fail("detached iterator yields data after an advance", n, opname); return;}
      const int t = tr.owner;
      const int j = ideal_find(ideal[t], tr.shownKey);
      if (j < 0) {fail("iterator yields a key that is not in its table after an advance", n, opname); return;}
      if (ideal[t][j].second != tr.shownVal) {fail("iterator yields a stale value after an advance", n, opname); return;}
      if (tr.active)
      {
         const std::pair<int,long> id(tr.shownKey, birth[t][tr.shownKey]);
         if (std::find(tr.visited.begin(), tr.visited.end(), id) != tr.visited.end())
            fail(std::string("iterator visits an entry twice in an unreordered traversal") + (tr.mpNoop ? " [mp-noop]" : ""), n, opname);
         tr.visited.push_back(id);
      }
   }

   // after a table mutation: an iterator may not change what it shows, except to a pair the mutation removed
   void check_after_mutation(const std::vector<Ideal> & before, size_t n, const std::string & opname)
   {
      for (int i=0; i<NI; i++)
      {
         if (it[i] == NULL) continue;
         Trav & tr = trav[i];
         const bool had = tr.hasShown; const int ok = tr.shownKey, ov = tr.shownVal;
         note_shown(i);
         if ((had)&&(tr.hasShown)&&(ok == tr.shownKey)&&(ov != tr.shownVal))
         {
            // same key, other value: only a value that some table holds (or held just before) for that key is acceptable
            bool now = false;
            for (int t=0; t<NT; t++) {const int j = ideal_find(ideal[t], tr.shownKey); if ((j >= 0)&&(ideal[t][j].second == tr.shownVal)) now = true;}
            for (int t=0; t<NT; t++) {const int j = ideal_find(before[t], tr.shownKey); if ((j >= 0)&&(before[t][j].second == tr.shownVal)) now = true;}   // eg Clear() re-saving the pair of the entry under the cookie
            if (!now) {fail("a mutation changed the value an iterator shows for its unchanged key to a value that no table holds or held", n, opname); return;}
         }
         if ((had == tr.hasShown)&&((!had)||(ok == tr.shownKey))) continue;
         if (!tr.hasShown) {fail("a mutation made an iterator lose its current pair", n, opname); return;}
         bool wasThere = false;
         for (int t=0; t<NT; t++) if (ideal_find(before[t], tr.shownKey) >= 0) wasThere = true;
         if (!wasThere) {fail("a mutation made an iterator show a pair that never was in a table", n, opname); return;}
         (void) ov;
      }
   }

   static bool order_changed(const Ideal & a, const std::map<int,long> & ba, const Ideal & b, const std::map<int,long> & bb)
   {
      // relative order of the entries (key, birth) common to a and b
      std::vector<int> ca, cb;
      for (size_t i=0; i<a.size(); i++) {std::map<int,long>::const_iterator q = bb.find(a[i].first); if ((q != bb.end())&&(q->second == ba.find(a[i].first)->second)) ca.push_back(a[i].first);}
      for (size_t i=0; i<b.size(); i++) {std::map<int,long>::const_iterator q = ba.find(b[i].first); if ((q != ba.end())&&(q->second == bb.find(b[i].first)->second)) cb.push_back(b[i].first);}
      return ca != cb;
   }

   void start_trav(int i, int t, bool bw, bool fromEnd)
   {
      Trav & tr = trav[i];
      tr.active = true; tr.owner = t; tr.bw = bw; tr.startSeq = seq; tr.fromEnd = fromEnd; tr.mpNoop = false; tr.visited.clear();
   }

   // ---------------- one operation
   void run_op(const std::string & opstr, size_t n, bool quiet)
   {
      std::vector<std::string> a = split(opstr, ':');
      const std::string & c = a[0];
      #define I(k) atoi(a[k].c_str())
      #define U(k) ((uint32)strtoul(a[k].c_str(), NULL, 10))
      #define KK(k) KT(I(k))
      #define VV(k) VT(I(k))
      seq++;
      std::ostringstream r;     // result text
      std::vector<Ideal> before;
      std::vector<std::map<int,long> > birthBefore;
      const bool isIterOp = (c=="in")||(c=="ia")||(c=="adv")||(c=="ret")||(c=="sbw")||(c=="del")||(c=="icp")||(c=="ish");
      if ((!isIterOp)&&(!quiet)) {before = ideal; birthBefore = birth;}
      int t = -1, u = -1;
      bool mpLike = false;

      if (c == "put") {t=I(1); VT prev(0); bool rep=false; const status_t ps = tab[t]->Put(KK(2), VV(3), prev, &rep); if (rep) r << "v" << prev; else r << "none"; id_put(t, I(2), I(3));
                       if (ps.IsError()) fail("Put reports an error on a table that must behave as an ideal map", n, c);}
      else if (c == "pia") {t=I(1); VT * p = tab[t]->PutIfNotAlreadyPresent(KK(2), VV(3)); r << (p ? "b1" : "b0"); if (ideal_find(ideal[t], I(2)) < 0) id_put(t, I(2), I(3));}
      else if (c == "gop") {t=I(1); VT * p = tab[t]->GetOrPut(KK(2), VV(3)); if (p) r << "v" << *p; else r << "none"; if (ideal_find(ideal[t], I(2)) < 0) id_put(t, I(2), I(3));}
      else if (c == "paf") {t=I(1); r << "s" << st(tab[t]->PutAtFront(KK(2), VV(3))); id_put(t, I(2), I(3)); id_move(t, I(2), 0);}
      else if (c == "pab") {t=I(1); r << "s" << st(tab[t]->PutAtBack(KK(2), VV(3))); id_put(t, I(2), I(3)); id_move(t, I(2), ideal[t].size());}
      else if (c == "pbf") {t=I(1); r << "s" << st(tab[t]->PutBefore(KK(2), KK(3), VV(4))); id_put(t, I(2), I(4)); id_move_rel(t, I(2), I(3), false);}
      else if (c == "pbh") {t=I(1); r << "s" << st(tab[t]->PutBehind(KK(2), KK(3), VV(4))); id_put(t, I(2), I(4)); id_move_rel(t, I(2), I(3), true);}
      else if (c == "pap") {t=I(1); r << "s" << st(tab[t]->PutAtPosition(KK(2), U(3), VV(4))); id_put(t, I(2), I(4)); id_move(t, I(2), U(3)); mpLike = true;}
      else if (c == "get") {t=I(1); VT v(0); if (tab[t]->GetValue(KK(2), v).IsOK()) r << "v" << v; else r << "none";
                            const int j = ideal_find(ideal[t], I(2)); const VT * p = tab[t]->Get(KK(2));
                            if ((j >= 0) != (p != NULL)) fail("Get disagrees with the ideal map", n, c); else if ((p)&&(*p != ideal[t][j].second)) fail("Get returns a wrong value", n, c);}
      else if (c == "has") {t=I(1); const bool b = tab[t]->ContainsKey(KK(2)); r << (b ? "b1" : "b0"); if (b != (ideal_find(ideal[t], I(2)) >= 0)) fail("ContainsKey disagrees with the ideal map", n, c);}
      else if (c == "iok") {t=I(1); const int32 x = tab[t]->IndexOfKey(KK(2)); r << "i" << x; if ((var == 'P')&&(x != ideal_find(ideal[t], I(2)))) fail("IndexOfKey disagrees with the ideal map", n, c);}
      else if (c == "kat") {t=I(1); KT k(0); if (tab[t]->GetKeyAt(U(2), k).IsOK()) r << "v" << k; else r << "none";
                            if (var == 'P') {const bool in = (U(2) < ideal[t].size()); const KT * p = tab[t]->GetKeyAt(U(2)); if ((in != (p != NULL))||((p)&&(*p != ideal[t][U(2)].first))) fail("GetKeyAt disagrees with the ideal map", n, c);}}
      else if (c == "vat") {t=I(1); VT v(0); if (tab[t]->GetValueAt(U(2), v).IsOK()) r << "v" << v; else r << "none";
                            if (var == 'P') {const bool in = (U(2) < ideal[t].size()); const VT * p = tab[t]->GetValueAt(U(2)); if ((in != (p != NULL))||((p)&&(*p != ideal[t][U(2)].second))) fail("GetValueAt disagrees with the ideal map", n, c);}}
      else if (c == "fk") {t=I(1); const KT * p = tab[t]->GetFirstKey(); if (p) r << "v" << *p; else r << "none";}
      else if (c == "lk") {t=I(1); const KT * p = tab[t]->GetLastKey(); if (p) r << "v" << *p; else r << "none";}
      else if (c == "kb") {t=I(1); const KT * p = tab[t]->GetKeyBefore(KK(2)); if (p) r << "v" << *p; else r << "none";}
      else if (c == "ka") {t=I(1); const KT * p = tab[t]->GetKeyAfter(KK(2)); if (p) r << "v" << *p; else r << "none";}
      else if (c == "iov") {t=I(1); r << "i" << tab[t]->IndexOfValue(VV(2), I(3) != 0);}
      else if (c == "num") {t=I(1); r << "n" << tab[t]->GetNumItems();}
      else if (c == "rm")  {t=I(1); VT v(0); if (tab[t]->Remove(KK(2), v).IsOK()) r << "v" << v; else r << "none"; id_remove(t, I(2));}
      else if (c == "rf")  {t=I(1); KT k(0); VT v(0); if (tab[t]->RemoveFirst(k, v).IsOK()) r << "kv" << k << "=" << v; else r << "none"; if (!ideal[t].empty()) id_remove(t, ideal[t][0].first);}
      else if (c == "rl")  {t=I(1); KT k(0); VT v(0); if (tab[t]->RemoveLast(k, v).IsOK()) r << "kv" << k << "=" << v; else r << "none"; if (!ideal[t].empty()) id_remove(t, ideal[t].back().first);}
      else if (c == "mf")  {t=I(1); r << "s" << st(tab[t]->MoveToFront(KK(2))); id_move(t, I(2), 0);}
      else if (c == "mb")  {t=I(1); r << "s" << st(tab[t]->MoveToBack(KK(2))); id_move(t, I(2), ideal[t].size());}
      else if (c == "mbf") {t=I(1); r << "s" << st(tab[t]->MoveToBefore(KK(2), KK(3))); id_move_rel(t, I(2), I(3), false);}
      else if (c == "mbh") {t=I(1); r << "s" << st(tab[t]->MoveToBehind(KK(2), KK(3))); id_move_rel(t, I(2), I(3), true);}
      else if (c == "mp")  {t=I(1); r << "s" << st(tab[t]->MoveToPosition(KK(2), U(3))); id_move(t, I(2), U(3)); mpLike = true;}
      else if (c == "gmf") {t=I(1); VT v(0); if (tab[t]->GetAndMoveToFront(KK(2), v).IsOK()) r << "v" << v; else r << "none"; id_move(t, I(2), 0);}
      else if (c == "gmb") {t=I(1); VT v(0); if (tab[t]->GetAndMoveToBack(KK(2), v).IsOK()) r << "v" << v; else r << "none"; id_move(t, I(2), ideal[t].size());}
      else if (c == "sk")  {t=I(1); tab[t]->SortByKey(); r << "-"; std::stable_sort(ideal[t].begin(), ideal[t].end(), key_less); if (var == 'K') sortedExp[t] = true; else if (var == 'V') sortedExp[t] = false;}
      else if (c == "sv")  {t=I(1); tab[t]->SortByValue(); r << "-"; std::stable_sort(ideal[t].begin(), ideal[t].end(), val_less); if (var == 'V') sortedExp[t] = true; else if (var == 'K') sortedExp[t] = false;}
      else if (c == "so")  {t=I(1); tab[t]->Sort(); r << "-"; if (var != 'P') sortedExp[t] = true;}
      else if (c == "rep") {t=I(1); r << "s" << Repos(*tab[t], I(2));}
      else if (c == "sas") {t=I(1); SetAuto(*tab[t], I(2) != 0, I(3) != 0); r << "-";
                            if (var != 'P') {const bool en = (I(2) != 0); if (en != autoOn[t]) {autoOn[t] = en; if ((en)&&(I(3) != 0)) sortedExp[t] = true;}}}
      else if (c == "es")  {t=I(1); r << "s" << st(tab[t]->EnsureSize(U(2), I(3) != 0));}
      else if (c == "stf") {t=I(1); r << "s" << st(tab[t]->ShrinkToFit(U(2)));}
      else if (c == "ecp") {t=I(1); r << "s" << st(tab[t]->EnsureCanPut(U(2)));}
      else if (c == "clr") {t=I(1); tab[t]->Clear(I(2) != 0); r << "-"; id_clear(t); detach_travs_of(t);}
      else if (c == "cpf")
      {
         t=I(1); u=I(2); r << "s" << st(tab[t]->CopyFrom(*tab[u], I(3) != 0));
         if (t != u)
         {
            if (I(3) != 0) {id_clear(t); detach_travs_of(t);}
            const Ideal src = ideal[u];
            for (size_t i=0; i<src.size(); i++) {const int j = ideal_find(ideal[t], src[i].first); if (j >= 0) ideal[t][j].second = src[i].second; else {ideal[t].push_back(src[i]); birth[t][src[i].first] = seq;}}
            if ((var != 'P')&&(!src.empty())) sortedExp[t] = true;
         }
      }
      else if (c == "cpc")
      {
         t=I(1); u=I(2); r << "-";
         if (t != u)
         {
            T * nt = new T(*tab[u]);
            delete tab[t]; tab[t] = nt;
            id_clear(t); detach_travs_of(t); autoOn[t] = true;
            ideal[t] = ideal[u]; for (size_t i=0; i<ideal[t].size(); i++) birth[t][ideal[t][i].first] = seq;
         }
      }
      else if (c == "swp")
      {
         t=I(1); u=I(2); tab[t]->SwapContents(*tab[u]); r << "-";
         if (t != u)
         {
            std::swap(ideal[t], ideal[u]); std::swap(birth[t], birth[u]);
            const bool s = sortedExp[t]; sortedExp[t] = sortedExp[u]; sortedExp[u] = s;
            for (int i=0; i<NI; i++) {if (trav[i].owner == t) trav[i].owner = u; else if (trav[i].owner == u) trav[i].owner = t;}
         }
      }
      else if (c == "eq")
      {
         t=I(1); u=I(2); const bool e = tab[t]->IsEqualTo(*tab[u], I(3) != 0); r << (e ? "b1" : "b0");
         bool want;
         if (I(3) != 0) want = (ideal[t] == ideal[u]);
         else {Ideal x = ideal[t], y = ideal[u]; std::sort(x.begin(), x.end()); std::sort(y.begin(), y.end()); want = (x == y);}
         if (e != want) fail("IsEqualTo disagrees with the ideal maps", n, c);
         if ((I(3) == 0)&&((*tab[t] == *tab[u]) != want)) fail("operator== disagrees with the ideal maps", n, c);
      }
      else if (c == "mtt")
      {
         t=I(1); u=I(2); r << "s" << st(tab[t]->MoveToTable(KK(3), *tab[u]));
         const int j = ideal_find(ideal[t], I(3));
         if ((j >= 0)&&(t != u)) {const int v = ideal[t][j].second; id_put(u, I(3), v); id_remove(t, I(3));}
      }
      else if (c == "ctt")
      {
         t=I(1); u=I(2); r << "s" << st(tab[t]->CopyToTable(KK(3), *tab[u]));
         const int j = ideal_find(ideal[t], I(3));
         if ((j >= 0)&&(t != u)) id_put(u, I(3), ideal[t][j].second);
      }
      else if (c == "rmt")
      {
         t=I(1); u=I(2); r << "n" << tab[t]->Remove(*tab[u]);
         if (t == u) {id_clear(t); detach_travs_of(t);}
         else {const Ideal src = ideal[u]; for (size_t i=0; i<src.size(); i++) id_remove(t, src[i].first);}
      }
      else if (c == "ixt")
      {
         t=I(1); u=I(2); r << "n" << tab[t]->Intersect(*tab[u]);
         if (t != u) {const Ideal mine = ideal[t]; for (size_t i=0; i<mine.size(); i++) if (ideal_find(ideal[u], mine[i].first) < 0) id_remove(t, mine[i].first);}
      }
      else if (c == "des") {t=I(1); delete tab[t]; tab[t] = new T; r << "-"; id_clear(t); detach_travs_of(t); autoOn[t] = true;}
      else if (c == "mvc")   // move construction: the new object takes the contents AND the iterators of tab[u]
      {
         t=I(1); u=I(2); r << "-";
         if (t != u)
         {
            T * nt = new T(std::move(*tab[u]));
            delete tab[t]; tab[t] = nt;
            id_clear(t); detach_travs_of(t); autoOn[t] = true;
            std::swap(ideal[t], ideal[u]); std::swap(birth[t], birth[u]);
            sortedExp[t] = sortedExp[u]; sortedExp[u] = true;
            for (int i=0; i<NI; i++) if (trav[i].owner == u) trav[i].owner = t;
         }
      }
      else if (c == "mva")   // move assignment (documented as SwapContents)
      {
         t=I(1); u=I(2); if (t != u) *tab[t] = std::move(*tab[u]); r << "-";
         if (t != u)
         {
            std::swap(ideal[t], ideal[u]); std::swap(birth[t], birth[u]);
            const bool sx = sortedExp[t]; sortedExp[t] = sortedExp[u]; sortedExp[u] = sx;
            for (int i=0; i<NI; i++) {if (trav[i].owner == t) trav[i].owner = u; else if (trav[i].owner == u) trav[i].owner = t;}
         }
      }
      else if (c == "pre") {t=I(1); delete tab[t]; tab[t] = new T(PreallocatedItemSlotsCount(U(2))); r << "-"; id_clear(t); detach_travs_of(t); autoOn[t] = true;}
      // ---- iterators
      else if ((c == "in")||(c == "ia"))
      {
         const int i = I(1); t = I(2);
         const bool bw = (c == "in") ? (I(3) != 0) : (I(4) != 0);
         delete it[i]; it[i] = NULL;
         if (c == "in") it[i] = new IterT(*tab[t], bw ? HTIT_FLAG_BACKWARDS : 0);
                   else it[i] = new IterT(*tab[t], KK(3), bw ? HTIT_FLAG_BACKWARDS : 0);
         start_trav(i, t, bw, c == "in");
         if ((c == "ia")&&(it[i]->HasData())&&(it[i]->GetKey() != I(3))) fail("GetIteratorAt does not start at the requested key", n, c);
         if ((c == "ia")&&(it[i]->HasData() != (ideal_find(ideal[t], I(3)) >= 0))) fail("GetIteratorAt disagrees with the ideal map", n, c);
         if ((c == "in")&&(it[i]->HasData() != (!ideal[t].empty()))) fail("GetIterator disagrees with the ideal map about emptiness", n, c);
         else if ((c == "in")&&(var == 'P')&&(it[i]->HasData())&&(it[i]->GetKey() != (bw ? ideal[t].back().first : ideal[t][0].first))) fail("GetIterator does not start at the end of the ideal map", n, c);
         check_landing(i, n, c, true);
         show_it(r, i);
      }
      else if ((c == "adv")||(c == "ret"))
      {
         const int i = I(1);
         if (it[i])
         {
            if (c == "adv") (*it[i])++; else {(*it[i])--; trav[i].active = false;}
            check_landing(i, n, c, false);
            show_it(r, i);
         }
         else r << "-";
      }
      else if (c == "sbw") {const int i = I(1); if (it[i]) {it[i]->SetBackwards(I(2) != 0); if ((I(2) != 0) != trav[i].bw) trav[i].active = false;} r << "-";}
      else if (c == "del") {const int i = I(1); delete it[i]; it[i] = NULL; trav[i].active = false; trav[i].owner = -1; trav[i].hasShown = false; r << "-";}
      else if (c == "icp")
      {
         const int i = I(1), j = I(2);
         if ((i != j)&&(it[j]))
         {
            if (it[i] == NULL) it[i] = new IterT;
            *it[i] = *it[j];
            trav[i] = trav[j];
            if ((it[i]->HasData() != it[j]->HasData())||((it[i]->HasData())&&(it[i]->GetKey() != it[j]->GetKey()))) fail("copied iterator shows something else than its source", n, c);
            note_shown(i);
            show_it(r, i);
         }
         else r << "-";
      }
      else if (c == "ish") {const int i = I(1); show_it(r, i);}
      else if (c == "fill")   // big cases only: fill:t:from:count:step:advEvery
      {
         t = I(1);
         int k = I(2);
         for (int j=0; j<I(3); j++, k += I(4))
         {
            if (tab[t]->Put(k, k*7+1).IsError()) {fail("Put failed", n, c); break;}
            id_put(t, k, k*7+1); seq++;
            if ((I(5) > 0)&&((j % I(5)) == 0)) for (int i=0; i<NI; i++) if ((it[i])&&(it[i]->HasData())) {(*it[i])++; check_landing(i, n, c, false);}
         }
      }
      else if (c == "drain")  // big cases only: drain:t:from:count:step:advEvery
      {
         t = I(1);
         int k = I(2);
         for (int j=0; j<I(3); j++, k += I(4))
         {
            const bool was = (birth[t].count(k) > 0);
            if (tab[t]->Remove(k).IsOK() != was) {fail("Remove disagrees with the ideal map", n, c); break;}
            if (was) {birth[t].erase(k);} seq++;
            if ((I(5) > 0)&&((j % I(5)) == 0)) for (int i=0; i<NI; i++) if ((it[i])&&(it[i]->HasData())) {(*it[i])++; check_landing_big(i, t, n, c);}
         }
         // rebuild the ideal vector once (erasing one by one would be quadratic)
         Ideal keep; for (size_t j=0; j<ideal[t].size(); j++) if (birth[t].count(ideal[t][j].first)) keep.push_back(ideal[t][j]);
         ideal[t] = keep;
      }
      else {fprintf(stderr, "bad op [%s]\n", opstr.c_str()); exit(2);}

      if (!isIterOp)
      {
         // the oracle: tables against their ideal maps, iterators against the safety rules
         if (!quiet)
         {
            for (int x=0; x<NT; x++) {check_table(x, n, c); if (failed) break;}
            if (!failed)
            {
               check_after_mutation(before, n, c);
               // did this operation change the relative order of surviving entries of a table?
               for (int x=0; x<NT; x++)
               {
                  bool ch = order_changed(before[x], birthBefore[x], ideal[x], birth[x]);
                  // content that moved to another table (swap) is compared with where it came from
                  if (((c == "swp")||(c == "mva"))&&(t != u)&&((x == t)||(x == u))) ch = order_changed(before[(x==t)?u:t], birthBefore[(x==t)?u:t], ideal[x], birth[x]);
                  if ((c == "mvc")&&(t != u)&&(x == t)) ch = order_changed(before[u], birthBefore[u], ideal[x], birth[x]);
                  // On the auto-sorting classes Put-with-position moves an existing entry twice (once to its sorted place when the
                  // value is replaced, once to the requested place): a repositioning operation even when the net order is unchanged.
                  if ((var != 'P')&&(x == t)&&((c == "paf")||(c == "pab")||(c == "pbf")||(c == "pbh")||(c == "pap"))) ch = true;
                  for (int i=0; i<NI; i++) if (trav[i].owner == x)
                  {
                     if (ch) trav[i].active = false;
                     else if ((mpLike)&&(x == t)) trav[i].mpNoop = true;
                  }
               }
            }
         }
         else
         {
            // big cases: no per-operation order analysis; a reordering operation ends the traversal checks
            static const char * ro[] = {"mf","mb","mbf","mbh","mp","gmf","gmb","paf","pab","pbf","pbh","pap","sk","sv","so","rep","sas","swp","cpf","put","gop","pia","mtt","ctt", NULL};
            bool isRo = false; for (int q=0; ro[q]; q++) if (c == ro[q]) isRo = ((var != 'P')||(q < 16));
            if (isRo) for (int i=0; i<NI; i++) trav[i].active = false;
            for (int x=0; x<NT; x++) {check_table(x, n, c); if (failed) break;}
            for (int i=0; i<NI; i++) if (it[i]) note_shown(i);
         }
      }
      if (!quiet) {o << r.str(); show_state(); o << ";";}
      #undef I
      #undef U
   }

   // cheap landing check for the middle of a bulk removal (the ideal vector is rebuilt afterwards)
   void check_landing_big(int i, int t, size_t n, const std::string & opname)
   {
      Trav & tr = trav[i];
      note_shown(i);
      if ((tr.hasShown)&&(tr.owner == t)&&(birth[t].count(tr.shownKey) == 0)) fail("iterator yields a removed key after an advance", n, opname);
      tr.active = false;
   }

   static bool val_less(const KV & a, const KV & b) {return a.second < b.second;}

   void show_it(std::ostringstream & r, int i)
   {
      if ((it[i])&&(it[i]->HasData())) r << "it:" << it[i]->GetKey() << "=" << it[i]->GetValue(); else r << "it:end";
   }

   void run(const std::string & body)
   {
      std::vector<std::string> ops = split(body, ';');
      for (size_t n=0; n<ops.size(); n++)
      {
         if (ops[n].empty()) continue;
         run_op(ops[n], n, big);
         if (failed) break;
      }
   }
};

template<class T, class HF, class KT, class VT> static void run_case(int k, char var, bool big, int nt, int ni, const std::string & body)
{
   std::string out, orc;
   {
      Runner<T,HF,KT,VT> * r = new Runner<T,HF,KT,VT>(var, big, nt, ni, k);
      r->run(body);
      out = r->o.str(); orc = r->orc.str();
      delete r;   // tables first, iterators afterwards
   }
   if (big) printf("%d big\n", k); else printf("%d %s\n", k, out.c_str());
   if (!orc.empty()) fputs(orc.c_str(), stdout);
   fflush(stdout);
}


// ------------------------------------------------------------------------------------------------
// storage cases: the slot array itself
struct IdHF  {uint32 operator()(const int & k) const {return (uint32)k;}               bool AreKeysEqual(const int & a, const int & b) const {return a==b;}
              uint32 operator()(const Own & k) const {return (uint32)(int)k;}          bool AreKeysEqual(const Own & a, const Own & b) const {return ((int)a)==((int)b);}};
struct MulHF {uint32 operator()(const int & k) const {return ((uint32)k)*2654435761u;} bool AreKeysEqual(const int & a, const int & b) const {return a==b;}
              uint32 operator()(const Own & k) const {return ((uint32)(int)k)*2654435761u;} bool AreKeysEqual(const Own & a, const Own & b) const {return ((int)a)==((int)b);}};

static std::string idx_str(uint32 v) {if (v == MUSCLE_HASHTABLE_INVALID_SLOT_INDEX) return "-"; char b[32]; snprintf(b, sizeof(b), "%u", v); return b;}

template <class T> static std::string dump_store(const T & t)
{
   std::ostringstream o;
   if (t._table == NULL) {o << "S:" << t._tableSize << "/null"; return o.str();}
   o << "S:" << t._tableSize << "/" << t.GetTableIndexType() << "/" << t._numItems << "/" << idx_str(t._freeHeadIdx) << "|";
   std::ostringstream b;
   for (uint32 i=0; i<t._tableSize; i++)
   {
      const typename T::HashtableEntryBaseType * e = t.IndexToEntryUnchecked(i);
      if (i) b << ",";
      if (e->_hash == MUSCLE_HASHTABLE_INVALID_HASH_CODE) b << "x._._";
                                                     else b << e->_hash << "." << e->_key << "." << e->_value;
      b << "." << idx_str(t.GetEntryIndexValue(e, T::HTE_INDEX_BUCKET_PREV)) << "." << idx_str(t.GetEntryIndexValue(e, T::HTE_INDEX_BUCKET_NEXT))
        << "." << idx_str(t.GetEntryIndexValue(e, T::HTE_INDEX_MAP_TO))      << "." << idx_str(t.GetEntryIndexValue(e, T::HTE_INDEX_MAPPED_FROM));
   }
   const std::string body = b.str();
   if (t._tableSize <= 40) o << body;
   else
   {
      unsigned long long h = 14695981039346656037ULL;   // FNV-1a, 64 bit
      for (size_t i=0; i<body.size(); i++) {h ^= (unsigned char) body[i]; h *= 1099511628211ULL;}
      char hb[40]; snprintf(hb, sizeof(hb), "#%016llx", h); o << hb;
   }
   return o.str();
}

template <class T, class KT, class VT> static void run_store_case(int k, int size, const std::string & body)
{
   T t;
   if (size > 0) (void) t.EnsureSize((uint32)size);
   std::map<int,int> ideal;   // the oracle of this stream: a plain map
   std::string out;
   bool oracle_ok = true; std::string why;
   std::vector<std::string> ops = split(body, ';');
   for (size_t n=0; n<ops.size(); n++)
   {
      if (ops[n].empty()) continue;
      std::vector<std::string> a = split(ops[n], ':');
      std::ostringstream r;
      if (a[0] == "sp")
      {
         const int key = atoi(a[1].c_str()), val = atoi(a[2].c_str());
         r << (t.Put(KT(key), VT(val)).IsOK() ? "s0" : "s1"); ideal[key] = val;
      }
      else if (a[0] == "sg")
      {
         const int key = atoi(a[1].c_str());
         const VT * v = t.Get(KT(key));
         if (v) r << "v" << *v; else r << "none";
         std::map<int,int>::const_iterator it = ideal.find(key);
         if ((v != NULL) != (it != ideal.end()) || (v && (*v != it->second))) {oracle_ok = false; why = "Get disagrees with the ideal map at op " + ops[n];}
      }
      else if (a[0] == "sr")
      {
         const int key = atoi(a[1].c_str());
         const bool had = (ideal.erase(key) > 0);
         const bool ok = t.Remove(KT(key)).IsOK();
         r << (ok ? "s0" : "s1");
         if (ok != had) {oracle_ok = false; why = "Remove disagrees with the ideal map at op " + ops[n];}
      }
      else if (a[0] == "se")
      {
         r << (t.EnsureSize((uint32)atoi(a[1].c_str())).IsOK() ? "s0" : "s1");
      }
      else r << "?";
      if (t.GetNumItems() != ideal.size()) {oracle_ok = false; why = "item count differs from the ideal map after op " + ops[n];}
      // every stored index must fit the chosen width with room for the sentinel
      if (t._table)
      {
         const uint32 lim = (t.GetTableIndexType() == 0) ? 255u : ((t.GetTableIndexType() == 1) ? 65535u : 4294967295u);
         if (t._tableSize > lim) {oracle_ok = false; why = "table size exceeds the index width at op " + ops[n];}
      }
      out += r.str(); out += " "; out += dump_store(t); out += ";";
   }
   // all keys of the ideal map are found with their values, in any order
   for (std::map<int,int>::const_iterator it = ideal.begin(); it != ideal.end(); ++it)
   {
      const VT * v = t.Get(KT(it->first));
      if ((v == NULL)||(*v != it->second)) {oracle_ok = false; why = "final lookup disagrees with the ideal map";}
   }
   printf("%d %s\n", k, out.c_str());
   if (!oracle_ok) printf("%d ORACLE FAIL %s\n", k, why.c_str());
}

int main()
{
   std::string line;
   int k = 0;
   while(std::getline(std::cin, line))
   {
      const size_t p = line.find('|');
      if (p != std::string::npos)
      {
         std::string head = line.substr(0, p);
         const std::string body = line.substr(p+1);
         if ((!head.empty())&&((head[0] == 'S')||(head[0] == 's')))
         {
            const bool own = (head[0] == 's');
            std::vector<std::string> sp = split(head, ',');
            const char hm = (sp[0].size() > 1) ? sp[0][1] : '0';
            const int size = (sp.size() > 1) ? atoi(sp[1].c_str()) : 0;
            if (own)
            {
               if (hm == '1') run_store_case<Hashtable<Own,Own,CollidingHF>, Own, Own>(k, size, body);
               else if (hm == '2') run_store_case<Hashtable<Own,Own,MulHF>, Own, Own>(k, size, body);
               else run_store_case<Hashtable<Own,Own,IdHF>, Own, Own>(k, size, body);
            }
            else if (hm == '1') run_store_case<Hashtable<int,int,CollidingHF>, int, int>(k, size, body);
            else if (hm == '2') run_store_case<Hashtable<int,int,MulHF>, int, int>(k, size, body);
            else run_store_case<Hashtable<int,int,IdHF>, int, int>(k, size, body);
            k++;
            continue;
         }
         bool big = false;
         if ((!head.empty())&&(head[0] == 'B')) {big = true; head = head.substr(1);}
         std::vector<std::string> hp = split(head, ',');
         const bool own = ((hp[0][0] >= 'a')&&(hp[0][0] <= 'z'));   // lower case: owning key and value type
         const char var = own ? (char)(hp[0][0]-'a'+'A') : hp[0][0];
         const bool coll = (hp[0].size() > 1)&&(hp[0][1] == '1');
         const int nt = (hp.size() > 1) ? atoi(hp[1].c_str()) : 2;
         const int ni = (hp.size() > 2) ? atoi(hp[2].c_str()) : 4;
         if (own)
         {
            if (var == 'K')
            {
               if (coll) run_case<OrderedKeysHashtable<Own,Own,CompareFunctor<Own>,CollidingHF>, CollidingHF, Own, Own>(k, var, big, nt, ni, body);
                    else run_case<OrderedKeysHashtable<Own,Own,CompareFunctor<Own>,NormalOwnHF>, NormalOwnHF, Own, Own>(k, var, big, nt, ni, body);
            }
            else if (var == 'V')
            {
               if (coll) run_case<OrderedValuesHashtable<Own,Own,CompareFunctor<Own>,CollidingHF>, CollidingHF, Own, Own>(k, var, big, nt, ni, body);
                    else run_case<OrderedValuesHashtable<Own,Own,CompareFunctor<Own>,NormalOwnHF>, NormalOwnHF, Own, Own>(k, var, big, nt, ni, body);
            }
            else
            {
               if (coll) run_case<Hashtable<Own,Own,CollidingHF>, CollidingHF, Own, Own>(k, var, big, nt, ni, body);
                    else run_case<Hashtable<Own,Own,NormalOwnHF>, NormalOwnHF, Own, Own>(k, var, big, nt, ni, body);
            }
         }
         else if (var == 'K')
         {
            if (coll) run_case<OrderedKeysHashtable<int,int,CompareFunctor<int>,CollidingHF>, CollidingHF, int, int>(k, var, big, nt, ni, body);
                 else run_case<OrderedKeysHashtable<int,int,CompareFunctor<int>,NormalHF>, NormalHF, int, int>(k, var, big, nt, ni, body);
         }
         else if (var == 'V')
         {
            if (coll) run_case<OrderedValuesHashtable<int,int,CompareFunctor<int>,CollidingHF>, CollidingHF, int, int>(k, var, big, nt, ni, body);
                 else run_case<OrderedValuesHashtable<int,int,CompareFunctor<int>,NormalHF>, NormalHF, int, int>(k, var, big, nt, ni, body);
         }
         else
         {
            if (coll) run_case<Hashtable<int,int,CollidingHF>, CollidingHF, int, int>(k, var, big, nt, ni, body);
                 else run_case<Hashtable<int,int,NormalHF>, NormalHF, int, int>(k, var, big, nt, ni, body);
         }
      }
      k++;
   }
   return 0;
}
