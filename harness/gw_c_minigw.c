/* C03 harness: the C "mini" gateway (lang/c/minimessage/MiniMessageGateway.c) plus read-only accessors for
   its private state, so the harness can print what the Coq model (Gw/MiniModel.v) keeps. */
#include "lang/c/minimessage/MiniMessageGateway.c"

#ifdef __cplusplus
extern "C" {
#endif
uint32 vh_mg_in_pos(const MMessageGateway * gw)  {return gw->_curInputPos;}
uint32 vh_mg_in_max(const MMessageGateway * gw)  {return gw->_maxInputPos;}
uint32 vh_mg_in_size(const MMessageGateway * gw) {return gw->_curInput->numBytes;}
uint32 vh_mg_out_bufs(const MMessageGateway * gw) {uint32 n = 0; const MByteBuffer * b = gw->_curOutput; while(b) {n++; b = GetNextPointer(b);} return n;}
/* position counted from the first frame byte (the buffer starts with the next-pointer) */
uint32 vh_mg_out_pos(const MMessageGateway * gw) {return gw->_curOutput ? (uint32)(gw->_curOutputPos - sizeof(MByteBuffer *)) : 0;}
#ifdef __cplusplus
};
#endif
