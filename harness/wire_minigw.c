/* C08: lang/c/minimessage/MiniMessageGateway.c of the tree under test, compiled as C.
   The gateway keeps its output buffers in a linked list whose next-pointer is stored inside
   MByteBuffer::bytes, i.e. at offset 4 of a malloc'ed block: a pointer-sized store/load at a 4-aligned
   address (undefined behaviour in C, harmless on x86).  UBSan's alignment check aborts on it in the very
   first MGAddOutgoingMessage call, which would hide everything this check is about (the wire format), so the
   alignment check -- and only it -- is switched off for the static helpers of this one file.  The defect is
   reported separately (finding "mini gateway misaligned next-pointer", patch: memcpy the pointer). */
#define static static __attribute__((no_sanitize("alignment")))
#include "lang/c/minimessage/MiniMessageGateway.c"
