// C03 harness: a sender gateway and a receiver gateway of the same class joined by a scripted
// DataIO that honours per-call byte counts (0 = would-block) and the maxBytes arguments.
//
// case line:  <head>|op;op;...
//   head  F:<enc 0..9>:<maxIncoming>     MessageIOGateway, outgoing encoding DEFAULT+enc
//         P:<enc 0..9>:<maxIncoming>     TemplatingMessageIOGateway (oracle only)
//         T:<eol hex>                    PlainTextMessageIOGateway
//         R:<minChunk>:<maxChunk>        RawDataMessageIOGateway
//         S                              SLIPFramedDataMessageIOGateway
//   ops   q:<items>        queue a Message; F/P: hex of the flattened Message; T/R/S: comma-separated
//                          hex items (lines / chunks), "!" = no items
//         o:<max>:<k,k,..> DoOutput(max) on the sender; k-th Write accepts min(n,k) bytes
//         i:<max>:<k,k,..> DoInput(max) on the receiver; k-th Read returns min(n,k,in flight)
//         x:<hex>          put bytes straight into the pipe (foreign / malformed streams; switches
//                          the end-to-end oracle off for this case)
// output: one line "k tok tok ..." (same text as ocaml/gw_driver.ml prints from the Coq model) and
// "k ORACLE FAIL <why>" when the property's own statement fails on the implementation:
// after every DoInput what has been delivered must be a prefix of what was queued, and once the
// sender has nothing left and nothing is in flight, exactly equal.
#include <stdio.h>
#include <stdlib.h>
#include <string.h>
#include <string>
#include <vector>
#include <deque>
#include <sstream>
#include <iostream>
#include <algorithm>

#define private public
#define protected public
#include "iogateway/MessageIOGateway.h"
#include "iogateway/TemplatingMessageIOGateway.h"
#include "iogateway/PlainTextMessageIOGateway.h"
#include "iogateway/RawDataMessageIOGateway.h"
#include "iogateway/SLIPFramedDataMessageIOGateway.h"
#include "dataio/DataIO.h"
#include "iogateway/WebSocketMessageIOGateway.h"
#include "dataio/StressTestParserProxyDataIO.h"
#include "system/SetupSystem.h"
#undef private
#undef protected
#include "lang/c/minimessage/MiniMessageGateway.h"
#include "lang/c/micromessage/MicroMessageGateway.h"
extern "C" {   // harness/gw_c_minigw.c: read-only view of the mini gateway's private state
uint32 vh_mg_in_pos(const MMessageGateway *); uint32 vh_mg_in_max(const MMessageGateway *); uint32 vh_mg_in_size(const MMessageGateway *);
uint32 vh_mg_out_bufs(const MMessageGateway *); uint32 vh_mg_out_pos(const MMessageGateway *);
}

using namespace muscle;

static std::vector<std::string> split(const std::string & s, char c)
{
   std::vector<std::string> r; std::string cur;
   for (size_t i=0; i<s.size(); i++) {if (s[i]==c) {r.push_back(cur); cur.clear();} else cur += s[i];}
   r.push_back(cur);
   return r;
}
static int hv(char c) {return (c>='0'&&c<='9')?(c-'0'):((c>='a'&&c<='f')?(c-'a'+10):((c>='A'&&c<='F')?(c-'A'+10):0));}
static std::string unhex(const std::string & h)
{
   std::string r; for (size_t i=0; i+1<h.size(); i+=2) r += (char)((hv(h[i])<<4)|hv(h[i+1]));
   return r;
}
static std::string hex(const uint8 * p, size_t n)
{
   static const char * d = "0123456789abcdef";
   std::string r; r.reserve(n*2);
   for (size_t i=0; i<n; i++) {r += d[p[i]>>4]; r += d[p[i]&15];}
   return r;
}
static std::string hex(const std::string & s) {return hex((const uint8 *)s.data(), s.size());}
static std::vector<uint32> nums(const std::string & s)
{
   std::vector<uint32> r; if (s.empty()) return r;
   std::vector<std::string> p = split(s, ',');
   for (size_t i=0; i<p.size(); i++)
   {
      // "v*n" = n entries of v
      const size_t star = p[i].find('*');
      const uint32 v = (uint32) strtoul(p[i].c_str(), NULL, 10);
      const size_t rpt = (star == std::string::npos) ? 1 : (size_t) strtoul(p[i].c_str()+star+1, NULL, 10);
      for (size_t j=0; j<rpt; j++) r.push_back(v);
   }
   return r;
}

struct Pipe {std::deque<uint8> q;};

class ScriptIO : public DataIO
{
public:
   ScriptIO(Pipe * p) : _p(p), _pos(0) {}
   void Load(const std::vector<uint32> & s) {_script = s; _pos = 0; _moved.clear();}
   uint32 Next() {uint32 k = (_pos < _script.size()) ? _script[_pos] : 0; _pos++; return k;}
   virtual io_status_t Read(void * buffer, uint32 size)
   {
      uint32 n = std::min(size, std::min(Next(), (uint32)_p->q.size()));
      uint8 * b = (uint8 *) buffer;
      for (uint32 i=0; i<n; i++) {b[i] = _p->q.front(); _p->q.pop_front();}
      _moved.append((const char *)b, n);
      return io_status_t((int32)n);
   }
   virtual io_status_t Write(const void * buffer, uint32 size)
   {
      uint32 n = std::min(size, Next());
      const uint8 * b = (const uint8 *) buffer;
      for (uint32 i=0; i<n; i++) _p->q.push_back(b[i]);
      _moved.append((const char *)b, n);
      return io_status_t((int32)n);
   }
   virtual void FlushOutput() {}
   virtual void Shutdown() {}
   virtual const ConstSocketRef & GetReadSelectSocket() const {return GetNullSocket();}
   virtual const ConstSocketRef & GetWriteSelectSocket() const {return GetNullSocket();}
   Pipe * _p;
   std::vector<uint32> _script;
   size_t _pos;
   std::string _moved;    // bytes moved by the calls since Load()
};

// ---- deterministic WebSocket masking keys.  The client picks its key with GetInsecurePseudoRandomNumber32(); the harness
// is linked with -Wl,--wrap=<that symbol> (checks/c03.py extra_flags), so calls coming from the library land here: while the
// case supplied keys (head WC:<hexkey,hexkey,..>) they are handed out in order, otherwise the real generator is used.
// No change to /repo is needed for this.
static std::deque<uint32> g_ws_keys;
extern "C" uint32 __real__ZN6muscle31GetInsecurePseudoRandomNumber32Ej(uint32 maxVal);
extern "C" uint32 __wrap__ZN6muscle31GetInsecurePseudoRandomNumber32Ej(uint32 maxVal)
{
   if (g_ws_keys.empty() == false) {const uint32 k = g_ws_keys.front(); g_ws_keys.pop_front(); return k;}
   return __real__ZN6muscle31GetInsecurePseudoRandomNumber32Ej(maxVal);
}

// packet-style (UDP-like) transport: whole packets, a script entry of 0 = would-block, >0 = move the packet
class ScriptPacketIO : public PacketDataIO
{
public:
   ScriptPacketIO(std::deque<std::string> * pk, uint32 mtu) : _pk(pk), _mtu(mtu), _pos(0) {}
   void Load(const std::vector<uint32> & s) {_script = s; _pos = 0; _moved.clear();}
   uint32 Next() {uint32 k = (_pos < _script.size()) ? _script[_pos] : 0; _pos++; return k;}
   virtual uint32 GetMaximumPacketSize() const {return _mtu;}
   virtual const IPAddressAndPort & GetPacketSendDestination() const {return _dest;}
   virtual void SetPacketSendDestination(const IPAddressAndPort & iap) {_dest = iap;}
   virtual io_status_t ReadFrom(void * buffer, uint32 size, IPAddressAndPort & retPacketSource)
   {
      if ((Next() == 0)||(_pk->empty())) return io_status_t((int32)0);
      std::string p = _pk->front(); _pk->pop_front();
      const uint32 n = std::min(size, (uint32)p.size());
      memcpy(buffer, p.data(), n);
      _moved.append(p.data(), n);
      retPacketSource = IPAddressAndPort();
      return io_status_t((int32)n);
   }
   virtual io_status_t WriteTo(const void * buffer, uint32 size, const IPAddressAndPort &)
   {
      if (Next() == 0) return io_status_t((int32)0);
      _pk->push_back(std::string((const char *)buffer, size));
      _moved.append((const char *)buffer, size);
      return io_status_t((int32)size);
   }
   virtual void FlushOutput() {}
   virtual void Shutdown() {}
   virtual const ConstSocketRef & GetReadSelectSocket() const {return GetNullSocket();}
   virtual const ConstSocketRef & GetWriteSelectSocket() const {return GetNullSocket();}
   std::deque<std::string> * _pk;
   uint32 _mtu;
   IPAddressAndPort _dest;
   std::vector<uint32> _script;
   size_t _pos;
   std::string _moved;
};

static std::string flat_hex(const MessageRef & m)
{
   if (m() == NULL) return "null";
   ByteBufferRef b = m()->FlattenToByteBuffer();
   return b() ? hex(b()->GetBuffer(), b()->GetNumBytes()) : "oom";
}

// items of a Message as the property compares them
static void items_of(char kind, const MessageRef & m, std::vector<std::string> & out)
{
   if (m() == NULL) return;
   if ((kind == 'F')||(kind == 'P')) {ByteBufferRef b = m()->FlattenToByteBuffer(); out.push_back(std::string((const char *)b()->GetBuffer(), b()->GetNumBytes()));}
   else if (kind == 'T') {const String * s; for (uint32 i=0; m()->FindString(PR_NAME_TEXT_LINE, i, &s).IsOK(); i++) out.push_back(std::string(s->Cstr(), s->Length()));}
   else {const void * p; uint32 n; for (uint32 i=0; m()->FindData(PR_NAME_DATA_CHUNKS, B_ANY_TYPE, i, &p, &n).IsOK(); i++) out.push_back(std::string((const char *)p, n));}
}

static std::string show_msg(char kind, const MessageRef & m)
{
   std::vector<std::string> it; items_of(kind, m, it);
   std::string r = "(";
   if (it.empty()) r += "!";
   for (size_t i=0; i<it.size(); i++) {if (i) r += ","; r += hex(it[i]);}
   return r + ")";
}

// ---- templating gateway support: the Message-level functions the Coq model treats as external are
// tabulated per queued Message by a "describe" pre-pass (head D), see checks/c03.py gen_tmpl_model
static std::string shape_of(const Message & m)
{
   // flattenable field names, types and item counts, recursively: what DoesTemplateDescribeMessage() compares
   std::ostringstream o;
   for (MessageFieldNameIterator it = m.GetFieldNameIterator(); it.HasData(); it++)
   {
      const String & fn = it.GetFieldName();
      uint32 tc = 0, cnt = 0; (void) m.GetInfo(fn, &tc, &cnt);
      if ((tc == B_POINTER_TYPE)||(tc == B_TAG_TYPE)) continue;
      o << hex((const uint8 *)fn(), fn.Length()) << "." << tc << "." << cnt;
      if (tc == B_MESSAGE_TYPE) {o << "<"; for (uint32 i=0; i<cnt; i++) {ConstMessageRef sub; if (m.FindMessage(fn, i, sub).IsOK()) o << shape_of(*sub()) << "+";} o << ">";}
      o << "_";
   }
   return o.str();
}

static void run_describe(int k, const std::string & body)
{
   std::vector<std::string> ops = split(body, ';');
   std::ostringstream o;
   for (size_t n=0; n<ops.size(); n++)
   {
      std::vector<std::string> a = split(ops[n], ':');
      if ((a[0] != "q")||(a.size() < 2)) continue;
      const std::string fb = unhex(a[1]);
      Message m; if (m.UnflattenFromBytes((const uint8 *)fb.data(), (uint32)fb.size()).IsError()) {o << "bad,"; continue;}
      MessageRef t = m.CreateMessageTemplate();
      std::string tf(t() ? m.TemplatedFlattenedSize(*t()) : 0, 0);
      if ((t())&&(tf.size() > 0)) m.TemplatedFlatten(*t(), DataFlattener((uint8 *)&tf[0], (uint32)tf.size()));
      o << ((m.GetNumNames() == 0) ? 1 : 0) << "/" << m.what << "/" << m.TemplateHashCode64() << "/" << (t() ? t()->FlattenedSize() : 0)
        << "/" << hex(tf) << "/" << shape_of(m) << ",";
   }
   printf("%d %s\n", k, o.str().c_str());
   fflush(stdout);
}

static std::string cache_obs(const Hashtable<uint64, MessageRef> & c, uint32 tally)
{
   std::ostringstream o; bool first = true;
   for (ConstHashtableIterator<uint64, MessageRef> it(c); it.HasData(); it++) {if (!first) o << "."; first = false; o << it.GetKey();}
   o << "/" << tally;
   return o.str();
}

// ---- the C gateways (lang/c): scripted send/receive callbacks over the same pipe
struct CScript {Pipe * p; std::vector<uint32> script; size_t pos; uint32 Next() {uint32 k = (pos < script.size()) ? script[pos] : 0; pos++; return k;}};
static int32 c_send(const uint8 * buf, uint32 n, void * arg)
{
   CScript * cs = (CScript *) arg;
   const uint32 m = std::min(n, cs->Next());
   for (uint32 i=0; i<m; i++) cs->p->q.push_back(buf[i]);
   return (int32) m;
}
static int32 c_recv(uint8 * buf, uint32 n, void * arg)
{
   CScript * cs = (CScript *) arg;
   const uint32 m = std::min(n, std::min(cs->Next(), (uint32) cs->p->q.size()));
   for (uint32 i=0; i<m; i++) {buf[i] = cs->p->q.front(); cs->p->q.pop_front();}
   return (int32) m;
}

// heads MC (MiniMessageGateway sends, C++ MessageIOGateway receives), CM, UC (MicroMessageGateway sends), CU.
// Oracle: the flattened bytes of every delivered Message must equal those of the queued one, in order.
// MC and CM also print the per-call tokens of Gw/MiniModel.v + Gw/FrameModel.v (UC, CU: oracle only).
static void run_c_case(int k, const std::string & headstr, const std::string & body)
{
   std::ostringstream orc, o;
   const bool cSends = (headstr[0] != 'C');
   const bool mini   = (headstr.find('M') != std::string::npos);
   bool injected = false;
   {
      Pipe pipe;
      CScript cscr; cscr.p = &pipe; cscr.pos = 0;
      ScriptIO * xio = new ScriptIO(&pipe); DataIORef xref(xio);
      MessageIOGateway cppgw; cppgw.SetDataIO(xref);
      QueueGatewayMessageReceiver recv;
      MMessageGateway * mgw = mini ? MGAllocMessageGateway() : NULL;
      static uint8 uin[70000], uout[70000];
      UMessageGateway ugw; if (!mini) UGGatewayInitialize(&ugw, uin, sizeof(uin), uout, sizeof(uout));
      std::vector<std::string> sent, got;
      auto c_has_bytes = [&]() -> bool {return cSends ? (mini ? (MGHasBytesToOutput(mgw) != 0) : (UGHasBytesToOutput(&ugw) != 0)) : cppgw.HasBytesToOutput();};
      bool skip = false;
      std::vector<std::string> ops = split(body, ';');
      for (size_t n=0; (n<ops.size())&&(!skip); n++)
      {
         if (ops[n].empty()) continue;
         std::vector<std::string> a = split(ops[n], ':');
         if (a[0] == "q")
         {
            const std::string fb = unhex(a.size()>1 ? a[1] : "");
            sent.push_back(fb);
            const bool qtok = true;
            if (!cSends)
            {
               MessageRef m = GetMessageFromPool();
               if (m()->UnflattenFromBytes((const uint8 *)fb.data(), (uint32)fb.size()).IsError()) {fprintf(stderr, "case %d: bad body\n", k); exit(2);}
               (void) cppgw.AddOutgoingMessage(m);
            }
            else if (mini)
            {
               MMessage * mm = MMAllocMessage(0);
               if (MMUnflattenMessage(mm, fb.data(), (uint32)fb.size()) != CB_NO_ERROR) orc << k << " ORACLE FAIL MMUnflattenMessage rejects a valid flattened Message\n";
               else if (MGAddOutgoingMessage(mgw, mm) != CB_NO_ERROR) orc << k << " ORACLE FAIL MGAddOutgoingMessage failed\n";
               MMFreeMessage(mm);
            }
            else
            {
               // micro: rebuild the Message through the UMessage API (int32 and string fields only)
               Message cm; (void) cm.UnflattenFromBytes((const uint8 *)fb.data(), (uint32)fb.size());
               UMessage um = UGGetOutgoingMessage(&ugw, cm.what);
               bool ok = UMIsMessageValid(&um);
               for (MessageFieldNameIterator it = cm.GetFieldNameIterator(); (ok)&&(it.HasData()); it++)
               {
                  const String & fn = it.GetFieldName();
                  uint32 tc = 0, cnt = 0; (void) cm.GetInfo(fn, &tc, &cnt);
                  if (tc == B_INT32_TYPE) {std::vector<int32> v; for (uint32 i=0; i<cnt; i++) v.push_back(cm.GetInt32(fn, 0, i)); ok = (UMAddInt32s(&um, fn(), &v[0], cnt) == CB_NO_ERROR);}
                  else if (tc == B_STRING_TYPE) {std::vector<const char *> v; for (uint32 i=0; i<cnt; i++) v.push_back(cm.GetStringPointer(fn, NULL, i)->Cstr()); ok = (UMAddStrings(&um, fn(), &v[0], cnt) == CB_NO_ERROR);}
                  else {ok = false; skip = true;}
               }
               if (ok) UGOutgoingMessagePrepared(&ugw, &um); else {UGOutgoingMessageCancelled(&ugw, &um); sent.pop_back();}
            }
            if (qtok) o << "q" << (c_has_bytes() ? "+" : "-");
         }
         else if (a[0] == "o")
         {
            const uint32 maxb = (uint32) strtoul(a[1].c_str(), NULL, 10);
            cscr.script = nums(a.size()>2 ? a[2] : ""); cscr.pos = 0; xio->Load(cscr.script);
            const size_t before = pipe.q.size();
            if (!cSends)
            {
               const io_status_t r = cppgw.DoOutput(maxb);
               o << "o"; if (r.IsError()) o << "E"; else o << r.GetByteCount();
               o << ":" << hex(xio->_moved) << ":" << cppgw.GetOutgoingMessageQueue().GetNumItems() << "/";
               if (cppgw._sendBuffer._buffer()) o << cppgw._sendBuffer._buffer()->GetNumBytes(); else o << "-";
               o << "/" << cppgw._sendBuffer._offset << "/" << (cppgw.HasBytesToOutput() ? "h1" : "h0");
            }
            else if (mini)
            {
               const int32 r = MGDoOutput(mgw, maxb, c_send, &cscr);
               std::string w; for (size_t i=before; i<pipe.q.size(); i++) w.push_back((char) pipe.q[i]);
               o << "o" << r << ":" << hex(w) << ":" << vh_mg_out_bufs(mgw) << "/" << vh_mg_out_pos(mgw) << "/" << (MGHasBytesToOutput(mgw) ? "h1" : "h0");
            }
            else (void) UGDoOutput(&ugw, maxb, c_send, &cscr);
         }
         else if (a[0] == "i")
         {
            const uint32 maxb = (uint32) strtoul(a[1].c_str(), NULL, 10);
            cscr.script = nums(a.size()>2 ? a[2] : ""); cscr.pos = 0; xio->Load(cscr.script);
            if (cSends)
            {
               const io_status_t r = cppgw.DoInput(recv, maxb);
               o << "i"; if (r.IsError()) o << "E"; else o << r.GetByteCount();
               o << ":";
               MessageRef m; while(recv.RemoveHead(m).IsOK()) {o << show_msg('F', m); ByteBufferRef b = m()->FlattenToByteBuffer(); got.push_back(std::string((const char *)b()->GetBuffer(), b()->GetNumBytes()));}
               o << ":";
               const ByteBuffer * bb = cppgw._recvBuffer._buffer();
               if (bb) o << bb->GetNumBytes() << "/" << cppgw._recvBuffer._offset << "/" << ((bb == cppgw._scratchRecvBuffer()) ? "S" : "H"); else o << "-/" << cppgw._recvBuffer._offset << "/-";
               o << "/" << (cppgw.GetUnrecoverableErrorStatus().IsError() ? 1 : 0) << ":" << pipe.q.size();
            }
            else if (mini)
            {
               MMessage * rm = NULL;
               const int32 r = MGDoInput(mgw, maxb, c_recv, &cscr, &rm);
               if ((r < 0)&&(!injected)) {orc << k << " ORACLE FAIL MGDoInput reports an error on a well-formed stream at op#" << n << "\n"; skip = true;}
               o << "i"; if (r < 0) o << "E"; else o << r;
               o << ":";
               if (rm) {std::string f(MMGetFlattenedSize(rm), 0); MMFlattenMessage(rm, (uint8 *) &f[0]); got.push_back(f); MMFreeMessage(rm); o << "(" << hex(f) << ")";}
               o << ":" << vh_mg_in_pos(mgw) << "/" << vh_mg_in_max(mgw) << "/" << vh_mg_in_size(mgw) << ":" << pipe.q.size();
            }
            else
            {
               UMessage rm;
               const int32 r = UGDoInput(&ugw, maxb, c_recv, &cscr, &rm);
               if (r < 0) {orc << k << " ORACLE FAIL UGDoInput reports an error on a well-formed stream at op#" << n << "\n"; skip = true;}
               if (UMIsMessageValid(&rm)) got.push_back(std::string((const char *)UMGetFlattenedBuffer(&rm), UMGetFlattenedSize(&rm)));
            }
            bool ok = (got.size() <= sent.size());
            for (size_t i=0; (ok)&&(i<got.size()); i++) if (got[i] != sent[i]) ok = false;
            if ((!ok)&&(!skip)&&(!injected)) {orc << k << " ORACLE FAIL " << headstr << ": delivered sequence is not a prefix of the queued sequence (item " << got.size() << " of " << sent.size() << ") after op#" << n << "\n"; skip = true;}
         }
         else if (a[0] == "x")
         {
            // foreign bytes straight into the pipe (receiver robustness; such cases carry no sent==received claim)
            const std::string fb = unhex(a.size()>1 ? a[1] : "");
            for (size_t i=0; i<fb.size(); i++) pipe.q.push_back((uint8) fb[i]);
            o << "x"; injected = true;
         }
         o << " ";
      }
      // ---- oracle: liveness of the send pump (see run_case): call the sender only while its HasBytesToOutput says true
      if ((!skip)&&(!injected)&&(orc.str().empty()))
      {
         const std::vector<uint32> all(6000, MUSCLE_NO_LIMIT);
         for (int it=0; it<200000; it++)
         {
            bool progress = false;
            if (c_has_bytes())
            {
               cscr.script = all; cscr.pos = 0; xio->Load(all);
               const size_t before = pipe.q.size();
               if (!cSends) (void) cppgw.DoOutput(MUSCLE_NO_LIMIT);
               else if (mini) (void) MGDoOutput(mgw, MUSCLE_NO_LIMIT, c_send, &cscr);
               else (void) UGDoOutput(&ugw, MUSCLE_NO_LIMIT, c_send, &cscr);
               if (pipe.q.size() > before) progress = true;
            }
            if (!pipe.q.empty())
            {
               cscr.script = all; cscr.pos = 0; xio->Load(all);
               const size_t before = pipe.q.size();
               if (cSends)
               {
                  (void) cppgw.DoInput(recv, MUSCLE_NO_LIMIT);
                  MessageRef m; while(recv.RemoveHead(m).IsOK()) {ByteBufferRef b = m()->FlattenToByteBuffer(); got.push_back(std::string((const char *)b()->GetBuffer(), b()->GetNumBytes()));}
               }
               else if (mini)
               {
                  MMessage * rm = NULL;
                  (void) MGDoInput(mgw, MUSCLE_NO_LIMIT, c_recv, &cscr, &rm);
                  if (rm) {std::string f(MMGetFlattenedSize(rm), 0); MMFlattenMessage(rm, (uint8 *) &f[0]); got.push_back(f); MMFreeMessage(rm);}
               }
               else
               {
                  UMessage rm;
                  (void) UGDoInput(&ugw, MUSCLE_NO_LIMIT, c_recv, &cscr, &rm);
                  if (UMIsMessageValid(&rm)) got.push_back(std::string((const char *)UMGetFlattenedBuffer(&rm), UMGetFlattenedSize(&rm)));
               }
               if (pipe.q.size() < before) progress = true;
            }
            if (!progress) break;
         }
         if (c_has_bytes()) orc << k << " ORACLE FAIL " << headstr << " pump: sender makes no progress over an unlimited transport but its HasBytesToOutput stays true\n";
         else if (!pipe.q.empty()) orc << k << " ORACLE FAIL " << headstr << " pump: receiver leaves " << pipe.q.size() << " bytes unread\n";
         else if (got != sent) orc << k << " ORACLE FAIL " << headstr << " pump: HasBytesToOutput is false and nothing is in flight, but only " << got.size() << " of " << sent.size() << " queued Messages were delivered (or they differ)\n";
      }
      const bool senderDone = cSends ? (mini ? (MGHasBytesToOutput(mgw) == 0) : (UGHasBytesToOutput(&ugw) == 0)) : (cppgw.HasBytesToOutput() == false);
      if ((!skip)&&(!injected)&&(senderDone)&&(pipe.q.empty())&&(got.size() != sent.size())) orc << k << " ORACLE FAIL " << headstr << ": all bytes moved but " << got.size() << " of " << sent.size() << " Messages delivered\n";
      if (mgw) MGFreeMessageGateway(mgw);
   }
   if (mini) printf("%d %s\n", k, o.str().c_str()); else printf("%d oracle-only\n", k);
   if (!orc.str().empty()) fputs(orc.str().c_str(), stdout);
   fflush(stdout);
}

static void run_case(int k, const std::string & line)
{
   size_t bar = line.find('|');
   if (bar == std::string::npos) return;
   std::vector<std::string> head = split(line.substr(0, bar), ':');
   if ((head[0] == "MC")||(head[0] == "CM")||(head[0] == "UC")||(head[0] == "CU")) {run_c_case(k, head[0], line.substr(bar+1)); return;}
   if (head[0] == "D") {run_describe(k, line.substr(bar+1)); return;}
   // a head starting with 'K' (KF, KT, KR) runs the same gateway class over a packet-style DataIO (oracle only)
   const bool packet_mode = (head[0].size() > 1)&&(head[0][0] == 'K');
   // a head starting with 'X' (XF, XT, XR, XS) puts dataio/StressTestParserProxyDataIO between the sender and the
   // scripted transport (second, independent segmenter; its min/max child write sizes are the last two head fields)
   const bool stress_mode = (head[0].size() > 1)&&(head[0][0] == 'X');
   // heads WC / WS: WebSocketMessageIOGateway pair after the handshake, client->server (masked frames) or
   // server->client, each end with a slave MessageIOGateway; Messages as for F
   const bool ws_mode = (head[0] == "WC")||(head[0] == "WS")||(head[0] == "WR");   // WR: like WC, but the (masked) client frames are injected with x: ops
   const char kind = head[0].empty() ? '?' : (ws_mode ? 'F' : head[0][(packet_mode||stress_mode) ? 1 : 0]);
   std::ostringstream o, orc;
   {
      Pipe pipe;
      std::deque<std::string> packets;
      ScriptIO * wio = new ScriptIO(&pipe); DataIORef wref(wio);
      ScriptIO * rio = new ScriptIO(&pipe); DataIORef rref(rio);
      ScriptPacketIO * wpio = new ScriptPacketIO(&packets, 1400); DataIORef wpref(wpio);
      ScriptPacketIO * rpio = new ScriptPacketIO(&packets, 1400); DataIORef rpref(rpio);
      AbstractMessageIOGatewayRef sgw, rgw;
      uint32 minc = 0;
      bool limited_in = false;   // the receiver was given an incoming-size limit: it may legitimately refuse a Message
      bool wsClientSends = (head[0] == "WC")||(head[0] == "WR"), wsT = true, wsF = false;
      StressTestParserProxyDataIO * sio = NULL;
      if (ws_mode)
      {
         WebSocketMessageIOGateway * s = new WebSocketMessageIOGateway(wsClientSends ? &wsT : &wsF);
         WebSocketMessageIOGateway * r = new WebSocketMessageIOGateway(wsClientSends ? &wsF : &wsT);
         s->SetSlaveGateway(AbstractMessageIOGatewayRef(new MessageIOGateway)); r->SetSlaveGateway(AbstractMessageIOGatewayRef(new MessageIOGateway));
         sgw.SetRef(s); rgw.SetRef(r);
      }
      else if ((kind == 'F')||(kind == 'P'))
      {
         const int32 enc = MUSCLE_MESSAGE_ENCODING_DEFAULT + atoi(head.size()>1 ? head[1].c_str() : "0");
         const uint32 maxin = (head.size()>2) ? (uint32) strtoul(head[2].c_str(), NULL, 10) : MUSCLE_NO_LIMIT;
         limited_in = (maxin != MUSCLE_NO_LIMIT);
         const uint32 maxcache = ((kind == 'P')&&(head.size()>3)&&(!head[3].empty())) ? (uint32) strtoul(head[3].c_str(), NULL, 10) : (1024*1024);
         MessageIOGateway * s = (kind == 'F') ? new MessageIOGateway(enc) : new TemplatingMessageIOGateway(maxcache, enc);
         MessageIOGateway * r = (kind == 'F') ? new MessageIOGateway(enc) : new TemplatingMessageIOGateway(maxcache, enc);
         r->SetMaxIncomingMessageSize(maxin);
         sgw.SetRef(s); rgw.SetRef(r);
      }
      else if (kind == 'T')
      {
         PlainTextMessageIOGateway * s = new PlainTextMessageIOGateway; PlainTextMessageIOGateway * r = new PlainTextMessageIOGateway;
         if (head.size() > 1) {std::string e = unhex(head[1]); s->SetOutgoingEndOfLineString(e.c_str());}
         sgw.SetRef(s); rgw.SetRef(r);
      }
      else if (kind == 'R')
      {
         minc = (head.size()>1) ? (uint32) strtoul(head[1].c_str(), NULL, 10) : 0;
         const uint32 maxc = (head.size()>2) ? (uint32) strtoul(head[2].c_str(), NULL, 10) : MUSCLE_NO_LIMIT;
         sgw.SetRef(new RawDataMessageIOGateway(minc, maxc)); rgw.SetRef(new RawDataMessageIOGateway(minc, maxc));
      }
      else if (kind == 'S') {sgw.SetRef(new SLIPFramedDataMessageIOGateway); rgw.SetRef(new SLIPFramedDataMessageIOGateway);}
      else {fprintf(stderr, "bad head [%s]\n", line.c_str()); exit(2);}
      // gateways whose wire format is not (yet) modelled in Coq run for the end-to-end oracle only
      // WC without keys in the head: the client's masking keys are random, oracle only
      const bool oracle_only = (packet_mode)||(stress_mode)||((head[0] == "WC")&&(head.size() < 2))||((kind == 'P')&&(head.size() < 5));
      g_ws_keys.clear();
      if ((head[0] == "WC")&&(head.size() >= 2))
      {
         std::vector<std::string> ks = split(head[1], ',');
         for (size_t i=0; i<ks.size(); i++) {std::string kb = unhex(ks[i]); uint32 kv = 0; if (kb.size() == 4) {memcpy(&kv, kb.data(), 4); g_ws_keys.push_back(kv);}}
      }
      DataIORef sref;
      if (stress_mode)
      {
         const uint32 minw = (head.size() >= 2) ? (uint32) strtoul(head[head.size()-2].c_str(), NULL, 10) : 0;
         const uint32 maxw = (head.size() >= 2) ? (uint32) strtoul(head[head.size()-1].c_str(), NULL, 10) : 1;
         sio = new StressTestParserProxyDataIO(wref, minw, maxw, 0); sref.SetRef(sio);
      }
      if (packet_mode) {sgw()->SetDataIO(wpref); rgw()->SetDataIO(rpref);}
                  else {sgw()->SetDataIO(stress_mode ? sref : wref);  rgw()->SetDataIO(rref);}
      QueueGatewayMessageReceiver recv;

      std::vector<std::string> sent, got;   // the oracle's own record (items, see items_of)
      bool oracle_on = true, failed = false;
      std::vector<std::string> ops = split(line.substr(bar+1), ';');
      for (size_t n=0; n<ops.size(); n++)
      {
         if (ops[n].empty()) continue;
         std::vector<std::string> a = split(ops[n], ':');
         const std::string & c = a[0];
         if (c == "q")
         {
            MessageRef m;
            const std::string arg = (a.size() > 1) ? a[1] : "";
            if ((kind == 'F')||(kind == 'P'))
            {
               std::string body = unhex(arg);
               m = GetMessageFromPool();
               if (m()->UnflattenFromBytes((const uint8 *)body.data(), (uint32)body.size()).IsError()) {fprintf(stderr, "case %d: q: body is not a flattened Message\n", k); exit(2);}
               if (flat_hex(m) != hex(body)) orc << k << " ORACLE FAIL harness: queued body does not re-flatten to itself (non-canonical test input)\n";
            }
            else
            {
               std::vector<std::string> it; if (arg != "!") it = split(arg, ',');
               if (kind == 'T') {m = GetMessageFromPool(PR_COMMAND_TEXT_STRINGS); for (size_t i=0; i<it.size(); i++) {std::string s = unhex(it[i]); (void) m()->AddString(PR_NAME_TEXT_LINE, String(s.c_str()));}}
               else {m = GetMessageFromPool(PR_COMMAND_RAW_DATA); for (size_t i=0; i<it.size(); i++) {std::string s = unhex(it[i]); ByteBufferRef bb = GetByteBufferFromPool((uint32)s.size(), (const uint8 *)s.data()); (void) m()->AddFlat(PR_NAME_DATA_CHUNKS, bb);}}
            }
            // the oracle's record of what was queued comes from the case text, not from the Message object
            if ((kind == 'F')||(kind == 'P')) sent.push_back(unhex(arg));
            else if (arg != "!")
            {
               std::vector<std::string> it = split(arg, ',');
               for (size_t i=0; i<it.size(); i++)
               {
                  // domain boundary: a zero-length chunk cannot be added with Message::AddData() and makes
                  // Message::FindData() fail, so the raw/SLIP senders treat it as the end of the Message
                  // (modelled: RawModel.r_trunc); the end-to-end oracle is switched off for such a case
                  if ((it[i].empty())&&(kind != 'T')) oracle_on = false;
                  sent.push_back(unhex(it[i]));
               }
            }
            o << (sgw()->AddOutgoingMessage(m).IsOK() ? "q" : "qE") << (sgw()->HasBytesToOutput() ? "+" : "-");
         }
         else if (c == "x")
         {
            std::string b = unhex(a.size()>1 ? a[1] : "");
            for (size_t i=0; i<b.size(); i++) pipe.q.push_back((uint8) b[i]);
            oracle_on = false;
            o << "x";
         }
         else if (c == "o")
         {
            const uint32 maxb = (uint32) strtoul(a[1].c_str(), NULL, 10);
            wio->Load(nums(a.size()>2 ? a[2] : "")); wpio->Load(nums(a.size()>2 ? a[2] : ""));
            const io_status_t r = sgw()->DoOutput(maxb);
            o << "o"; if (r.IsError()) o << "E"; else o << r.GetByteCount();
            o << ":" << hex(wio->_moved) << ":" << sgw()->GetOutgoingMessageQueue().GetNumItems() << "/";
            if (ws_mode)
            {
               WebSocketMessageIOGateway * g = static_cast<WebSocketMessageIOGateway *>(sgw());
               o << g->_outputBuf.GetNumBytes() << "/" << g->_outputBytesWritten;
            }
            if (((kind == 'F')||(kind == 'P'))&&(!ws_mode))
            {
               MessageIOGateway * g = static_cast<MessageIOGateway *>(sgw());
               if (g->_sendBuffer._buffer()) o << g->_sendBuffer._buffer()->GetNumBytes(); else o << "-";
               o << "/" << g->_sendBuffer._offset;
               if (kind == 'P') {TemplatingMessageIOGateway * tg = static_cast<TemplatingMessageIOGateway *>(sgw()); o << "/" << cache_obs(tg->_outgoingTemplates, tg->_outgoingTemplatesTotalSizeBytes);}
            }
            else if (kind == 'T')
            {
               PlainTextMessageIOGateway * g = static_cast<PlainTextMessageIOGateway *>(sgw());
               o << (g->_currentSendingMessage() ? 1 : 0) << "/" << g->_currentSendLineIndex << "/" << g->_currentSendOffset << "/" << hex((const uint8 *)g->_currentSendText.Cstr(), g->_currentSendText.Length());
            }
            else if ((kind == 'R')||(kind == 'S'))
            {
               RawDataMessageIOGateway * g = static_cast<RawDataMessageIOGateway *>(sgw());
               o << (g->_sendMsgRef() ? 1 : 0) << "/" << g->_sendBufIndex << "/" << g->_sendBufByteOffset << "/" << g->_sendBufLength;
            }
            // what every event loop asks before it calls DoOutput() again
            o << "/" << (sgw()->HasBytesToOutput() ? "h1" : "h0");
         }
         else if (c == "f")   // stress proxy: push buffered output to the transport (script = child Write counts)
         {
            wio->Load(nums(a.size()>1 ? a[1] : ""));
            if (sio) sio->WriteBufferedOutput();
            o << "f";
         }
         else if (c == "i")
         {
            const uint32 maxb = (uint32) strtoul(a[1].c_str(), NULL, 10);
            rio->Load(nums(a.size()>2 ? a[2] : "")); rpio->Load(nums(a.size()>2 ? a[2] : ""));
            const io_status_t r = rgw()->DoInput(recv, maxb);
            o << "i"; if (r.IsError()) o << "E"; else o << r.GetByteCount();
            o << ":";
            MessageRef m;
            while(recv.RemoveHead(m).IsOK()) {o << show_msg(kind, m); items_of(kind, m, got);}
            o << ":";
            if (ws_mode)
            {
               WebSocketMessageIOGateway * g = static_cast<WebSocketMessageIOGateway *>(rgw());
               o << g->_headerBytesReceived << "/" << g->_headerSize << "/";
               if (g->_payload()) o << g->_payload()->GetNumBytes(); else o << "-";
               o << "/" << g->_payloadBytesRead << "/" << (int) g->_opCode << "/" << (g->_inputClosed ? 1 : 0) << "/" << (g->GetUnrecoverableErrorStatus().IsError() ? 1 : 0);
            }
            if (((kind == 'F')||(kind == 'P'))&&(!ws_mode))
            {
               MessageIOGateway * g = static_cast<MessageIOGateway *>(rgw());
               const ByteBuffer * bb = g->_recvBuffer._buffer();
               if (bb) o << bb->GetNumBytes() << "/" << g->_recvBuffer._offset << "/" << ((bb == g->_scratchRecvBuffer()) ? "S" : "H"); else o << "-/" << g->_recvBuffer._offset << "/-";
               o << "/" << (g->GetUnrecoverableErrorStatus().IsError() ? 1 : 0);
               if (kind == 'P') {TemplatingMessageIOGateway * tg = static_cast<TemplatingMessageIOGateway *>(rgw()); o << "/" << cache_obs(tg->_incomingTemplates, tg->_incomingTemplatesTotalSizeBytes);}
            }
            else if (kind == 'T')
            {
               PlainTextMessageIOGateway * g = static_cast<PlainTextMessageIOGateway *>(rgw());
               o << hex((const uint8 *)g->_incomingText.Cstr(), g->_incomingText.Length()) << "/" << (g->_prevCharWasCarriageReturn ? 1 : 0);
            }
            else if (kind == 'R')
            {
               RawDataMessageIOGateway * g = static_cast<RawDataMessageIOGateway *>(rgw());
               o << (g->_recvMsgRef() ? 1 : 0) << "/" << (g->_recvMsgRef() ? g->_recvBufByteOffset : 0);
            }
            else if (kind == 'S')
            {
               SLIPFramedDataMessageIOGateway * g = static_cast<SLIPFramedDataMessageIOGateway *>(rgw());
               if (g->_pendingBuffer()) o << hex(g->_pendingBuffer()->GetBuffer(), g->_pendingBuffer()->GetNumBytes());
               o << "/" << (g->_lastReceivedCharWasEscape ? 1 : 0);
            }
            o << ":" << pipe.q.size();

            // ---- oracle: a receiver never declares the stream of its own peer broken ("nothing lost" includes the
            // Messages that would follow: an unrecoverable error stops all further delivery)
            if ((oracle_on)&&(!failed)&&(!limited_in)&&((r.IsError())||(rgw()->GetUnrecoverableErrorStatus().IsError())))
            {
               orc << k << " ORACLE FAIL receiver went into the unrecoverable-error state on the stream of its own peer (" << got.size() << " of " << sent.size() << " items delivered so far) after op#" << n << "\n";
               failed = true;
            }
            // ---- oracle: delivered is a prefix of queued
            if ((oracle_on)&&(!failed))
            {
               if (kind == 'R')
               {
                  std::string s, g2; for (size_t i=0; i<sent.size(); i++) s += sent[i]; for (size_t i=0; i<got.size(); i++) g2 += got[i];
                  if ((g2.size() > s.size())||(s.compare(0, g2.size(), g2) != 0)) {orc << k << " ORACLE FAIL delivered bytes are not a prefix of the queued bytes after op#" << n << "\n"; failed = true;}
               }
               else
               {
                  std::vector<std::string> s2;
                  for (size_t i=0; i<sent.size(); i++) if ((kind != 'S')||(!sent[i].empty())) s2.push_back(sent[i]);
                  bool ok = (got.size() <= s2.size());
                  for (size_t i=0; (ok)&&(i<got.size()); i++) if (got[i] != s2[i]) ok = false;
                  if (!ok) {orc << k << " ORACLE FAIL delivered sequence is not a prefix of the queued sequence (item " << got.size() << " of " << s2.size() << ") after op#" << n << "\n"; failed = true;}
               }
            }
         }
         else {fprintf(stderr, "bad op [%s]\n", ops[n].c_str()); exit(2);}
         o << " ";
      }
      // ---- oracle: liveness of the send pump.  An event loop (ReflectServer, ExecuteSynchronousMessaging) calls DoOutput()
      // only while the gateway's own HasBytesToOutput() says true: pumped that way over a transport that accepts everything,
      // and the receiver drained, everything queued must have been written and delivered ("HasBytesToOutput() false
      // implies nothing unsent").  Runs after the scripted calls of the case; not part of the printed tokens.
      if ((oracle_on)&&(!failed)&&(!limited_in))
      {
         const std::vector<uint32> all(6000, MUSCLE_NO_LIMIT);
         for (int it=0; it<200000; it++)
         {
            bool progress = false;
            if (sgw()->HasBytesToOutput())
            {
               wio->Load(all); wpio->Load(all);
               const io_status_t r = sgw()->DoOutput(MUSCLE_NO_LIMIT);
               if (r.IsError()) {orc << k << " ORACLE FAIL pump: DoOutput() reports an error\n"; failed = true; break;}
               if (r.GetByteCount() > 0) progress = true;
            }
            if ((sio)&&(sio->HasBufferedOutput())) {wio->Load(all); sio->WriteBufferedOutput(); progress = true;}
            if ((!pipe.q.empty())||(!packets.empty()))
            {
               rio->Load(all); rpio->Load(all);
               const io_status_t r = rgw()->DoInput(recv, MUSCLE_NO_LIMIT);
               MessageRef m; while(recv.RemoveHead(m).IsOK()) items_of(kind, m, got);
               if ((r.IsError())||(rgw()->GetUnrecoverableErrorStatus().IsError())) {orc << k << " ORACLE FAIL pump: receiver went into the unrecoverable-error state on the stream of its own peer\n"; failed = true; break;}
               if (r.GetByteCount() > 0) progress = true;
            }
            if (!progress) break;
         }
         if (!failed)
         {
            if (sgw()->HasBytesToOutput()) {orc << k << " ORACLE FAIL pump: sender makes no progress over an unlimited transport but HasBytesToOutput() stays true\n"; failed = true;}
            else if ((!pipe.q.empty())||(!packets.empty())) {orc << k << " ORACLE FAIL pump: receiver leaves " << (pipe.q.size()+packets.size()) << " bytes/packets unread\n"; failed = true;}
            else
            {
               bool complete;
               if (kind == 'R')
               {
                  size_t ns = 0, ng = 0; for (size_t i=0; i<sent.size(); i++) ns += sent[i].size(); for (size_t i=0; i<got.size(); i++) ng += got[i].size();
                  RawDataMessageIOGateway * g = static_cast<RawDataMessageIOGateway *>(rgw());
                  complete = (ng + (g->_recvMsgRef() ? (size_t) g->_recvBufByteOffset : 0) == ns);
               }
               else
               {
                  std::vector<std::string> s2; for (size_t i=0; i<sent.size(); i++) if ((kind != 'S')||(!sent[i].empty())) s2.push_back(sent[i]);
                  complete = (got == s2);
               }
               if (!complete) {orc << k << " ORACLE FAIL pump: HasBytesToOutput() is false and nothing is in flight, but only " << got.size() << " of " << sent.size() << " queued items were delivered (or they differ)\n"; failed = true;}
            }
         }
      }
      // ---- oracle: completeness once everything has been moved
      if ((oracle_on)&&(!failed)&&(sgw()->HasBytesToOutput() == false)&&(pipe.q.empty())&&(packets.empty())&&((sio == NULL)||(sio->HasBufferedOutput() == false)))
      {
         if (kind == 'R')
         {
            std::string s, g2; for (size_t i=0; i<sent.size(); i++) s += sent[i]; for (size_t i=0; i<got.size(); i++) g2 += got[i];
            RawDataMessageIOGateway * g = static_cast<RawDataMessageIOGateway *>(rgw());
            const size_t pend = g->_recvMsgRef() ? (size_t) g->_recvBufByteOffset : 0;
            if (g2.size()+pend != s.size()) orc << k << " ORACLE FAIL all bytes moved but " << g2.size() << "+" << pend << " of " << s.size() << " bytes delivered\n";
         }
         else
         {
            size_t ns = 0; for (size_t i=0; i<sent.size(); i++) if ((kind != 'S')||(!sent[i].empty())) ns++;
            if (got.size() != ns) orc << k << " ORACLE FAIL all bytes moved but " << got.size() << " of " << ns << " items delivered\n";
         }
      }
      sgw.Reset(); rgw.Reset(); g_ws_keys.clear();
      if ((oracle_only)&&(getenv("GW_VERBOSE") == NULL)) {o.str(""); o << "oracle-only";}
   }
   printf("%d %s\n", k, o.str().c_str());
   if (!orc.str().empty()) fputs(orc.str().c_str(), stdout);
   fflush(stdout);
}

int main(int, char **)
{
   CompleteSetupSystem css;
   std::string line; int k = 0;
   while(std::getline(std::cin, line)) {run_case(k, line); k++;}
   return 0;
}
