// C02 harness: feeds untrusted byte strings to every parser of received data in muscle, under ASan+UBSan.
//
// One case per input line:   <target>[,param...]|<hex>;<hex>;...
//   parsers  : the hex chunks are concatenated into one exactly-sized heap buffer (so a 1-byte over-read is
//              an ASan report);   msg | tmsg,<template hex> | nest,<depth>,<claim> | mini | micro
//   gateways : every chunk is one segment handed out by the DataIO (stream) or one packet (packet modes);
//              gw,<kind>,...   kinds: mio tmpl ptun mptun ws text raw slip ;  minigw | microgw,<bufsize>
//
// Printed per case k: one or more lines `k <canonical text>`.  For the targets the Coq model covers (msg,
// tmsg, nest, gw,mio in stream mode) the text is the full observable result (accept/reject, bytes consumed,
// a dump of the parsed Message with the representation state of every field; per segment: bytes consumed,
// receive-buffer capacity/offset, error flag, Messages delivered).  For the other targets the line is `k -`
// (sanitizers + oracles only).
//
// The property's own statement is evaluated here, independently of the Coq model (lines `k ORACLE FAIL ..`):
//   alloc   the heap growth during the parse (operator new requests + sanitizer malloc hooks) stays within
//           K*len + C; a single nothrow request that would break the budget is REFUSED (returns NULL: this
//           also drives the parser down its out-of-memory paths) and reported
//   time    CPU time of the parse stays within a generous linear bound
//   hang    a per-case watchdog (alarm)
//   wf      an accepted object is well formed: it flattens into exactly FlattenedSize() bytes, and those bytes
//           parse again to an object that flattens to the same bytes
//   reuse   after the parse (failed or not) the same object parses a known valid encoding correctly and is
//           destroyed (gateways: Reset(), then a valid stream produced by a sender gateway of the same kind)
#include <stdio.h>
#include <stdlib.h>
#include <string.h>
#include <signal.h>
#include <unistd.h>
#include <time.h>
#include <sys/time.h>
#include <sys/wait.h>
#include <new>
#include <string>
#include <vector>
#include <deque>
#include <sstream>
#include <iostream>
#include <algorithm>

#define private public
#define protected public
#include "message/Message.h"
#include "iogateway/MessageIOGateway.h"
#include "iogateway/TemplatingMessageIOGateway.h"
#include "iogateway/PacketTunnelIOGateway.h"
#include "iogateway/MiniPacketTunnelIOGateway.h"
#include "iogateway/WebSocketMessageIOGateway.h"
#include "iogateway/PlainTextMessageIOGateway.h"
#include "iogateway/RawDataMessageIOGateway.h"
#include "iogateway/SLIPFramedDataMessageIOGateway.h"
#undef private
#undef protected
#include "dataio/PacketDataIO.h"
#include "system/SetupSystem.h"
#include "syslog/SysLog.h"
#include "util/ByteBuffer.h"

extern "C" {
#include "lang/c/minimessage/MiniMessage.h"
#include "lang/c/minimessage/MiniMessageGateway.h"
#include "lang/c/micromessage/MicroMessage.h"
#include "lang/c/micromessage/MicroMessageGateway.h"
int __sanitizer_install_malloc_and_free_hooks(void (*)(const volatile void *, size_t), void (*)(const volatile void *));
size_t __sanitizer_get_allocated_size(const volatile void *);
}

using namespace muscle;

// ------------------------------------------------------------------------------------------ allocation meter
static const long long K_ALLOC = 64;            // bytes of heap per input byte
static const long long C_ALLOC = 256*1024;      // constant part (object-pool slabs, scratch buffers)
static volatile bool g_meterOn = false;
static long long g_cur = 0, g_peak = 0, g_budget = 0, g_refused = 0;
static bool g_inNew = false;

static void malloc_hook(const volatile void *, size_t s) {if (g_meterOn) {g_cur += (long long) s; if (g_cur > g_peak) g_peak = g_cur;}}
static void free_hook(const volatile void * p) {if ((g_meterOn)&&(p)) g_cur -= (long long) __sanitizer_get_allocated_size(p);}

static void * metered_new(size_t n, bool mayRefuse)
{
   if ((g_meterOn)&&(mayRefuse)&&(g_cur+(long long)n > g_budget))
   {
      if ((long long)n > g_refused) g_refused = (long long) n;
      return NULL;   // simulated out-of-memory: the request alone would break the K*len+C budget
   }
   return malloc(n ? n : 1);
}
void * operator new(size_t n)                                   {void * p = metered_new(n, false); if (p == NULL) {fprintf(stderr, "out of memory\n"); abort();} return p;}
void * operator new[](size_t n)                                 {void * p = metered_new(n, false); if (p == NULL) {fprintf(stderr, "out of memory\n"); abort();} return p;}
void * operator new(size_t n, const std::nothrow_t &) noexcept   {return metered_new(n, true);}
void * operator new[](size_t n, const std::nothrow_t &) noexcept {return metered_new(n, true);}
void operator delete(void * p) noexcept   {free(p);}
void operator delete[](void * p) noexcept {free(p);}
void operator delete(void * p, const std::nothrow_t &) noexcept   {free(p);}
void operator delete[](void * p, const std::nothrow_t &) noexcept {free(p);}

static double cpu_now() {struct timespec ts; clock_gettime(CLOCK_PROCESS_CPUTIME_ID, &ts); return ts.tv_sec + ts.tv_nsec*1e-9;}

struct Meter
{
   double t0; long long len;
   Meter(long long inputLen) : len(inputLen)
   {
      g_cur = 0; g_peak = 0; g_refused = 0; g_budget = K_ALLOC*inputLen + C_ALLOC;
      t0 = cpu_now(); g_meterOn = true;
   }
   void stop() {g_meterOn = false;}
   ~Meter() {g_meterOn = false;}
   // appends ORACLE lines for this measurement
   void report(std::ostringstream & orc, int k, const char * what, bool allocClause)
   {
      g_meterOn = false;
      const double dt = cpu_now()-t0;
      static const bool showMeter = (getenv("C02_METER") != NULL);
      if (showMeter) orc << "# " << k << " meter " << what << " peak=" << g_peak << " refused=" << g_refused << " len=" << len << "\n";
      if (allocClause)
      {
         if (g_refused > 0)      orc << k << " ORACLE FAIL alloc " << what << ": one request exceeds K*len+C (request=" << g_refused << " len=" << len << " budget=" << g_budget << ")\n";
         else if (g_peak > g_budget) orc << k << " ORACLE FAIL alloc " << what << ": peak heap growth exceeds K*len+C (peak=" << g_peak << " len=" << len << " budget=" << g_budget << ")\n";
      }
      if (dt > 2.0 + 40e-6*(double)len + 25e-9*(double)g_peak) orc   /* the last term: the sanitizer allocator touches shadow memory for every byte handed out */ << k << " ORACLE FAIL time " << what << ": cpu time not linear (len=" << len << ")\n";
   }
};

// ------------------------------------------------------------------------------------------ small helpers
static std::vector<std::string> split(const std::string & s, char c)
{
   std::vector<std::string> r; std::string cur;
   for (size_t i=0; i<s.size(); i++) {if (s[i]==c) {r.push_back(cur); cur.clear();} else cur += s[i];}
   r.push_back(cur);
   return r;
}
static int hexval(char c) {return (c>='0'&&c<='9')?(c-'0'):((c>='a'&&c<='f')?(c-'a'+10):((c>='A'&&c<='F')?(c-'A'+10):0));}
typedef std::vector<uint8> Bytes;
static Bytes unhex(const std::string & s)
{
   Bytes r; r.reserve(s.size()/2);
   for (size_t i=0; i+1<s.size(); i+=2) r.push_back((uint8)((hexval(s[i])<<4)|hexval(s[i+1])));
   return r;
}
static std::string hex(const uint8 * p, size_t n)
{
   static const char * d = "0123456789abcdef";
   std::string r; r.reserve(n*2);
   for (size_t i=0; i<n; i++) {r += d[p[i]>>4]; r += d[p[i]&15];}
   return r;
}
static void w32(Bytes & v, uint32 x) {for (int i=0; i<4; i++) v.push_back((uint8)((x>>(8*i))&255));}

// an exactly-sized heap copy of the input: any access outside [0,n) is an ASan report
struct ExactBuf
{
   uint8 * p; uint32 n;
   ExactBuf(const Bytes & b) : n((uint32)b.size()) {p = (uint8 *) malloc(n ? n : 0); if ((n)&&(p)) memcpy(p, &b[0], n); if (p == NULL) p = (uint8 *) malloc(0);}
   ~ExactBuf() {free(p);}
};

// ------------------------------------------------------------------------------------------ canonical dump of a Message
static void dump_msg(const Message & m, std::string & o, int depth);

static void dump_item(const Message & m, const String & fn, uint32 tc, uint32 i, std::string & o, int depth)
{
   switch(tc)
   {
      case B_BOOL_TYPE:   {bool v = false;  (void) m.FindBool(fn, i, v);   o += v ? "01" : "00";} break;
      case B_INT8_TYPE:   {int8 v = 0;      (void) m.FindInt8(fn, i, v);   o += hex((const uint8 *)&v, 1);} break;
      case B_INT16_TYPE:  {int16 v = 0;     (void) m.FindInt16(fn, i, v);  o += hex((const uint8 *)&v, 2);} break;
      case B_INT32_TYPE:  {int32 v = 0;     (void) m.FindInt32(fn, i, v);  o += hex((const uint8 *)&v, 4);} break;
      case B_INT64_TYPE:  {int64 v = 0;     (void) m.FindInt64(fn, i, v);  o += hex((const uint8 *)&v, 8);} break;
      case B_FLOAT_TYPE:  {const void * d = NULL; uint32 nb = 0; if (m.FindData(fn, B_FLOAT_TYPE,  i, &d, &nb).IsOK()) o += hex((const uint8 *)d, nb);} break;
      case B_DOUBLE_TYPE: {const void * d = NULL; uint32 nb = 0; if (m.FindData(fn, B_DOUBLE_TYPE, i, &d, &nb).IsOK()) o += hex((const uint8 *)d, nb);} break;
      case B_POINT_TYPE:  {Point p; (void) m.FindPoint(fn, i, p); float f[2] = {p.x(), p.y()}; o += hex((const uint8 *)f, sizeof(f));} break;
      case B_RECT_TYPE:   {Rect r;  (void) m.FindRect(fn, i, r);  float f[4] = {r.left(), r.top(), r.right(), r.bottom()}; o += hex((const uint8 *)f, sizeof(f));} break;
      case B_STRING_TYPE: {const String * s = NULL; if ((m.FindString(fn, i, &s).IsOK())&&(s)) o += hex((const uint8 *)s->Cstr(), s->Length());} break;
      case B_MESSAGE_TYPE:
      {
         MessageRef sub;
         if ((m.FindMessage(fn, i, sub).IsOK())&&(sub())) {o += "("; dump_msg(*sub(), o, depth+1); o += ")";}
                                                       else o += "(null)";
      }
      break;
      default:
      {
         ConstFlatCountableRef fc;
         if ((m.FindFlat(fn, i, fc).IsOK())&&(fc()))
         {
            const uint32 fs = fc()->FlattenedSize();
            uint8 * p = (uint8 *) malloc(fs ? fs : 0);
            fc()->FlattenToBytes(p, fs);
            o += hex(p, fs);
            free(p);
         }
         else o += "?";
      }
      break;
   }
}

static void dump_msg(const Message & m, std::string & o, int depth)
{
   char tmp[64];
   snprintf(tmp, sizeof(tmp), "%u{", (unsigned) m.what); o += tmp;
   bool first = true;
   for (ConstHashtableIterator<String, muscle_private::MessageField> it(m._entries); it.HasData(); it++)
   {
      const muscle_private::MessageField & mf = it.GetValue();
      if (!first) o += ";";
      first = false;
      const uint32 n = mf.GetNumItems();
      o += hex((const uint8 *) it.GetKey()(), it.GetKey().Length());
      snprintf(tmp, sizeof(tmp), ":%u:%s:%u[", (unsigned) mf._typeCode,
               (mf._state == muscle_private::MessageField::FIELD_STATE_INLINE) ? "I" : ((mf._state == muscle_private::MessageField::FIELD_STATE_ARRAY) ? "A" : "E"), (unsigned) n);
      o += tmp;
      for (uint32 i=0; i<n; i++) {if (i) o += ","; dump_item(m, it.GetKey(), mf._typeCode, i, o, depth);}
      o += "]";
   }
   o += "}";
}

static Bytes flatten_exact(const Message & m, bool & sizeOk)
{
   const uint32 fs = m.FlattenedSize();
   uint8 * p = (uint8 *) malloc(fs ? fs : 0);   // exactly-sized: Flatten() writing more than FlattenedSize() is an ASan report
   m.FlattenToBytes(p, fs);
   Bytes r(p, p+fs);
   free(p);
   sizeOk = true;
   return r;
}

// the known valid Message used by the reuse oracle
static MessageRef known_msg()
{
   MessageRef m = GetMessageFromPool(0x6b6e6f77);
   (void) m()->AddInt32("i", 7); (void) m()->AddInt32("i", -2);
   (void) m()->AddString("s", "hello");
   (void) m()->AddBool("b", true);
   MessageRef sub = GetMessageFromPool(5); (void) sub()->AddInt8("x", 3);
   (void) m()->AddMessage("m", sub);
   (void) m()->AddData("r", B_RAW_TYPE, "abc", 3);
   return m;
}
static Bytes g_knownFlat;

// "wf" oracle: an accepted Message flattens into exactly FlattenedSize() bytes and those bytes parse back to the same bytes
static void oracle_wf(const Message & m, std::ostringstream & orc, int k, const char * what)
{
   bool ok; const Bytes f1 = flatten_exact(m, ok);
   ExactBuf eb(f1);
   Message m2;
   if (m2.UnflattenFromBytes(eb.p, eb.n).IsError()) {orc << k << " ORACLE FAIL wf " << what << ": re-flattened bytes of the accepted Message are rejected\n"; return;}
   const Bytes f2 = flatten_exact(m2, ok);
   if (f1 != f2) orc << k << " ORACLE FAIL wf " << what << ": accepted Message does not survive flatten/unflatten\n";
}
static void oracle_reuse(Message & m, std::ostringstream & orc, int k, const char * what)
{
   ExactBuf eb(g_knownFlat);
   if (m.UnflattenFromBytes(eb.p, eb.n).IsError()) {orc << k << " ORACLE FAIL reuse " << what << ": object does not parse a valid encoding afterwards\n"; return;}
   bool ok; const Bytes f = flatten_exact(m, ok);
   if (f != g_knownFlat) orc << k << " ORACLE FAIL reuse " << what << ": object parses a valid encoding to something else afterwards\n";
}

// ------------------------------------------------------------------------------------------ Message parsers
static void run_msg(int k, const Bytes & in, std::ostringstream & o, std::ostringstream & orc, bool allocClause = true, bool mustAccept = false)
{
   ExactBuf eb(in);
   Message m;
   status_t st;
   {
      Meter mt(eb.n);
      st = m.UnflattenFromBytes(eb.p, eb.n);
      mt.report(orc, k, "Message::UnflattenFromBytes", allocClause);
   }
   if (st.IsOK())
   {
      // bytes consumed: the same parse through an explicit reader on a second object
      Message m2; DataUnflattener u(eb.p, eb.n);
      const status_t st2 = m2.Unflatten(u);
      std::string d; dump_msg(m, d, 0);
      o << k << " ok c=" << (st2.IsOK() ? u.GetNumBytesRead() : 0) << " " << d << "\n";
      oracle_wf(m, orc, k, "Message::Unflatten");
   }
   else
   {
      o << k << " err\n";
      if (mustAccept) orc << k << " ORACLE FAIL complete Message::Unflatten: a valid encoding is rejected\n";
   }
   oracle_reuse(m, orc, k, "Message::Unflatten");
}

static void run_tmsg(int k, const Bytes & tmpl, const Bytes & in, std::ostringstream & o, std::ostringstream & orc)
{
   Message t;
   {ExactBuf tb(tmpl); if (t.UnflattenFromBytes(tb.p, tb.n).IsError()) {o << k << " badtemplate\n"; return;}}
   ExactBuf eb(in);
   Message m;
   DataUnflattener u(eb.p, eb.n);
   status_t st;
   {
      Meter mt(eb.n + (long long) tmpl.size());
      st = m.TemplatedUnflatten(t, u);
      mt.report(orc, k, "Message::TemplatedUnflatten", true);
   }
   if (st.IsOK())
   {
      std::string d; dump_msg(m, d, 0);
      o << k << " ok c=" << u.GetNumBytesRead() << " " << d << "\n";
      oracle_wf(m, orc, k, "Message::TemplatedUnflatten");
   }
   else o << k << " err\n";
   // reuse: the same object must take a valid templated encoding of the template itself, and a plain one
   {
      const uint32 ts = t.TemplatedFlattenedSize(t);
      uint8 * p = (uint8 *) malloc(ts ? ts : 0);
      t.TemplatedFlatten(t, DataFlattener(p, ts));
      DataUnflattener u2(p, ts);
      if (m.TemplatedUnflatten(t, u2).IsError()) orc << k << " ORACLE FAIL reuse Message::TemplatedUnflatten: object rejects the template's own templated encoding afterwards\n";
      free(p);
   }
   oracle_reuse(m, orc, k, "Message::TemplatedUnflatten");
}

// nest,<depth>,<claim>: <depth> Messages nested through a one-item Message field around the inner bytes;
// claim=1: every level declares (body/12) entries instead of 1 (entry count over-declared but within the code's own bound)
static Bytes build_nest(uint32 depth, int claim, const Bytes & inner0)
{
   Bytes inner = inner0;
   if (inner.empty()) {w32(inner, CURRENT_PROTOCOL_VERSION); w32(inner, 0); w32(inner, 0);}
   // size of the Message at level d (level 0 = inner): every level adds 12 (header) + 4+2 (name) + 4 (type) + 4 (field length) + 4 (sub-Message length)
   const uint64 per = 30;
   Bytes out; out.reserve((size_t)(inner.size()+per*depth));
   for (uint32 d=depth; d>0; d--)
   {
      const uint32 sub  = (uint32)(inner.size()+per*(d-1));   // size of the Message nested at this level
      const uint32 body = 4+2+4+4+4+sub;
      w32(out, CURRENT_PROTOCOL_VERSION); w32(out, d-1);
      w32(out, claim ? (body/12) : 1);
      w32(out, 2); out.push_back('a'); out.push_back(0); w32(out, B_MESSAGE_TYPE); w32(out, 4+sub); w32(out, sub);
   }
   out.insert(out.end(), inner.begin(), inner.end());
   return out;
}

// ------------------------------------------------------------------------------------------ C parsers
static void walk_umsg(const UMessage * um, int depth, unsigned long & sum);
static uint32 rd32at(const uint8 * b) {return ((uint32)b[0])|(((uint32)b[1])<<8)|(((uint32)b[2])<<16)|(((uint32)b[3])<<24);}

// Reference walker for the differential oracle on MMUnflattenMessage: follows the documented layout and answers whether
// every extent it meets stays inside its container (name and field payload inside the buffer, every variable-sized item
// inside its field, every sub-Message inside the buffer).  Each condition here is one the parser itself is meant to
// enforce, so "parser accepted" must imply "walker is satisfied"; a weakened bounds check shows up as a disagreement even
// when the stray read happens to stay inside the heap block.
static bool mini_contained(const uint8 * b, uint32 n, int depth)
{
   if ((n < 12)||(depth > 400)) return (depth > 400);
   const uint32 numEntries = rd32at(b+8);
   uint32 off = 12;
   for (uint32 i=0; i<numEntries; i++)
   {
      if (n-off < 4) return false;
      const uint32 nameLen = rd32at(b+off); off += 4;
      if ((nameLen == 0)||(nameLen > n-off)) return false;
      off += nameLen;
      if (n-off < 8) return false;
      const uint32 tc = rd32at(b+off), eLength = rd32at(b+off+4); off += 8;
      if (eLength > n-off) return false;
      switch(tc)
      {
         case B_BOOL_TYPE: case B_DOUBLE_TYPE: case B_FLOAT_TYPE: case B_INT64_TYPE: case B_INT32_TYPE: case B_INT16_TYPE: case B_INT8_TYPE:
         case B_POINTER_TYPE: case B_POINT_TYPE: case B_RECT_TYPE:
         break;
         case B_MESSAGE_TYPE:
         {
            uint32 used = 0, eo = off;
            while(used < eLength)
            {
               if ((eo > n)||(n-eo < 4)) return false;
               const uint32 len = rd32at(b+eo); eo += 4;
               if (len > n-eo) return false;
               if (!mini_contained(b+eo, len, depth+1)) return false;
               eo += len; used += 4+len;
            }
         }
         break;
         default:
         {
            if (eLength < 4) return false;
            const uint32 numItems = rd32at(b+off);
            uint32 eo = off+4, left = eLength-4;
            for (uint32 j=0; j<numItems; j++)
            {
               if ((eo > n)||(n-eo < 4)) return false;
               const uint32 sz = rd32at(b+eo); eo += 4;
               if ((sz > 0xFFFFFFFBu)||(sz+4 > left)) return false;   // the item (with its length word) must fit in what is left of the field
               left -= sz+4; eo += sz;
            }
         }
         break;
      }
      off += eLength;
   }
   return true;
}

static void run_mini(int k, const Bytes & in, std::ostringstream & o, std::ostringstream & orc, bool mustAccept = false)
{
   ExactBuf eb(in);
   MMessage * mm = MMAllocMessage(0);
   c_status_t st;
   {
      Meter mt(eb.n);
      st = MMUnflattenMessage(mm, eb.p, eb.n);
      mt.report(orc, k, "MMUnflattenMessage", true);
   }
   if ((st != CB_NO_ERROR)&&(mustAccept)) orc << k << " ORACLE FAIL complete MMUnflattenMessage: a valid encoding is rejected\n";
   if (st == CB_NO_ERROR)
   {
      if (!mini_contained(eb.p, eb.n, 0)) orc << k << " ORACLE FAIL diff MMUnflattenMessage: accepts an encoding in which an item extent leaves its field or the buffer (reference walker disagrees)\n";
      const uint32 fs = MMGetFlattenedSize(mm);
      uint8 * p = (uint8 *) malloc(fs ? fs : 0);
      MMFlattenMessage(mm, p);
      MMessage * m2 = MMAllocMessage(0);
      if (MMUnflattenMessage(m2, p, fs) != CB_NO_ERROR) orc << k << " ORACLE FAIL wf MMUnflattenMessage: re-flattened bytes of the accepted MMessage are rejected\n";
      else
      {
         // compared on the flattened bytes, as for the C++ parser (MMAreMessagesEqual looks fields up by name and is not
         // meaningful for the duplicate field names MMUnflattenMessage lets through)
         const uint32 fs2 = MMGetFlattenedSize(m2);
         uint8 * p2 = (uint8 *) malloc(fs2 ? fs2 : 0);
         MMFlattenMessage(m2, p2);
         if ((fs2 != fs)||(memcmp(p, p2, fs) != 0)) orc << k << " ORACLE FAIL wf MMUnflattenMessage: accepted MMessage does not survive flatten/unflatten\n";
         free(p2);
      }
      MMFreeMessage(m2);
      free(p);
   }
   {
      ExactBuf kb(g_knownFlat);
      if (MMUnflattenMessage(mm, kb.p, kb.n) != CB_NO_ERROR) orc << k << " ORACLE FAIL reuse MMUnflattenMessage: object does not parse a valid encoding afterwards\n";
      else
      {
         const uint32 fs = MMGetFlattenedSize(mm);
         uint8 * p = (uint8 *) malloc(fs ? fs : 0);
         MMFlattenMessage(mm, p);
         if ((fs != g_knownFlat.size())||(memcmp(p, &g_knownFlat[0], fs) != 0)) orc << k << " ORACLE FAIL reuse MMUnflattenMessage: object parses a valid encoding to something else afterwards\n";
         free(p);
      }
   }
   MMFreeMessage(mm);
   o << k << " -\n";
   (void) st;
}

static void walk_umsg(const UMessage * um, int depth, unsigned long & sum)
{
   if (depth > 300) return;
   UMessageFieldNameIterator it; UMIteratorInitialize(&it, um, B_ANY_TYPE);
   uint32 guard = 0;
   while(guard++ < 100000)
   {
      uint32 numItems = 0, tc = 0;
      const char * fn = UMIteratorGetCurrentFieldName(&it, &numItems, &tc);
      if (fn == NULL) break;
      sum += strlen(fn)+tc+numItems;
      const uint32 lim = (numItems < 4096) ? numItems : 4096;   // every item up to a cap, plus the last ones
      for (uint32 pass=0; pass<2; pass++)
      {
         const uint32 from = pass ? ((numItems > lim) ? (numItems-2) : numItems) : 0;
         const uint32 to   = pass ? numItems : lim;
         for (uint32 i=from; i<to; i++)
         {
            switch(tc)
            {
               case B_BOOL_TYPE:   {UBool v;  if (UMFindBool(um, fn, i, &v) == CB_NO_ERROR) sum += v;} break;
               case B_INT8_TYPE:   {int8 v;   if (UMFindInt8(um, fn, i, &v) == CB_NO_ERROR) sum += (uint8) v;} break;
               case B_INT16_TYPE:  {int16 v;  if (UMFindInt16(um, fn, i, &v) == CB_NO_ERROR) sum += (uint16) v;} break;
               case B_INT32_TYPE:  {int32 v;  if (UMFindInt32(um, fn, i, &v) == CB_NO_ERROR) sum += (uint32) v;} break;
               case B_INT64_TYPE:  {int64 v;  if (UMFindInt64(um, fn, i, &v) == CB_NO_ERROR) sum += (uint32) v;} break;
               case B_FLOAT_TYPE:  {float v;  if (UMFindFloat(um, fn, i, &v) == CB_NO_ERROR) {uint32 b; memcpy(&b, &v, 4); sum += b;}} break;
               case B_DOUBLE_TYPE: {double v; if (UMFindDouble(um, fn, i, &v) == CB_NO_ERROR) {uint64 b; memcpy(&b, &v, 8); sum += (uint32) b;}} break;
               case B_POINT_TYPE:  {UPoint v; if (UMFindPoint(um, fn, i, &v) == CB_NO_ERROR) {uint32 b; memcpy(&b, &v, 4); sum += b;}} break;
               case B_RECT_TYPE:   {URect v;  if (UMFindRect(um, fn, i, &v) == CB_NO_ERROR) {uint32 b; memcpy(&b, &v, 4); sum += b;}} break;
               case B_STRING_TYPE: {const char * s = UMGetString(um, fn, i); if (s) sum += strlen(s);} break;
               case B_MESSAGE_TYPE:{UMessage sub; if (UMFindMessage(um, fn, i, &sub) == CB_NO_ERROR) walk_umsg(&sub, depth+1, sum);} break;
               default:
               {
                  const void * d = NULL; uint32 nb = 0;
                  if ((UMFindData(um, fn, tc, i, &d, &nb) == CB_NO_ERROR)&&(d)) {const uint8 * b = (const uint8 *) d; for (uint32 j=0; j<nb; j++) sum += b[j];}
               }
               break;
            }
         }
      }
      UMIteratorAdvance(&it);
   }
}

static void run_micro(int k, const Bytes & in, std::ostringstream & o, std::ostringstream & orc, bool mustAccept = false)
{
   ExactBuf eb(in);
   UMessage um; UMInitializeToInvalid(&um);
   unsigned long sum = 0;
   {
      Meter mt(eb.n);
      if (UMInitializeWithExistingData(&um, eb.p, eb.n) == CB_NO_ERROR)
      {
         sum += UMGetWhatCode(&um)+UMGetNumFields(&um)+UMGetFlattenedSize(&um);
         walk_umsg(&um, 0, sum);
      }
      else if (mustAccept) orc << k << " ORACLE FAIL complete UMInitializeWithExistingData: a valid encoding is rejected\n";
      mt.report(orc, k, "UMessage read API", true);
   }
   {
      ExactBuf kb(g_knownFlat);
      if (UMInitializeWithExistingData(&um, kb.p, kb.n) != CB_NO_ERROR) orc << k << " ORACLE FAIL reuse UMessage: object does not take a valid encoding afterwards\n";
      else if ((UMGetWhatCode(&um) != 0x6b6e6f77)||(UMGetInt32(&um, "i", 1) != -2)) orc << k << " ORACLE FAIL reuse UMessage: object reads a valid encoding wrongly afterwards\n";
   }
   o << k << " -\n";
   if (sum == 0x7fffffffUL) o << "";   // keep (sum) alive
}

// ------------------------------------------------------------------------------------------ DataIO objects that hand out the segments
class ChunkIO : public DataIO
{
public:
   ChunkIO() : _pos(0) {}
   void Set(const Bytes & b) {_cur = b; _pos = 0;}
   size_t Remaining() const {return _cur.size()-_pos;}
   size_t Consumed() const {return _pos;}
   virtual io_status_t Read(void * buffer, uint32 size)
   {
      const uint32 n = (uint32) std::min((size_t) size, _cur.size()-_pos);
      if (n > 0) memcpy(buffer, &_cur[_pos], n);
      _pos += n;
      return io_status_t((int32) n);
   }
   virtual io_status_t Write(const void * buffer, uint32 size) {const uint8 * b = (const uint8 *) buffer; _written.insert(_written.end(), b, b+size); return io_status_t((int32) size);}
   virtual void FlushOutput() {}
   virtual void Shutdown() {}
   virtual const ConstSocketRef & GetReadSelectSocket() const {return GetNullSocket();}
   virtual const ConstSocketRef & GetWriteSelectSocket() const {return GetNullSocket();}
   Bytes _cur; size_t _pos; Bytes _written;
};

class PacketIO : public PacketDataIO
{
public:
   PacketIO(uint32 mtu) : _mtu(mtu), _has(false) {}
   void Set(const Bytes & b) {_cur = b; _has = true;}
   bool Pending() const {return _has;}
   virtual uint32 GetMaximumPacketSize() const {return _mtu;}
   virtual const IPAddressAndPort & GetPacketSendDestination() const {return _dest;}
   virtual void SetPacketSendDestination(const IPAddressAndPort & iap) {_dest = iap;}
   virtual io_status_t ReadFrom(void * buffer, uint32 size, IPAddressAndPort & retPacketSource)
   {
      if (!_has) return io_status_t((int32) 0);
      _has = false;
      const uint32 n = (uint32) std::min((size_t) size, _cur.size());
      if (n > 0) memcpy(buffer, &_cur[0], n);
      retPacketSource = IPAddressAndPort(localhostIP, 4242);
      return io_status_t((int32) n);
   }
   virtual io_status_t WriteTo(const void * buffer, uint32 size, const IPAddressAndPort &) {const uint8 * b = (const uint8 *) buffer; _packets.push_back(Bytes(b, b+size)); return io_status_t((int32) size);}
   virtual void FlushOutput() {}
   virtual void Shutdown() {}
   virtual const ConstSocketRef & GetReadSelectSocket() const {return GetNullSocket();}
   virtual const ConstSocketRef & GetWriteSelectSocket() const {return GetNullSocket();}
   uint32 _mtu; Bytes _cur; bool _has; IPAddressAndPort _dest; std::vector<Bytes> _packets;
};

struct GwSpec
{
   std::string kind; std::vector<std::string> a;
   uint32 U(size_t i, uint32 dflt) const {return ((i < a.size())&&(a[i] != "n")&&(!a[i].empty())) ? (uint32) strtoul(a[i].c_str(), NULL, 10) : dflt;}
};

static AbstractMessageIOGatewayRef make_slave(uint32 which)
{
   if (which == 1) return AbstractMessageIOGatewayRef(new MessageIOGateway());
   if (which == 2) return AbstractMessageIOGatewayRef(new RawDataMessageIOGateway());
   if (which == 3) return AbstractMessageIOGatewayRef(new PlainTextMessageIOGateway());
   return AbstractMessageIOGatewayRef();
}

// kind-specific construction; (packetMode) tells which DataIO to attach
static AbstractMessageIOGatewayRef make_gateway(const GwSpec & s, bool & packetMode, uint32 & mtu, bool asPeer = false)
{
   packetMode = false; mtu = 0;
   if ((s.kind == "mio")||(s.kind == "mioz"))
   {
      MessageIOGateway * g = new MessageIOGateway();
      g->SetMaxIncomingMessageSize(s.U(0, MUSCLE_NO_LIMIT));
      mtu = s.U(1, 0); packetMode = (mtu > 0);
      return AbstractMessageIOGatewayRef(g);
   }
   if (s.kind == "tmpl")
   {
      TemplatingMessageIOGateway * g = new TemplatingMessageIOGateway(s.U(1, 1024*1024));
      g->SetMaxIncomingMessageSize(s.U(0, MUSCLE_NO_LIMIT));
      return AbstractMessageIOGatewayRef(g);
   }
   if (s.kind == "ptun")
   {
      mtu = s.U(0, 1400);
      PacketTunnelIOGateway * g = new PacketTunnelIOGateway(make_slave(s.U(2, 0)), mtu);
      g->SetMaxIncomingMessageSize(s.U(1, MUSCLE_NO_LIMIT));
      if (s.U(4, 0)) g->SetAllowMiscIncomingData(true);
      packetMode = (s.U(3, 1) != 0);
      return AbstractMessageIOGatewayRef(g);
   }
   if (s.kind == "mptun")
   {
      mtu = s.U(0, 1400);
      MiniPacketTunnelIOGateway * g = new MiniPacketTunnelIOGateway(make_slave(s.U(1, 0)), mtu);
      if (s.U(3, 0)) g->SetAllowMiscIncomingData(true);
      packetMode = (s.U(2, 1) != 0);
      return AbstractMessageIOGatewayRef(g);
   }
   if (s.kind == "ws")
   {
      const bool isClient = asPeer ? (s.U(0, 0) == 0) : (s.U(0, 0) != 0);
      WebSocketMessageIOGateway * g = ((asPeer)||(s.U(1, 0) == 0)) ? new WebSocketMessageIOGateway(&isClient)
                                    : (isClient ? new WebSocketMessageIOGateway("/", "h", "", "") : new WebSocketMessageIOGateway());
      AbstractMessageIOGatewayRef slave = make_slave(s.U(2, 0));
      if (slave()) g->SetSlaveGateway(slave);
      return AbstractMessageIOGatewayRef(g);
   }
   if (s.kind == "text")
   {
      PlainTextMessageIOGateway * g = (s.U(0, 0) != 0) ? new TelnetPlainTextMessageIOGateway() : new PlainTextMessageIOGateway();
      g->SetFlushPartialIncomingLines(s.U(1, 0) != 0);
      mtu = s.U(2, 0); packetMode = (mtu > 0);
      return AbstractMessageIOGatewayRef(g);
   }
   if (s.kind == "raw")
   {
      mtu = s.U(2, 0); packetMode = (mtu > 0);
      return AbstractMessageIOGatewayRef(new RawDataMessageIOGateway(s.U(0, 0), s.U(1, MUSCLE_NO_LIMIT)));
   }
   if (s.kind == "slip") return AbstractMessageIOGatewayRef(new SLIPFramedDataMessageIOGateway());
   return AbstractMessageIOGatewayRef();
}

// what a sender gateway of the same kind puts on the wire for (msg)
static void sender_bytes_multi(const GwSpec & s, const std::vector<MessageRef> & msgs, std::vector<Bytes> & out);
static void sender_bytes(const GwSpec & s, const MessageRef & msg, std::vector<Bytes> & out)
{
   std::vector<MessageRef> v; v.push_back(msg);
   sender_bytes_multi(s, v, out);
}
static void sender_bytes_multi(const GwSpec & s, const std::vector<MessageRef> & msgs, std::vector<Bytes> & out)
{
   bool pm; uint32 mtu;
   AbstractMessageIOGatewayRef g = make_gateway(s, pm, mtu, true);   // for ws: the peer of the receiver under test
   if (g() == NULL) return;
   if (pm)
   {
      PacketIO pio(mtu);
      g()->SetDataIO(DummyDataIORef(pio));
      for (size_t m=0; m<msgs.size(); m++)
      {
         (void) g()->AddOutgoingMessage(msgs[m]);
         for (int i=0; (i<1000)&&(g()->HasBytesToOutput()); i++) if (g()->DoOutput().GetByteCount() < 0) break;
      }
      out = pio._packets;
      g()->SetDataIO(DataIORef());
   }
   else
   {
      ChunkIO cio;
      g()->SetDataIO(DummyDataIORef(cio));
      for (size_t m=0; m<msgs.size(); m++)
      {
         cio._written.clear();
         (void) g()->AddOutgoingMessage(msgs[m]);
         for (int i=0; (i<1000)&&(g()->HasBytesToOutput()); i++) if (g()->DoOutput().GetByteCount() < 0) break;
         out.push_back(cio._written);   // one chunk per Message
      }
      g()->SetDataIO(DataIORef());
   }
}

static MessageRef known_for_kind(const GwSpec & s)
{
   const uint32 slave = (s.kind == "ptun") ? s.U(2, 0) : ((s.kind == "mptun") ? s.U(1, 0) : ((s.kind == "ws") ? s.U(2, 0) : 0));
   if ((s.kind == "text")||(slave == 3)||((s.kind == "ws")&&(slave == 0)))
   {
      MessageRef m = GetMessageFromPool(PR_COMMAND_TEXT_STRINGS);
      (void) m()->AddString(PR_NAME_TEXT_LINE, "hello"); (void) m()->AddString(PR_NAME_TEXT_LINE, "world");
      return m;
   }
   if ((s.kind == "raw")||(s.kind == "slip")||(slave == 2))
   {
      MessageRef m = GetMessageFromPool(PR_COMMAND_RAW_DATA);
      (void) m()->AddData(PR_NAME_DATA_CHUNKS, B_RAW_TYPE, "\x01\xc0\xdb\x02", 4);
      return m;
   }
   return known_msg();
}

static const int MAX_DOINPUT_CALLS = 200000;

struct Feed
{
   AbstractMessageIOGatewayRef gw; bool pm; uint32 mtu; ChunkIO cio; PacketIO pio; QueueGatewayMessageReceiver rcv;
   Feed(const GwSpec & s) : pio(0) {gw = make_gateway(s, pm, mtu); pio._mtu = mtu; if (gw()) gw()->SetDataIO(pm ? DataIORef(DummyDataIORef(pio)) : DataIORef(DummyDataIORef(cio)));}
   ~Feed() {if (gw()) gw()->SetDataIO(DataIORef());}
   // hands one segment to the gateway and lets it read until it stops; returns false when the call budget ran out
   bool Give(const Bytes & seg)
   {
      if (pm)
      {
         pio.Set(seg);
         for (int i=0; i<MAX_DOINPUT_CALLS; i++) {if (gw()->DoInput(rcv).GetByteCount() <= 0) return true; if (!pio.Pending()) return true;}
         return false;
      }
      cio.Set(seg);
      for (int i=0; i<MAX_DOINPUT_CALLS; i++) {if (gw()->DoInput(rcv).GetByteCount() <= 0) return true;}
      return false;
   }
};

static void run_gw(int k, const GwSpec & s, const std::vector<Bytes> & segs, std::ostringstream & o, std::ostringstream & orc)
{
   const bool modelled = ((s.kind == "mio")&&(s.U(1, 0) == 0));
   Feed f(s);
   if (f.gw() == NULL) {o << k << " badgateway\n"; return;}
   long long total = 0; for (size_t i=0; i<segs.size(); i++) total += (long long) segs[i].size();
   MessageIOGateway * mio = (s.kind == "mio" || s.kind == "mioz" || s.kind == "tmpl") ? static_cast<MessageIOGateway *>(f.gw()) : NULL;
   const uint32 maxIn = mio ? mio->_maxIncomingMessageSize : MUSCLE_NO_LIMIT;
   uint32 delivered = 0;
   {
      Meter mt(total);
      for (size_t i=0; i<segs.size(); i++)
      {
         if (!f.Give(segs[i])) {orc << k << " ORACLE FAIL hang gw," << s.kind << ": DoInput() keeps reporting progress without consuming the segment\n"; break;}
         if ((mio)&&(!f.pm))
         {
            const ByteBuffer * bb = mio->_recvBuffer._buffer();
            const uint32 hs = mio->GetHeaderSize();
            // recv_buffer_sound, observed: the receive buffer never exceeds header + min(declared, allowed) body, and the write cursor stays inside it
            if (bb)
            {
               if (mio->_recvBuffer._offset > bb->GetNumBytes()) orc << k << " ORACLE FAIL recvbuf gw," << s.kind << ": receive offset beyond the receive buffer\n";
               if ((maxIn != MUSCLE_NO_LIMIT)&&((uint64) bb->GetNumBytes() > (uint64) hs + (uint64) std::max(maxIn, (uint32) 2048))) orc << k << " ORACLE FAIL recvbuf gw," << s.kind << ": receive buffer larger than header + max incoming size\n";
            }
            if (modelled)
            {
               while(f.rcv.GetMessages().HasItems())
               {
                  MessageRef m; (void) f.rcv.RemoveHead(m);
                  std::string d; if (m()) dump_msg(*m(), d, 0);
                  o << k << " m " << d << "\n"; delivered++;
               }
               o << k << " s" << i << " cons=" << f.cio.Consumed() << " cap=";
               if (bb) o << bb->GetNumBytes() << " off=" << mio->_recvBuffer._offset; else o << "- off=-";
               o << " err=" << (mio->GetUnrecoverableErrorStatus().IsError() ? 1 : 0) << " n=" << delivered << "\n";
            }
         }
         if (!modelled) while(f.rcv.GetMessages().HasItems()) {MessageRef m; (void) f.rcv.RemoveHead(m); if (m()) {delivered++; (void) m()->FlattenedSize();}}
      }
      // the allocation clause of the property is about the Message parsers; for the stream gateways whose receive
      // buffer is bounded by a configured maximum the same linear budget (plus that maximum) is checked
      g_budget += ((maxIn != MUSCLE_NO_LIMIT) ? (long long) maxIn : 0) + 1024*1024;
      const bool allocClause = (mio != NULL)&&(maxIn != MUSCLE_NO_LIMIT)&&(!f.pm);
      mt.report(orc, k, ("gw," + s.kind).c_str(), allocClause);
   }
   if (!modelled) o << k << " -\n";
   else if (segs.empty()) o << k << " s- n=0\n";

   // reuse: Reset(), then a valid stream from a sender of the same kind.  For the gateways whose Reset() is specified to
   // return the parser to its initial state (binary, templating, text, raw, SLIP in stream mode) the Message must be delivered;
   // for the others (tunnels keep per-source reassembly state, WebSocket has no Reset of its own) it must merely be survivable.
   {
      f.gw()->Reset();
      while(f.rcv.GetMessages().HasItems()) {MessageRef m; (void) f.rcv.RemoveHead(m);}
      const bool handshaking = ((s.kind == "ws")&&(s.U(1, 0) != 0));
      const bool textPacket  = ((s.kind == "text")&&(f.pm));   // its packet-mode sender is not usable as a source of valid streams
      if ((!handshaking)&&(!textPacket))
      {
         if (mio) mio->SetMaxIncomingMessageSize(MUSCLE_NO_LIMIT);
         const bool mustDeliver = (!f.pm)&&((s.kind == "mio")||(s.kind == "mioz")||(s.kind == "tmpl")||((s.kind == "text")&&(s.U(0, 0) == 0))||(s.kind == "raw")||(s.kind == "slip"));
         MessageRef km = known_for_kind(s);
         std::vector<Bytes> wire; sender_bytes(s, km, wire);
         bool any = false; for (size_t i=0; i<wire.size(); i++) if (!wire[i].empty()) any = true;
         if (any)
         {
            for (size_t i=0; i<wire.size(); i++) if (!wire[i].empty()) (void) f.Give(wire[i]);
            if ((mustDeliver)&&(f.rcv.GetMessages().IsEmpty())) orc << k << " ORACLE FAIL reuse gw," << s.kind << ": after Reset() a valid stream is not delivered\n";
         }
      }
   }
}

// ------------------------------------------------------------------------------------------ C gateways
struct CFeed {const Bytes * cur; size_t pos;};
static int32 c_recv(uint8 * buf, uint32 numBytes, void * arg)
{
   CFeed * f = (CFeed *) arg;
   const uint32 n = (uint32) std::min((size_t) numBytes, f->cur->size()-f->pos);
   if (n > 0) memcpy(buf, &(*f->cur)[f->pos], n);
   f->pos += n;
   return (int32) n;
}

static void run_minigw(int k, const std::vector<Bytes> & segs, std::ostringstream & o, std::ostringstream & orc)
{
   MMessageGateway * gw = MGAllocMessageGateway();
   long long total = 0; for (size_t i=0; i<segs.size(); i++) total += (long long) segs[i].size();
   bool dead = false;
   {
      Meter mt(total);
      for (size_t i=0; (i<segs.size())&&(!dead); i++)
      {
         CFeed f; f.cur = &segs[i]; f.pos = 0;
         for (int it=0; it<MAX_DOINPUT_CALLS; it++)
         {
            MMessage * got = NULL;
            const int32 r = MGDoInput(gw, (uint32)-1, c_recv, &f, &got);
            if (got) MMFreeMessage(got);
            if (r < 0) {dead = true; break;}
            if ((r == 0)&&(got == NULL)) break;
         }
      }
      mt.report(orc, k, "MGDoInput", false);
   }
   MGFreeMessageGateway(gw);
   o << k << " -\n";
}

static void run_microgw(int k, uint32 bufSize, const std::vector<Bytes> & segs, std::ostringstream & o, std::ostringstream & orc)
{
   if (bufSize < 16) bufSize = 16;
   uint8 * inBuf = (uint8 *) malloc(bufSize); uint8 * outBuf = (uint8 *) malloc(64);
   UMessageGateway gw; UGGatewayInitialize(&gw, inBuf, bufSize, outBuf, 64);
   long long total = 0; for (size_t i=0; i<segs.size(); i++) total += (long long) segs[i].size();
   bool dead = false; unsigned long sum = 0;
   {
      Meter mt(total);
      for (size_t i=0; (i<segs.size())&&(!dead); i++)
      {
         CFeed f; f.cur = &segs[i]; f.pos = 0;
         for (int it=0; it<MAX_DOINPUT_CALLS; it++)
         {
            UMessage got; UMInitializeToInvalid(&got);
            const int32 r = UGDoInput(&gw, (uint32)-1, c_recv, &f, &got);
            if (UMIsMessageValid(&got)) walk_umsg(&got, 0, sum);
            if (r < 0) {dead = true; break;}
            if ((r == 0)&&(!UMIsMessageValid(&got))) break;
         }
      }
      mt.report(orc, k, "UGDoInput", true);
   }
   free(inBuf); free(outBuf);
   o << k << " -\n";
   if (sum == 0x7fffffffUL) o << "";
}

// ------------------------------------------------------------------------------------------ watchdog
static volatile int g_curCase = -1;
static void on_alarm(int)
{
   char buf[128];
   const int n = snprintf(buf, sizeof(buf), "%d ORACLE FAIL hang: no result within the per-input watchdog\n", g_curCase);
   if (write(1, buf, n) < 0) {}
   _exit(97);
}

// The MicroMessage read API does not validate the buffer it is pointed at, so a large share of the malformed inputs ends in
// a sanitizer report.  Its cases run in a forked child: the report is turned into an ORACLE FAIL line of the case and the
// harness carries on (otherwise every such case would cost one restart of the whole run).
static std::string summarize_report(const std::string & err)
{
   std::string kind = "abnormal exit", fn = "?";
   size_t p = err.find("ERROR: AddressSanitizer: ");
   if (p != std::string::npos)
   {
      p += 25; size_t e = p; while((e < err.size())&&(err[e] != ' ')&&(err[e] != '\n')&&(err[e] != ':')) e++;
      kind = "ASan " + err.substr(p, e-p);
   }
   else if ((p = err.find("runtime error: ")) != std::string::npos) {size_t e = err.find('\n', p); kind = "UBSan " + err.substr(p+15, std::min((size_t) 60, e-p-15));}
   else if ((p = err.find("ASSERTION FAILED")) != std::string::npos) {size_t e = err.find('\n', p); kind = err.substr(p, std::min((size_t) 100, e-p));}
   size_t q = 0;
   while((q = err.find(" in ", q)) != std::string::npos)
   {
      q += 4; size_t e = q; while((e < err.size())&&(err[e] != ' ')&&(err[e] != '\n')&&(err[e] != '(')) e++;
      const std::string f = err.substr(q, e-q);
      if ((f.size() > 1)&&(f.compare(0, 2, "__") != 0)&&(f.find("interceptor") == std::string::npos)&&(f.find("sanitizer") == std::string::npos)&&(f != "main")) {fn = f; break;}
   }
   for (size_t i=0; i<kind.size(); i++) if ((kind[i] == '(')||(kind[i] == ')')) kind[i] = ' ';
   return kind + " in " + fn;
}

// The parsers never block, so "hangs" means "burns CPU without producing a result":  the watchdog counts the CPU time
// of this process (ITIMER_PROF), which a loaded machine does not inflate, with a wall-clock backstop fifteen times longer.
static void arm_watchdog(unsigned seconds)
{
   struct itimerval it; memset(&it, 0, sizeof(it));
   it.it_value.tv_sec = seconds;
   (void) setitimer(ITIMER_PROF, &it, NULL);
   alarm(seconds*15);
}

template<class F> static void isolated(int k, const char * what, unsigned watchdog, F body)
{
   fflush(stdout);
   int pe[2]; if (pipe(pe) != 0) {printf("%d -\n%d ORACLE FAIL crash %s: pipe failed\n", k, k, what); return;}
   const pid_t pid = fork();
   if (pid == 0)
   {
      close(pe[0]); dup2(pe[1], 2); close(pe[1]);
      arm_watchdog(watchdog);
      std::ostringstream o, orc;
      body(o, orc);
      fputs(o.str().c_str(), stdout); fputs(orc.str().c_str(), stdout); fflush(stdout);
      _exit(0);
   }
   close(pe[1]);
   std::string err; char buf[4096]; ssize_t n;
   while((n = read(pe[0], buf, sizeof(buf))) > 0) if (err.size() < 200000) err.append(buf, (size_t) n);
   close(pe[0]);
   int st = 0; (void) waitpid(pid, &st, 0);
   if (!((WIFEXITED(st))&&(WEXITSTATUS(st) == 0)))
   {
      if ((WIFEXITED(st))&&(WEXITSTATUS(st) == 97)) printf("%d -\n", k);   // the watchdog already printed its ORACLE line
      else printf("%d -\n%d ORACLE FAIL crash %s: %s\n", k, k, what, summarize_report(err).c_str());
   }
   fflush(stdout);
}

int main(int, char **)
{
   CompleteSetupSystem css;
   SetConsoleLogToStderr(true);
   SetConsoleLogLevel(MUSCLE_LOG_CRITICALERROR);   // "ASSERTION FAILED: ..." lines identify a deliberate abort (MCRASH)
   signal(SIGALRM, on_alarm);
   signal(SIGPROF, on_alarm);
   (void) __sanitizer_install_malloc_and_free_hooks(malloc_hook, free_hook);
   {bool ok; MessageRef km = known_msg(); g_knownFlat = flatten_exact(*km(), ok);}
   // warm the object pools so their first slabs are not charged to the first case
   {Message w; ExactBuf kb(g_knownFlat); (void) w.UnflattenFromBytes(kb.p, kb.n); MessageRef r = GetMessageFromPool(); ByteBufferRef b = GetByteBufferFromPool(16);}

   const unsigned watchdog = getenv("C02_WATCHDOG") ? (unsigned) atoi(getenv("C02_WATCHDOG")) : 20;
   std::string line; int k = -1;
   while(std::getline(std::cin, line))
   {
      k++;
      const size_t bar = line.find('|');
      if (bar == std::string::npos) {printf("%d badcase\n", k); fflush(stdout); continue;}
      std::vector<std::string> head = split(line.substr(0, bar), ',');
      std::vector<std::string> chunkHex = split(line.substr(bar+1), ';');
      std::vector<Bytes> segs; Bytes all;
      for (size_t i=0; i<chunkHex.size(); i++) {if (chunkHex[i].empty()) continue; Bytes b = unhex(chunkHex[i]); all.insert(all.end(), b.begin(), b.end()); segs.push_back(b);}
      std::ostringstream o, orc;
      g_curCase = k;
      arm_watchdog(watchdog);
      const std::string & t = head[0];
      const bool mustAccept = ((head.size() > 1)&&(head[1] == "v"));
      if (t == "msg") run_msg(k, all, o, orc, true, mustAccept);
      else if (t == "tmsg") run_tmsg(k, unhex(head.size() > 1 ? head[1] : ""), all, o, orc);
      else if (t == "nest")
      {
         const uint32 depth = (head.size() > 1) ? (uint32) strtoul(head[1].c_str(), NULL, 10) : 1;
         const int claim = (head.size() > 2) ? atoi(head[2].c_str()) : 0;
         run_msg(k, build_nest(depth, claim, all), o, orc);
      }
      else if (t == "mini") run_mini(k, all, o, orc, mustAccept);
      else if (t == "micro")
      {
         arm_watchdog(0);
         isolated(k, "micro", watchdog, [&](std::ostringstream & co, std::ostringstream & corc) {run_micro(k, all, co, corc, mustAccept);});
      }
      else if (t == "minigw") run_minigw(k, segs, o, orc);
      else if (t == "microgw")
      {
         arm_watchdog(0);
         const uint32 bs = (head.size() > 1) ? (uint32) strtoul(head[1].c_str(), NULL, 10) : 256;
         isolated(k, "microgw", watchdog, [&](std::ostringstream & co, std::ostringstream & corc) {run_microgw(k, bs, segs, co, corc);});
      }
      else if ((t == "gw")&&(head.size() > 1))
      {
         GwSpec s; s.kind = head[1]; for (size_t i=2; i<head.size(); i++) s.a.push_back(head[i]);
         run_gw(k, s, segs, o, orc);
      }
      else if ((t == "emit")&&(head.size() > 1))
      {
         // generator support: what a sender gateway of this kind puts on the wire for the given flattened Messages
         GwSpec s; s.kind = head[1]; for (size_t i=2; i<head.size(); i++) s.a.push_back(head[i]);
         std::vector<MessageRef> msgs;
         for (size_t i=0; i<segs.size(); i++) {MessageRef m = GetMessageFromPool(&segs[i][0], (uint32) segs[i].size()); if (m()) msgs.push_back(m);}
         std::vector<Bytes> wire; sender_bytes_multi(s, msgs, wire);
         o << k << " w";
         for (size_t i=0; i<wire.size(); i++) o << (i ? ";" : " ") << (wire[i].empty() ? "" : hex(&wire[i][0], wire[i].size()));
         o << "\n";
      }
      else o << k << " badtarget\n";
      arm_watchdog(0);
      fputs(o.str().c_str(), stdout);
      fputs(orc.str().c_str(), stdout);
      fflush(stdout);
   }
   return 0;
}
