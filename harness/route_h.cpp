// C05 harness: routing of client-to-client Messages and pattern-directed traversals on a real in-process
// muscle::ReflectServer (StorageReflectSession sessions on socket pairs, see refl_common.h).
//
// One case per stdin line:   <label>|op;op;op...        fields ':'  items '&'  filter '@'
//   a:HOST                    attach one more session (index = id string = number of sessions attached so far) under host node HOST
//   d:K                       close client K's connection (the server detaches session K)
//   s:K:F:path=v&path=v       PR_COMMAND_SETDATA, F = SETDATANODE_FLAG_* bits, relative literal paths, int32 payload field "v"
//   r:K:Q:pat@f&pat           PR_COMMAND_REMOVEDATA (Q=1: quietly), patterns relative to the session node
//   sp:K:FLAGS:keys:filters   PR_COMMAND_SETPARAMETERS; FLAGS over R (PR_NAME_REFLECT_TO_SELF) G (..GATEWAY_TO_NEIGHBORS) N (..NEIGHBORS_TO_GATEWAY),
//                             keys -> PR_NAME_KEYS strings (default route), filters -> PR_NAME_FILTERS Messages ('-' = an empty Message)
//   rp:K:NAMES                PR_COMMAND_REMOVEPARAMETERS of the literal names R G N K(eys) F(ilters)
//   rw:K:PATTERN              PR_COMMAND_REMOVEPARAMETERS with one wildcard pattern over the parameter names (matched against every name in
//                             _parameters; a unique pattern goes straight to RemoveParameter)
//   m:K:WHAT:keys:filters:S   a Message with what code WHAT, int32 field "tag" = index of this op, optional PR_NAME_KEYS / PR_NAME_FILTERS,
//                             session field S:  -  absent | I  an int32 field | S<v>&<v>  string values
//   q:K:WHAT:keys:filters:S   the same, but queued on the client's gateway without pumping and without an output line (bursts; the
//                             deliveries show up in the line of the next op)
//   t:K:ROOT:U:MAX:keys:filters   NodePathMatcher::DoTraversal driven directly: patterns from PutPathsFromMessage, ROOT g = global root with the
//                             "*/*" prefix rule, s = session K's node without prefix; U = useFilters; the callback collects the node and
//                             returns its depth, or -1 once MAX (>= 0) nodes are collected (= FindNodesCallback)
//   fn:K:MAX:path@f           StorageReflectSession::FindMatchingNodes(path, filter, results, MAX)
//   fs:K:SELF:MAX:path@f      StorageReflectSession::FindMatchingSessions(path, filter, results, SELF, MAX)
// key "%" stands for the empty string.   filter f:  g<n> (v > n)   l<n> (v < n)   e<n> (v == n)   x (field v exists)
//
// After every op but q the server is pumped to quiescence and one line is printed:
//   k j code M{per client: tag/sessionfield of the tagged Messages received}  R{result of t/fn/fs}  T{true tree, DFS, payload}
//       P{per session: routing flags | routing-related names in _parameters | default route keys | its filters | _defaultMessageRoute entries}
// plus, when the property's own statement fails on the implementation,   k ORACLE FAIL <what> op#j <detail>
// The oracle is independent of the Coq model:
//   traversal   (t without MAX) the visit list has no duplicates and is, as a set, the nodes below ROOT accepted by a plain
//               muscle::PathMatcher::MatchesPath over the same keys/filters; with MAX it is a duplicate-free subset of min(MAX, all) nodes
//   delivery    a tagged Message is received exactly once by every live session other than the sender (the sender too iff it asked for
//               reflect-to-self) that owns >= 1 node accepted by MatchesPath over the Message's keys -- or over the default route the sender
//               last set and did not remove, when the Message has no keys --, by nobody else; without keys and default route by all other
//               sessions; always subject to the two gateway/neighbour flags as the clients set them
//   sender      a string-typed PR_NAME_SESSION field of a received Message starts with the true sender's id
//   fifo        tags from one sender arrive in the order sent
#include "refl_common.h"
#include "regex/PathMatcher.h"
#include "regex/QueryFilter.h"
#include "regex/StringMatcher.h"

using namespace muscle;
using namespace refl;

static int g_nextId = 0;
static std::string g_nextHost = "h";

// session ids restart at 0 in every case and the host node name is chosen by the case (GenerateHostName is the documented hook)
class RSession : public StorageReflectSession
{
public:
   RSession()
   {
      char b[32]; snprintf(b, sizeof(b), "%d", g_nextId);
      _sessionID = (uint32) g_nextId; _idString = b; g_nextId++;
      _host = g_nextHost.c_str();
   }
   virtual String GenerateHostName(const IPAddress &, const String &) const {return _host;}
   virtual const char * GetTypeName() const {return "RSession";}
   String _host;
};
DECLARE_REFTYPES(RSession);

typedef World<RSession> W;

static std::string itos(long v) {std::ostringstream o; o << v; return o.str();}
static std::vector<std::string> Items(const std::string & s) {return s.empty() ? std::vector<std::string>() : Split(s, '&');}
static std::string KeyText(const std::string & s) {return (s == "%") ? std::string("") : s;}

static ConstQueryFilterRef MkFilter(const std::string & f)
{
   if ((f.empty())||(f == "-")) return ConstQueryFilterRef();
   if (f == "x") return ConstQueryFilterRef(new ValueExistsQueryFilter("v"));
   const int32 n = (int32) atol(f.c_str()+1);
   uint8 op = Int32QueryFilter::OP_EQUAL_TO;
   if (f[0] == 'g') op = Int32QueryFilter::OP_GREATER_THAN;
   if (f[0] == 'l') op = Int32QueryFilter::OP_LESS_THAN;
   return ConstQueryFilterRef(new Int32QueryFilter("v", op, n));
}

static std::string FilterSpec(const QueryFilter * qf)
{
   if (qf == NULL) return "";
   const Int32QueryFilter * i = dynamic_cast<const Int32QueryFilter *>(qf);
   if (i)
   {
      const char c = (i->GetOperator() == Int32QueryFilter::OP_GREATER_THAN) ? 'g' : ((i->GetOperator() == Int32QueryFilter::OP_LESS_THAN) ? 'l' : 'e');
      return std::string(1, c) + itos(i->GetValue());
   }
   if (dynamic_cast<const ValueExistsQueryFilter *>(qf)) return "x";
   return "?";
}

static void SplitSub(const std::string & s, std::string & pat, std::string & flt)
{
   const size_t at = s.find('@');
   if (at == std::string::npos) {pat = s; flt = "";} else {pat = s.substr(0, at); flt = s.substr(at+1);}
}

static std::string Payload(const Message * m)
{
   int32 v;
   if ((m)&&(m->FindInt32("v", v).IsOK())) return itos(v);
   return "-";
}

static void AddKeysAndFilters(Message & m, const std::string & keys, const std::string & filters)
{
   std::vector<std::string> ks = Items(keys), fs = Items(filters);
   for (size_t i=0; i<ks.size(); i++) (void) m.AddString(PR_NAME_KEYS, KeyText(ks[i]).c_str());
   for (size_t i=0; i<fs.size(); i++)
   {
      MessageRef fm = MkMsg(0);
      ConstQueryFilterRef qf = MkFilter(fs[i]);
      if (qf()) (void) qf()->SaveToArchive(*fm());
      (void) m.AddMessage(PR_NAME_FILTERS, fm);
   }
}

struct Dumper
{
   Dumper(std::ostringstream & oo) : o(oo), first(true) {}
   void operator()(DataNode & n)
   {
      if (n.GetDepth() == 0) return;
      String np; (void) n.GetNodePath(np);
      if (!first) o << " ";
      first = false;
      o << np() << "=" << Payload(n.GetData()());
   }
   std::ostringstream & o; bool first;
};

struct Collector
{
   std::vector<DataNode *> nodes;
   void operator()(DataNode & n) {if (n.GetDepth() > 0) nodes.push_back(&n);}
};

struct TravData {long max; std::vector<DataNode *> got;};

static int TravCallback(StorageReflectSession *, DataNode & node, void * ud)
{
   TravData * d = static_cast<TravData *>(ud);
   d->got.push_back(&node);
   return ((d->max >= 0)&&((long)d->got.size() == d->max)) ? -1 : (int) node.GetDepth();
}

// what each client asked for, as the client itself knows it (the oracle never looks at server-side state for this)
struct ClientView
{
   ClientView() : reflect(false), gw2nb(true), nb2gw(true), setR(false), setG(false), setN(false), hasKeys(false), hasFlts(false) {}
   bool reflect, gw2nb, nb2gw;     // effective flags: defaults, then SETPARAMETERS / REMOVEPARAMETERS of names it had set
   bool setR, setG, setN;          // names this client has set as parameters
   bool hasKeys, hasFlts;
   std::string keys, filters;      // the default route it set
};

static std::string PathOf(DataNode & n) {String np; (void) n.GetNodePath(np); return np();}

// index of the live session that owns the node (second path component = id string), or -1
static int OwnerOf(W & w, DataNode & n)
{
   if (n.GetDepth() < NODE_DEPTH_SESSIONNAME) return -1;
   DataNode * a = n.GetAncestorNode(NODE_DEPTH_SESSIONNAME, NULL);
   if (a == NULL) return -1;
   const std::string nm = a->GetNodeName()();
   for (size_t k=0; k<w.NumSessions(); k++) if ((w.alive(k))&&(nm == itos((long)k))) return (int)k;
   return -1;
}

struct Sent {int K; int tag; uint32 what; bool hasKeys; std::string keys, filters;};

static void RunCase(long k, const std::string & line)
{
   const size_t bar = line.find('|');
   if (bar == std::string::npos) return;
   std::vector<std::string> ops = Split(line.substr(bar+1), ';');
   g_nextId = 0;
   W w;
   std::vector<ClientView> cv;
   std::vector<Sent> burst;      // tagged Messages sent since the last pump
   int j = -1;
   for (size_t oi=0; oi<ops.size(); oi++)
   {
      if (ops[oi].empty()) continue;
      j++;
      std::vector<std::string> f = Split(ops[oi], ':');
      while(f.size() < 8) f.push_back("");
      const std::string code = f[0];
      const int K = (!f[1].empty() && (f[1].find_first_not_of("0123456789") == std::string::npos)) ? atoi(f[1].c_str()) : -1;
      bool valid = true;
      std::string result;
      bool travOracle = false; TravData td; td.max = -1; Message travKeys; bool travGlob = true; bool travUse = true; int travK = -1;

      if (code == "a")
      {
         g_nextHost = f[1].empty() ? std::string("h") : f[1];
         (void) w.AddSession();
         cv.push_back(ClientView());
      }
      else if ((K < 0)||(K >= (int)w.NumSessions())||(!w.alive(K))||(!w.client(K).sock())) valid = false;
      else if (code == "d") w.CloseClient(K);
      else if (code == "s")
      {
         MessageRef m = MkMsg(PR_COMMAND_SETDATA);
         const uint32 flags = (uint32) atol(f[2].c_str());
         std::vector<std::string> items = Items(f[3]);
         for (size_t i=0; i<items.size(); i++)
         {
            const size_t eq = items[i].find('=');
            MessageRef d = MkMsg(0);
            if (eq != std::string::npos) (void) d()->AddInt32("v", (int32) atol(items[i].c_str()+eq+1));
            (void) m()->AddMessage(items[i].substr(0, eq).c_str(), d);
         }
         if (flags) (void) m()->AddInt32(PR_NAME_FLAGS, (int32) flags);
         w.client(K).Send(m);
      }
      else if (code == "r")
      {
         MessageRef m = MkMsg(PR_COMMAND_REMOVEDATA);
         if (f[2] == "1") (void) m()->AddBool(PR_NAME_REMOVE_QUIETLY, true);
         std::vector<std::string> pats = Items(f[3]);
         for (size_t i=0; i<pats.size(); i++)
         {
            std::string pat, flt; SplitSub(pats[i], pat, flt);
            (void) m()->AddString(PR_NAME_KEYS, KeyText(pat).c_str());
            MessageRef fm = MkMsg(0);
            ConstQueryFilterRef qf = MkFilter(flt);
            if (qf()) (void) qf()->SaveToArchive(*fm());
            (void) m()->AddMessage(PR_NAME_FILTERS, fm);
         }
         w.client(K).Send(m);
      }
      else if (code == "sp")
      {
         MessageRef m = MkMsg(PR_COMMAND_SETPARAMETERS);
         ClientView & me = cv[K];
         if (f[2].find('R') != std::string::npos) {(void) m()->AddBool(PR_NAME_REFLECT_TO_SELF, true);            me.reflect = true; me.setR = true;}
         if (f[2].find('G') != std::string::npos) {(void) m()->AddBool(PR_NAME_ROUTE_GATEWAY_TO_NEIGHBORS, true); me.gw2nb   = true; me.setG = true;}
         if (f[2].find('N') != std::string::npos) {(void) m()->AddBool(PR_NAME_ROUTE_NEIGHBORS_TO_GATEWAY, true); me.nb2gw   = true; me.setN = true;}
         AddKeysAndFilters(*m(), f[3], f[4]);
         if (!Items(f[3]).empty()) {me.hasKeys = true; me.keys = f[3];}
         if (!Items(f[4]).empty()) {me.hasFlts = true; me.filters = f[4];}
         w.client(K).Send(m);
      }
      else if (code == "rp")
      {
         MessageRef m = MkMsg(PR_COMMAND_REMOVEPARAMETERS);
         ClientView & me = cv[K];
         for (size_t i=0; i<f[2].size(); i++)
         {
            switch(f[2][i])
            {
               case 'R': (void) m()->AddString(PR_NAME_KEYS, PR_NAME_REFLECT_TO_SELF);            if (me.setR) {me.reflect = false; me.setR = false;} break;
               case 'G': (void) m()->AddString(PR_NAME_KEYS, PR_NAME_ROUTE_GATEWAY_TO_NEIGHBORS); if (me.setG) {me.gw2nb   = false; me.setG = false;} break;
               case 'N': (void) m()->AddString(PR_NAME_KEYS, PR_NAME_ROUTE_NEIGHBORS_TO_GATEWAY); if (me.setN) {me.nb2gw   = false; me.setN = false;} break;
               case 'K': (void) m()->AddString(PR_NAME_KEYS, PR_NAME_KEYS);    me.hasKeys = false; me.keys.clear();    break;
               case 'F': (void) m()->AddString(PR_NAME_KEYS, PR_NAME_FILTERS); me.hasFlts = false; me.filters.clear(); break;
               default: break;
            }
         }
         w.client(K).Send(m);
      }
      else if (code == "rw")
      {
         MessageRef m = MkMsg(PR_COMMAND_REMOVEPARAMETERS);
         (void) m()->AddString(PR_NAME_KEYS, f[2].c_str());
         ClientView & me = cv[K];
         StringMatcher sm;
         if (sm.SetPattern(f[2].c_str()).IsOK())
         {
            if ((sm.Match(PR_NAME_REFLECT_TO_SELF))&&(me.setR)) {me.reflect = false; me.setR = false;}
            if ((sm.Match(PR_NAME_ROUTE_GATEWAY_TO_NEIGHBORS))&&(me.setG)) {me.gw2nb = false; me.setG = false;}
            if ((sm.Match(PR_NAME_ROUTE_NEIGHBORS_TO_GATEWAY))&&(me.setN)) {me.nb2gw = false; me.setN = false;}
            if (sm.Match(PR_NAME_KEYS))    {me.hasKeys = false; me.keys.clear();}
            if (sm.Match(PR_NAME_FILTERS)) {me.hasFlts = false; me.filters.clear();}
         }
         w.client(K).Send(m);
      }
      else if ((code == "m")||(code == "q"))
      {
         const uint32 what = (uint32) strtoul(f[2].c_str(), NULL, 10);
         MessageRef m = MkMsg(what);
         (void) m()->AddInt32("tag", (int32) j);
         AddKeysAndFilters(*m(), f[3], f[4]);
         if (f[5] == "I") (void) m()->AddInt32(PR_NAME_SESSION, 99);
         else if ((!f[5].empty())&&(f[5][0] == 'S'))
         {
            std::vector<std::string> vs = Split(f[5].substr(1), '&');
            for (size_t i=0; i<vs.size(); i++) (void) m()->AddString(PR_NAME_SESSION, vs[i].c_str());
         }
         w.client(K).Send(m);
         Sent s; s.K = K; s.tag = j; s.what = what; s.hasKeys = !Items(f[3]).empty(); s.keys = f[3]; s.filters = f[4];
         burst.push_back(s);
         if (code == "q") continue;   // no pump, no line
      }
      else if (code == "t")
      {
         travGlob = (f[2] != "s"); travUse = (f[3] == "1"); travK = K;
         td.max = f[4].empty() ? -1 : atol(f[4].c_str());
         AddKeysAndFilters(travKeys, f[5], f[6]);
         RSession & s = w.session(K);
         StorageReflectSession::NodePathMatcher matcher;
         (void) matcher.PutPathsFromMessage(PR_NAME_KEYS, PR_NAME_FILTERS, travKeys, travGlob ? "*/*" : NULL);
         (void) matcher.DoTraversal(TravCallback, &s, travGlob ? s.GetGlobalRoot() : *s._sessionDir(), travUse, &td);
         for (size_t i=0; i<td.got.size(); i++) {if (i) result += ","; result += PathOf(*td.got[i]);}
         travOracle = true;
      }
      else if (code == "fn")
      {
         std::string pat, flt; SplitSub(f[3], pat, flt);
         const long mx = f[2].empty() ? -1 : atol(f[2].c_str());
         Queue<DataNodeRef> res;
         (void) w.session(K).FindMatchingNodes(KeyText(pat).c_str(), MkFilter(flt), res, (mx < 0) ? MUSCLE_NO_LIMIT : (uint32) mx);
         for (uint32 i=0; i<res.GetNumItems(); i++) {if (i) result += ","; result += PathOf(*res[i]());}
         // the same traversal seen by the oracle
         travGlob = ((!KeyText(pat).empty())&&(KeyText(pat)[0] == '/')); travUse = true; travK = K; td.max = mx;
         (void) travKeys.AddString(PR_NAME_KEYS, KeyText(pat).c_str());
         {MessageRef fm = MkMsg(0); ConstQueryFilterRef qf = MkFilter(flt); if (qf()) (void) qf()->SaveToArchive(*fm()); (void) travKeys.AddMessage(PR_NAME_FILTERS, fm);}
         for (uint32 i=0; i<res.GetNumItems(); i++) td.got.push_back(res[i]());
         travOracle = true;
         if (!travGlob) {/* FindMatchingNodes uses no prefix for relative paths: same rule as ROOT s */}
      }
      else if (code == "fs")
      {
         std::string pat, flt; SplitSub(f[4], pat, flt);
         const long mx = f[3].empty() ? -1 : atol(f[3].c_str());
         Hashtable<const String *, AbstractReflectSessionRef> res;
         (void) w.session(K).FindMatchingSessions(KeyText(pat).c_str(), MkFilter(flt), res, (f[2] == "1"), (mx < 0) ? MUSCLE_NO_LIMIT : (uint32) mx);
         bool first = true;
         for (HashtableIterator<const String *, AbstractReflectSessionRef> it(res); it.HasData(); it++)
         {
            if (!first) result += ",";
            first = false;
            result += (*it.GetKey())();
         }
      }
      else valid = false;

      const int rounds = w.Pump();
      if (rounds >= 2000) printf("%ld ORACLE FAIL no-quiescence op#%d\n", k, j);

      // ---- what every client received
      std::vector<std::vector<std::pair<int,std::string> > > got(w.NumSessions());   // (tag, field text)
      std::vector<std::vector<std::string> > firstVal(w.NumSessions());
      std::ostringstream o;
      o << j << " " << code << (valid ? "" : "!") << " M{";
      bool firstc = true;
      for (size_t ci=0; ci<w.NumSessions(); ci++)
      {
         Client & cl = w.client(ci);
         std::ostringstream mo;
         for (size_t mi=0; mi<cl.inbox.size(); mi++)
         {
            const Message * m = cl.inbox[mi]();
            int32 tag;
            if ((m == NULL)||(m->FindInt32("tag", tag).IsError())) continue;
            std::string fld = "-", fv;
            if (m->HasName(PR_NAME_SESSION, B_STRING_TYPE))
            {
               fld = "S";
               const String * s;
               for (int32 i=0; m->FindString(PR_NAME_SESSION, i, &s).IsOK(); i++) {if (i) fld += "&"; fld += s->Cstr(); if (i == 0) fv = s->Cstr();}
            }
            else if (m->HasName(PR_NAME_SESSION)) fld = "I";
            if (!got[ci].empty()) mo << ",";
            mo << tag << "/" << fld;
            got[ci].push_back(std::make_pair((int)tag, fld));
            firstVal[ci].push_back(fv);
         }
         cl.inbox.clear();
         if (!mo.str().empty()) {if (!firstc) o << " "; firstc = false; o << "c" << ci << ":" << mo.str();}
      }
      o << "} R{" << result << "} T{";

      int liveIdx = -1;
      for (size_t ci=0; ci<w.NumSessions(); ci++) if (w.alive(ci)) {liveIdx = (int)ci; break;}
      Collector col;
      if (liveIdx >= 0)
      {
         Dumper d(o);
         WalkTree(w.session(liveIdx).GetGlobalRoot(), d);
         WalkTree(w.session(liveIdx).GetGlobalRoot(), col);
      }
      o << "} P{";
      bool firstp = true;
      for (size_t ci=0; ci<w.NumSessions(); ci++) if (w.alive(ci))
      {
         RSession & s = w.session(ci);
         if (!firstp) o << " ";
         firstp = false;
         o << ci << "[" << (s.IsRoutingFlagSet(MUSCLE_ROUTING_FLAG_REFLECT_TO_SELF) ? "R" : "-")
                        << (s.IsRoutingFlagSet(MUSCLE_ROUTING_FLAG_GATEWAY_TO_NEIGHBORS) ? "G" : "-")
                        << (s.IsRoutingFlagSet(MUSCLE_ROUTING_FLAG_NEIGHBORS_TO_GATEWAY) ? "N" : "-") << "|";
         if (s._parameters.HasName(PR_NAME_REFLECT_TO_SELF)) o << "R";
         if (s._parameters.HasName(PR_NAME_ROUTE_GATEWAY_TO_NEIGHBORS)) o << "G";
         if (s._parameters.HasName(PR_NAME_ROUTE_NEIGHBORS_TO_GATEWAY)) o << "N";
         if (s._parameters.HasName(PR_NAME_KEYS)) o << "K";
         if (s._parameters.HasName(PR_NAME_FILTERS)) o << "F";
         o << "|";
         const String * ks;
         for (int32 i=0; s._defaultMessageRouteMessage.FindString(PR_NAME_KEYS, i, &ks).IsOK(); i++)
         {
            String adj = *ks; s._defaultMessageRoute.AdjustStringPrefix(adj, "*/*");
            if (i) o << "&";
            o << adj();
         }
         o << "|";
         ConstMessageRef fm;
         for (int32 i=0; s._defaultMessageRouteMessage.FindMessage(PR_NAME_FILTERS, i, fm).IsOK(); i++)
         {
            ConstQueryFilterRef qf = GetGlobalQueryFilterFactory()()->CreateQueryFilter(*fm());
            if (i) o << "&";
            o << (qf() ? FilterSpec(qf()) : std::string("-"));
         }
         o << "|";
         bool fg = true;
         for (ConstHashtableIterator<uint32, Hashtable<String, PathMatcherEntry> > it(s._defaultMessageRoute.GetEntries()); it.HasData(); it++)
         {
            if (!fg) o << "|";
            fg = false;
            o << it.GetKey() << ":";
            bool fe = true;
            for (ConstHashtableIterator<String, PathMatcherEntry> e(it.GetValue()); e.HasData(); e++)
            {
               if (!fe) o << ",";
               fe = false;
               o << e.GetKey()();
               if (e.GetValue().GetFilter()()) o << "@" << FilterSpec(e.GetValue().GetFilter()());
            }
         }
         o << "]";
      }
      o << "}";
      printf("%ld %s\n", k, o.str().c_str());

      // ---- oracle: traversal == brute force
      if ((travOracle)&&(travK >= 0)&&(w.alive(travK)))
      {
         RSession & s = w.session(travK);
         PathMatcher pm;
         (void) pm.PutPathsFromMessage(PR_NAME_KEYS, PR_NAME_FILTERS, travKeys, travGlob ? "*/*" : NULL);
         const std::string rootPath = travGlob ? std::string("") : PathOf(*s._sessionDir());
         std::set<std::string> expect;
         for (size_t ni=0; ni<col.nodes.size(); ni++)
         {
            DataNode & n = *col.nodes[ni];
            const std::string np = PathOf(n);
            if (np.compare(0, rootPath.size()+1, rootPath+"/") != 0) continue;    // strictly below the root of the traversal
            const std::string rel = np.substr(rootPath.size());                  // "/a/b" relative to the root
            if (pm.MatchesPath(rel.c_str(), travUse ? n.GetData()() : NULL, &n)) expect.insert(np);
         }
         std::set<std::string> seen;
         std::string why;
         for (size_t i=0; (why.empty())&&(i<td.got.size()); i++)
         {
            const std::string np = PathOf(*td.got[i]);
            if (!seen.insert(np).second) why = "traversal-duplicate op#" + itos(j) + " " + np;
            else if (expect.find(np) == expect.end()) why = "traversal-extra op#" + itos(j) + " " + np + " (MatchesPath rejects it)";
         }
         if (why.empty())
         {
            if (td.max < 0)
            {
               for (std::set<std::string>::const_iterator it = expect.begin(); (why.empty())&&(it != expect.end()); ++it)
                  if (seen.find(*it) == seen.end()) why = "traversal-missing op#" + itos(j) + " " + *it + " (MatchesPath accepts it)";
            }
            else if (td.max > 0)
            {
               const size_t want = std::min((size_t)td.max, expect.size());
               if (seen.size() != want) why = "traversal-count op#" + itos(j) + " got " + itos((long)seen.size()) + " want " + itos((long)want);
            }
         }
         if (!why.empty()) printf("%ld ORACLE FAIL %s\n", k, why.c_str());
      }

      // ---- oracle: delivery of the tagged Messages sent since the last pump
      for (size_t bi=0; bi<burst.size(); bi++)
      {
         const Sent & sm = burst[bi];
         std::string why;
         const bool isCommand = ((sm.what >= (uint32)BEGIN_PR_COMMANDS)&&(sm.what <= (uint32)END_PR_COMMANDS));
         std::set<int> expect;
         if (!isCommand)
         {
            const ClientView & me = cv[sm.K];
            if ((sm.hasKeys)||(me.hasKeys))
            {
               Message km; AddKeysAndFilters(km, sm.hasKeys ? sm.keys : me.keys, sm.hasKeys ? sm.filters : (me.hasFlts ? me.filters : std::string("")));
               PathMatcher pm;
               (void) pm.PutPathsFromMessage(PR_NAME_KEYS, PR_NAME_FILTERS, km, "*/*");
               for (size_t ni=0; ni<col.nodes.size(); ni++)
               {
                  DataNode & n = *col.nodes[ni];
                  const int owner = OwnerOf(w, n);
                  if (owner < 0) continue;
                  if (pm.MatchesPath(PathOf(n).c_str(), n.GetData()(), &n)) expect.insert(owner);
               }
            }
            else if (me.gw2nb) for (size_t r=0; r<w.NumSessions(); r++) if (w.alive(r)) expect.insert((int)r);
            if (!me.reflect) expect.erase(sm.K);
            for (size_t r=0; r<w.NumSessions(); r++) if (((int)r != sm.K)&&(!cv[r].nb2gw)) expect.erase((int)r);
         }
         for (size_t r=0; (why.empty())&&(r<w.NumSessions()); r++)
         {
            int cnt = 0;
            for (size_t i=0; i<got[r].size(); i++) if (got[r][i].first == sm.tag)
            {
               cnt++;
               if ((got[r][i].second[0] == 'S')&&(firstVal[r][i] != itos((long)sm.K)))
                  why = "sender-field op#" + itos(sm.tag) + " c" + itos((long)r) + " names " + firstVal[r][i] + " true sender " + itos((long)sm.K);
            }
            const bool want = (expect.find((int)r) != expect.end())&&(w.alive(r));
            if (!why.empty()) break;
            if ((want)&&(cnt == 0)) why = "delivery-missing op#" + itos(sm.tag) + " c" + itos((long)r);
            else if ((want)&&(cnt > 1)) why = "delivery-duplicate op#" + itos(sm.tag) + " c" + itos((long)r) + " x" + itos(cnt);
            else if ((!want)&&(cnt > 0)) why = "delivery-unexpected op#" + itos(sm.tag) + " c" + itos((long)r) + " x" + itos(cnt);
         }
         if (!why.empty()) printf("%ld ORACLE FAIL %s\n", k, why.c_str());
      }
      // fifo: per receiver, the tags of one sender are increasing
      for (size_t r=0; r<w.NumSessions(); r++)
      {
         std::map<int,int> last;   // sender -> last tag seen
         for (size_t i=0; i<got[r].size(); i++)
         {
            int sender = -1;
            for (size_t bi=0; bi<burst.size(); bi++) if (burst[bi].tag == got[r][i].first) sender = burst[bi].K;
            if (sender < 0) {printf("%ld ORACLE FAIL delivery-unknown-tag op#%d c%ld tag %d\n", k, j, (long)r, got[r][i].first); continue;}
            if ((last.count(sender))&&(last[sender] > got[r][i].first)) printf("%ld ORACLE FAIL fifo op#%d c%ld sender %d: tag %d after %d\n", k, j, (long)r, sender, got[r][i].first, last[sender]);
            last[sender] = got[r][i].first;
         }
      }
      burst.clear();
      fflush(stdout);
   }
   w.Shutdown();
}

int main(int, char **)
{
   CompleteSetupSystem css;
   QuietLogs();
   std::string line;
   long k = 0;
   while(std::getline(std::cin, line)) {RunCase(k, line); k++; fflush(stdout);}
   return 0;
}
