// refl_common.h -- in-process ReflectServer scaffolding shared by the reflector harnesses
// (first user: C13 index_h.cpp; meant for C04/C05/C06/C07 as well).
//
//   refl::World w(nSessions);        a real muscle::ReflectServer, N StorageReflectSession-derived sessions attached with
//                                    ReflectServer::AddNewSession(ref, sock) on one end of CreateConnectedSocketPair(); the
//                                    other end belongs to a scripted refl::Client (MessageIOGateway + TCPSocketDataIO(sock,false)
//                                    + QueueGatewayMessageReceiver), i.e. every command really travels through the gateways.
//   w.client(k).Send(msg);           queue a Message on client k's gateway
//   w.Pump();                        step clients and ServerProcessLoop(0) until nothing moves any more (quiescence);
//                                    received Messages accumulate in w.client(k).inbox (in arrival order)
//   w.session(k)                     the server-side session object; because of the `#define protected public` below the
//                                    harness may call its protected node API (SetDataNode, CloneDataNodeSubtree, ...) and
//                                    read internal state (subscriber tables, _indexingPresent, pending Messages)
//   w.Shutdown();                    MUST be called before the World dies: drops client sockets, Resets the session refs and
//                                    calls srv.Cleanup() (otherwise the ObjectPool destructors MCRASH at exit)
//
// The host name of socket-pair sessions is the constant "_unknown_"; session ids come from a process-wide counter, so a
// World remembers the id of its first session and World::Canon() rewrites "/_unknown_/<id>/..." to "/H/<k>/..." (k = 0,1,..
// in attach order) so that canonical output does not depend on how many cases ran before in the same process.
#ifndef VERIF_REFL_COMMON_H
#define VERIF_REFL_COMMON_H

#include <stdio.h>
#include <stdlib.h>
#include <string.h>
#include <string>
#include <vector>
#include <map>
#include <set>
#include <sstream>
#include <iostream>
#include <algorithm>

#define private public
#define protected public
#include "reflector/ReflectServer.h"
#include "reflector/StorageReflectSession.h"
#include "reflector/DataNode.h"
#include "reflector/StorageReflectConstants.h"
#include "iogateway/MessageIOGateway.h"
#include "iogateway/AbstractGatewayMessageReceiver.h"
#include "dataio/TCPSocketDataIO.h"
#include "util/NetworkUtilityFunctions.h"
#include "syslog/SysLog.h"
#include "system/SetupSystem.h"
#undef private
#undef protected

namespace refl {

using namespace muscle;

// A StorageReflectSession whose protected node API is reachable (the define above already makes it so; the subclass
// exists so that harnesses can add virtual overrides, e.g. to log NodeIndexChanged calls).
class HSession : public StorageReflectSession
{
public:
   HSession() {}
   virtual const char * GetTypeName() const {return "HSession";}
};
DECLARE_REFTYPES(HSession);

class Client
{
public:
   Client() : bytesMoved(0) {}

   status_t Init(const ConstSocketRef & s)
   {
      sock = s;
      DataIORef io(new TCPSocketDataIO(sock, false));
      gw.SetDataIO(io);
      return B_NO_ERROR;
   }

   void Send(const MessageRef & m) {(void) gw.AddOutgoingMessage(m);}

   // one non-blocking step; returns true iff some bytes moved or a Message arrived
   bool Step()
   {
      bool moved = false;
      if (gw.HasBytesToOutput())
      {
         const io_status_t w = gw.DoOutput();
         if (w.GetByteCount() > 0) moved = true;
      }
      const io_status_t r = gw.DoInput(rx);
      if (r.GetByteCount() > 0) moved = true;
      MessageRef m;
      while(rx.RemoveHead(m).IsOK()) {inbox.push_back(m); moved = true;}
      return moved;
   }

   void Close() {gw.SetDataIO(DataIORef()); sock.Reset();}

   ConstSocketRef sock;
   MessageIOGateway gw;
   QueueGatewayMessageReceiver rx;
   std::vector<MessageRef> inbox;    // everything received and not yet consumed by the harness
   uint64 bytesMoved;
};

template<class SessionType = HSession> class World
{
public:
   typedef Ref<SessionType> SRef;

   World() : _baseID(0), _down(false) {}
   ~World() {if (!_down) Shutdown();}

   // attaches one more session + scripted client; returns its canonical index
   int AddSession()
   {
      ConstSocketRef a, b;
      if (CreateConnectedSocketPair(a, b, false).IsError()) {fprintf(stderr, "socketpair failed\n"); exit(3);}
      SRef s(new SessionType);
      if (srv.AddNewSession(s, a).IsError()) {fprintf(stderr, "AddNewSession failed\n"); exit(3);}
      Client * c = new Client;
      (void) c->Init(b);
      if (_sessions.empty()) _baseID = s()->GetSessionID();
      _sessions.push_back(s);
      _clients.push_back(c);
      return (int)_sessions.size()-1;
   }

   size_t NumSessions() const {return _sessions.size();}
   SessionType & session(size_t k) {return *_sessions[k]();}
   bool alive(size_t k) const {return (_sessions[k]() != NULL)&&(_sessions[k]()->IsAttachedToServer());}
   Client & client(size_t k) {return *_clients[k];}
   uint32 RealID(size_t k) const {return _baseID + (uint32)k;}   // ids are consecutive because sessions are created back to back

   // "/_unknown_/<real id>" for session k
   std::string SessionRoot(size_t k) const {char b[64]; snprintf(b, sizeof(b), "/_unknown_/%u", (unsigned)RealID(k)); return b;}

   // canonical form of an absolute node path of this world: /H/<k>/...
   std::string Canon(const std::string & p) const
   {
      const char * pre = "/_unknown_/";
      if (p.compare(0, strlen(pre), pre) != 0) return p;
      size_t i = strlen(pre), j = i;
      while((j < p.size())&&(p[j] >= '0')&&(p[j] <= '9')) j++;
      if (j == i) return p;
      const unsigned long id = strtoul(p.substr(i, j-i).c_str(), NULL, 10);
      std::ostringstream o; o << "/H/" << (long)(id - _baseID) << p.substr(j);
      return o.str();
   }

   // drops the client side of session k (the server then detaches the session on its next turns)
   void CloseClient(size_t k) {_clients[k]->Close();}

   // Run everything until nothing moves for a few consecutive rounds.
   // Returns the number of rounds used (a harness may bound it to detect a livelock).
   int Pump(int maxRounds = 2000)
   {
      int idle = 0, rounds = 0;
      while((idle < 3)&&(rounds < maxRounds))
      {
         bool moved = false;
         for (size_t i=0; i<_clients.size(); i++) if (_clients[i]->sock()) moved |= _clients[i]->Step();
         (void) srv.ServerProcessLoop(0);
         for (size_t i=0; i<_clients.size(); i++) if (_clients[i]->sock()) moved |= _clients[i]->Step();
         for (size_t i=0; i<_sessions.size(); i++)
         {
            SessionType * s = _sessions[i]();
            if ((s)&&(s->IsAttachedToServer())&&(s->GetGateway()())&&(s->GetGateway()()->HasBytesToOutput())) moved = true;
         }
         idle = moved ? 0 : (idle+1);
         rounds++;
      }
      return rounds;
   }

   void Shutdown()
   {
      if (_down) return;
      _down = true;
      for (size_t i=0; i<_clients.size(); i++) {_clients[i]->inbox.clear(); _clients[i]->Close();}
      for (size_t i=0; i<_sessions.size(); i++) _sessions[i].Reset();
      srv.Cleanup();
      for (size_t i=0; i<_clients.size(); i++) delete _clients[i];
      _clients.clear();
   }

   ReflectServer srv;

private:
   std::vector<SRef> _sessions;
   std::vector<Client *> _clients;
   uint32 _baseID;
   bool _down;
};

// ---- small helpers for building the standard commands

static inline MessageRef MkMsg(uint32 what) {return GetMessageFromPool(what);}

// PR_COMMAND_SETDATA for one relative path; flags = bit-chord word of SETDATANODE_FLAG_* (0 = none)
static inline MessageRef MkSetData(const std::string & relPath, uint32 flagBits = 0, int32 payload = 0)
{
   MessageRef m = MkMsg(PR_COMMAND_SETDATA);
   MessageRef d = MkMsg(0); (void) d()->AddInt32("v", payload);
   (void) m()->AddMessage(relPath.c_str(), d);
   if (flagBits) (void) m()->AddInt32(PR_NAME_FLAGS, (int32)flagBits);
   return m;
}

static inline MessageRef MkRemoveData(const std::string & relPattern, bool quiet = false)
{
   MessageRef m = MkMsg(PR_COMMAND_REMOVEDATA);
   (void) m()->AddString(PR_NAME_KEYS, relPattern.c_str());
   if (quiet) (void) m()->AddBool(PR_NAME_REMOVE_QUIETLY, true);
   return m;
}

static inline MessageRef MkGetData(const std::string & pattern)
{
   MessageRef m = MkMsg(PR_COMMAND_GETDATA);
   (void) m()->AddString(PR_NAME_KEYS, pattern.c_str());
   return m;
}

static inline MessageRef MkSubscribe(const std::string & pattern, bool quiet = false)
{
   MessageRef m = MkMsg(PR_COMMAND_SETPARAMETERS);
   (void) m()->AddBool((std::string(PR_NAME_SUBSCRIBE_PREFIX)+pattern).c_str(), true);
   if (quiet) (void) m()->AddBool(PR_NAME_SUBSCRIBE_QUIETLY, true);
   return m;
}

static inline MessageRef MkUnsubscribe(const std::string & pattern)
{
   MessageRef m = MkMsg(PR_COMMAND_REMOVEPARAMETERS);
   // the parameter name is matched as a wildcard pattern, so the pattern's own wildcards must be escaped
   String esc = String((std::string(PR_NAME_SUBSCRIBE_PREFIX)+pattern).c_str());
   esc = EscapeRegexTokens(esc);
   (void) m()->AddString(PR_NAME_KEYS, esc);
   return m;
}

// PR_COMMAND_INSERTORDEREDDATA: one parent pattern; each item = (insert-before name, payload)
static inline MessageRef MkInsertOrdered(const std::string & parentPattern, const std::vector<std::pair<std::string,int> > & items)
{
   MessageRef m = MkMsg(PR_COMMAND_INSERTORDEREDDATA);
   (void) m()->AddString(PR_NAME_KEYS, parentPattern.c_str());
   for (size_t i=0; i<items.size(); i++)
   {
      MessageRef d = MkMsg(0); (void) d()->AddInt32("v", items[i].second);
      (void) m()->AddMessage(items[i].first.c_str(), d);
   }
   return m;
}

static inline MessageRef MkReorder(const std::string & childPattern, const std::string & before)
{
   MessageRef m = MkMsg(PR_COMMAND_REORDERDATA);
   (void) m()->AddString(childPattern.c_str(), before.c_str());
   return m;
}

static inline MessageRef MkBatch(const std::vector<MessageRef> & subs)
{
   MessageRef m = MkMsg(PR_COMMAND_BATCH);
   for (size_t i=0; i<subs.size(); i++) (void) m()->AddMessage(PR_NAME_KEYS, subs[i]);
   return m;
}

static inline std::vector<std::string> Split(const std::string & s, char c)
{
   std::vector<std::string> r; std::string cur;
   for (size_t i=0; i<s.size(); i++) {if (s[i]==c) {r.push_back(cur); cur.clear();} else cur += s[i];}
   r.push_back(cur);
   return r;
}

// names in a node's ordered index (empty when the node keeps no index)
static inline std::vector<std::string> IndexOf(const DataNode & n)
{
   std::vector<std::string> r;
   const Queue<DataNodeRef> * q = n.GetIndex();
   if (q) for (uint32 i=0; i<q->GetNumItems(); i++) r.push_back((*q)[i]() ? (*q)[i]()->GetNodeName()() : "<null>");
   return r;
}

// children names in the Hashtable's iteration order
static inline std::vector<std::string> KidsOf(const DataNode & n)
{
   std::vector<std::string> r;
   for (DataNodeRefIterator it = n.GetChildIterator(); it.HasData(); it++) r.push_back((*it.GetKey())());
   return r;
}

// pre-order walk (children in iteration order)
template<class F> static inline void WalkTree(DataNode & n, F & f)
{
   f(n);
   std::vector<DataNodeRef> kids;
   for (DataNodeRefIterator it = n.GetChildIterator(); it.HasData(); it++) kids.push_back(it.GetValue());
   for (size_t i=0; i<kids.size(); i++) if (kids[i]()) WalkTree(*kids[i](), f);
}

static inline void QuietLogs() {(void) SetConsoleLogLevel(MUSCLE_LOG_NONE); (void) SetFileLogLevel(MUSCLE_LOG_NONE);}

} // namespace refl

#endif
