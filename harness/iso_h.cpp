// C06 harness: scripted multi-client histories with hostile commands and connection cuts against a real in-process
// muscle::ReflectServer (StorageReflectSession sessions on socket pairs, see refl_common.h).
//
// One case per stdin line:   <label>|op;op;op...        fields ':'  items '&'   (batch / cut streams: fields '~', sub-ops '+')
//   a:HOST                 attach one more session (index = number of sessions attached so far) whose host name is HOST;
//                          the server's priv<n> patterns grant:  K* -> kick,  B* -> add/remove bans,  A* -> everything,  others nothing
//   d:K                    close client K's connection (the server detaches session K)
//   s:K:F:path=v&path=v    PR_COMMAND_SETDATA, F = SETDATANODE_FLAG_* bits; paths as the client writes them (may begin with '/', hold "..")
//   r:K:Q:pat&pat@f        PR_COMMAND_REMOVEDATA (Q=1: PR_NAME_REMOVE_QUIETLY)
//   p:K:Q:pat&pat@f        PR_COMMAND_SETPARAMETERS with SUBSCRIBE:<pat> fields (Q=1: PR_NAME_SUBSCRIBE_QUIETLY)
//   m:K:N                  PR_COMMAND_SETPARAMETERS with PR_NAME_MAX_UPDATE_MESSAGE_ITEMS = N
//   u:K:pat&pat            PR_COMMAND_REMOVEPARAMETERS of SUBSCRIBE:<pat> (wildcards escaped)
//   um:K                   PR_COMMAND_REMOVEPARAMETERS of PR_NAME_MAX_UPDATE_MESSAGE_ITEMS
//   g:K:pat&pat@f          PR_COMMAND_GETDATA
//   k:K:CODE:pat&pat       a Message with what-code CODE (kick addbans rembans addreq remreq ping noop getparams gettrees settrees
//                          jetres jettrees unk begin end | decimal) and PR_NAME_KEYS
//   pv:K:N                 PR_COMMAND_SETPARAMETERS carrying PR_NAME_PRIVILEGE_BITS = N
//   upv:K                  PR_COMMAND_REMOVEPARAMETERS naming PR_NAME_PRIVILEGE_BITS
//   c:K:WHAT:pat&pat:SESS  client-to-client Message: what-code WHAT, PR_NAME_KEYS (may be empty), PR_NAME_SESSION = SESS
//                          (a session index -> that session's real id; other text verbatim; '-' = no such field)
//   io:K:pat&pat:bef=v&bef=v   PR_COMMAND_INSERTORDEREDDATA: parent patterns; each item = (insert-before name or '-', payload)   } harness-only
//   ro:K:pat=bef&pat=bef   PR_COMMAND_REORDERDATA: child pattern -> move-before name                                } stream "ordered"
//   b:K:sub+sub            PR_COMMAND_BATCH of the commands above written with '~' for ':' and without the session index
//   x:K:MODE:sub+sub       (last op) client K writes the byte stream of these Messages and its connection is cut after B bytes, for
//                          every B in 0..total (MODE=all) or around every Message boundary (MODE=some); each B is a fresh run of the
//                          whole history.  One line per number j of complete Messages: all B with the same j must give the same state.
// filter f:  g<n> (v > n)   l<n> (v < n)   e<n> (v == n)   x (field v exists)
// Absolute patterns/paths name the session clause by session index (-> real id).
//
// After EVERY op the server is pumped to quiescence and one line is printed:
//   k j code M{per client: PR_RESULT_DATAITEMS received}  L{per client: other Messages received}  T{true tree, DFS, payload, subscriber table}
//       E{per session: host, max items, privilege bits, _subscriptions entries grouped by clause count}
// and the property's own statement is evaluated on the implementation, independently of the Coq model:
//   frame        before/after every command of an unprivileged session K: every node outside K's subtree (path, payload, child order,
//                index, subscriber table without K's entry), every other session's liveness, _parameters, _subscriptions, limits and flags
//   detach       after K's connection ended (d / every cut): no node under K's directory, host node present iff another session uses it,
//                no DataNode::GetSubscribers() table and no cached table of the pool mentions K, no client mirror still holds a K node
//   marks        after every op: every node carries for every attached session as many marks as that session's subscriptions match it
//   as-if-never  (at a departure, at every cut, and for every unprivileged session a PR_COMMAND_KICK removed) tree, subscriber tables, parameters of the others and every client's mirror equal those of a baseline run of the
//                same history without session K (unprivileged K only)
//   label q (ordered children as modelled by Refl/IsoOrd.v): k j code T{...; a node with an ordered index ends in [I0,I1,]} E{...}
//   k ORACLE FAIL <what> op#j ...
#include "refl_common.h"
#include "regex/PathMatcher.h"
#include "regex/QueryFilter.h"
#include "regex/StringMatcher.h"
#include <sys/types.h>
#include <sys/socket.h>
#include <errno.h>

using namespace muscle;
using namespace refl;

static std::string g_nextHost = "H";

class ISession : public HSession
{
public:
   ISession() {_hostName = g_nextHost.c_str();}
   virtual const char * GetTypeName() const {return "ISession";}
};

typedef World<ISession> W;

static std::string itos(long long v) {std::ostringstream o; o << v; return o.str();}
static bool AllDigits(const std::string & s) {return (!s.empty())&&(s.find_first_not_of("0123456789") == std::string::npos);}

static uint32 PrivBitsForHost(const std::string & h)   // mirrors the priv<n> patterns installed below (used only to decide which oracles apply)
{
   if (h.empty()) return 0;
   switch(h[0]) {case 'K': return 1; case 'B': return 6; case 'A': return 0xFFFFFFFFu; default: return 0;}
}

static uint32 CodeOf(const std::string & s)
{
   if (s == "kick") return PR_COMMAND_KICK;
   if (s == "addbans") return PR_COMMAND_ADDBANS;
   if (s == "rembans") return PR_COMMAND_REMOVEBANS;
   if (s == "addreq") return PR_COMMAND_ADDREQUIRES;
   if (s == "remreq") return PR_COMMAND_REMOVEREQUIRES;
   if (s == "ping") return PR_COMMAND_PING;
   if (s == "noop") return PR_COMMAND_NOOP;
   if (s == "getparams") return PR_COMMAND_GETPARAMETERS;
   if (s == "gettrees") return PR_COMMAND_GETDATATREES;
   if (s == "settrees") return PR_COMMAND_SETDATATREES;
   if (s == "jetres") return PR_COMMAND_JETTISONRESULTS;
   if (s == "jettrees") return PR_COMMAND_JETTISONDATATREES;
   if (s == "unk") return END_PR_COMMANDS-2;
   if (s == "end") return END_PR_COMMANDS;
   if (s == "begin") return BEGIN_PR_COMMANDS;
   return (uint32) strtoul(s.c_str(), NULL, 10);
}

static ConstQueryFilterRef MkFilter(const std::string & f)
{
   if (f.empty()) return ConstQueryFilterRef();
   if (f == "x") return ConstQueryFilterRef(new ValueExistsQueryFilter("v"));
   const int32 n = (int32) atol(f.c_str()+1);
   uint8 op = Int32QueryFilter::OP_EQUAL_TO;
   if (f[0] == 'g') op = Int32QueryFilter::OP_GREATER_THAN;
   if (f[0] == 'l') op = Int32QueryFilter::OP_LESS_THAN;
   return ConstQueryFilterRef(new Int32QueryFilter("v", op, n));
}

static std::string FilterSpec(const QueryFilter * qf)
{
   if (qf == NULL) return "";
   const Int32QueryFilter * i = dynamic_cast<const Int32QueryFilter *>(qf);
   if (i)
   {
      const char c = (i->GetOperator() == Int32QueryFilter::OP_GREATER_THAN) ? 'g' : ((i->GetOperator() == Int32QueryFilter::OP_LESS_THAN) ? 'l' : 'e');
      return std::string("@") + c + itos(i->GetValue());
   }
   if (dynamic_cast<const ValueExistsQueryFilter *>(qf)) return "@x";
   return "@?";
}

static void SplitSub(const std::string & s, std::string & pat, std::string & flt)
{
   const size_t at = s.find('@');
   if (at == std::string::npos) {pat = s; flt = "";} else {pat = s.substr(0, at); flt = s.substr(at+1);}
}

static std::string Payload(const Message * m)
{
   int32 v;
   if ((m)&&(m->FindInt32("v", v).IsOK())) return itos(v);
   return "-";
}

static std::string HexOf(const Message & m)
{
   ByteBufferRef b = GetByteBufferFromPool(m.FlattenedSize());
   if (b() == NULL) return "?";
   m.FlattenToBytes(b()->GetBuffer());
   static const char * hx = "0123456789abcdef";
   std::string r;
   for (uint32 i=0; i<b()->GetNumBytes(); i++) {r += hx[b()->GetBuffer()[i]>>4]; r += hx[b()->GetBuffer()[i]&15];}
   return r;
}

struct ClientState
{
   ClientState() : tainted(false) {}
   std::map<std::string, std::string> mirror;    // canonical path -> payload text
   PathMatcher subs;                             // the client's own idea of its subscriptions (real patterns)
   bool tainted;                                 // mirror oracles no longer apply (quiet subscribe / explicit GETDATA were used)
};

// One execution of a history (possibly with the events of one session erased: the baseline of as-if-never)
struct Run
{
   Run(int skipIdx) : skip(skipIdx), quietUsed(false), foreignOnly(false), nScript(0)
   {
      Message & st = w.srv.GetCentralState();
      (void) st.AddString("priv0", "K*");   // PR_PRIVILEGE_KICK
      (void) st.AddString("priv1", "B*");   // PR_PRIVILEGE_ADDBANS
      (void) st.AddString("priv2", "B*");   // PR_PRIVILEGE_REMOVEBANS
      (void) st.AddString("priv3", "A*");   // p == PR_NUM_PRIVILEGES: all
   }
   ~Run() {w.Shutdown();}

   W w;
   int skip;                          // script index of the erased session, or -1
   bool quietUsed;
   bool foreignOnly;                  // label q: see ApplyToMirror
   int nScript;                       // sessions attached so far, in script numbering
   std::vector<int> widx;             // script index -> world index (-1: erased)
   std::vector<int> sidx;             // world index -> script index
   std::vector<std::string> hosts;    // by script index
   std::vector<ClientState> cs;       // by world index

   bool Has(int K) const {return (K >= 0)&&(K < (int)widx.size())&&(widx[K] >= 0);}
   bool Alive(int K) {return Has(K)&&(w.alive(widx[K]))&&(w.client(widx[K]).sock());}
   HSession & Sess(int K) {return w.session(widx[K]);}

   // the real session id of script index i in this run; an index that is erased or not attached (yet) gets an id no session has
   // (session ids come from a process-wide counter and other runs are interleaved, so they are recorded, not computed)
   unsigned long RealIdOf(long i) const
   {
      if ((i >= 0)&&(i < (long)realId.size())&&(realId[i] != 0)) return realId[i];
      return 3999000000ul + (unsigned long)((i >= 0) ? (i % 100000) : 99999);
   }
   long ScriptIdxOfReal(unsigned long id) const
   {
      std::map<unsigned long,long>::const_iterator it = scriptOf.find(id);
      if (it != scriptOf.end()) return it->second;
      if (id >= 3999000000ul) return (long)(id - 3999000000ul);
      return 900000 + (long)(id % 1000);   // an id of no session of this run
   }
   std::vector<unsigned long> realId;       // by script index; 0 = none
   std::map<unsigned long,long> scriptOf;

   std::string ShiftClause(const std::string & cl, bool toReal) const   // decimal session index / comma list of them
   {
      if ((cl.empty())||(cl.find_first_not_of("0123456789,") != std::string::npos)) return cl;
      std::vector<std::string> seg = Split(cl, ',');
      std::string r;
      for (size_t i=0; i<seg.size(); i++)
      {
         if (i) r += ",";
         if (seg[i].empty()) continue;
         r += toReal ? itos((long long)RealIdOf(atol(seg[i].c_str()))) : itos(ScriptIdxOfReal(strtoul(seg[i].c_str(), NULL, 10)));
      }
      return r;
   }

   // script pattern/path with a leading '/' -> the real one (session clause = index -> real id)
   std::string RealPattern(const std::string & pat) const
   {
      if ((pat.empty())||(pat[0] != '/')) return pat;
      std::vector<std::string> cl = Split(pat.substr(1), '/');
      if (cl.size() >= 2) cl[1] = ShiftClause(cl[1], true);
      std::string r;
      for (size_t i=0; i<cl.size(); i++) r += "/" + cl[i];
      return r;
   }
   // real absolute node path / stored subscription path (with or without leading '/') -> canonical
   std::string Canon(const std::string & p) const
   {
      const bool lead = (!p.empty())&&(p[0] == '/');
      std::vector<std::string> cl = Split(lead ? p.substr(1) : p, '/');
      if (cl.size() >= 2) cl[1] = ShiftClause(cl[1], false);
      std::string r;
      for (size_t i=0; i<cl.size(); i++) r += ((i||lead) ? "/" : "") + cl[i];
      return r;
   }

   void Attach(const std::string & host)
   {
      const int si = nScript++;
      hosts.push_back(host);
      if (si == skip) {widx.push_back(-1); realId.push_back(0); return;}
      g_nextHost = host;
      const int wi = w.AddSession();
      widx.push_back(wi);
      realId.push_back((unsigned long) w.session(wi).GetSessionID());
      scriptOf[realId.back()] = si;
      sidx.push_back(si);
      cs.push_back(ClientState());
   }

   // translate = false for commands whose patterns the server takes relative to the session directory even when they begin
   // with '/' (REMOVEDATA, INSERTORDEREDDATA, REORDERDATA: AdjustStringPrefix without a prefix): there the second clause is
   // an ordinary name clause, not a session id
   void AddKeys(Message & m, const std::string & field, bool translate = true)
   {
      std::vector<std::string> pats = field.empty() ? std::vector<std::string>() : Split(field, '&');
      for (size_t i=0; i<pats.size(); i++)
      {
         std::string pat, flt; SplitSub(pats[i], pat, flt);
         (void) m.AddString(PR_NAME_KEYS, (translate ? RealPattern(pat) : pat).c_str());
         MessageRef fm = MkMsg(0);   // a dummy (empty) filter Message stops the "bleed-down" of the previous filter
         ConstQueryFilterRef qf = MkFilter(flt);
         if (qf()) (void) qf()->SaveToArchive(*fm());
         (void) m.AddMessage(PR_NAME_FILTERS, fm);
      }
   }

   // builds the protocol Message of one (sub-)command of session K; fs = fields after the session index.
   // dry = true: only build (used to serialise a cut stream), no client-side bookkeeping
   MessageRef BuildCommand(int K, const std::string & code, const std::vector<std::string> & fs, std::vector<std::string> & unsubbed, bool dry)
   {
      ClientState dummy;
      ClientState & me = dry ? dummy : cs[widx[K]];
      bool dummyQuiet = false;
      bool & quiet = dry ? dummyQuiet : quietUsed;
      if (code == "s")
      {
         MessageRef m = MkMsg(PR_COMMAND_SETDATA);
         const uint32 flags = (fs.size() > 0) ? (uint32) atol(fs[0].c_str()) : 0;
         if (flags & (1u<<SETDATANODE_FLAG_QUIET)) quiet = true;
         std::vector<std::string> items = (fs.size() > 1 && !fs[1].empty()) ? Split(fs[1], '&') : std::vector<std::string>();
         for (size_t i=0; i<items.size(); i++)
         {
            const size_t eq = items[i].find('=');
            const std::string path = RealPattern(items[i].substr(0, eq));
            MessageRef d = MkMsg(0);
            if (eq != std::string::npos) (void) d()->AddInt32("v", (int32) atol(items[i].c_str()+eq+1));
            (void) m()->AddMessage(path.c_str(), d);
         }
         if (flags) (void) m()->AddInt32(PR_NAME_FLAGS, (int32) flags);
         return m;
      }
      if ((code == "r")||(code == "g"))
      {
         MessageRef m = MkMsg((code == "r") ? PR_COMMAND_REMOVEDATA : PR_COMMAND_GETDATA);
         size_t at = 0;
         if (code == "r")
         {
            if ((fs.size() > 0)&&(fs[0] == "1")) {(void) m()->AddBool(PR_NAME_REMOVE_QUIETLY, true); quiet = true;}
            at = 1;
         }
         else me.tainted = true;
         AddKeys(*m(), (fs.size() > at) ? fs[at] : std::string(), (code != "r"));
         return m;
      }
      if (code == "p")
      {
         MessageRef m = MkMsg(PR_COMMAND_SETPARAMETERS);
         const bool q = (fs.size() > 0)&&(fs[0] == "1");
         if (q) {(void) m()->AddBool(PR_NAME_SUBSCRIBE_QUIETLY, true); me.tainted = true;}
         std::vector<std::string> subs = (fs.size() > 1 && !fs[1].empty()) ? Split(fs[1], '&') : std::vector<std::string>();
         for (size_t i=0; i<subs.size(); i++)
         {
            std::string pat, flt; SplitSub(subs[i], pat, flt);
            const std::string rp = RealPattern(pat);
            const std::string fn = std::string(PR_NAME_SUBSCRIBE_PREFIX) + rp;
            ConstQueryFilterRef qf = MkFilter(flt);
            if (m()->HasName(fn.c_str())) continue;   // one field per name
            if (qf()) {MessageRef fm = MkMsg(0); (void) qf()->SaveToArchive(*fm()); (void) m()->AddMessage(fn.c_str(), fm);}
                 else (void) m()->AddBool(fn.c_str(), true);
            (void) me.subs.PutPathFromString(rp.c_str(), qf, "*/*");
         }
         return m;
      }
      if (code == "m")
      {
         MessageRef m = MkMsg(PR_COMMAND_SETPARAMETERS);
         (void) m()->AddInt32(PR_NAME_MAX_UPDATE_MESSAGE_ITEMS, (int32) atol(fs.size() > 0 ? fs[0].c_str() : "0"));
         return m;
      }
      if (code == "u")
      {
         MessageRef m = MkMsg(PR_COMMAND_REMOVEPARAMETERS);
         std::vector<std::string> pats = (fs.size() > 0 && !fs[0].empty()) ? Split(fs[0], '&') : std::vector<std::string>();
         for (size_t i=0; i<pats.size(); i++)
         {
            const std::string rp = RealPattern(pats[i]);
            String esc = EscapeRegexTokens(String((std::string(PR_NAME_SUBSCRIBE_PREFIX)+rp).c_str()));
            (void) m()->AddString(PR_NAME_KEYS, esc);
            unsubbed.push_back(rp);
            String adj(rp.c_str());   // the client's own record follows its commands in order
            me.subs.AdjustStringPrefix(adj, "*/*");
            (void) me.subs.RemovePathString(adj);
         }
         return m;
      }
      if (code == "um")
      {
         MessageRef m = MkMsg(PR_COMMAND_REMOVEPARAMETERS);
         (void) m()->AddString(PR_NAME_KEYS, PR_NAME_MAX_UPDATE_MESSAGE_ITEMS);
         return m;
      }
      if (code == "k")
      {
         MessageRef m = MkMsg(CodeOf(fs.size() > 0 ? fs[0] : std::string("0")));
         AddKeys(*m(), (fs.size() > 1) ? fs[1] : std::string());
         return m;
      }
      if (code == "pv")
      {
         MessageRef m = MkMsg(PR_COMMAND_SETPARAMETERS);
         (void) m()->AddInt32(PR_NAME_PRIVILEGE_BITS, (int32)(uint32) strtoul(fs.size() > 0 ? fs[0].c_str() : "0", NULL, 10));
         return m;
      }
      if (code == "upv")
      {
         MessageRef m = MkMsg(PR_COMMAND_REMOVEPARAMETERS);
         (void) m()->AddString(PR_NAME_KEYS, PR_NAME_PRIVILEGE_BITS);
         return m;
      }
      if (code == "io")
      {
         MessageRef m = MkMsg(PR_COMMAND_INSERTORDEREDDATA);
         std::vector<std::string> pats = (fs.size() > 0 && !fs[0].empty()) ? Split(fs[0], '&') : std::vector<std::string>();
         for (size_t i=0; i<pats.size(); i++) (void) m()->AddString(PR_NAME_KEYS, pats[i].c_str());
         std::vector<std::string> items = (fs.size() > 1 && !fs[1].empty()) ? Split(fs[1], '&') : std::vector<std::string>();
         for (size_t i=0; i<items.size(); i++)
         {
            const size_t eq = items[i].find('=');
            const std::string bef = items[i].substr(0, eq);
            MessageRef d = MkMsg(0);
            if (eq != std::string::npos) (void) d()->AddInt32("v", (int32) atol(items[i].c_str()+eq+1));
            (void) m()->AddMessage(bef.c_str(), d);
         }
         return m;
      }
      if (code == "ro")
      {
         MessageRef m = MkMsg(PR_COMMAND_REORDERDATA);
         std::vector<std::string> items = (fs.size() > 0 && !fs[0].empty()) ? Split(fs[0], '&') : std::vector<std::string>();
         for (size_t i=0; i<items.size(); i++)
         {
            const size_t eq = items[i].find('=');
            (void) m()->AddString(items[i].substr(0, eq).c_str(), (eq == std::string::npos) ? "" : items[i].substr(eq+1).c_str());
         }
         return m;
      }
      if (code == "c")
      {
         MessageRef m = MkMsg(CodeOf(fs.size() > 0 ? fs[0] : std::string("0")));
         AddKeys(*m(), (fs.size() > 1) ? fs[1] : std::string());
         const std::string sess = (fs.size() > 2) ? fs[2] : std::string("-");
         if ((sess != "-")&&(!sess.empty())) (void) m()->AddString(PR_NAME_SESSION, AllDigits(sess) ? itos((long long)RealIdOf(atol(sess.c_str()))).c_str() : sess.c_str());
         (void) m()->AddInt32("origin", K);
         return m;
      }
      return MessageRef();
   }

   std::vector<MessageRef> BuildSubs(int K, const std::string & field, std::vector<std::string> & unsubbed, bool dry)
   {
      std::vector<MessageRef> subs;
      std::vector<std::string> so = field.empty() ? std::vector<std::string>() : Split(field, '+');
      for (size_t i=0; i<so.size(); i++)
      {
         std::vector<std::string> sf = Split(so[i], '~');
         const std::string sc = sf[0];
         sf.erase(sf.begin());
         MessageRef sm = BuildCommand(K, sc, sf, unsubbed, dry);
         if (sm()) subs.push_back(sm);
      }
      return subs;
   }

   // foreignOnly (label q): what a client is told about its OWN subtree is left out of M{} (a session that has used an ordered index gets
   // its own nodes back from GETDATA / SUBSCRIBE -- StorageReflectSession::_indexingPresent --, which the model does not follow)
   void ApplyToMirror(ClientState & c, const Message & m, std::ostringstream & out, const std::string & ownDir)
   {
      std::ostringstream ro, so;
      const String * s;
      bool firstr = true;
      for (int32 i=0; m.FindString(PR_NAME_REMOVED_DATAITEMS, i, &s).IsOK(); i++)
      {
         const std::string p = Canon(s->Cstr());
         if (!((foreignOnly)&&(Under(ownDir, p)))) {if (!firstr) ro << ","; firstr = false; ro << p;}
         c.mirror.erase(p);
      }
      bool first = true;
      for (MessageFieldNameIterator it = m.GetFieldNameIterator(B_MESSAGE_TYPE); it.HasData(); it++)
      {
         const std::string p = Canon(it.GetFieldName()());
         MessageRef v;
         for (int32 i=0; m.FindMessage(it.GetFieldName(), i, v).IsOK(); i++)
         {
            const std::string pv = Payload(v());
            if (!((foreignOnly)&&(Under(ownDir, p)))) {if (!first) so << ","; first = false; so << p << "=" << pv;}
            c.mirror[p] = pv;
         }
      }
      if (foreignOnly)
      {
         // ... and Message boundaries are not compared either (the own nodes count towards PR_NAME_MAX_UPDATE_MESSAGE_ITEMS): one group per op
         if (!firstr) {if (!accR.empty()) accR += ","; accR += ro.str();}
         if (!first)  {if (!accS.empty()) accS += ","; accS += so.str();}
         return;
      }
      out << "[R:" << ro.str() << ";S:" << so.str() << "]";
   }
   std::string accR, accS;

   // consumes every client's inbox; M{..} L{..} of the sessions that are alive, in script order
   std::string DrainInboxes()
   {
      std::ostringstream mo, lo;
      bool fm = true, fl = true;
      for (size_t si=0; si<widx.size(); si++)
      {
         if (widx[si] < 0) continue;
         const size_t wi = (size_t) widx[si];
         Client & cl = w.client(wi);
         std::ostringstream m1, l1;
         bool firstl = true;
         for (size_t mi=0; mi<cl.inbox.size(); mi++)
         {
            const Message * m = cl.inbox[mi]();
            if (m == NULL) continue;
            if (m->what == PR_RESULT_DATAITEMS) ApplyToMirror(cs[wi], *m, m1, DirOf((int)si));
            else
            {
               if (!firstl) l1 << ",";
               firstl = false;
               if ((m->what == PR_RESULT_ERRORACCESSDENIED)||(m->what == PR_RESULT_ERRORUNIMPLEMENTED))
               {
                  MessageRef rej; (void) m->FindMessage(PR_NAME_REJECTED_MESSAGE, rej);
                  l1 << "B" << m->what << "/" << (rej() ? itos(rej()->what) : std::string("?"));
               }
               else if ((m->what == PR_RESULT_PONG)||(m->what == PR_RESULT_PARAMETERS)||(m->what == PR_RESULT_DATATREES)) l1 << "R" << m->what;
               else if (m->what == PR_RESULT_INDEXUPDATED) l1 << "I" << m->GetNumNames();
               else
               {
                  const String * ss = NULL;
                  std::string sess = "-";
                  if (m->FindString(PR_NAME_SESSION, &ss).IsOK()) sess = AllDigits(ss->Cstr()) ? itos(ScriptIdxOfReal(strtoul(ss->Cstr(), NULL, 10))) : std::string(ss->Cstr());
                  l1 << "F" << m->GetInt32("origin", -1) << "/" << m->what << "/" << sess;
               }
            }
         }
         cl.inbox.clear();
         if (foreignOnly)
         {
            if ((!accR.empty())||(!accS.empty())) m1 << "[R:" << accR << ";S:" << accS << "]";
            accR.clear(); accS.clear();
         }
         if (!w.alive(wi)) continue;
         if (!m1.str().empty()) {if (!fm) mo << " "; fm = false; mo << "c" << si << ":" << m1.str();}
         if (!l1.str().empty()) {if (!fl) lo << " "; fl = false; lo << "c" << si << ":" << l1.str();}
      }
      return "M{" + mo.str() + "} L{" + lo.str() + "}";
   }

   DataNode * Root()
   {
      for (size_t wi=0; wi<w.NumSessions(); wi++) if ((w.alive(wi))&&(w.session(wi)._sharedData)) return &w.session(wi).GetGlobalRoot();
      return NULL;
   }

   std::string SubsOf(const DataNode & n, long withoutScript)
   {
      std::vector<std::pair<long,unsigned long> > subs;
      for (ConstHashtableIterator<uint32, uint32> it(n.GetSubscribers()); it.HasData(); it++)
      {
         const long si = ScriptIdxOfReal(it.GetKey());
         if (si != withoutScript) subs.push_back(std::make_pair(si, (unsigned long)it.GetValue()));
      }
      std::sort(subs.begin(), subs.end());
      std::ostringstream o;
      for (size_t i=0; i<subs.size(); i++) {if (i) o << ","; o << subs[i].first << ":" << subs[i].second;}
      return o.str();
   }

   struct Collector {std::vector<DataNode *> nodes; void operator()(DataNode & n) {if (n.GetDepth() > 0) nodes.push_back(&n);}};

   std::string NodeStr(DataNode & n, long withoutScript)
   {
      String np; (void) n.GetNodePath(np);
      const std::string ix = IdxStr(n);
      return Canon(np()) + "=" + Payload(n.GetData()()) + "{" + SubsOf(n, withoutScript) + "}" + (ix.empty() ? std::string("") : ("[" + ix + "]"));
   }

   // a session's parameter Message in canonical text (field order kept; session ids inside SUBSCRIBE: names canonicalised)
   std::string ParamStr(const Message & pm)
   {
      std::ostringstream o;
      for (MessageFieldNameIterator it = pm.GetFieldNameIterator(); it.HasData(); it++)
      {
         const String & fn = it.GetFieldName();
         std::string name = fn();
         const std::string pre = PR_NAME_SUBSCRIBE_PREFIX;
         if (name.compare(0, pre.size(), pre) == 0) name = pre + Canon(name.substr(pre.size()));
         uint32 tc = 0, cnt = 0; (void) pm.GetInfo(fn, &tc, &cnt);
         o << name << "#" << tc << "=";
         for (uint32 i=0; i<cnt; i++)
         {
            int32 iv; bool bv; const String * sv; MessageRef mv;
            if (i) o << ",";
            if ((tc == B_INT32_TYPE)&&(pm.FindInt32(fn, i, iv).IsOK())) o << iv;
            else if ((tc == B_BOOL_TYPE)&&(pm.FindBool(fn, i, bv).IsOK())) o << (bv ? 1 : 0);
            else if ((tc == B_STRING_TYPE)&&(pm.FindString(fn, i, &sv).IsOK())) o << sv->Cstr();
            else if ((tc == B_MESSAGE_TYPE)&&(pm.FindMessage(fn, i, mv).IsOK())&&(mv())) o << HexOf(*mv());
            else o << "?";
         }
         o << ";";
      }
      return o.str();
   }

   std::string SessStr(int si)
   {
      HSession & s = Sess(si);
      std::ostringstream o;
      o << si << "@" << s.GetHostName()() << "(" << s._maxSubscriptionMessageItems << "," << (uint32) s._parameters.GetInt32(PR_NAME_PRIVILEGE_BITS) << ")[";
      bool fg = true;
      for (ConstHashtableIterator<uint32, Hashtable<String, PathMatcherEntry> > it(s._subscriptions.GetEntries()); it.HasData(); it++)
      {
         if (!fg) o << "|";
         fg = false;
         o << it.GetKey() << ":";
         bool fe = true;
         for (ConstHashtableIterator<String, PathMatcherEntry> e(it.GetValue()); e.HasData(); e++)
         {
            if (!fe) o << ",";
            fe = false;
            o << Canon(e.GetKey()()) << FilterSpec(e.GetValue().GetFilter()());
         }
      }
      o << "]";
      return o.str();
   }

   std::string TreeAndSessions()
   {
      std::ostringstream o;
      o << "T{";
      DataNode * root = Root();
      if (root)
      {
         Collector col; WalkTree(*root, col);
         for (size_t i=0; i<col.nodes.size(); i++) {if (i) o << " "; o << NodeStr(*col.nodes[i], -1000);}
      }
      o << "} E{";
      bool first = true;
      for (size_t si=0; si<widx.size(); si++) if ((Has((int)si))&&(w.alive(widx[si])))
      {
         if (!first) o << " ";
         first = false;
         o << SessStr((int)si);
      }
      o << "}";
      return o.str();
   }

   // ---- oracle vocabulary (independent of the Coq model)

   std::string DirOf(int K) const {return "/" + hosts[K] + "/" + itos(K);}
   static bool Under(const std::string & dir, const std::string & p) {return (p == dir)||(p.compare(0, dir.size()+1, dir+"/") == 0);}

   // everything a command of session K must leave alone
   std::string ForeignView(int K)
   {
      std::ostringstream o;
      const std::string dir = DirOf(K);
      DataNode * root = Root();
      if (root)
      {
         Collector col; WalkTree(*root, col);
         for (size_t i=0; i<col.nodes.size(); i++)
         {
            DataNode & n = *col.nodes[i];
            String np; (void) n.GetNodePath(np);
            const std::string cp = Canon(np());
            if (Under(dir, cp)) continue;
            o << NodeStr(n, K) << "<";
            std::vector<std::string> kids = KidsOf(n);
            for (size_t j=0; j<kids.size(); j++) if (!Under(dir, Canon(cp + "/" + kids[j]))) o << kids[j] << ",";
            o << ">[";
            std::vector<std::string> ix = IndexOf(n);
            for (size_t j=0; j<ix.size(); j++) o << ix[j] << ",";
            o << "] ";
         }
      }
      o << "|| ";
      for (size_t si=0; si<widx.size(); si++) if (((int)si != K)&&(Has((int)si)))
      {
         const size_t wi = (size_t) widx[si];
         o << si << (w.alive(wi) ? "+" : "-") << (w.client(wi).sock() ? "o" : "c");
         if (w.alive(wi))
         {
            HSession & s = w.session(wi);
            o << SessStr((int)si) << "P" << ParamStr(s._parameters) << "R" << ParamStr(s._defaultMessageRouteMessage)
              << "e" << (s._subscriptionsEnabled ? 1 : 0) << "f" << s._defaultRoutingFlags.ToHexString()() << "n" << s._maxNodeCount << "d" << (w.srv._lameDuckSessions.ContainsKey(&s.GetSessionIDString()) ? 1 : 0);
         }
         o << " ";
      }
      return o.str();
   }

   // observable state without any trace of script session K: nodes as a set (root-level order of hosts is not compared)
   std::string ObsWithout(int K)
   {
      std::vector<std::string> nodes;
      DataNode * root = Root();
      if (root) {Collector col; WalkTree(*root, col); for (size_t i=0; i<col.nodes.size(); i++) nodes.push_back(NodeStr(*col.nodes[i], K) + "[" + IdxStr(*col.nodes[i]) + "]");}
      std::sort(nodes.begin(), nodes.end());
      std::ostringstream o;
      for (size_t i=0; i<nodes.size(); i++) o << nodes[i] << " ";
      o << "|| ";
      for (size_t si=0; si<widx.size(); si++) if (((int)si != K)&&(Has((int)si))&&(w.alive(widx[si]))) o << SessStr((int)si) << "P" << ParamStr(w.session(widx[si])._parameters) << " ";
      return o.str();
   }
   static std::string IdxStr(const DataNode & n) {std::string r; std::vector<std::string> ix = IndexOf(n); for (size_t j=0; j<ix.size(); j++) r += ix[j] + ","; return r;}

   std::string MirrorsWithout(int K)
   {
      std::ostringstream o;
      for (size_t si=0; si<widx.size(); si++) if (((int)si != K)&&(Has((int)si))&&(w.alive(widx[si]))&&(!cs[widx[si]].tainted))
      {
         o << si << "{";
         const std::map<std::string,std::string> & m = cs[widx[si]].mirror;
         for (std::map<std::string,std::string>::const_iterator it = m.begin(); it != m.end(); ++it) o << it->first << "=" << it->second << ",";
         o << "} ";
      }
      return o.str();
   }

   // "" or what is left of the departed script session K
   // independent of the model: every node carries, for every attached session, exactly as many subscription marks as that session's
   // subscription paths match it (StorageReflectSession::NodeCreated / DoSubscribeRefCallback keep this up); a node without the marks
   // of a session whose subscription matches it is a node whose updates and removal that session will never hear of
   std::string MarksWrong()
   {
      DataNode * root = Root();
      if (root == NULL) return "";
      Collector col; WalkTree(*root, col);
      for (size_t i=0; i<col.nodes.size(); i++)
      {
         DataNode & n = *col.nodes[i];
         for (size_t si=0; si<widx.size(); si++) if ((Has((int)si))&&(w.alive(widx[si])))
         {
            HSession & s = w.session(widx[si]);
            const uint32 expected = s._subscriptions.GetMatchCount(n, NULL, 0);
            const uint32 actual   = n.GetSubscribers().GetWithDefault((uint32) RealIdOf((int)si), 0);
            if (expected != actual)
            {
               String np; (void) n.GetNodePath(np);
               return "node " + Canon(np()) + " carries " + itos((long)actual) + " mark(s) of client " + itos((long)si) + " whose subscriptions match it " + itos((long)expected) + " time(s)";
            }
         }
      }
      return "";
   }

   std::string TraceOf(int K)
   {
      const std::string dir = DirOf(K);
      const uint32 id = (uint32) RealIdOf(K);
      if (w.alive(widx[K])) return "session still attached";
      DataNode * root = Root();
      bool hostThere = false;
      if (root)
      {
         Collector col; WalkTree(*root, col);
         for (size_t i=0; i<col.nodes.size(); i++)
         {
            DataNode & n = *col.nodes[i];
            String np; (void) n.GetNodePath(np);
            const std::string cp = Canon(np());
            if (Under(dir, cp)) return "node left " + cp;
            if (n.GetSubscribers().ContainsKey(id)) return "subscriber mark left on " + cp;
            if (cp == "/" + hosts[K]) hostThere = true;
         }
         // cached tables of the pool (util/ImmutableHashtablePool.h) must not mention the departed id either
         for (size_t wi=0; wi<w.NumSessions(); wi++) if ((w.alive(wi))&&(w.session(wi)._sharedData))
         {
            for (ConstHashtableIterator<uint64, ConstDataNodeSubscribersTableRef> it(w.session(wi)._sharedData->_cachedSubscribersTables._lruCache); it.HasData(); it++)
               if ((it.GetValue()())&&(it.GetValue()()->GetTable().ContainsKey(id))) return "cached subscriber table still mentions the session";
            break;
         }
      }
      bool hostUsed = false;
      for (size_t si=0; si<widx.size(); si++) if (((int)si != K)&&(Has((int)si))&&(w.alive(widx[si]))&&(hosts[si] == hosts[K])) hostUsed = true;
      if (hostThere != hostUsed) return hostThere ? "empty host node left" : "host node removed while in use";
      if (!quietUsed)
         for (size_t si=0; si<widx.size(); si++) if (((int)si != K)&&(Has((int)si))&&(w.alive(widx[si]))&&(!cs[widx[si]].tainted))
         {
            const std::map<std::string,std::string> & m = cs[widx[si]].mirror;
            for (std::map<std::string,std::string>::const_iterator it = m.begin(); it != m.end(); ++it)
               if (Under(dir, it->first)) return "client " + itos((long)si) + " was never told that " + it->first + " is gone";
         }
      return "";
   }

   // the client's own part of an unsubscribe: drop what its remaining subscriptions no longer cover
   void Prune(int K)
   {
      ClientState & me = cs[widx[K]];
      for (std::map<std::string,std::string>::iterator it = me.mirror.begin(); it != me.mirror.end(); )
      {
         Message dm; if (it->second != "-") (void) dm.AddInt32("v", (int32) atol(it->second.c_str()));
         const std::string rp = RealPattern(it->first);
         if (me.subs.MatchesPath(rp.c_str(), &dm, NULL)) ++it; else me.mirror.erase(it++);
      }
   }

   // executes one op other than a cut; returns "<code>[!] <state>", sets *validOut
   std::string Exec(const std::string & op, bool * validOut, int * whoOut)
   {
      std::vector<std::string> f = Split(op, ':');
      const std::string code = f[0];
      const int K = ((f.size() > 1)&&(code != "a")) ? atoi(f[1].c_str()) : -1;
      std::vector<std::string> unsubbed;
      bool valid = true;
      if (whoOut) *whoOut = K;
      if (code == "a")
      {
         if (whoOut) *whoOut = nScript;
         Attach((f.size() > 1 && !f[1].empty()) ? f[1] : std::string("H"));
      }
      else if ((skip >= 0)&&(K == skip)) valid = false;           // erased (only in a baseline run; its output is not used)
      else if (!Alive(K)) valid = false;
      else if (code == "d") w.CloseClient(widx[K]);
      else if (code == "b")
      {
         std::vector<MessageRef> subs = BuildSubs(K, (f.size() > 2) ? f[2] : std::string(), unsubbed, false);
         w.client(widx[K]).Send(MkBatch(subs));
      }
      else
      {
         std::vector<std::string> fs(f.begin()+2, f.end());
         MessageRef m = BuildCommand(K, code, fs, unsubbed, false);
         if (m()) w.client(widx[K]).Send(m); else valid = false;
      }
      const int rounds = w.Pump();
      std::string st = DrainInboxes();
      if ((valid)&&(!unsubbed.empty())&&(Has(K))) Prune(K);
      st += " " + TreeAndSessions();
      if (rounds >= 2000) st += " NO-QUIESCENCE";
      if (validOut) *validOut = valid;
      return code + (valid ? "" : "!") + " " + st;
   }
};

// canonical text with the generated names of ordered children ("I<n>") made anonymous
static std::string NormI(const std::string & t)
{
   std::string r;
   for (size_t i=0; i<t.size(); i++)
   {
      const bool start = (t[i] == 'I')&&(i > 0)&&((t[i-1] == '/')||(t[i-1] == '[')||(t[i-1] == ','))&&(i+1 < t.size())&&(t[i+1] >= '0')&&(t[i+1] <= '9');
      if (start)
      {
         size_t j = i+1; while((j < t.size())&&(t[j] >= '0')&&(t[j] <= '9')) j++;
         if ((j == t.size())||(t[j] == '/')||(t[j] == '=')||(t[j] == ',')||(t[j] == ' ')||(t[j] == '{')||(t[j] == ']')||(t[j] == ';')) {r += "I#"; i = j-1; continue;}
      }
      r += t[i];
   }
   return r;
}
static std::string NormSorted(const std::string & t)   // for classification only: anonymous generated names, tokens as a multiset
{
   std::vector<std::string> tok = refl::Split(NormI(t), ' ');
   std::sort(tok.begin(), tok.end());
   std::string r; for (size_t i=0; i<tok.size(); i++) r += tok[i] + " ";
   return r;
}
static const char * RECYCLED = "recycled-ordered-counter: the names INSERTORDEREDDATA generates depend on what the recycled DataNode was used for before";

static bool IsPrivHost(const std::string & h) {return PrivBitsForHost(h) != 0;}

// the events of script session K erased from ops[0..n): K's attach and every op of K
static std::vector<std::string> Prefix(const std::vector<std::string> & ops, size_t n) {return std::vector<std::string>(ops.begin(), ops.begin()+n);}

// serialises Messages one by one through a real MessageIOGateway; returns the byte stream and the cumulative sizes
static void Serialise(const std::vector<MessageRef> & msgs, std::vector<uint8> & bytes, std::vector<size_t> & cum)
{
   ConstSocketRef a, b;
   if (CreateConnectedSocketPair(a, b, false).IsError()) {fprintf(stderr, "socketpair failed\n"); exit(3);}
   MessageIOGateway gw;
   gw.SetDataIO(DataIORef(new TCPSocketDataIO(a, false)));
   cum.push_back(0);
   for (size_t i=0; i<msgs.size(); i++)
   {
      (void) gw.AddOutgoingMessage(msgs[i]);
      for (int guard=0; (guard<100000)&&(gw.HasBytesToOutput()); guard++)
      {
         (void) gw.DoOutput();
         uint8 buf[4096];
         ssize_t r;
         while((r = recv(b.GetFileDescriptor(), buf, sizeof(buf), 0)) > 0) bytes.insert(bytes.end(), buf, buf+r);
      }
      uint8 buf[4096];
      ssize_t r;
      while((r = recv(b.GetFileDescriptor(), buf, sizeof(buf), 0)) > 0) bytes.insert(bytes.end(), buf, buf+r);
      cum.push_back(bytes.size());
   }
}

static void RunCase(long k, const std::string & line)
{
   const size_t bar = line.find('|');
   if (bar == std::string::npos) return;
   // label 'i': the stream with INSERTORDEREDDATA / REORDERDATA, which the Coq model does not cover: state lines are not printed
   // (nothing to compare them with), only the verdicts of the oracles and a final marker
   const bool quietCase = (bar > 0)&&(line[0] == 'i');
   // label 'q': ordered children as modelled by Refl/IsoOrd.v (INSERTORDEREDDATA with one key, REORDERDATA): tree (with the
   // ordered index of every node) and sessions are printed and compared; the INDEXUPDATED notifications are not modelled
   const bool treeOnly = (bar > 0)&&(line[0] == 'q');
   std::vector<std::string> raw = Split(line.substr(bar+1), ';');
   std::vector<std::string> ops;
   for (size_t i=0; i<raw.size(); i++) if (!raw[i].empty()) ops.push_back(raw[i]);

   Run * main = new Run(-1);
   main->foreignOnly = treeOnly;
   for (size_t j=0; j<ops.size(); j++)
   {
      std::vector<std::string> f = Split(ops[j], ':');
      const std::string code = f[0];
      const int K = ((f.size() > 1)&&(code != "a")) ? atoi(f[1].c_str()) : -1;
      if (code == "x")
      {
         // ---------------------------------------------------------------- connection cut at byte level
         if (!main->Alive(K)) {if (!quietCase) printf("%ld %d x! %s %s\n", k, (int)j, main->DrainInboxes().c_str(), main->TreeAndSessions().c_str()); break;}
         const std::string mode = (f.size() > 2) ? f[2] : "some";
         const std::string stream = (f.size() > 3) ? f[3] : "";
         std::vector<uint8> bytes; std::vector<size_t> cum;
         {
            std::vector<std::string> junk;
            std::vector<MessageRef> msgs = main->BuildSubs(K, stream, junk, true);
            Serialise(msgs, bytes, cum);
         }
         const size_t n = cum.size()-1;
         const bool unpriv = !IsPrivHost(main->hosts[K]);
         std::vector<size_t> offs;
         if (mode == "all") for (size_t B=0; B<=bytes.size(); B++) offs.push_back(B);
         else
         {
            std::set<size_t> so;
            for (size_t i=0; i<=n; i++)
            {
               const size_t c = cum[i];
               const size_t cand[] = {c, c+1, c+3, c+4, c+7, c+8, c+9, c+12, c+13, (i<n)?(cum[i+1]-1):c, (i<n)?((c+cum[i+1])/2):c};
               for (size_t q=0; q<sizeof(cand)/sizeof(cand[0]); q++) if ((cand[q] <= bytes.size())&&((i == n)||(cand[q] < cum[i+1]))) so.insert(cand[q]);
            }
            offs.assign(so.begin(), so.end());
         }
         // baseline: the same history without session K
         std::string baseObs, baseMir;
         bool baseQuiet = false;
         if (unpriv)
         {
            Run base(K);
            for (size_t i=0; i<j; i++) (void) base.Exec(ops[i], NULL, NULL);
            baseObs = base.ObsWithout(K); baseMir = base.MirrorsWithout(K); baseQuiet = base.quietUsed;
         }
         std::vector<std::string> perJ(n+1);
         std::vector<bool> have(n+1, false);
         std::set<std::string> reported;
         for (size_t oi=0; oi<offs.size(); oi++)
         {
            const size_t B0 = offs[oi];
            size_t jj = 0; while((jj < n)&&(cum[jj+1] <= B0)) jj++;
            Run r(-1);
            for (size_t i=0; i<j; i++) (void) r.Exec(ops[i], NULL, NULL);
            if (!r.Alive(K)) continue;
            // the client-side bookkeeping of the j complete Messages (mirror oracles need the subscriptions the server really got)
            {
               std::vector<std::string> so = stream.empty() ? std::vector<std::string>() : Split(stream, '+');
               std::vector<std::string> junk;
               for (size_t i=0; (i<jj)&&(i<so.size()); i++) {std::vector<std::string> sf = Split(so[i], '~'); const std::string sc = sf[0]; sf.erase(sf.begin()); (void) r.BuildCommand(K, sc, sf, junk, false);}
            }
            // the stream as THIS run's client writes it (absolute patterns and forged session fields carry this run's session ids),
            // cut at the same place: inside the same Message, the same number of bytes into it (clamped to its length)
            std::vector<uint8> rbytes; std::vector<size_t> rcum;
            {
               std::vector<std::string> junk2;
               std::vector<MessageRef> rmsgs = r.BuildSubs(K, stream, junk2, true);
               Serialise(rmsgs, rbytes, rcum);
            }
            size_t Br = B0;
            if (rcum.size() == cum.size())
            {
               if (jj < n) {const size_t delta = B0-cum[jj]; const size_t len = rcum[jj+1]-rcum[jj]; Br = rcum[jj] + ((delta < len) ? delta : (len ? len-1 : 0));}
                      else Br = rcum[n];
            }
            const std::vector<uint8> & bytes = rbytes;
            const size_t B = Br;
            Client & cl = r.w.client(r.widx[K]);
            size_t sent = 0;
            while(sent < B)
            {
               const ssize_t wr = send(cl.sock.GetFileDescriptor(), &bytes[sent], B-sent, MSG_NOSIGNAL);
               if (wr > 0) sent += (size_t) wr;
               else if ((wr < 0)&&((errno == EAGAIN)||(errno == EWOULDBLOCK)||(errno == EINTR))) {(void) r.w.srv.ServerProcessLoop(0);}
               else break;
            }
            r.w.CloseClient(r.widx[K]);
            const int rounds = r.w.Pump();
            const std::string st = r.DrainInboxes() + " " + r.TreeAndSessions() + ((rounds >= 2000) ? " NO-QUIESCENCE" : "");
            if (!have[jj]) {have[jj] = true; perJ[jj] = st;}
            else if (perJ[jj] != st)
            {
               if (NormSorted(perJ[jj]) == NormSorted(st)) {if (reported.insert("recycled").second) printf("%ld ORACLE FAIL %s op#%d x%d\n", k, RECYCLED, (int)j, (int)jj);}
               else if (reported.insert("dep"+itos((long)jj)).second)
                  printf("%ld ORACLE FAIL cut-offset-dependent op#%d x%d byte %lu of %lu\n", k, (int)j, (int)jj, (unsigned long)B, (unsigned long)bytes.size());
            }
            const std::string tr = r.TraceOf(K);
            if ((!tr.empty())&&(reported.insert("tr"+itos((long)jj)+tr).second)) printf("%ld ORACLE FAIL detach-trace op#%d x%d byte %lu c%d %s\n", k, (int)j, (int)jj, (unsigned long)B, K, tr.c_str());
            if (unpriv)
            {
               if ((r.ObsWithout(K) != baseObs)&&(getenv("ISO_DEBUG"))) fprintf(stderr, "BASE: %s\nCUT:  %s\n", baseObs.c_str(), r.ObsWithout(K).c_str());
               if ((r.ObsWithout(K) != baseObs)&&(NormSorted(r.ObsWithout(K)) == NormSorted(baseObs))) {if (reported.insert("recycled").second) printf("%ld ORACLE FAIL %s op#%d x%d\n", k, RECYCLED, (int)j, (int)jj);}
               else if ((r.ObsWithout(K) != baseObs)&&(reported.insert("ain"+itos((long)jj)).second)) printf("%ld ORACLE FAIL as-if-never op#%d x%d byte %lu c%d state differs from the run without the session\n", k, (int)j, (int)jj, (unsigned long)B, K);
               else if ((!r.quietUsed)&&(!baseQuiet)&&(r.MirrorsWithout(K) != baseMir)&&(reported.insert("aim"+itos((long)jj)).second)) printf("%ld ORACLE FAIL as-if-never op#%d x%d byte %lu c%d a client mirror differs from the run without the session\n", k, (int)j, (int)jj, (unsigned long)B, K);
            }
         }
         if (!quietCase) for (size_t jj=0; jj<=n; jj++) printf("%ld %d x%d %s\n", k, (int)j, (int)jj, have[jj] ? perJ[jj].c_str() : "<not reached>");
         fflush(stdout);
         break;   // a cut is the last op of a case
      }

      const bool isCmd = (code != "a")&&(code != "d");
      const bool applies = (main->Alive(K))&&(!IsPrivHost(main->hosts[K]));
      std::string before;
      if ((isCmd)&&(applies)) before = main->ForeignView(K);
      std::vector<bool> aliveBefore(main->hosts.size(), false);
      if (isCmd) for (size_t x=0; x<main->hosts.size(); x++) aliveBefore[x] = main->Alive((int)x);
      bool valid = false;
      const std::string st = main->Exec(ops[j], &valid, NULL);
      if (treeOnly)
      {
         // PR_RESULT_DATAITEMS received (M{}), tree and sessions; not L{}: it holds the PR_RESULT_INDEXUPDATED Messages
         const size_t mp = st.find("M{"), lp = st.find(" L{"), tp = st.find(" T{");
         const std::string ms = ((mp != std::string::npos)&&(lp != std::string::npos)&&(lp > mp)) ? (" " + st.substr(mp, lp-mp)) : std::string("");
         printf("%ld %d %s%s%s%s\n", k, (int)j, code.c_str(), valid ? "" : "!", ms.c_str(), (tp == std::string::npos) ? "" : st.substr(tp).c_str());
      }
      else if (!quietCase) printf("%ld %d %s\n", k, (int)j, st.c_str());
      {
         const std::string mw = main->MarksWrong();
         if (!mw.empty()) printf("%ld ORACLE FAIL marks op#%d %s\n", k, (int)j, mw.c_str());
      }
      // sessions that a privileged kick of this op removed: as if they had never been there
      if (isCmd) for (size_t x=0; x<aliveBefore.size(); x++) if ((aliveBefore[x])&&((int)x != K)&&(!main->Alive((int)x))&&(!IsPrivHost(main->hosts[x])))
      {
         const int X = (int) x;
         Run base(X);
         for (size_t i=0; i<=j; i++) (void) base.Exec(ops[i], NULL, NULL);
         if ((base.ObsWithout(X) != main->ObsWithout(X))&&(getenv("ISO_DEBUG"))) fprintf(stderr, "BASE: %s\nMAIN: %s\n", base.ObsWithout(X).c_str(), main->ObsWithout(X).c_str());
         if ((base.ObsWithout(X) != main->ObsWithout(X))&&(NormSorted(base.ObsWithout(X)) == NormSorted(main->ObsWithout(X)))) printf("%ld ORACLE FAIL %s op#%d\n", k, RECYCLED, (int)j);
         else if (base.ObsWithout(X) != main->ObsWithout(X)) printf("%ld ORACLE FAIL as-if-never op#%d c%d (kicked) state differs from the run without the session\n", k, (int)j, X);
         else if ((!base.quietUsed)&&(!main->quietUsed)&&(base.MirrorsWithout(X) != main->MirrorsWithout(X))) printf("%ld ORACLE FAIL as-if-never op#%d c%d (kicked) a client mirror differs from the run without the session\n", k, (int)j, X);
      }
      else if (st.find("NO-QUIESCENCE") != std::string::npos) printf("%ld ORACLE FAIL no-quiescence op#%d\n", k, (int)j);
      if ((isCmd)&&(applies)&&(valid)&&(main->w.alive(main->widx[K])))
      {
         const std::string after = main->ForeignView(K);
         if ((after != before)&&(getenv("ISO_DEBUG"))) fprintf(stderr, "BEFORE: %s\nAFTER:  %s\n", before.c_str(), after.c_str());
         if (after != before) printf("%ld ORACLE FAIL frame op#%d c%d a command of an unprivileged session changed something outside its subtree\n", k, (int)j, K);
      }
      if ((code == "d")&&(valid))
      {
         const std::string tr = main->TraceOf(K);
         if (!tr.empty()) printf("%ld ORACLE FAIL detach-trace op#%d c%d %s\n", k, (int)j, K, tr.c_str());
         if (applies)
         {
            Run base(K);
            for (size_t i=0; i<j; i++) (void) base.Exec(ops[i], NULL, NULL);
            if ((base.ObsWithout(K) != main->ObsWithout(K))&&(getenv("ISO_DEBUG"))) fprintf(stderr, "BASE: %s\nMAIN: %s\n", base.ObsWithout(K).c_str(), main->ObsWithout(K).c_str());
            if ((base.ObsWithout(K) != main->ObsWithout(K))&&(NormSorted(base.ObsWithout(K)) == NormSorted(main->ObsWithout(K)))) printf("%ld ORACLE FAIL %s op#%d\n", k, RECYCLED, (int)j);
            else if (base.ObsWithout(K) != main->ObsWithout(K)) printf("%ld ORACLE FAIL as-if-never op#%d c%d state differs from the run without the session\n", k, (int)j, K);
            else if ((!base.quietUsed)&&(!main->quietUsed)&&(base.MirrorsWithout(K) != main->MirrorsWithout(K))) printf("%ld ORACLE FAIL as-if-never op#%d c%d a client mirror differs from the run without the session\n", k, (int)j, K);
         }
      }
      fflush(stdout);
   }
   delete main;
   if (quietCase) printf("%ld i\n", k);
}

int main(int, char **)
{
   CompleteSetupSystem css;
   QuietLogs();
   std::string line;
   long k = 0;
   while(std::getline(std::cin, line)) {RunCase(k, line); k++; fflush(stdout);}
   return 0;
}
