/* C03 harness: the C "micro" Message + gateway (lang/c/micromessage), MicroMessage.c only.
   MiniMessage.c and MicroMessage.c both define the same global compile-time-assertion arrays,
   so they are renamed here to let both live in one executable. */
#define int8_is_1_byte_assertion    u_int8_is_1_byte_assertion
#define uint8_is_1_byte_assertion   u_uint8_is_1_byte_assertion
#define int16_is_2_bytes_assertion  u_int16_is_2_bytes_assertion
#define uint16_is_2_bytes_assertion u_uint16_is_2_bytes_assertion
#define int32_is_4_bytes_assertion  u_int32_is_4_bytes_assertion
#define uint32_is_4_bytes_assertion u_uint32_is_4_bytes_assertion
#define float_is_4_bytes_assertion  u_float_is_4_bytes_assertion
#define int64_is_8_bytes_assertion  u_int64_is_8_bytes_assertion
#define uint64_is_8_bytes_assertion u_uint64_is_8_bytes_assertion
#define double_is_8_bytes_assertion u_double_is_8_bytes_assertion
#include "lang/c/micromessage/MicroMessage.c"
