#!/usr/bin/env python3
"""C08: drives lang/python3/message.py (the Python implementation of the MUSCLE Message wire format).

stdin : lines `k <hex of the bytes C++ produced> <canonical content text (CCT)>`
stdout: per line  `k OK <cct as parsed by Python> <hex re-flattened> <hex of a Message built from the CCT with the Put* API> <hex of the 8-byte stream header>`
        or        `k SKIP <reason>`  (content outside what the Python codec can represent: it decodes names
                                      and strings as UTF-8; Point/Rect items go through Python floats, so NaN
                                      payloads are not compared)
        or        `k ERR <exception>`
argv[1] = directory of message.py (lang/python3 of the tree under test)
"""
import sys, struct, array, io, math

sys.path.insert(0, sys.argv[1])
import message as M   # noqa: E402

FIXED = {M.B_BOOL_TYPE: ('b', 1), M.B_INT8_TYPE: ('b', 1), M.B_INT16_TYPE: ('h', 2), M.B_INT32_TYPE: ('i', 4),
         M.B_INT64_TYPE: ('q', 8), M.B_FLOAT_TYPE: ('f', 4), M.B_DOUBLE_TYPE: ('d', 8)}


class Skip(Exception):
    pass


def cct_of(msg):
    out = ["M(%d" % (msg.what & 0xffffffff)]
    for name in msg.GetFieldNames():
        tc = msg.GetFieldType(name)
        items = msg.GetFieldContents(name)
        parts = []
        if tc in FIXED:
            code, w = FIXED[tc]
            arr = items if isinstance(items, array.array) else array.array(code, items)
            raw = arr.tobytes()
            parts = ["=" + raw[i:i + w].hex() for i in range(0, len(raw), w)]
        elif tc == M.B_MESSAGE_TYPE:
            parts = [cct_of(s) for s in items]
        elif tc == M.B_POINT_TYPE:
            for p in items:
                if any(math.isnan(x) for x in p):
                    raise Skip("nan-in-point")
                parts.append("=" + struct.pack("<2f", *p).hex())
        elif tc == M.B_RECT_TYPE:
            for p in items:
                if any(math.isnan(x) for x in p):
                    raise Skip("nan-in-rect")
                parts.append("=" + struct.pack("<4f", *p).hex())
        elif tc == M.B_STRING_TYPE:
            parts = ["=" + s.encode().hex() for s in items]
        else:
            parts = ["=" + bytes(b).hex() for b in items]
        out.append(";%s:%d:%s" % (name.encode().hex(), tc, ",".join(parts)))
    out.append(")")
    return "".join(out)


def parse_cct(s, pos=0):
    """-> (Message built through the public Put* API, next position)"""
    assert s.startswith("M(", pos), s[pos:pos + 10]
    pos += 2
    end = pos
    while s[end].isdigit():
        end += 1
    msg = M.Message(int(s[pos:end]))
    pos = end
    while s[pos] == ";":
        pos += 1
        c1 = s.index(":", pos)
        name = bytes.fromhex(s[pos:c1]).decode()       # UnicodeDecodeError -> SKIP
        c2 = s.index(":", c1 + 1)
        tc = int(s[c1 + 1:c2])
        pos = c2 + 1
        items = []
        while s[pos] not in ";)":
            if s[pos] == ",":
                pos += 1
            if s[pos] == "=":
                e = pos + 1
                while s[e] in "0123456789abcdef":
                    e += 1
                items.append(bytes.fromhex(s[pos + 1:e]))
                pos = e
            else:
                sub, pos = parse_cct(s, pos)
                items.append(sub)
        if tc in FIXED:
            arr = array.array(FIXED[tc][0])
            arr.frombytes(b"".join(items))
            contents = arr
        elif tc == M.B_POINT_TYPE:
            contents = [struct.unpack("<2f", b) for b in items]
        elif tc == M.B_RECT_TYPE:
            contents = [struct.unpack("<4f", b) for b in items]
        elif tc == M.B_STRING_TYPE:
            contents = [b.decode() for b in items]
        else:
            contents = items
        for it in contents if tc in (M.B_POINT_TYPE, M.B_RECT_TYPE) else []:
            if any(math.isnan(x) for x in it):
                raise Skip("nan-in-point/rect")
        # an edit history instead of a one-shot build (chosen from the field's position in the text): re-put over a field of
        # another type, remove-and-put-again, a decoy neighbour put before and removed after
        hist = (pos + len(name)) % 4
        if hist == 1:
            msg.PutInt32(name, [1, 2, 3])
        elif hist == 2:
            msg.PutString(name + "~tmp", ["decoy"])
        elif hist == 3:
            msg.PutString(name, ["x"])
            msg.RemoveName(name)
        if tc == M.B_MESSAGE_TYPE:
            msg.PutMessage(name, contents)
        elif tc == M.B_STRING_TYPE:
            msg.PutString(name, contents)
        elif tc == M.B_INT32_TYPE:
            msg.PutInt32(name, contents)
        elif tc == M.B_BOOL_TYPE:
            msg.PutBool(name, contents)
        elif tc == M.B_POINT_TYPE:
            msg.PutPoint(name, contents)
        elif tc == M.B_RECT_TYPE:
            msg.PutRect(name, contents)
        else:
            msg.PutFieldContents(name, tc, contents)
        if hist == 2:
            msg.RemoveName(name + "~tmp")
    assert s[pos] == ")"
    return msg, pos + 1


def frame_header(msg):
    """the 8-byte stream header exactly as message_transceiver_thread.py builds it for an outgoing Message:
    runs the class's own (private) __getNextMessageFromMain on an instance that owns only an output queue"""
    import queue
    import message_transceiver_thread as MT
    obj = object.__new__(MT.MessageTransceiverThread)
    obj._MessageTransceiverThread__outQ = queue.Queue()
    obj._endSession = MT.TimeForMessageTransceiverThreadToGoAwayException()
    obj._MessageTransceiverThread__outQ.put(msg)
    hdr, body = obj._MessageTransceiverThread__getNextMessageFromMain()
    return hdr.hex(), body.hex()


def main():
    for line in sys.stdin:
        parts = line.rstrip("\n").split(" ")
        if len(parts) != 3:
            continue
        k, hx, cct = parts
        try:
            m = M.Message()
            m.SetFromFlattenedBuffer(bytes.fromhex(hx))
            got = cct_of(m)
            re = m.GetFlattenedBuffer().hex()
            if m.FlattenedSize() * 2 != len(re):
                print("%s ERR FlattenedSize()=%d but Flatten wrote %d bytes" % (k, m.FlattenedSize(), len(re) // 2))
                continue
            built, _ = parse_cct(cct)
            hdr, body = frame_header(built)
            print("%s OK %s %s %s %s" % (k, got, re, built.GetFlattenedBuffer().hex(), hdr))
        except Skip as ex:
            print("%s SKIP %s" % (k, ex))
        except UnicodeDecodeError:
            print("%s SKIP non-utf8" % k)
        except Exception as ex:   # noqa: BLE001
            print("%s ERR %s: %s" % (k, type(ex).__name__, str(ex)[:200].replace("\n", " ")))
        sys.stdout.flush()


if __name__ == "__main__":
    main()
