#!/usr/bin/env python3
"""Insert the MUSCLE_VERIF_HOOKS lines into a muscle source tree (add-only: every edit inserts whole new
lines next to an anchor; no existing line is rewritten or deleted).  usage: apply_hooks.py <tree>"""
import sys, os

DECL = r'''#ifdef MUSCLE_VERIF_HOOKS
# ifndef MUSCLE_VERIF_HOOKS_DECLARED
#  define MUSCLE_VERIF_HOOKS_DECLARED
// Verification hooks: add-only, compiled only with -DMUSCLE_VERIF_HOOKS (this same block is repeated,
// under this include-guard, in every hooked header).  A controlled scheduler (verification harness) may
// install ONE callback through muscle_verif_hook_ref(); while none is installed every hook is a
// load-and-test of a NULL pointer and the code behaves exactly as it does without the guard.
enum {
   MUSCLE_VERIF_MUTEX_LOCK = 1,   // Mutex::LockAux(), before the native lock is taken         (obj = the Mutex)
   MUSCLE_VERIF_MUTEX_TRYLOCK,    // Mutex::TryLockAux(), before the native try-lock; result MUSCLE_VERIF_FAIL = "held by another thread"
   MUSCLE_VERIF_MUTEX_UNLOCK,     // Mutex::UnlockAux(), after the native lock was released
   MUSCLE_VERIF_WC_WAIT,          // WaitCondition::Wait() without a timeout   (obj = the WaitCondition, arg = &_pendingNotificationsCount)
   MUSCLE_VERIF_WC_TIMEDWAIT,     // WaitCondition::Wait() with a timeout      (same arguments)
   MUSCLE_VERIF_WC_NOTIFY,        // WaitCondition::Notify(), before the counter is increased  (arg = &increaseBy)
   MUSCLE_VERIF_ATOMIC_INC,       // AtomicCounter::AtomicIncrement(), before the increment    (obj = the AtomicCounter)
   MUSCLE_VERIF_ATOMIC_DEC,       // AtomicCounter::AtomicDecrement(), before the decrement
   MUSCLE_VERIF_ATOMIC_CAS,       // AtomicCounter::ConditionalSetCount(), before the compare-and-swap
   MUSCLE_VERIF_THREAD_SPAWN,     // (reserved for system/Thread.cpp) parent, before the native thread is created   (obj = the Thread)
   MUSCLE_VERIF_THREAD_SPAWNED,   // (reserved) parent, after the native thread was created
   MUSCLE_VERIF_THREAD_START,     // (reserved) child, first thing in its entry function
   MUSCLE_VERIF_THREAD_EXIT,      // (reserved) child, last thing in its entry function
   MUSCLE_VERIF_THREAD_JOIN,      // (reserved) parent, before the native join
   MUSCLE_VERIF_SEM_POST,         // (reserved) a signal that a blocking wait consumes, eg a byte written to a signalling socket (obj = the channel)
   MUSCLE_VERIF_SEM_WAIT,         // (reserved) untimed blocking wait for such a signal; drains it
   MUSCLE_VERIF_SEM_TIMEDWAIT,    // (reserved) timed blocking wait for such a signal; result MUSCLE_VERIF_FAIL = "timed out"
   MUSCLE_VERIF_USER = 100        // first kind free for harness-defined yield points
};
enum {
   MUSCLE_VERIF_PROCEED = 0,      // carry on with the normal code (always the result when no callback is installed)
   MUSCLE_VERIF_FAIL    = 1,      // try-lock: the lock is held by another thread; wait: the scheduler fired the timeout
   MUSCLE_VERIF_GRANTED = 2       // wait: the notification counter is positive, consume it without blocking
};
typedef int (*muscle_verif_hook_t)(int kind, const void * obj, const void * arg);
inline muscle_verif_hook_t & muscle_verif_hook_ref() {static muscle_verif_hook_t f = 0; return f;}  // one instance per program (inline function, local static)
#  define MUSCLE_VERIF_HOOK(kind, obj, arg) (muscle_verif_hook_ref() ? muscle_verif_hook_ref()((kind), (obj), (arg)) : MUSCLE_VERIF_PROCEED)
#  define MUSCLE_VERIF_YIELD(kind, obj)     ((void) MUSCLE_VERIF_HOOK((kind), (obj), 0))
# endif
#endif

'''


def patch(path, edits):
    s = open(path).read()
    if "MUSCLE_VERIF_HOOKS" in s:
        print("already patched:", path)
        return
    for anchor, new, where in edits:
        n = s.count(anchor)
        assert n == 1, (path, anchor, n)
        assert new.endswith("\n") and anchor.endswith("\n") and (s.find(anchor) == 0 or s[s.find(anchor) - 1] == "\n"), "whole lines only"
        s = s.replace(anchor, new + anchor) if where == "before" else s.replace(anchor, anchor + new)
    open(path, "w").write(s)
    print("patched:", path)


def main(tree):
    j = lambda p: os.path.join(tree, p)
    # ------------------------------------------------------------------ system/Mutex.h
    patch(j("system/Mutex.h"), [
        ("namespace muscle {\n\nclass String;\n", DECL, "before"),
        # LockAux(), C++11 branch: the scheduler parks the caller here until the Mutex is free (or already the caller's)
        ("# if !defined(MUSCLE_NO_EXCEPTIONS)\n      try {\n# endif\n         _locker.lock();\n",
         "# ifdef MUSCLE_VERIF_HOOKS\n"
         "      MUSCLE_VERIF_YIELD(MUSCLE_VERIF_MUTEX_LOCK, this);  // a controlled scheduler parks us here until this Mutex is free (or already ours)\n"
         "# endif\n", "before"),
        # TryLockAux(), C++11 branch
        ("      return _locker.try_lock() ? B_NO_ERROR : B_LOCK_FAILED;\n",
         "# ifdef MUSCLE_VERIF_HOOKS\n"
         "      if (MUSCLE_VERIF_HOOK(MUSCLE_VERIF_MUTEX_TRYLOCK, this, 0) == MUSCLE_VERIF_FAIL) return B_LOCK_FAILED;  // held by another (descheduled) thread\n"
         "# endif\n", "before"),
        # UnlockAux(), C++11 branch: after the native unlock
        ("#elif !defined(MUSCLE_AVOID_CPLUSPLUS11)\n      _locker.unlock();\n",
         "# ifdef MUSCLE_VERIF_HOOKS\n"
         "      MUSCLE_VERIF_YIELD(MUSCLE_VERIF_MUTEX_UNLOCK, this);  // tells a controlled scheduler that this Mutex was released (one level)\n"
         "# endif\n", "after"),
    ])
    # ------------------------------------------------------------------ system/WaitCondition.h
    patch(j("system/WaitCondition.h"), [
        ("namespace muscle {\n\n/** This class is a platform-independent API for a wait/notify mechanism via which one thread\n", DECL, "before"),
        ("      return (wakeupTime == MUSCLE_TIME_NEVER) ? WaitAux(retCounter) : WaitUntilAux(wakeupTime, retCounter);\n",
         "#ifdef MUSCLE_VERIF_HOOKS\n"
         "      {\n"
         "         // Under a controlled scheduler the blocking happens inside the scheduler: it parks us until our counter is\n"
         "         // positive (MUSCLE_VERIF_GRANTED) or, for a timed wait, until it decides to fire the timeout (MUSCLE_VERIF_FAIL).\n"
         "         const int vr = MUSCLE_VERIF_HOOK((wakeupTime == MUSCLE_TIME_NEVER) ? MUSCLE_VERIF_WC_WAIT : MUSCLE_VERIF_WC_TIMEDWAIT, this, &_pendingNotificationsCount);\n"
         "         if (vr == MUSCLE_VERIF_FAIL)    return B_TIMED_OUT;\n"
         "         if (vr == MUSCLE_VERIF_GRANTED) return WaitAux(retCounter);  // the counter is positive, so this flushes it and returns at once\n"
         "      }\n"
         "#endif\n", "before"),
        ("      if (increaseBy == 0) return B_NO_ERROR;  // no point waking everyone up for a no-op\n",
         "#ifdef MUSCLE_VERIF_HOOKS\n"
         "      (void) MUSCLE_VERIF_HOOK(MUSCLE_VERIF_WC_NOTIFY, this, &increaseBy);\n"
         "#endif\n", "after"),
    ])
    # ------------------------------------------------------------------ system/AtomicCounter.h
    patch(j("system/AtomicCounter.h"), [
        ("namespace muscle {\n\n#if defined(MUSCLE_USE_MUTEXES_FOR_ATOMIC_OPERATIONS)\nextern Mutex * _muscleAtomicMutexes;\n", DECL, "before"),
        ("   MUSCLE_NODISCARD inline bool AtomicIncrement()\n   {\n",
         "#ifdef MUSCLE_VERIF_HOOKS\n"
         "      MUSCLE_VERIF_YIELD(MUSCLE_VERIF_ATOMIC_INC, this);\n"
         "#endif\n", "after"),
        ("   MUSCLE_NODISCARD inline bool AtomicDecrement()\n   {\n",
         "#ifdef MUSCLE_VERIF_HOOKS\n"
         "      MUSCLE_VERIF_YIELD(MUSCLE_VERIF_ATOMIC_DEC, this);\n"
         "#endif\n", "after"),
        ("   status_t ConditionalSetCount(int32 fromOldValue, int32 toNewValue)\n   {\n",
         "#ifdef MUSCLE_VERIF_HOOKS\n"
         "      MUSCLE_VERIF_YIELD(MUSCLE_VERIF_ATOMIC_CAS, this);\n"
         "#endif\n", "after"),
    ])


if __name__ == "__main__":
    main(sys.argv[1])
