// Controlled scheduler for the concurrency properties (C10, C11, C18, C19).  See README.md in this directory.
//
// Real threads, exactly one runnable at a time.  Every hook call made by muscle code compiled with
// -DMUSCLE_VERIF_HOOKS (system/Mutex.h, system/WaitCondition.h, system/AtomicCounter.h, later system/Thread.cpp)
// lands in the scheduler, which appends (thread, kind, object) to an event log, keeps the blocking state itself
// (mutex owners, wait-condition counters, joins) and -- at the kinds selected as *decision points* -- hands control
// to the next thread, chosen from an explicit schedule, a seeded PRNG, or a non-preemptive default policy (the
// building block of the exhaustive enumeration up to a preemption bound, Explore()).
#ifndef VERIF_SCHED_H
#define VERIF_SCHED_H

#include <stdint.h>
#include <functional>
#include <string>
#include <vector>

namespace vsched {

// Event / hook kinds.  1..17 are the MUSCLE_VERIF_* values of the hooked muscle headers (same numbers).
enum Kind {
   K_MUTEX_LOCK = 1, K_MUTEX_TRYLOCK, K_MUTEX_UNLOCK,
   K_WC_WAIT, K_WC_TIMEDWAIT, K_WC_NOTIFY,
   K_ATOMIC_INC, K_ATOMIC_DEC, K_ATOMIC_CAS,
   K_THREAD_SPAWN, K_THREAD_SPAWNED, K_THREAD_START, K_THREAD_EXIT, K_THREAD_JOIN,
   K_SEM_POST, K_SEM_WAIT, K_SEM_TIMEDWAIT,
   // produced by the scheduler itself (never passed to the hook):
   K_WOKEN = 40,          // a parked waiter was resumed because its counter was positive        (obj = the wait object)
   K_TIMEOUT = 41,        // a parked timed waiter was resumed by a timeout fired by the scheduler (obj = the wait object)
   K_TRYLOCK_BUSY = 42,   // a try-lock found the mutex held by another thread
   K_BEGIN = 43,          // a controlled thread starts running its body
   K_END = 44,            // a controlled thread finished its body
   K_NOTE = 45,           // free text appended with Scheduler::Note()
   K_USER = 100           // first harness-defined kind (Scheduler::Yield)
};
const char * KindName(int kind);

struct Choice {
   int  tid;              // which thread runs next
   bool timeout;          // true: resume that (parked, timed) waiter with "timed out" instead of letting it run normally
   Choice(int t = -1, bool to = false) : tid(t), timeout(to) {}
   bool operator==(const Choice & o) const {return tid == o.tid && timeout == o.timeout;}
   bool operator!=(const Choice & o) const {return !(*this == o);}
};
std::string FormatSchedule(const std::vector<Choice> & s);                 // "0,1,1!,2"  (N! = fire thread N's timeout)
bool        ParseSchedule(const std::string & text, std::vector<Choice> & out);

struct Event {
   int          tid;      // controlled thread that produced the event
   int          kind;     // Kind
   int          obj;      // stable object id (index into Result::object_names), -1 if none
   const void * ptr;      // raw address (for harness-side translation only; never print it)
   long         aux;      // kind-specific: WC_NOTIFY increase, WC_WAIT counter at entry, MUTEX_* recursion depth after the event
   std::string  note;     // K_NOTE text
};

enum { F_LOG = 1, F_DECIDE = 2 };

struct Options {
   Options();
   uint64_t seed;                         // PRNG seed for policy RANDOM
   enum Policy { RANDOM, NONPREEMPTIVE } policy;   // how decisions beyond the explicit schedule are taken
   std::vector<Choice> schedule;          // explicit decisions, consumed first (a replay)
   bool     tolerant_schedule;            // false (default): an explicit entry that is not enabled ends the run with BAD_SCHEDULE;
                                          // true: such entries are skipped (the next entry, or the policy, decides) -- lets a shrinker drop operations
   uint64_t log_kinds;                    // bit k set: events of hook kind k (< 64) are logged.       default: all but the atomics
   uint64_t decide_kinds;                 // bit k set: hook kind k is a decision point.               default: MUTEX_LOCK, WC waits, SEM waits, THREAD_*
   bool     user_kinds_decide;            // kinds >= K_USER are decision points (default true); they are always logged
   // optional per-object refinement: returns F_LOG|F_DECIDE flags for (kind, obj); when set it REPLACES the two masks for hook kinds < K_USER.
   // Blocking is always handled whatever the flags say (a thread that needs a held mutex or an empty counter parks, which forces a decision).
   std::function<int(int kind, const void * obj)> policy_fn;
   // called in the context of the running thread right after an event was appended to the log (no other controlled thread runs meanwhile);
   // may call Scheduler::Note() to attach a state dump.  Not called for K_NOTE.
   std::function<void(const Event &)> on_event;
   unsigned max_decisions;                // livelock guard (default 20000)
   bool     reuse_threads;                // default true: Spawn()ed bodies run on pooled native threads that persist across Scheduler objects
                                          // (thread creation is by far the most expensive part of a run under ASan); false: a fresh std::thread each
   unsigned timeout_weight_percent;       // policy RANDOM: chance that an enabled timeout choice is preferred over running (default 15)
};
static inline uint64_t KindBit(int k) {return (k >= 0 && k < 64) ? (1ULL << k) : 0;}

struct Step {                              // one decision, for replay and for Explore()
   std::vector<Choice> enabled;            // every choice that was possible, sorted by (tid, timeout)
   Choice              taken;
   int                 current;            // thread that reached the decision point (-1: the initial decision)
   bool                current_enabled;    // Choice(current,false) was enabled, ie taking anything else is a preemption
   size_t              log_pos;            // number of events in the log when the decision was taken
};

struct Result {
   enum Status { COMPLETED, DEADLOCK, STEP_LIMIT, BAD_SCHEDULE } status;
   std::vector<Step>        steps;
   std::vector<Event>       log;
   std::vector<std::string> object_names;  // id -> name given with NameObject() or "o<N>" in order of first appearance
   std::string              detail;        // DEADLOCK: who is blocked on what; BAD_SCHEDULE: which entry was not enabled
   std::vector<Choice> Schedule() const {std::vector<Choice> r; for (size_t i=0; i<steps.size(); i++) r.push_back(steps[i].taken); return r;}
   int Preemptions() const {int n = 0; for (size_t i=0; i<steps.size(); i++) if (steps[i].current_enabled && steps[i].taken != Choice(steps[i].current, false)) n++; return n;}
   std::string FormatLog() const;          // one line per event: "<tid> <KIND> <object-name> <aux>[ <note>]"
   const char * StatusName() const;
};

class Scheduler {
public:
   explicit Scheduler(const Options & opt = Options());
   ~Scheduler();                           // after DEADLOCK / BAD_SCHEDULE / STEP_LIMIT the parked threads are abandoned (detached, never resumed)

   int  Spawn(const std::function<void()> & body);        // before Run(); returns the thread id 0,1,2,...
   void NameObject(const void * p, const std::string & name);
   Result Run();                           // installs the hook, runs the spawned threads under control, uninstalls it.  Once per Scheduler.

   // -- callable from controlled threads (no-ops / -1 elsewhere)
   static int  Self();                     // thread id of the calling controlled thread
   static void Yield(int kind = K_USER, const void * obj = 0, long aux = 0);   // harness-level event + (by default) decision point
   static void Note(const std::string & text);            // K_NOTE event, never a decision point
   // true once any Scheduler in this process abandoned threads: objects those threads are blocked in must be leaked, and the
   // process should leave through fflush + _exit().
   static bool AbandonedThreads();

   struct Impl;
private:
   Impl * _impl;
   Scheduler(const Scheduler &);
   Scheduler & operator=(const Scheduler &);
};

// Exhaustive, stateless enumeration of every schedule with at most `max_preemptions` preemptions (a preemption = a decision that does
// not continue the thread that reached the decision point although it could have continued).  `setup` must build the SAME system each
// time it is called (fresh objects, same threads in the same order) on the Scheduler it is given; `on_result` gets every run and returns
// false to stop.  Returns the number of runs.  base.schedule / base.policy are overwritten.
struct ExploreOptions {
   ExploreOptions() : max_preemptions(2), max_runs(100000) {}
   int     max_preemptions;
   size_t  max_runs;
   Options base;
};
size_t Explore(const ExploreOptions & eo, const std::function<void(Scheduler &)> & setup, const std::function<bool(const Result &)> & on_result);

}  // namespace vsched

#endif
