// Controlled scheduler -- implementation.  See sched.h and README.md.
#include "sched/sched.h"

#include <stdio.h>
#include <string.h>
#include <algorithm>
#include <condition_variable>
#include <map>
#include <memory>
#include <mutex>
#include <sstream>
#include <thread>

#include "system/Mutex.h"   // brings in the MUSCLE_VERIF_* hook declarations (needs -DMUSCLE_VERIF_HOOKS and the hooked tree)
#ifndef MUSCLE_VERIF_HOOKS_DECLARED
# error "sched.cpp needs a muscle tree that carries the MUSCLE_VERIF_HOOKS patches and -DMUSCLE_VERIF_HOOKS on the command line"
#endif

namespace vsched {

static_assert((int)K_MUTEX_LOCK == (int)MUSCLE_VERIF_MUTEX_LOCK && (int)K_MUTEX_UNLOCK == (int)MUSCLE_VERIF_MUTEX_UNLOCK &&
              (int)K_WC_WAIT == (int)MUSCLE_VERIF_WC_WAIT && (int)K_WC_NOTIFY == (int)MUSCLE_VERIF_WC_NOTIFY &&
              (int)K_ATOMIC_CAS == (int)MUSCLE_VERIF_ATOMIC_CAS && (int)K_THREAD_JOIN == (int)MUSCLE_VERIF_THREAD_JOIN &&
              (int)K_SEM_TIMEDWAIT == (int)MUSCLE_VERIF_SEM_TIMEDWAIT && (int)K_USER == (int)MUSCLE_VERIF_USER,
              "sched.h kinds must mirror the MUSCLE_VERIF_* enumeration of the hooked headers");

const char * KindName(int k)
{
   switch(k)
   {
      case K_MUTEX_LOCK: return "LOCK";          case K_MUTEX_TRYLOCK: return "TRYLOCK";    case K_MUTEX_UNLOCK: return "UNLOCK";
      case K_WC_WAIT: return "WAIT";             case K_WC_TIMEDWAIT: return "TIMEDWAIT";   case K_WC_NOTIFY: return "NOTIFY";
      case K_ATOMIC_INC: return "INC";           case K_ATOMIC_DEC: return "DEC";           case K_ATOMIC_CAS: return "CAS";
      case K_THREAD_SPAWN: return "SPAWN";       case K_THREAD_SPAWNED: return "SPAWNED";   case K_THREAD_START: return "START";
      case K_THREAD_EXIT: return "EXIT";         case K_THREAD_JOIN: return "JOIN";
      case K_SEM_POST: return "POST";            case K_SEM_WAIT: return "SEMWAIT";         case K_SEM_TIMEDWAIT: return "SEMTIMEDWAIT";
      case K_WOKEN: return "WOKEN";              case K_TIMEOUT: return "TIMEOUT";          case K_TRYLOCK_BUSY: return "TRYLOCK_BUSY";
      case K_BEGIN: return "BEGIN";              case K_END: return "END";                  case K_NOTE: return "NOTE";
      default: return (k >= K_USER) ? "USER" : "?";
   }
}

std::string FormatSchedule(const std::vector<Choice> & s)
{
   std::string r;
   char buf[32];
   for (size_t i=0; i<s.size(); i++)
   {
      snprintf(buf, sizeof(buf), "%s%d%s", i ? "," : "", s[i].tid, s[i].timeout ? "!" : "");
      r += buf;
   }
   return r;
}

bool ParseSchedule(const std::string & text, std::vector<Choice> & out)
{
   out.clear();
   size_t i = 0;
   while(i < text.size())
   {
      if (text[i] == ',' || text[i] == ' ') {i++; continue;}
      if (text[i] < '0' || text[i] > '9') return false;
      int v = 0;
      while(i < text.size() && text[i] >= '0' && text[i] <= '9') v = v*10 + (text[i++]-'0');
      bool to = false;
      if (i < text.size() && text[i] == '!') {to = true; i++;}
      out.push_back(Choice(v, to));
   }
   return true;
}

Options::Options()
   : seed(1), policy(RANDOM), tolerant_schedule(false), reuse_threads(true),
     log_kinds(~(KindBit(K_ATOMIC_INC)|KindBit(K_ATOMIC_DEC)|KindBit(K_ATOMIC_CAS))),
     decide_kinds(KindBit(K_MUTEX_LOCK)|KindBit(K_WC_WAIT)|KindBit(K_WC_TIMEDWAIT)|KindBit(K_SEM_WAIT)|KindBit(K_SEM_TIMEDWAIT)|
                  KindBit(K_THREAD_SPAWNED)|KindBit(K_THREAD_JOIN)),
     user_kinds_decide(true), max_decisions(20000), timeout_weight_percent(15)
{
}

const char * Result::StatusName() const
{
   switch(status) {case COMPLETED: return "COMPLETED"; case DEADLOCK: return "DEADLOCK"; case STEP_LIMIT: return "STEP_LIMIT"; default: return "BAD_SCHEDULE";}
}

std::string Result::FormatLog() const
{
   std::ostringstream o;
   for (size_t i=0; i<log.size(); i++)
   {
      const Event & e = log[i];
      o << e.tid << " " << KindName(e.kind);
      if (e.kind >= K_USER) o << (e.kind-K_USER);
      o << " " << ((e.obj >= 0 && (size_t)e.obj < object_names.size()) ? object_names[e.obj] : std::string("-")) << " " << e.aux;
      if (!e.note.empty()) o << " " << e.note;
      o << "\n";
   }
   return o.str();
}

// ------------------------------------------------------------------------------------------------------------------------

struct ThreadRec {
   enum St { NOT_STARTED, READY, WANT_MUTEX, WAITING, JOINING, RUNNING, FINISHED };
   ThreadRec() : tid(-1), st(NOT_STARTED), obj(0), cnt(0), own_counter(false), timed(false), woke_by_timeout(false), join_target(-1), thread_obj(0), adopted(false) {}
   int tid;
   St  st;
   const void * obj;                 // mutex wanted / wait object
   const volatile uint32_t * cnt;    // WAITING on a WaitCondition: its real counter
   bool own_counter;                 // WAITING on a SEM object: the counter lives in Impl::sems
   bool timed;
   bool woke_by_timeout;
   int  join_target;
   const void * thread_obj;          // adopted threads: the object passed to THREAD_START (what THREAD_JOIN names)
   bool adopted;
   std::condition_variable cv;
   std::function<void()> body;
   std::thread th;
};

struct MutexRec { MutexRec() : owner(-1), depth(0) {} int owner; int depth; };

static bool g_abandoned = false;

// Controlled threads run on pooled, persistent native threads: creating a thread costs tens of milliseconds under ASan on a
// loaded machine, a hand-off costs microseconds.  A worker whose job never returns (abandoned run) is simply lost.
struct Worker {
   Worker() : has_job(false) {}
   std::mutex m;
   std::condition_variable cv;
   std::function<void()> job;
   bool has_job;
};
static std::mutex g_pool_mu;
static std::vector<Worker *> g_idle;
static void WorkerLoop(Worker * w)
{
   for(;;)
   {
      std::function<void()> j;
      {
         std::unique_lock<std::mutex> lk(w->m);
         while(!w->has_job) w->cv.wait(lk);
         j.swap(w->job);
         w->has_job = false;
      }
      j();
      j = std::function<void()>();
      std::unique_lock<std::mutex> lk(g_pool_mu);
      g_idle.push_back(w);
   }
}
static void RunOnWorker(const std::function<void()> & j)
{
   Worker * w = 0;
   {
      std::unique_lock<std::mutex> lk(g_pool_mu);
      if (!g_idle.empty()) {w = g_idle.back(); g_idle.pop_back();}
   }
   if (w == 0) {w = new Worker; std::thread(WorkerLoop, w).detach();}
   {
      std::unique_lock<std::mutex> lk(w->m);
      w->job = j;
      w->has_job = true;
   }
   w->cv.notify_one();
}
static Scheduler::Impl * g_active = 0;
static thread_local ThreadRec * tl_me = 0;
static thread_local Scheduler::Impl * tl_impl = 0;
static thread_local bool tl_in_callback = false;

struct Scheduler::Impl {
   Impl(const Options & o) : opt(o), turn(-1), over(false), ran(false), decisions(0), sched_pos(0), rng(o.seed*0x9E3779B97F4A7C15ULL + 0x1234567ULL), registered(0), exited(0), pending_adopt(0) {res.status = Result::COMPLETED;}

   Options opt;
   std::mutex mu;
   std::condition_variable main_cv;
   std::vector<std::unique_ptr<ThreadRec> > threads;
   int  turn;                    // tid allowed to run; -1: nobody yet / the main thread; -2: abandoned
   bool over, ran;
   unsigned decisions;
   size_t sched_pos;
   uint64_t rng;
   size_t registered;
   size_t exited;                // pooled threads that have left ThreadMain
   int pending_adopt;
   Result res;
   std::map<const void *, int> obj_ids;
   std::map<const void *, MutexRec> mutexes;
   std::map<const void *, uint32_t> sems;

   uint64_t Rand() {rng ^= rng << 13; rng ^= rng >> 7; rng ^= rng << 17; return rng;}

   int ObjId(const void * p)
   {
      if (p == 0) return -1;
      std::map<const void *, int>::iterator it = obj_ids.find(p);
      if (it != obj_ids.end()) return it->second;
      const int id = (int) res.object_names.size();
      char buf[32]; snprintf(buf, sizeof(buf), "o%d", id);
      res.object_names.push_back(buf);
      obj_ids[p] = id;
      return id;
   }

   int Flags(int kind, const void * obj) const
   {
      if (kind >= K_USER) return F_LOG | (opt.user_kinds_decide ? F_DECIDE : 0);
      if (opt.policy_fn) return opt.policy_fn(kind, obj);
      return ((opt.log_kinds & KindBit(kind)) ? F_LOG : 0) | ((opt.decide_kinds & KindBit(kind)) ? F_DECIDE : 0);
   }

   // must be called with mu held, from the running thread
   void Log(ThreadRec * me, int kind, const void * obj, long aux, const std::string & note = std::string())
   {
      Event e; e.tid = me ? me->tid : -1; e.kind = kind; e.obj = ObjId(obj); e.ptr = obj; e.aux = aux; e.note = note;
      res.log.push_back(e);
      if (opt.on_event && kind != K_NOTE && !tl_in_callback)
      {
         tl_in_callback = true;
         const Event copy = e;
         opt.on_event(copy);
         tl_in_callback = false;
      }
   }

   uint32_t CounterOf(const ThreadRec & t)
   {
      if (t.own_counter) {std::map<const void *, uint32_t>::iterator it = sems.find(t.obj); return (it == sems.end()) ? 0 : it->second;}
      return t.cnt ? *t.cnt : 0;
   }

   void Enabled(std::vector<Choice> & out)
   {
      out.clear();
      for (size_t i=0; i<threads.size(); i++)
      {
         ThreadRec & t = *threads[i];
         switch(t.st)
         {
            case ThreadRec::NOT_STARTED: case ThreadRec::READY: out.push_back(Choice(t.tid, false)); break;
            case ThreadRec::WANT_MUTEX:
            {
               const MutexRec & m = mutexes[t.obj];
               if (m.owner < 0 || m.owner == t.tid) out.push_back(Choice(t.tid, false));
               break;
            }
            case ThreadRec::WAITING:
               if (CounterOf(t) > 0) out.push_back(Choice(t.tid, false));
               if (t.timed)          out.push_back(Choice(t.tid, true));
               break;
            case ThreadRec::JOINING:
               if (t.join_target < 0 || threads[t.join_target]->st == ThreadRec::FINISHED) out.push_back(Choice(t.tid, false));
               break;
            default: break;
         }
      }
   }

   std::string DescribeBlocked()
   {
      std::ostringstream o;
      for (size_t i=0; i<threads.size(); i++)
      {
         ThreadRec & t = *threads[i];
         if (t.st == ThreadRec::FINISHED) continue;
         o << "t" << t.tid << ":";
         switch(t.st)
         {
            case ThreadRec::WANT_MUTEX: o << "wants-mutex(" << res.object_names[ObjId(t.obj)] << ",owner=t" << mutexes[t.obj].owner << ")"; break;
            case ThreadRec::WAITING:    o << (t.timed ? "timed-wait(" : "wait(") << res.object_names[ObjId(t.obj)] << ",count=" << CounterOf(t) << ")"; break;
            case ThreadRec::JOINING:    o << "join(t" << t.join_target << ")"; break;
            default:                    o << "state" << (int) t.st; break;
         }
         o << " ";
      }
      return o.str();
   }

   void ParkForever(std::unique_lock<std::mutex> & lk, ThreadRec * me)
   {
      std::condition_variable never;
      for(;;) {if (me) me->cv.wait(lk); else never.wait(lk);}
   }

   void Finish(Result::Status st, const std::string & detail)
   {
      over = true;
      res.status = st;
      res.detail = detail;
      turn = -2;
      if (st != Result::COMPLETED) g_abandoned = true;
      main_cv.notify_all();
   }

   void WaitTurn(std::unique_lock<std::mutex> & lk, ThreadRec * me)
   {
      while(turn != me->tid) me->cv.wait(lk);
      me->st = ThreadRec::RUNNING;
   }

   // The thread (me) has recorded what it waits for in me->st (or is FINISHED); (me == NULL) is the initial decision by Run().
   // Chooses who runs next, hands over, and returns when it is (me)'s turn again.
   void Decide(std::unique_lock<std::mutex> & lk, ThreadRec * me)
   {
      if (over) ParkForever(lk, me);
      std::vector<Choice> en;
      Enabled(en);
      if (en.empty())
      {
         bool allDone = true;
         for (size_t i=0; i<threads.size(); i++) if (threads[i]->st != ThreadRec::FINISHED) allDone = false;
         if (allDone && pending_adopt == 0) {Finish(Result::COMPLETED, ""); return;}
         Finish(Result::DEADLOCK, DescribeBlocked());
         ParkForever(lk, me);
      }
      if (++decisions > opt.max_decisions) {Finish(Result::STEP_LIMIT, "more than max_decisions decisions"); ParkForever(lk, me);}

      Step s;
      s.enabled = en;
      s.current = me ? me->tid : -1;
      s.current_enabled = (me != 0) && (std::find(en.begin(), en.end(), Choice(me->tid, false)) != en.end());
      s.log_pos = res.log.size();
      Choice c;
      bool haveChoice = false;
      while(!haveChoice && sched_pos < opt.schedule.size())
      {
         c = opt.schedule[sched_pos++];
         if (std::find(en.begin(), en.end(), c) != en.end()) haveChoice = true;
         else if (!opt.tolerant_schedule)
         {
            std::ostringstream o;
            o << "schedule entry #" << (sched_pos-1) << " (" << c.tid << (c.timeout ? "!" : "") << ") is not enabled; enabled: " << FormatSchedule(en) << "; " << DescribeBlocked();
            Finish(Result::BAD_SCHEDULE, o.str());
            ParkForever(lk, me);
         }
      }
      if (haveChoice) {/* taken from the explicit schedule */}
      else if (opt.policy == Options::NONPREEMPTIVE)
      {
         if (s.current_enabled) c = Choice(me->tid, false);
         else
         {
            c = en[0];
            for (size_t i=0; i<en.size(); i++) if (!en[i].timeout) {c = en[i]; break;}   // lowest thread that can run; a timeout only when nothing can run
         }
      }
      else
      {
         std::vector<Choice> runs, tos;
         for (size_t i=0; i<en.size(); i++) (en[i].timeout ? tos : runs).push_back(en[i]);
         const bool wantTo = (!tos.empty()) && (runs.empty() || (Rand() % 100) < opt.timeout_weight_percent);
         std::vector<Choice> & pool = wantTo ? tos : runs;
         c = pool[Rand() % pool.size()];
      }
      s.taken = c;
      res.steps.push_back(s);

      ThreadRec * t = threads[c.tid].get();
      t->woke_by_timeout = c.timeout;
      if (t->st == ThreadRec::WANT_MUTEX) {MutexRec & m = mutexes[t->obj]; m.owner = t->tid; m.depth++;}
      turn = t->tid;
      if (t != me)
      {
         t->cv.notify_all();
         if (me && me->st != ThreadRec::FINISHED) WaitTurn(lk, me);
      }
      else me->st = ThreadRec::RUNNING;
   }

   // ---- the hook, for a controlled thread
   int Hook(ThreadRec * me, int kind, const void * obj, const void * arg)
   {
      std::unique_lock<std::mutex> lk(mu);
      const int fl = Flags(kind, obj);
      switch(kind)
      {
         case K_MUTEX_LOCK:
         {
            MutexRec & m = mutexes[obj];
            if (m.owner == me->tid) {m.depth++; if (fl & F_LOG) Log(me, kind, obj, m.depth); return MUSCLE_VERIF_PROCEED;}
            if ((fl & F_DECIDE) || m.owner >= 0)
            {
               me->st = ThreadRec::WANT_MUTEX; me->obj = obj;
               Decide(lk, me);              // returns once we own it
            }
            else {m.owner = me->tid; m.depth = 1;}
            if (fl & F_LOG) Log(me, kind, obj, mutexes[obj].depth);
            return MUSCLE_VERIF_PROCEED;
         }
         case K_MUTEX_TRYLOCK:
         {
            if (fl & F_DECIDE) {me->st = ThreadRec::READY; Decide(lk, me);}
            MutexRec & m = mutexes[obj];
            if (m.owner >= 0 && m.owner != me->tid) {if (fl & F_LOG) Log(me, K_TRYLOCK_BUSY, obj, m.owner); return MUSCLE_VERIF_FAIL;}
            m.owner = me->tid; m.depth++;
            if (fl & F_LOG) Log(me, kind, obj, m.depth);
            return MUSCLE_VERIF_PROCEED;
         }
         case K_MUTEX_UNLOCK:
         {
            MutexRec & m = mutexes[obj];
            if (m.owner == me->tid) {if (--m.depth <= 0) {m.depth = 0; m.owner = -1;}}
            if (fl & F_LOG) Log(me, kind, obj, m.depth);
            if (fl & F_DECIDE) {me->st = ThreadRec::READY; Decide(lk, me);}
            return MUSCLE_VERIF_PROCEED;
         }
         case K_WC_WAIT: case K_WC_TIMEDWAIT: case K_SEM_WAIT: case K_SEM_TIMEDWAIT:
         {
            const bool sem = (kind == K_SEM_WAIT || kind == K_SEM_TIMEDWAIT);
            me->obj = obj; me->cnt = sem ? 0 : (const volatile uint32_t *) arg; me->own_counter = sem;
            me->timed = (kind == K_WC_TIMEDWAIT || kind == K_SEM_TIMEDWAIT);
            const uint32_t c0 = CounterOf(*me);
            if (fl & F_LOG) Log(me, kind, obj, (long) c0);
            if ((fl & F_DECIDE) || c0 == 0)
            {
               me->st = ThreadRec::WAITING;
               Decide(lk, me);
               if (me->woke_by_timeout) {if (fl & F_LOG) Log(me, K_TIMEOUT, obj, (long) CounterOf(*me)); return MUSCLE_VERIF_FAIL;}
            }
            if (fl & F_LOG) Log(me, K_WOKEN, obj, (long) CounterOf(*me));
            if (sem) sems[obj] = 0;       // a SEM wait drains its counter; a WaitCondition flushes its own counter in WaitAux()
            return MUSCLE_VERIF_GRANTED;
         }
         case K_WC_NOTIFY:
         {
            if (fl & F_LOG) Log(me, kind, obj, arg ? (long) *(const uint32_t *) arg : 1);
            if (fl & F_DECIDE) {me->st = ThreadRec::READY; Decide(lk, me);}
            return MUSCLE_VERIF_PROCEED;
         }
         case K_SEM_POST:
         {
            const uint32_t by = arg ? *(const uint32_t *) arg : 1;
            sems[obj] += by;
            if (fl & F_LOG) Log(me, kind, obj, (long) by);
            if (fl & F_DECIDE) {me->st = ThreadRec::READY; Decide(lk, me);}
            return MUSCLE_VERIF_PROCEED;
         }
         case K_THREAD_SPAWN:
            pending_adopt++;
            if (fl & F_LOG) Log(me, kind, obj, 0);
            return MUSCLE_VERIF_PROCEED;
         case K_THREAD_SPAWNED:
            while(pending_adopt > 0 && !over) main_cv.wait(lk);    // the child registers itself in its THREAD_START hook
            if (fl & F_LOG) Log(me, kind, obj, 0);
            if (fl & F_DECIDE) {me->st = ThreadRec::READY; Decide(lk, me);}
            return MUSCLE_VERIF_PROCEED;
         case K_THREAD_JOIN:
         {
            int target = -1;
            for (size_t i=0; i<threads.size(); i++) if (threads[i]->adopted && threads[i]->thread_obj == obj) target = (int) i;   // the latest one
            if (fl & F_LOG) Log(me, kind, obj, target);
            if (target >= 0 && ((fl & F_DECIDE) || threads[target]->st != ThreadRec::FINISHED))
            {
               me->st = ThreadRec::JOINING; me->join_target = target;
               Decide(lk, me);
            }
            return MUSCLE_VERIF_PROCEED;
         }
         case K_THREAD_EXIT:
            if (me->adopted)
            {
               Log(me, K_END, obj, 0);
               me->st = ThreadRec::FINISHED;
               tl_me = 0; tl_impl = 0;
               Decide(lk, me);
            }
            return MUSCLE_VERIF_PROCEED;
         case K_THREAD_START:
            return MUSCLE_VERIF_PROCEED;   // (a controlled thread calling START again: nothing to do)
         default:
            if (fl & F_LOG) Log(me, kind, obj, arg ? *(const long *) arg : 0);
            if (fl & F_DECIDE) {me->st = ThreadRec::READY; Decide(lk, me);}
            return MUSCLE_VERIF_PROCEED;
      }
   }

   // THREAD_START from a thread the scheduler does not know yet: adopt it (it was announced by THREAD_SPAWN in its parent)
   void Adopt(const void * obj)
   {
      std::unique_lock<std::mutex> lk(mu);
      if (pending_adopt <= 0 || over) return;
      std::unique_ptr<ThreadRec> r(new ThreadRec);
      ThreadRec * me = r.get();
      me->tid = (int) threads.size(); me->adopted = true; me->thread_obj = obj; me->st = ThreadRec::NOT_STARTED;
      threads.push_back(std::move(r));
      tl_me = me; tl_impl = this;
      pending_adopt--;
      main_cv.notify_all();
      WaitTurn(lk, me);
      Log(me, K_BEGIN, obj, 0);
   }
};

static int HookFn(int kind, const void * obj, const void * arg)
{
   if (tl_in_callback) return MUSCLE_VERIF_PROCEED;
   ThreadRec * me = tl_me;
   if (me == 0)
   {
      if (kind == K_THREAD_START && g_active) g_active->Adopt(obj);
      return MUSCLE_VERIF_PROCEED;
   }
   return tl_impl->Hook(me, kind, obj, arg);
}

// ------------------------------------------------------------------------------------------------------------------------

Scheduler::Scheduler(const Options & opt) : _impl(new Impl(opt)) {}

Scheduler::~Scheduler()
{
   if (_impl && (!_impl->ran || _impl->res.status == Result::COMPLETED)) delete _impl;   // otherwise parked threads still reference it: leak it
}

int Scheduler::Spawn(const std::function<void()> & body)
{
   std::unique_ptr<ThreadRec> r(new ThreadRec);
   r->tid = (int) _impl->threads.size();
   r->body = body;
   _impl->threads.push_back(std::move(r));
   return (int) _impl->threads.size()-1;
}

void Scheduler::NameObject(const void * p, const std::string & name)
{
   std::unique_lock<std::mutex> lk(_impl->mu);
   const int id = _impl->ObjId(p);
   if (id >= 0) _impl->res.object_names[id] = name;
}

static void ThreadMain(Scheduler::Impl * impl, ThreadRec * me)
{
   tl_me = me; tl_impl = impl;
   {
      std::unique_lock<std::mutex> lk(impl->mu);
      impl->registered++;
      impl->main_cv.notify_all();
      impl->WaitTurn(lk, me);
      impl->Log(me, K_BEGIN, 0, 0);
   }
   me->body();
   {
      std::unique_lock<std::mutex> lk(impl->mu);
      impl->Log(me, K_END, 0, 0);
      me->st = ThreadRec::FINISHED;
      tl_me = 0; tl_impl = 0;
      impl->Decide(lk, me);
      impl->exited++;
      impl->main_cv.notify_all();
   }
}

Result Scheduler::Run()
{
   Impl * im = _impl;
   im->ran = true;
   const size_t n = im->threads.size();
   g_active = im;
   muscle_verif_hook_ref() = &HookFn;
   for (size_t i=0; i<n; i++)
   {
      ThreadRec * t = im->threads[i].get();
      if (im->opt.reuse_threads) RunOnWorker([im, t]{ThreadMain(im, t);});
                            else t->th = std::thread(ThreadMain, im, t);
   }
   {
      std::unique_lock<std::mutex> lk(im->mu);
      while(im->registered < n) im->main_cv.wait(lk);
      im->Decide(lk, 0);
      while(!im->over) im->main_cv.wait(lk);
      if (im->res.status == Result::COMPLETED) while(im->exited < n) im->main_cv.wait(lk);   // nobody touches *im after this
   }
   const bool ok = (im->res.status == Result::COMPLETED);
   for (size_t i=0; i<im->threads.size(); i++)
   {
      std::thread & th = im->threads[i]->th;
      if (th.joinable()) {if (ok) th.join(); else th.detach();}
   }
   muscle_verif_hook_ref() = 0;
   g_active = 0;
   std::unique_lock<std::mutex> lk(im->mu);
   return im->res;
}

int Scheduler::Self() {return tl_me ? tl_me->tid : -1;}

void Scheduler::Yield(int kind, const void * obj, long aux)
{
   ThreadRec * me = tl_me;
   if (me == 0 || tl_in_callback) return;
   if (kind < K_USER) kind = K_USER;
   (void) tl_impl->Hook(me, kind, obj, &aux);
}

void Scheduler::Note(const std::string & text)
{
   ThreadRec * me = tl_me;
   if (me == 0) return;
   Impl * im = tl_impl;
   if (tl_in_callback) {im->Log(me, K_NOTE, 0, 0, text); return;}    // called from on_event: the lock is already held by this thread
   std::unique_lock<std::mutex> lk(im->mu);
   im->Log(me, K_NOTE, 0, 0, text);
}

bool Scheduler::AbandonedThreads() {return g_abandoned;}

// ------------------------------------------------------------------------------------------------------------------------

size_t Explore(const ExploreOptions & eo, const std::function<void(Scheduler &)> & setup, const std::function<bool(const Result &)> & on_result)
{
   std::vector<std::vector<Choice> > stack;
   stack.push_back(std::vector<Choice>());
   size_t runs = 0;
   while(!stack.empty() && runs < eo.max_runs)
   {
      const std::vector<Choice> prefix = stack.back();
      stack.pop_back();
      Options o = eo.base;
      o.policy = Options::NONPREEMPTIVE;
      o.schedule = prefix;
      Scheduler s(o);
      setup(s);
      const Result r = s.Run();
      runs++;
      if (!on_result(r)) break;
      if (r.status == Result::BAD_SCHEDULE) continue;
      // children: deviate from the default policy at one later position
      std::vector<int> pre(r.steps.size()+1, 0);
      for (size_t i=0; i<r.steps.size(); i++) pre[i+1] = pre[i] + ((r.steps[i].current_enabled && r.steps[i].taken != Choice(r.steps[i].current, false)) ? 1 : 0);
      for (size_t i=r.steps.size(); i-- > prefix.size(); )
      {
         const Step & st = r.steps[i];
         for (size_t a=st.enabled.size(); a-- > 0; )
         {
            const Choice & alt = st.enabled[a];
            if (alt == st.taken) continue;
            const int cost = pre[i] + ((st.current_enabled && alt != Choice(st.current, false)) ? 1 : 0);
            if (cost > eo.max_preemptions) continue;
            std::vector<Choice> p;
            for (size_t k=0; k<i; k++) p.push_back(r.steps[k].taken);
            p.push_back(alt);
            stack.push_back(p);
         }
      }
   }
   return runs;
}

}  // namespace vsched
