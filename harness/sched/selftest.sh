#!/bin/sh
# Build and run the scheduler self-test against a hooked muscle tree (default: $VERIF_REPO or /repo).
# usage: harness/sched/selftest.sh [tree]       (needs the MUSCLE_VERIF_HOOKS patches in that tree)
set -e
TREE=${1:-${VERIF_REPO:-/repo}}
OUT=${TMPDIR:-/tmp}/vsched-selftest.$$
mkdir -p "$OUT"
FL="-std=gnu++11 -O1 -g -w -DMUSCLE_ENABLE_ZLIB_ENCODING -DMUSCLE_NO_EXCEPTIONS -DMUSCLE_VERIF_HOOKS -fno-omit-frame-pointer -fsanitize=address,undefined -fno-sanitize-recover=all -I$TREE -I/verif/harness"
LIB=""
for d in /verif/build/impl/asan /verif/build/alt-*/impl/asan; do
  if [ -f "$d/libmuscle.a" ] && grep -q -- "-I$TREE\$" "$d/Makefile" 2>/dev/null; then LIB="$d/libmuscle.a"; fi
done
if [ -z "$LIB" ]; then echo "no sanitizer libmuscle.a built from $TREE yet (run any bin/check with VERIF_REPO=$TREE first)"; exit 2; fi
g++ $FL -o "$OUT/selftest" /verif/harness/sched/sched_selftest.cpp /verif/harness/sched/sched.cpp "$LIB" -lz -lpthread -lutil
ASAN_OPTIONS=detect_leaks=0 timeout 300 "$OUT/selftest"
rc=$?
rm -rf "$OUT"
exit $rc
