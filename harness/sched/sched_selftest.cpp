// Self-test of the controlled scheduler (not part of any property check; run by hand or by checks/c18.py --selftest).
// Prints "ok <name>" / "FAIL <name> ..." lines and exits 0 iff everything passed.
#include <stdio.h>
#include <stdlib.h>
#include <unistd.h>
#include <string>
#include <vector>
#include <thread>

#include "system/Mutex.h"
#include "system/WaitCondition.h"
#include "system/AtomicCounter.h"
#include "util/TimeUtilityFunctions.h"
#include "sched/sched.h"

using namespace muscle;
using namespace vsched;

static int g_fail = 0;
#define CHECK(name, cond) do {if (cond) printf("ok %s\n", name); else {printf("FAIL %s (line %d)\n", name, __LINE__); g_fail++;}} while(0)

// --- 1. guard on, no scheduler: the hooks are inert
static void test_inert()
{
   Mutex m; WaitCondition wc; AtomicCounter ac;
   bool ok = m.Lock().IsOK() && m.TryLock().IsOK() && m.Unlock().IsOK() && m.Unlock().IsOK();
   ok = ok && wc.Notify().IsOK() && wc.Wait().IsOK() && (wc.Wait(GetRunTime64()+1000) == B_TIMED_OUT);
   ok = ok && ac.AtomicIncrement() && ac.AtomicDecrement();
   std::thread t([&]{(void) wc.Notify();});
   ok = ok && wc.Wait().IsOK();
   t.join();
   CHECK("inert-without-scheduler", ok);
}

// --- 2. a lost-update race on a plain int is found by enumeration with one preemption, and replays
struct Racy { Mutex m; int x; Racy() : x(0) {} };
static void test_explore_race()
{
   size_t bad = 0, total = 0;
   std::vector<Choice> badSched;
   std::shared_ptr<Racy> cur;
   ExploreOptions eo; eo.max_preemptions = 1;
   const size_t runs = Explore(eo,
      [&](Scheduler & s) {
         cur.reset(new Racy);
         std::shared_ptr<Racy> r = cur;
         for (int i=0; i<2; i++) s.Spawn([r]{
            int tmp;
            {MutexGuard g(r->m); tmp = r->x;}      // read under the lock ...
            {MutexGuard g(r->m); r->x = tmp+1;}    // ... write under the lock again: another thread may slip in between
         });
      },
      [&](const Result & r) {
         total++;
         if (r.status != Result::COMPLETED) {bad = 999; return false;}
         if (cur->x != 2) {if (bad++ == 0) badSched = r.Schedule();}
         return true;
      });
   CHECK("explore-finds-lost-update", bad > 0 && bad < 999 && runs == total && runs > 2);
   // replay the failing schedule
   Options o; o.policy = Options::NONPREEMPTIVE; o.schedule = badSched;
   Scheduler s(o);
   std::shared_ptr<Racy> r(new Racy);
   for (int i=0; i<2; i++) s.Spawn([r]{int tmp; {MutexGuard g(r->m); tmp = r->x;} {MutexGuard g(r->m); r->x = tmp+1;}});
   const Result res = s.Run();
   CHECK("replay-reproduces", res.status == Result::COMPLETED && r->x == 1 && res.Schedule() == badSched);
   // zero preemptions: never lost
   size_t lost0 = 0;
   eo.max_preemptions = 0;
   Explore(eo, [&](Scheduler & s2) {cur.reset(new Racy); std::shared_ptr<Racy> q = cur; for (int i=0; i<2; i++) s2.Spawn([q]{int tmp; {MutexGuard g(q->m); tmp = q->x;} {MutexGuard g(q->m); q->x = tmp+1;}});},
           [&](const Result &) {if (cur->x != 2) lost0++; return true;});
   CHECK("no-preemption-no-loss", lost0 == 0);
}

// --- 3. lock-order deadlock is detected and reported with a replayable schedule; the blocked threads are abandoned
struct TwoLocks { Mutex a, b; };
static void test_deadlock()
{
   bool found = false; std::string detail; std::vector<Choice> sch;
   ExploreOptions eo; eo.max_preemptions = 1;
   Explore(eo,
      [&](Scheduler & s) {
         TwoLocks * L = new TwoLocks;    // leaked on purpose: abandoned threads may stay blocked in it
         s.NameObject(&L->a, "A"); s.NameObject(&L->b, "B");
         s.Spawn([L]{MutexGuard g1(L->a); MutexGuard g2(L->b);});
         s.Spawn([L]{MutexGuard g1(L->b); MutexGuard g2(L->a);});
      },
      [&](const Result & r) {if (r.status == Result::DEADLOCK) {found = true; detail = r.detail; sch = r.Schedule(); return false;} return true;});
   CHECK("deadlock-detected", found && detail.find("wants-mutex(B,owner=t1)") != std::string::npos && detail.find("wants-mutex(A,owner=t0)") != std::string::npos);
   CHECK("abandoned-flag", Scheduler::AbandonedThreads());
   printf("#  deadlock schedule %s : %s\n", FormatSchedule(sch).c_str(), detail.c_str());
}

// --- 4. WaitCondition: counting semantics, untimed wait parks until notified, timed wait may time out at any point
static void test_waitcondition()
{
   // a: notify twice before the wait: one wait consumes both; second (timed) wait can only time out
   {
      Options o; o.policy = Options::NONPREEMPTIVE;
      Scheduler s(o);
      WaitCondition wc; s.NameObject(&wc, "wc");
      uint32 got = 99; status_t second;
      s.Spawn([&]{(void) wc.Notify(); (void) wc.Notify(); (void) wc.Wait(MUSCLE_TIME_NEVER, &got); second = wc.Wait(GetRunTime64()+SecondsToMicros(3600));});
      const Result r = s.Run();
      CHECK("wc-counting", r.status == Result::COMPLETED && got == 2 && second == B_TIMED_OUT);
   }
   // b: waiter first, notifier second; all schedules complete and the waiter always gets the notification
   {
      size_t n = 0, okc = 0;
      ExploreOptions eo; eo.max_preemptions = 2;
      std::shared_ptr<WaitCondition> wc; std::shared_ptr<int> res;
      Explore(eo, [&](Scheduler & s) {
            wc.reset(new WaitCondition); res.reset(new int(0));
            std::shared_ptr<WaitCondition> w = wc; std::shared_ptr<int> q = res;
            s.Spawn([w,q]{if (w->Wait().IsOK()) *q = 1;});
            s.Spawn([w]{(void) w->Notify();});
         },
         [&](const Result & r) {n++; if (r.status == Result::COMPLETED && *res == 1) okc++; return true;});
      CHECK("wc-no-lost-notification", n >= 2 && n == okc);
   }
   // c: a timed waiter that nobody notifies: every schedule ends by timeout, never DEADLOCK; an untimed one deadlocks
   {
      Options o; o.policy = Options::NONPREEMPTIVE;
      Scheduler s(o);
      WaitCondition wc; status_t ret;
      s.Spawn([&]{ret = wc.Wait(GetRunTime64()+SecondsToMicros(3600));});
      const Result r = s.Run();
      CHECK("wc-timeout-fires", r.status == Result::COMPLETED && ret == B_TIMED_OUT && r.steps.size() == 2 && r.steps.back().taken.timeout == true);
      Scheduler s2(o);
      WaitCondition * wc2 = new WaitCondition;
      s2.Spawn([wc2]{(void) wc2->Wait();});
      const Result r2 = s2.Run();
      CHECK("wc-untimed-deadlock", r2.status == Result::DEADLOCK);
   }
   // d: timed waiter + notifier: both outcomes (notified / timed out) are reachable
   {
      size_t nOk = 0, nTo = 0, nOther = 0;
      ExploreOptions eo; eo.max_preemptions = 2;
      std::shared_ptr<WaitCondition> wc; std::shared_ptr<int> res;
      Explore(eo, [&](Scheduler & s) {
            wc.reset(new WaitCondition); res.reset(new int(0));
            std::shared_ptr<WaitCondition> w = wc; std::shared_ptr<int> q = res;
            s.Spawn([w,q]{const status_t r = w->Wait(GetRunTime64()+SecondsToMicros(3600)); *q = r.IsOK() ? 1 : ((r == B_TIMED_OUT) ? 2 : 3);});
            s.Spawn([w]{(void) w->Notify();});
         },
         [&](const Result & r) {if (r.status != Result::COMPLETED) nOther++; else if (*res == 1) nOk++; else if (*res == 2) nTo++; else nOther++; return true;});
      CHECK("wc-timed-both-outcomes", nOk > 0 && nTo > 0 && nOther == 0);
   }
}

// --- 5. same seed => same schedule and log; different seeds differ somewhere
static Result random_run(uint64_t seed)
{
   Options o; o.seed = seed; o.policy = Options::RANDOM;
   Scheduler s(o);
   std::shared_ptr<Racy> r(new Racy);
   s.NameObject(&r->m, "m");
   for (int i=0; i<3; i++) s.Spawn([r]{for (int k=0; k<4; k++) {MutexGuard g(r->m); r->x++;}});
   return s.Run();
}
static void test_determinism()
{
   const Result a = random_run(7), b = random_run(7);
   bool differs = false;
   for (uint64_t sd=8; sd<16; sd++) if (FormatSchedule(random_run(sd).Schedule()) != FormatSchedule(a.Schedule())) differs = true;
   CHECK("same-seed-same-run", a.status == Result::COMPLETED && FormatSchedule(a.Schedule()) == FormatSchedule(b.Schedule()) && a.FormatLog() == b.FormatLog());
   CHECK("seeds-differ", differs);
   std::vector<Choice> p; const bool okp = ParseSchedule(FormatSchedule(a.Schedule()), p);
   CHECK("schedule-text-roundtrip", okp && p == a.Schedule());
}

// --- 6. atomics as decision points + user yields + notes + thread adoption/join through the reserved THREAD_* kinds
static void test_kinds()
{
   {
      Options o; o.policy = Options::NONPREEMPTIVE;
      o.decide_kinds |= KindBit(K_ATOMIC_INC) | KindBit(K_ATOMIC_DEC);
      o.log_kinds    |= KindBit(K_ATOMIC_INC) | KindBit(K_ATOMIC_DEC);
      Scheduler s(o);
      AtomicCounter ac; s.NameObject(&ac, "ac");
      s.Spawn([&]{(void) ac.AtomicIncrement(); Scheduler::Note("after-inc"); Scheduler::Yield(K_USER+1, 0, 42); (void) ac.AtomicDecrement();});
      const Result r = s.Run();
      const std::string log = r.FormatLog();
      CHECK("atomic-and-user-kinds-logged", r.status == Result::COMPLETED && log.find("0 INC ac") != std::string::npos && log.find("NOTE - 0 after-inc") != std::string::npos
            && log.find("0 USER1 - 42") != std::string::npos && log.find("0 DEC ac") != std::string::npos && r.steps.size() == 4);
   }
   {
      // a controlled thread starts a native thread the way system/Thread.cpp will: SPAWN, create, SPAWNED; the child calls START ... EXIT; the parent JOINs
      Options o; o.policy = Options::RANDOM; o.seed = 3;
      Scheduler s(o);
      int token = 0; int childRan = 0;
      s.Spawn([&]{
         MUSCLE_VERIF_YIELD(MUSCLE_VERIF_THREAD_SPAWN, &token);
         std::thread th([&]{MUSCLE_VERIF_YIELD(MUSCLE_VERIF_THREAD_START, &token); childRan = Scheduler::Self(); Scheduler::Yield(); MUSCLE_VERIF_YIELD(MUSCLE_VERIF_THREAD_EXIT, &token);});
         MUSCLE_VERIF_YIELD(MUSCLE_VERIF_THREAD_SPAWNED, &token);
         Scheduler::Yield();
         MUSCLE_VERIF_YIELD(MUSCLE_VERIF_THREAD_JOIN, &token);
         th.join();
      });
      const Result r = s.Run();
      CHECK("thread-adoption-and-join", r.status == Result::COMPLETED && childRan == 1);
   }
   {
      // SEM kinds: post/wait with drain semantics
      Options o; o.policy = Options::NONPREEMPTIVE;
      Scheduler s(o);
      int chan = 0; int got = 0;
      s.Spawn([&]{if (MUSCLE_VERIF_HOOK(MUSCLE_VERIF_SEM_WAIT, &chan, 0) == MUSCLE_VERIF_GRANTED) got++; if (MUSCLE_VERIF_HOOK(MUSCLE_VERIF_SEM_TIMEDWAIT, &chan, 0) == MUSCLE_VERIF_FAIL) got += 10;});
      s.Spawn([&]{MUSCLE_VERIF_YIELD(MUSCLE_VERIF_SEM_POST, &chan); MUSCLE_VERIF_YIELD(MUSCLE_VERIF_SEM_POST, &chan);});
      const Result r = s.Run();
      CHECK("sem-post-wait-drain", r.status == Result::COMPLETED && got == 11);
   }
}

// --- 7. try-lock sees the scheduler's ownership
static void test_trylock()
{
   Options o; o.policy = Options::NONPREEMPTIVE;
   std::vector<Choice> sc; ParseSchedule("0,1,0,1", sc); o.schedule = sc;
   o.decide_kinds |= KindBit(K_MUTEX_UNLOCK) | KindBit(K_MUTEX_TRYLOCK);
   Scheduler s(o);
   Mutex m; s.NameObject(&m, "m");
   status_t r1;
   s.Spawn([&]{(void) m.Lock(); Scheduler::Yield(); (void) m.Unlock();});
   s.Spawn([&]{r1 = m.TryLock(); if (r1.IsOK()) (void) m.Unlock();});
   const Result r = s.Run();
   CHECK("trylock-busy", r.status == Result::COMPLETED && r1 == B_LOCK_FAILED && r.FormatLog().find("1 TRYLOCK_BUSY m 0") != std::string::npos);
}

int main()
{
   setvbuf(stdout, NULL, _IOLBF, 0);
   test_inert();
   test_explore_race();
   test_waitcondition();
   test_determinism();
   test_kinds();
   test_trylock();
   test_deadlock();     // last: it abandons threads
   printf("%s (%d failure(s))\n", g_fail ? "SELFTEST FAILED" : "SELFTEST PASSED", g_fail);
   fflush(stdout);
   _exit(g_fail ? 1 : 0);
}
