// C08 harness: four implementations of the MUSCLE Message wire format in one process.
//   C++   : muscle::Message (built from /repo's working tree with ASan/UBSan)
//   mini  : lang/c/minimessage/MiniMessage.c   (compiled as C, linked in)
//   micro : lang/c/micromessage/MicroMessage.c (compiled as C, linked in)
//   (the Python codec runs in a subprocess driven by checks/c08.py with harness/py_codec.py)
// A case is an operation script in the grammar of checks/c01.py; register 0 is the Message under test.
// Printed for the correspondence with the Coq reference (spec_msg extracted from Msg/MsgSpec.v):
//   k B <hex>     the bytes C++ Flatten() produced            (must equal spec_msg of the model's Message)
//   k CCT <text>  the content as seen through the C++ public API (canonical content text, see cct())
// Evaluated here, independently of the Coq model (ORACLE FAIL lines):
//   mini and micro parse the C++ bytes to the same content (CCT) ; a Message built with each codec's own
//   construction API from that content serialises to the same bytes; the C++ parser accepts those bytes
//   and sees the same content; each codec's advertised size equals the byte count.
//   Gateways, both directions (stream of three frames: Message 0, Message 1, Message 0): the C++ MessageIOGateway, the C
//   mini gateway and the C micro gateway SEND the same byte stream; each of them RECEIVES that stream, cut into
//   arbitrary segments (1 byte .. more than the C++ gateway's 2048-byte scratch buffer), back into the same three
//   Messages.  `pad:R:NAME:SIZE` steers FlattenedSize() so that frames straddle the scratch-buffer boundary.
#include <stdio.h>
#include <stdlib.h>
#include <string.h>
#include <string>
#include <vector>
#include <map>
#include <sstream>
#include <iostream>

#include "message/Message.h"
#include "system/SetupSystem.h"
#include "util/ByteBuffer.h"

#include "lang/c/minimessage/MiniMessage.h"    // (both headers carry their own extern "C" guards)
#include "lang/c/micromessage/MicroMessage.h"
#include "lang/c/minimessage/MiniMessageGateway.h"
#include "lang/c/micromessage/MicroMessageGateway.h"
#include "iogateway/MessageIOGateway.h"
#include "iogateway/AbstractGatewayMessageReceiver.h"
#include "dataio/DataIO.h"

using namespace muscle;

// ------------------------------------------------------------------ shared helpers (script interpreter as in msg_h.cpp)
class DummyTag : public RefCountable {public: DummyTag() {}};

static std::vector<std::string> split(const std::string & s, char c)
{
   std::vector<std::string> r; std::string cur;
   for (size_t i=0; i<s.size(); i++) {if (s[i]==c) {r.push_back(cur); cur.clear();} else cur += s[i];}
   r.push_back(cur);
   return r;
}
static int hexval(char c) {return (c>='0'&&c<='9')?(c-'0'):((c>='a'&&c<='f')?(c-'a'+10):((c>='A'&&c<='F')?(c-'A'+10):0));}
static std::vector<uint8> unhex(const std::string & s)
{
   std::vector<uint8> r;
   for (size_t i=0; i+1<s.size(); i+=2) r.push_back((uint8)((hexval(s[i])<<4)|hexval(s[i+1])));
   return r;
}
static std::string hex(const uint8 * p, size_t n)
{
   static const char * d = "0123456789abcdef";
   std::string r; r.reserve(n*2);
   for (size_t i=0; i<n; i++) {r += d[p[i]>>4]; r += d[p[i]&15];}
   return r;
}
static String mkstr(const std::vector<uint8> & v) {String s; for (size_t i=0; i<v.size(); i++) s += (char) v[i]; return s;}
static const uint8 * dataptr(const std::vector<uint8> & v) {static const uint8 z = 0; return v.empty() ? &z : &v[0];}

static std::map<uint64, RefCountableRef> g_tags;
static RefCountableRef tagref(uint64 id)
{
   std::map<uint64, RefCountableRef>::iterator it = g_tags.find(id);
   if (it != g_tags.end()) return it->second;
   RefCountableRef r(new DummyTag);
   g_tags[id] = r;
   return r;
}

static uint32 fixed_width(uint32 tc);
// the type codes Message::AddData stores as ByteBuffer items (Message::GetElementSize(tc) == 0, not a String)
static bool is_raw_code(uint32 tc) {return (fixed_width(tc) == 0)&&(tc != B_MESSAGE_TYPE)&&(tc != B_STRING_TYPE)&&(tc != B_POINTER_TYPE)&&(tc != B_ANY_TYPE);}

static bool typed_op(Message & m, char mode, const String & fn, const std::string & t, const std::vector<uint8> & v, uint32 idx, bool oka)
{
   #define NEED(n) if (v.size() != (n)) {fprintf(stderr, "bad width for type %s\n", t.c_str()); exit(2);}
   #define DO3(Add, Prepend, Replace, val) ((mode=='a') ? m.Add(fn, val) : ((mode=='p') ? m.Prepend(fn, val) : m.Replace(oka, fn, idx, val))).IsOK()
   if (t == "b") {if (v.empty()) return false; const bool b = (v[0] != 0); return DO3(AddBool, PrependBool, ReplaceBool, b);}
   if (t == "c") {NEED(1); int8 x;   memcpy(&x, &v[0], 1); return DO3(AddInt8,   PrependInt8,   ReplaceInt8,   x);}
   if (t == "h") {NEED(2); int16 x;  memcpy(&x, &v[0], 2); return DO3(AddInt16,  PrependInt16,  ReplaceInt16,  x);}
   if (t == "i") {NEED(4); int32 x;  memcpy(&x, &v[0], 4); return DO3(AddInt32,  PrependInt32,  ReplaceInt32,  x);}
   if (t == "l") {NEED(8); int64 x;  memcpy(&x, &v[0], 8); return DO3(AddInt64,  PrependInt64,  ReplaceInt64,  x);}
   if (t == "f") {NEED(4); float x;  memcpy(&x, &v[0], 4); return DO3(AddFloat,  PrependFloat,  ReplaceFloat,  x);}
   if (t == "d") {NEED(8); double x; memcpy(&x, &v[0], 8); return DO3(AddDouble, PrependDouble, ReplaceDouble, x);}
   if (t == "P") {NEED(8);  Point p; memcpy(&p[0], &v[0], 8);  return DO3(AddPoint, PrependPoint, ReplacePoint, p);}
   if (t == "R") {NEED(16); Rect r;  memcpy(&r[0], &v[0], 16); return DO3(AddRect,  PrependRect,  ReplaceRect,  r);}
   if (t == "s") {const String s = mkstr(v); return DO3(AddString, PrependString, ReplaceString, s);}
   if (t == "o") {uint64 id = 0; for (size_t i=0; i<v.size(); i++) id = (id<<8)|v[i]; const void * p = (const void *)(uintptr_t)id; return DO3(AddPointer, PrependPointer, ReplacePointer, p);}
   if (t == "g") {uint64 id = 0; for (size_t i=0; i<v.size(); i++) id = (id<<8)|v[i]; RefCountableRef r = tagref(id); return DO3(AddTag, PrependTag, ReplaceTag, r);}
   if (t == "X")
   {
      if (mode == 'r') return m.ReplaceData(oka, fn, B_RAW_TYPE, idx, dataptr(v), (uint32)v.size()).IsOK();
      FlatCountableRef fc(GetByteBufferFromPool((uint32)v.size(), dataptr(v)));
      return ((mode=='a') ? m.AddFlat(fn, fc) : m.PrependFlat(fn, fc)).IsOK();
   }
   if (t == "F")
   {
      FlatCountableRef fc(GetByteBufferFromPool((uint32)v.size(), dataptr(v)));
      return ((mode=='a') ? m.AddFlat(fn, fc) : ((mode=='p') ? m.PrependFlat(fn, fc) : m.ReplaceFlat(oka, fn, idx, fc))).IsOK();
   }
   if ((t.size() > 1)&&(t[0] == 'x'))
   {
      const uint32 tc = (uint32) strtoul(t.c_str()+1, NULL, 10);
      if (!is_raw_code(tc)) return false;
      if (mode == 'a') return m.AddData(fn, tc, dataptr(v), (uint32)v.size()).IsOK();
      if (mode == 'p') return m.PrependData(fn, tc, dataptr(v), (uint32)v.size()).IsOK();
      return m.ReplaceData(oka, fn, tc, idx, dataptr(v), (uint32)v.size()).IsOK();
   }
   fprintf(stderr, "bad type [%s]\n", t.c_str()); exit(2);
}

// ------------------------------------------------------------------ neutral content tree
struct CMsg;
struct CItem {std::vector<uint8> bytes; CMsg * sub; CItem() : sub(NULL) {}};
struct CField {std::string name; uint32 tc; std::vector<CItem> items;};
struct CMsg
{
   uint32 what; std::vector<CField> fields;
   CMsg() : what(0) {}
   ~CMsg() {for (size_t i=0; i<fields.size(); i++) for (size_t j=0; j<fields[i].items.size(); j++) delete fields[i].items[j].sub;}
};

// canonical content text: M(what;namehex:tc:item,item;...) ; leaf item "=hex", Message item nested M(...)
static void cct(const CMsg & m, std::string & o)
{
   char buf[64]; sprintf(buf, "M(%u", (unsigned) m.what); o += buf;
   for (size_t i=0; i<m.fields.size(); i++)
   {
      const CField & f = m.fields[i];
      sprintf(buf, ":%u:", (unsigned) f.tc);
      o += ";"; o += hex((const uint8 *) f.name.data(), f.name.size()); o += buf;
      for (size_t j=0; j<f.items.size(); j++)
      {
         if (j) o += ",";
         if (f.items[j].sub) cct(*f.items[j].sub, o);
         else {o += "="; o += hex(f.items[j].bytes.empty() ? (const uint8 *)"" : &f.items[j].bytes[0], f.items[j].bytes.size());}
      }
   }
   o += ")";
}

static bool flattenable_type(uint32 tc) {return (tc != B_POINTER_TYPE)&&(tc != B_TAG_TYPE);}
static uint32 fixed_width(uint32 tc)   // the documented item widths
{
   switch(tc)
   {
      case B_BOOL_TYPE: case B_INT8_TYPE: return 1;
      case B_INT16_TYPE: return 2;
      case B_INT32_TYPE: case B_FLOAT_TYPE: return 4;
      case B_INT64_TYPE: case B_DOUBLE_TYPE: case B_POINT_TYPE: return 8;
      case B_RECT_TYPE: return 16;
      default: return 0;
   }
}

// ---- C++ -> tree (public API only)
static bool tree_of_cpp(const Message & m, CMsg & out, std::string & why)
{
   out.what = m.what;
   for (MessageFieldNameIterator it = m.GetFieldNameIterator(); it.HasData(); it++)
   {
      const String & fn = it.GetFieldName();
      uint32 tc = 0, c = 0;
      if (m.GetInfo(fn, &tc, &c).IsError()) {why = "GetInfo"; return false;}
      if (!flattenable_type(tc)) continue;
      out.fields.push_back(CField());
      CField & f = out.fields.back();
      f.name.assign(fn(), fn.Length()); f.tc = tc;
      for (uint32 i=0; i<c; i++)
      {
         f.items.push_back(CItem());
         CItem & ci = f.items.back();
         if (tc == B_MESSAGE_TYPE)
         {
            MessageRef s;
            if (m.FindMessage(fn, i, s).IsError() || (s() == NULL)) {why = "FindMessage"; return false;}
            ci.sub = new CMsg;
            if (!tree_of_cpp(*s(), *ci.sub, why)) return false;
         }
         else if (tc == B_STRING_TYPE)
         {
            const String * ps = NULL;
            if (m.FindString(fn, i, &ps).IsError()) {why = "FindString"; return false;}
            ci.bytes.assign((const uint8 *) ps->Cstr(), (const uint8 *) ps->Cstr() + ps->Length());
         }
         else if (fixed_width(tc) == 0)
         {
            FlatCountableRef fc;
            if (m.FindFlat(fn, i, fc).IsError()) {why = "FindFlat"; return false;}
            const ByteBuffer * bb = dynamic_cast<const ByteBuffer *>(fc());
            if (bb == NULL) {why = "raw item is not a ByteBuffer"; return false;}
            if (bb->GetNumBytes() > 0) ci.bytes.assign(bb->GetBuffer(), bb->GetBuffer() + bb->GetNumBytes());
         }
         else
         {
            const void * d = NULL; uint32 sz = 0;
            if (m.FindData(fn, tc, i, &d, &sz).IsError()) {why = "FindData"; return false;}
            ci.bytes.assign((const uint8 *) d, (const uint8 *) d + sz);
         }
      }
   }
   return true;
}

// ---- mini -> tree, tree -> mini
static bool tree_of_mini(const MMessage * m, CMsg & out, std::string & why)
{
   out.what = MMGetWhat(m);
   MMessageIterator it = MMGetFieldNameIterator(m, B_ANY_TYPE);
   const char * fn; uint32 tc;
   while((fn = MMGetNextFieldName(&it, &tc)) != NULL)
   {
      uint32 n = 0;
      if (MMGetFieldInfo(m, fn, B_ANY_TYPE, &n, NULL) != CB_NO_ERROR) {why = "MMGetFieldInfo"; return false;}
      out.fields.push_back(CField());
      CField & f = out.fields.back();
      f.name = fn; f.tc = tc;
      const uint32 w = fixed_width(tc);
      if (tc == B_MESSAGE_TYPE)
      {
         uint32 k = 0; MMessage ** a = MMGetMessageField(m, fn, &k);
         if ((a == NULL)||(k != n)) {why = "MMGetMessageField"; return false;}
         for (uint32 i=0; i<n; i++)
         {
            f.items.push_back(CItem()); f.items.back().sub = new CMsg;
            if ((a[i] == NULL)||(!tree_of_mini(a[i], *f.items.back().sub, why))) {if (why.empty()) why = "NULL sub-message"; return false;}
         }
      }
      else if (w > 0)
      {
         const uint8 * p = NULL; uint32 k = 0;
         switch(tc)
         {
            case B_BOOL_TYPE:   p = (const uint8 *) MMGetBoolField(m, fn, &k);   break;
            case B_INT8_TYPE:   p = (const uint8 *) MMGetInt8Field(m, fn, &k);   break;
            case B_INT16_TYPE:  p = (const uint8 *) MMGetInt16Field(m, fn, &k);  break;
            case B_INT32_TYPE:  p = (const uint8 *) MMGetInt32Field(m, fn, &k);  break;
            case B_INT64_TYPE:  p = (const uint8 *) MMGetInt64Field(m, fn, &k);  break;
            case B_FLOAT_TYPE:  p = (const uint8 *) MMGetFloatField(m, fn, &k);  break;
            case B_DOUBLE_TYPE: p = (const uint8 *) MMGetDoubleField(m, fn, &k); break;
            case B_POINT_TYPE:  p = (const uint8 *) MMGetPointField(m, fn, &k);  break;
            case B_RECT_TYPE:   p = (const uint8 *) MMGetRectField(m, fn, &k);   break;
         }
         if ((k != n)||((p == NULL)&&(n > 0))) {why = "MMGet<fixed>Field"; return false;}
         for (uint32 i=0; i<n; i++) {f.items.push_back(CItem()); f.items.back().bytes.assign(p+i*w, p+(i+1)*w);}
      }
      else
      {
         uint32 k = 0;
         MByteBuffer ** a = (tc == B_STRING_TYPE) ? MMGetStringField(m, fn, &k) : MMGetDataField(m, tc, fn, &k);
         if ((k != n)||((a == NULL)&&(n > 0))) {why = "MMGet<variable>Field"; return false;}
         for (uint32 i=0; i<n; i++)
         {
            f.items.push_back(CItem());
            if (a[i])
            {
               uint32 nb = a[i]->numBytes;
               if (tc == B_STRING_TYPE) {if ((nb == 0)||((&a[i]->bytes)[nb-1] != 0)) {why = "string buffer without NUL"; return false;} nb--;}
               f.items.back().bytes.assign(&a[i]->bytes, (&a[i]->bytes)+nb);
            }
         }
      }
   }
   return true;
}

// g_hist != 0: sub-Messages are built through edit histories too (LCG state of the history builder)
static uint32 g_hist;
static uint32 hist_next() {g_hist = (uint32)((((uint64) g_hist) * 1103515245ULL + 12345ULL) & 0x7fffffffULL); return g_hist >> 8;}
static MMessage * mini_history_of_tree(const CMsg & t);
static MMessage * mini_of_tree(const CMsg & t);

// put field (f) of a tree into (m) under the name (nm) with the MMPut API (the field lands at the end of m)
static bool put_mini_field(MMessage * m, const CField & f, const char * nm, bool hist, MBool retain)
{
   const uint32 n = (uint32) f.items.size();
   const uint32 w = fixed_width(f.tc);
   bool ok = true;
   if (f.tc == B_MESSAGE_TYPE)
   {
      MMessage ** a = MMPutMessageField(m, MFalse, nm, n);
      ok = (a != NULL);
      for (uint32 i=0; ok && i<n; i++) {a[i] = hist ? mini_history_of_tree(*f.items[i].sub) : mini_of_tree(*f.items[i].sub); ok = (a[i] != NULL);}
   }
   else if (w > 0)
   {
      uint8 * p = NULL;
      switch(f.tc)
      {
         case B_BOOL_TYPE:   p = (uint8 *) MMPutBoolField(m, retain, nm, n);   break;
         case B_INT8_TYPE:   p = (uint8 *) MMPutInt8Field(m, retain, nm, n);   break;
         case B_INT16_TYPE:  p = (uint8 *) MMPutInt16Field(m, retain, nm, n);  break;
         case B_INT32_TYPE:  p = (uint8 *) MMPutInt32Field(m, retain, nm, n);  break;
         case B_INT64_TYPE:  p = (uint8 *) MMPutInt64Field(m, retain, nm, n);  break;
         case B_FLOAT_TYPE:  p = (uint8 *) MMPutFloatField(m, retain, nm, n);  break;
         case B_DOUBLE_TYPE: p = (uint8 *) MMPutDoubleField(m, retain, nm, n); break;
         case B_POINT_TYPE:  p = (uint8 *) MMPutPointField(m, retain, nm, n);  break;
         case B_RECT_TYPE:   p = (uint8 *) MMPutRectField(m, retain, nm, n);   break;
      }
      ok = (p != NULL);
      for (uint32 i=0; ok && i<n; i++) memcpy(p+i*w, &f.items[i].bytes[0], w);
   }
   else
   {
      MByteBuffer ** a = (f.tc == B_STRING_TYPE) ? MMPutStringField(m, MFalse, nm, n) : MMPutDataField(m, MFalse, f.tc, nm, n);
      ok = (a != NULL);
      for (uint32 i=0; ok && i<n; i++)
      {
         const std::vector<uint8> & b = f.items[i].bytes;
         const uint32 nb = (uint32) b.size() + ((f.tc == B_STRING_TYPE) ? 1 : 0);
         a[i] = MBAllocByteBuffer(nb, MTrue);
         ok = (a[i] != NULL);
         if (ok && !b.empty()) memcpy(&a[i]->bytes, &b[0], b.size());
      }
   }
   return ok;
}

static MMessage * mini_of_tree(const CMsg & t)
{
   MMessage * m = MMAllocMessage(t.what);
   if (m == NULL) return NULL;
   for (size_t fi=0; fi<t.fields.size(); fi++)
      if (!put_mini_field(m, t.fields[fi], t.fields[fi].name.c_str(), false, MFalse)) {MMFreeMessage(m); return NULL;}
   return m;
}

// ---- the same final content reached through an EDIT HISTORY of the MiniMessage API: every field is put last and must end
// up last, but on the way it is renamed from a longer / shorter / equally long temporary name, re-put over a field of another
// type or item count (with and without retainOldData), renamed onto an existing field of its final name, moved in from
// another MMessage, or a decoy field next to it is removed again.  The choices come from an LCG seeded from the case text.
static std::string temp_name(const CMsg & t, const std::string & name, int kind, size_t fi)   // kind 0 longer, 1 shorter, 2 equal
{
   char digits[32]; snprintf(digits, sizeof(digits), "~%u", (unsigned) fi);
   std::string cand;
   if (kind == 0) cand = name + digits + "~tmp";
   else
   {
      const size_t want = (kind == 1) ? ((name.size() > 0) ? (hist_next() % name.size()) : 0) : name.size();
      if ((kind == 1)&&(name.empty())) return name + digits + "~tmp";
      cand = digits;
      while(cand.size() < want) cand += '~';
      cand.resize(want);
   }
   if (cand == name) return name + digits + "~tmp";
   for (size_t i=0; i<t.fields.size(); i++) if (t.fields[i].name == cand) return name + digits + "~tmp";
   return cand;
}

static bool put_decoy(MMessage * m, const char * nm, uint32 variant)
{
   switch(variant % 4)
   {
      case 0:  {int32 * p = MMPutInt32Field(m, MFalse, nm, 3); if (p == NULL) return false; p[0] = 1; p[1] = 2; p[2] = 3; return true;}
      case 1:  {MByteBuffer ** a = MMPutStringField(m, MFalse, nm, 2); if (a == NULL) return false; a[0] = MBStrdupByteBuffer("decoy"); a[1] = MBStrdupByteBuffer(""); return (a[0] != NULL)&&(a[1] != NULL);}
      case 2:  {int64 * p = MMPutInt64Field(m, MFalse, nm, 1); if (p == NULL) return false; p[0] = -1; return true;}
      default: {MMessage ** a = MMPutMessageField(m, MFalse, nm, 1); if (a == NULL) return false; a[0] = MMAllocMessage(7); return (a[0] != NULL);}
   }
}

static MMessage * mini_history_of_tree(const CMsg & t)
{
   MMessage * m = MMAllocMessage(t.what ^ 0x55);      // the what-code is edited too
   if (m == NULL) return NULL;
   MMSetWhat(m, t.what);
   for (size_t fi=0; fi<t.fields.size(); fi++)
   {
      const CField & f = t.fields[fi];
      const char * nm = f.name.c_str();
      const uint32 strategy = hist_next() % 10;
      bool ok = true;
      if (strategy <= 2)
      {
         // put under a temporary name (0: longer, 1: shorter, 2: equally long), then MMRenameField
         const std::string tmp = temp_name(t, f.name, (int) strategy, fi);
         ok = put_mini_field(m, f, tmp.c_str(), true, MFalse) && (MMRenameField(m, tmp.c_str(), nm) == CB_NO_ERROR);
      }
      else if (strategy == 3)
      {
         // a field of another type / item count under the final name first, then re-put
         ok = put_decoy(m, nm, hist_next()) && put_mini_field(m, f, nm, true, MFalse);
      }
      else if (strategy == 4)
      {
         // fixed-size types: the same type with another item count first, re-put with retainOldData
         const uint32 w = fixed_width(f.tc);
         if ((w > 0)&&(f.tc != B_MESSAGE_TYPE))
         {
            CField g = f;
            const uint32 n2 = 1 + (hist_next() % 5);
            g.items.clear();
            for (uint32 i=0; i<n2; i++) {CItem it; it.bytes.assign(w, (uint8)(0xA0+i)); if (f.tc == B_BOOL_TYPE) it.bytes[0] = 1; g.items.push_back(it);}
            ok = put_mini_field(m, g, nm, true, MFalse) && put_mini_field(m, f, nm, true, MTrue);
         }
         else ok = put_mini_field(m, f, nm, true, MFalse);
      }
      else if (strategy == 5)
      {
         // a decoy neighbour, put before and removed after
         const std::string tmp = temp_name(t, f.name, (int)(hist_next() % 3), fi);
         ok = put_decoy(m, tmp.c_str(), hist_next()) && put_mini_field(m, f, nm, true, MFalse) && (MMRemoveField(m, tmp.c_str()) == CB_NO_ERROR);
      }
      else if (strategy == 6)
      {
         // built in another MMessage (under a temporary name there, renamed there), then MMMoveField
         MMessage * other = MMAllocMessage(1);
         const std::string tmp = temp_name(t, f.name, (int)(hist_next() % 3), fi);
         ok = (other != NULL) && put_decoy(other, "~neighbour", hist_next()) && put_mini_field(other, f, tmp.c_str(), true, MFalse)
           && (MMRenameField(other, tmp.c_str(), nm) == CB_NO_ERROR) && (MMMoveField(other, nm, m) == CB_NO_ERROR);
         if (other) MMFreeMessage(other);
      }
      else if (strategy == 7)
      {
         // renamed ONTO an existing field of the final name (which disappears)
         const std::string tmp = temp_name(t, f.name, (int)(hist_next() % 3), fi);
         ok = put_decoy(m, nm, hist_next()) && put_mini_field(m, f, tmp.c_str(), true, MFalse) && (MMRenameField(m, tmp.c_str(), nm) == CB_NO_ERROR);
      }
      else if (strategy == 8)
      {
         // two renames in a row: longer, then shorter than the final name, then the final name
         const std::string t0 = temp_name(t, f.name, 0, fi), t1 = temp_name(t, f.name, 1, fi);
         ok = put_mini_field(m, f, t0.c_str(), true, MFalse) && (MMRenameField(m, t0.c_str(), t1.c_str()) == CB_NO_ERROR) && (MMRenameField(m, t1.c_str(), nm) == CB_NO_ERROR);
      }
      else ok = put_mini_field(m, f, nm, true, MFalse);
      if (!ok) {MMFreeMessage(m); return NULL;}
   }
   return m;
}

// ---- an independent walk over flattened bytes: the documented layout and nothing else (protocol, what, field count; per field
// a length-prefixed NUL-terminated name whose prefix is strlen(name)+1, type code, length-prefixed payload; Message payloads
// are length-prefixed Messages), every byte accounted for
static bool layout_ok(const uint8 * p, size_t n, std::string & why, int depth = 0)
{
   #define RD32(off) ((uint32)p[(off)] | ((uint32)p[(off)+1]<<8) | ((uint32)p[(off)+2]<<16) | ((uint32)p[(off)+3]<<24))
   if (depth > 64) {why = "nesting too deep"; return false;}
   if (n < 12) {why = "shorter than the 12-byte header"; return false;}
   if (RD32(0) != 1347235888u) {why = "protocol version word is not 'PM00'"; return false;}
   const uint32 nf = RD32(8);
   size_t pos = 12;
   for (uint32 i=0; i<nf; i++)
   {
      if (n-pos < 4) {why = "truncated at a name-length prefix"; return false;}
      const uint32 nl = RD32(pos); pos += 4;
      if ((nl == 0)||(nl > n-pos)) {why = "name-length prefix does not fit"; return false;}
      const size_t sl = strnlen((const char *)(p+pos), nl);
      if (sl+1 != nl)
      {
         char tmp[160]; snprintf(tmp, sizeof(tmp), "field %u: name-length prefix says %u bytes, the NUL-terminated name occupies %u", (unsigned) i, (unsigned) nl, (unsigned)(sl+1));
         why = tmp; return false;
      }
      pos += nl;
      if (n-pos < 8) {why = "truncated at type code / payload length"; return false;}
      const uint32 tc = RD32(pos), dl = RD32(pos+4); pos += 8;
      if (dl > n-pos) {why = "payload length does not fit"; return false;}
      if (tc == B_MESSAGE_TYPE)
      {
         size_t q = pos; const size_t e = pos+dl;
         while(q < e)
         {
            if (e-q < 4) {why = "truncated sub-Message length"; return false;}
            const uint32 sl2 = RD32(q); q += 4;
            if (sl2 > e-q) {why = "sub-Message length does not fit"; return false;}
            if (!layout_ok(p+q, sl2, why, depth+1)) {why = "sub-Message: " + why; return false;}
            q += sl2;
         }
      }
      else if ((fixed_width(tc) > 0)&&((dl % fixed_width(tc)) != 0)) {why = "payload of a fixed-width type is not a multiple of the item width"; return false;}
      pos += dl;
   }
   if (pos != n) {why = "bytes left over after the last field"; return false;}
   return true;
   #undef RD32
}

// ---- micro -> tree, tree -> micro
static bool tree_of_micro(const UMessage * m, CMsg & out, std::string & why)
{
   out.what = UMGetWhatCode(m);
   UMessageFieldNameIterator it; UMIteratorInitialize(&it, m, B_ANY_TYPE);
   const char * fn; uint32 n, tc;
   while((fn = UMIteratorGetCurrentFieldName(&it, &n, &tc)) != NULL)
   {
      out.fields.push_back(CField());
      CField & f = out.fields.back();
      f.name = fn; f.tc = tc;
      for (uint32 i=0; i<n; i++)
      {
         f.items.push_back(CItem());
         CItem & ci = f.items.back();
         bool ok = true;
         switch(tc)
         {
            case B_BOOL_TYPE:   {UBool v;  ok = (UMFindBool(m, fn, i, &v)   == CB_NO_ERROR); ci.bytes.assign((uint8*)&v, ((uint8*)&v)+1);} break;
            case B_INT8_TYPE:   {int8 v;   ok = (UMFindInt8(m, fn, i, &v)   == CB_NO_ERROR); ci.bytes.assign((uint8*)&v, ((uint8*)&v)+1);} break;
            case B_INT16_TYPE:  {int16 v;  ok = (UMFindInt16(m, fn, i, &v)  == CB_NO_ERROR); ci.bytes.assign((uint8*)&v, ((uint8*)&v)+2);} break;
            case B_INT32_TYPE:  {int32 v;  ok = (UMFindInt32(m, fn, i, &v)  == CB_NO_ERROR); ci.bytes.assign((uint8*)&v, ((uint8*)&v)+4);} break;
            case B_INT64_TYPE:  {int64 v;  ok = (UMFindInt64(m, fn, i, &v)  == CB_NO_ERROR); ci.bytes.assign((uint8*)&v, ((uint8*)&v)+8);} break;
            case B_FLOAT_TYPE:  {float v;  ok = (UMFindFloat(m, fn, i, &v)  == CB_NO_ERROR); ci.bytes.assign((uint8*)&v, ((uint8*)&v)+4);} break;
            case B_DOUBLE_TYPE: {double v; ok = (UMFindDouble(m, fn, i, &v) == CB_NO_ERROR); ci.bytes.assign((uint8*)&v, ((uint8*)&v)+8);} break;
            case B_POINT_TYPE:  {UPoint v; ok = (UMFindPoint(m, fn, i, &v)  == CB_NO_ERROR); ci.bytes.assign((uint8*)&v, ((uint8*)&v)+8);} break;
            case B_RECT_TYPE:   {URect v;  ok = (UMFindRect(m, fn, i, &v)   == CB_NO_ERROR); ci.bytes.assign((uint8*)&v, ((uint8*)&v)+16);} break;
            case B_STRING_TYPE: {const char * s = UMGetString(m, fn, i); ok = (s != NULL); if (ok) ci.bytes.assign((const uint8 *) s, (const uint8 *) s + strlen(s));} break;
            case B_MESSAGE_TYPE:
            {
               UMessage sub;
               ok = (UMFindMessage(m, fn, i, &sub) == CB_NO_ERROR);
               if (ok) {ci.sub = new CMsg; ok = tree_of_micro(&sub, *ci.sub, why);}
            }
            break;
            default:
            {
               const void * d = NULL; uint32 nb = 0;
               ok = (UMFindData(m, fn, tc, i, &d, &nb) == CB_NO_ERROR);
               if (ok && nb) ci.bytes.assign((const uint8 *) d, (const uint8 *) d + nb);
            }
            break;
         }
         if (!ok) {if (why.empty()) {char b[160]; snprintf(b, sizeof(b), "UMFind item %u of %u, type %u", (unsigned) i, (unsigned) n, (unsigned) tc); why = b;} return false;}
      }
      UMIteratorAdvance(&it);
   }
   return true;
}

// builds into a heap buffer of (cap) bytes; returns the flattened bytes, or an empty vector + why on failure
static bool micro_of_tree(const CMsg & t, std::vector<uint8> & out, std::string & why, uint32 cap);

// adds the fields of (t) to an initialised, writable UMessage through the UMAdd API
static bool micro_fill(UMessage & um, const CMsg & t, std::string & why, uint32 cap)
{
   for (size_t fi=0; fi<t.fields.size(); fi++)
   {
      const CField & f = t.fields[fi];
      const uint32 n = (uint32) f.items.size();
      const uint32 w = fixed_width(f.tc);
      c_status_t r = CB_NO_ERROR;
      UMessage & umr = um; (void) umr;
      if (f.tc == B_MESSAGE_TYPE)
      {
         std::vector< std::vector<uint8> > subs(n);
         std::vector<UMessage> ums(n);
         for (uint32 i=0; i<n; i++)
         {
            if (!micro_of_tree(*f.items[i].sub, subs[i], why, cap)) return false;
            if (UMInitializeWithExistingData(&ums[i], &subs[i][0], (uint32) subs[i].size()) != CB_NO_ERROR) {why = "UMInitializeWithExistingData(sub)"; return false;}
         }
         UMessage dummy; memset(&dummy, 0, sizeof(dummy));
         r = UMAddMessages(&um, f.name.c_str(), n ? &ums[0] : &dummy, n);
      }
      else if (w > 0)
      {
         std::vector<uint8> flat; for (uint32 i=0; i<n; i++) flat.insert(flat.end(), f.items[i].bytes.begin(), f.items[i].bytes.end());
         const void * p = flat.empty() ? (const void *) "" : (const void *) &flat[0];
         switch(f.tc)
         {
            case B_BOOL_TYPE:   r = UMAddBools(&um,   f.name.c_str(), (const UBool *)  p, n); break;
            case B_INT8_TYPE:   r = UMAddInt8s(&um,   f.name.c_str(), (const int8 *)   p, n); break;
            case B_INT16_TYPE:  {std::vector<int16> a(n+1);  memcpy(&a[0], p, n*2);  r = UMAddInt16s(&um,  f.name.c_str(), &a[0], n);} break;
            case B_INT32_TYPE:  {std::vector<int32> a(n+1);  memcpy(&a[0], p, n*4);  r = UMAddInt32s(&um,  f.name.c_str(), &a[0], n);} break;
            case B_INT64_TYPE:  {std::vector<int64> a(n+1);  memcpy(&a[0], p, n*8);  r = UMAddInt64s(&um,  f.name.c_str(), &a[0], n);} break;
            case B_FLOAT_TYPE:  {std::vector<float> a(n+1);  memcpy(&a[0], p, n*4);  r = UMAddFloats(&um,  f.name.c_str(), &a[0], n);} break;
            case B_DOUBLE_TYPE: {std::vector<double> a(n+1); memcpy(&a[0], p, n*8);  r = UMAddDoubles(&um, f.name.c_str(), &a[0], n);} break;
            case B_POINT_TYPE:  {std::vector<UPoint> a(n+1); memcpy(&a[0], p, n*8);  r = UMAddPoints(&um,  f.name.c_str(), &a[0], n);} break;
            case B_RECT_TYPE:   {std::vector<URect> a(n+1);  memcpy(&a[0], p, n*16); r = UMAddRects(&um,   f.name.c_str(), &a[0], n);} break;
         }
      }
      else if (f.tc == B_STRING_TYPE)
      {
         std::vector<std::string> ss(n); std::vector<const char *> ps(n+1);
         for (uint32 i=0; i<n; i++) {ss[i].assign((const char *) (f.items[i].bytes.empty() ? (const uint8 *)"" : &f.items[i].bytes[0]), f.items[i].bytes.size()); ps[i] = ss[i].c_str();}
         r = UMAddStrings(&um, f.name.c_str(), &ps[0], n);
      }
      else
      {
         for (uint32 i=0; (r == CB_NO_ERROR) && i<n; i++)
            r = UMAddData(&um, f.name.c_str(), f.tc, f.items[i].bytes.empty() ? (const void *) "" : (const void *) &f.items[i].bytes[0], (uint32) f.items[i].bytes.size());
      }
      if (r != CB_NO_ERROR) {why = "UMAdd failed for field " + hex((const uint8 *) f.name.data(), f.name.size()); return false;}
   }
   return true;
}

static bool micro_of_tree(const CMsg & t, std::vector<uint8> & out, std::string & why, uint32 cap)
{
   std::vector<uint8> buf(cap);
   UMessage um;
   if (UMInitializeToEmptyMessage(&um, &buf[0], cap, t.what) != CB_NO_ERROR) {why = "UMInitializeToEmptyMessage"; return false;}
   if (!micro_fill(um, t, why, cap)) return false;
   const uint32 fs = UMGetFlattenedSize(&um);
   out.assign(UMGetFlattenedBuffer(&um), UMGetFlattenedBuffer(&um) + fs);
   return true;
}

static int32 collect_send(const uint8 * buf, uint32 numBytes, void * arg)
{
   std::vector<uint8> * v = (std::vector<uint8> *) arg;
   v->insert(v->end(), buf, buf+numBytes);
   return (int32) numBytes;
}

// can the C codecs represent this content at all?  (C strings as field names; strings without NUL)
static bool c_representable(const CMsg & t)
{
   for (size_t i=0; i<t.fields.size(); i++)
   {
      const CField & f = t.fields[i];
      if (memchr(f.name.data(), 0, f.name.size())) return false;
      for (size_t j=0; j<f.items.size(); j++)
      {
         if (f.items[j].sub) {if (!c_representable(*f.items[j].sub)) return false;}
         else if ((f.tc == B_STRING_TYPE)&&(!f.items[j].bytes.empty())&&(memchr(&f.items[j].bytes[0], 0, f.items[j].bytes.size()))) return false;
      }
   }
   return true;
}


// ------------------------------------------------------------------ gateways: send and receive over a segmenting DataIO
static uint32 g_seg;   // LCG state for segment sizes (seeded per case from the case text; the model does not see it)
static uint32 seg_next()
{
   g_seg = (uint32)((((uint64) g_seg) * 1103515245ULL + 12345ULL) & 0x7fffffffULL);
   static const uint32 tab[12] = {1, 7, 8, 9, 100, 500, 2040, 2047, 2048, 2049, 4096, 5000};
   const uint32 r = g_seg >> 12;
   return ((r & 3) == 0) ? (1 + ((r >> 2) % 4100)) : tab[(r >> 2) % 12];
}

// a stream DataIO that hands out / accepts the bytes in segments of seg_next() bytes
class ChunkIO : public DataIO
{
public:
   ChunkIO() : _pos(0), _budget(0) {}
   virtual io_status_t Read(void * buffer, uint32 size)
   {
      if (_budget == 0) {_budget = seg_next(); return io_status_t(0);}    // "no more data right now": DoInput returns, the caller calls again
      uint32 n = (uint32)(_in.size()-_pos);
      if (n > size) n = size;
      if (n > _budget) n = _budget;
      if (n == 0) return io_status_t(0);
      memcpy(buffer, &_in[_pos], n); _pos += n; _budget -= n;
      return io_status_t((int32) n);
   }
   virtual io_status_t Write(const void * buffer, uint32 size)
   {
      uint32 n = seg_next(); if (n > size) n = size;
      _out.insert(_out.end(), (const uint8 *) buffer, ((const uint8 *) buffer)+n);
      return io_status_t((int32) n);
   }
   virtual void FlushOutput() {}
   virtual void Shutdown() {}
   virtual const ConstSocketRef & GetReadSelectSocket()  const {return GetNullSocket();}
   virtual const ConstSocketRef & GetWriteSelectSocket() const {return GetNullSocket();}
   bool exhausted() const {return _pos >= _in.size();}
   std::vector<uint8> _in, _out;
   size_t _pos; uint32 _budget;
};

struct SegCursor {const std::vector<uint8> * v; size_t pos;};
static int32 seg_recv(uint8 * buf, uint32 numBytes, void * arg)
{
   SegCursor * c = (SegCursor *) arg;
   uint32 n = (uint32)(c->v->size()-c->pos);
   if (n > numBytes) n = numBytes;
   const uint32 s = seg_next(); if (n > s) n = s;
   if (n) memcpy(buf, &(*c->v)[c->pos], n);
   c->pos += n;
   return (int32) n;
}
static int32 seg_send(const uint8 * buf, uint32 numBytes, void * arg)
{
   uint32 n = seg_next(); if (n > numBytes) n = numBytes;
   std::vector<uint8> * v = (std::vector<uint8> *) arg;
   v->insert(v->end(), buf, buf+n);
   return (int32) n;
}

// msgs: the Messages of the stream, in order; ccts/flats: their reference content text and flattened bytes
static void gateway_leg(int k, const std::vector<const Message *> & msgs, const std::vector<const CMsg *> & trees,
                        const std::vector<std::string> & ccts, const std::vector< std::vector<uint8> > & flats,
                        bool c_ok, std::ostringstream & out, std::ostringstream & orc, bool print_stream)
{
   // ---- the reference stream: frame after frame, as CallFlattenHeaderAndMessage builds them
   std::vector<uint8> ref;
   {
      MessageIOGateway gw;
      for (size_t i=0; i<msgs.size(); i++)
      {
         ByteBufferRef fb = gw.CallFlattenHeaderAndMessage(GetMessageFromPool(*msgs[i]));
         if (fb() == NULL) {orc << k << " ORACLE FAIL C++ gateway: FlattenHeaderAndMessage failed\n"; return;}
         ref.insert(ref.end(), fb()->GetBuffer(), fb()->GetBuffer()+fb()->GetNumBytes());
      }
   }
   if (print_stream) out << k << " GS " << hex(ref.empty() ? (const uint8 *) "" : &ref[0], ref.size()) << "\n";

   // ---- C++ gateway SENDS through a DataIO that accepts the bytes in segments
   {
      MessageIOGateway gw;
      ChunkIO * io = new ChunkIO; DataIORef ioRef(io);
      gw.SetDataIO(ioRef);
      for (size_t i=0; i<msgs.size(); i++) (void) gw.AddOutgoingMessage(GetMessageFromPool(*msgs[i]));
      for (int guard=0; (guard < 100000) && gw.HasBytesToOutput(); guard++) if (gw.DoOutput(seg_next()).IsError()) break;
      if (io->_out != ref) orc << k << " ORACLE FAIL C++ gateway: the stream DoOutput writes differs from its frames\n";
   }
   // ---- C++ gateway RECEIVES the stream in segments
   {
      MessageIOGateway gw;
      ChunkIO * io = new ChunkIO; DataIORef ioRef(io);
      io->_in = ref;
      gw.SetDataIO(ioRef);
      QueueGatewayMessageReceiver q;
      size_t got = 0; bool bad = false; int idle = 0;
      for (int guard=0; (guard < 200000) && !bad; guard++)
      {
         const io_status_t r = gw.DoInput(q, seg_next());
         MessageRef next;
         while(q.RemoveHead(next).IsOK())
         {
            if ((got >= msgs.size())||(next() == NULL)) {orc << k << " ORACLE FAIL C++ gateway: received more Messages than were sent\n"; bad = true; break;}
            CMsg t; std::string s, w;
            if (!tree_of_cpp(*next(), t, w)) {orc << k << " ORACLE FAIL C++ gateway: cannot read a received Message\n"; bad = true; break;}
            cct(t, s);
            if (s != ccts[got]) {orc << k << " ORACLE FAIL C++ gateway: frame #" << got << " of the stream was received as different content\n"; bad = true; break;}
            got++;
         }
         if (bad) break;
         if (r.IsError()) {orc << k << " ORACLE FAIL C++ gateway: DoInput rejects a well-formed stream after " << got << " of " << msgs.size() << " Messages (sizes"; for (size_t i=0; i<flats.size(); i++) orc << " " << flats[i].size(); orc << ")\n"; bad = true; break;}
         if (io->exhausted() && (r.GetByteCount() == 0)) {if (++idle >= 3) break;} else idle = 0;
      }
      if (!bad && (got != msgs.size())) orc << k << " ORACLE FAIL C++ gateway: only " << got << " of " << msgs.size() << " Messages came out of the stream\n";
   }
   if (!c_ok) return;

   // ---- mini gateway: SEND
   std::vector<MMessage *> mms;
   bool built = true;
   for (size_t i=0; i<trees.size(); i++) {MMessage * m = mini_of_tree(*trees[i]); if (m == NULL) built = false; mms.push_back(m);}
   if (built)
   {
      MMessageGateway * mg = MGAllocMessageGateway();
      std::vector<uint8> stream;
      bool ok = (mg != NULL);
      for (size_t i=0; ok && i<mms.size(); i++) ok = (MGAddOutgoingMessage(mg, mms[i]) == CB_NO_ERROR);
      for (int guard=0; ok && (guard < 100000) && MGHasBytesToOutput(mg); guard++) if (MGDoOutput(mg, seg_next(), seg_send, &stream) < 0) ok = false;
      if (!ok) orc << k << " ORACLE FAIL mini gateway: could not send the Messages\n";
      else if (stream != ref) orc << k << " ORACLE FAIL mini gateway: stream differs from the C++ gateway's\n";
      if (mg) MGFreeMessageGateway(mg);
   }
   else orc << k << " ORACLE FAIL mini: could not build the Messages with the MMPut API\n";
   for (size_t i=0; i<mms.size(); i++) if (mms[i]) MMFreeMessage(mms[i]);

   // ---- mini gateway: RECEIVE the C++ stream in segments
   {
      MMessageGateway * mg = MGAllocMessageGateway();
      SegCursor cur = {&ref, 0};
      size_t got = 0; bool bad = (mg == NULL);
      for (int guard=0; (guard < 200000) && !bad; guard++)
      {
         MMessage * m = NULL;
         const int32 r = MGDoInput(mg, seg_next(), seg_recv, &cur, &m);
         if (m)
         {
            const uint32 fs = MMGetFlattenedSize(m);
            std::vector<uint8> b(fs ? fs : 1); MMFlattenMessage(m, &b[0]);
            if ((got >= flats.size())||(fs != flats[got].size())||(memcmp(&b[0], &flats[got][0], fs) != 0)) {orc << k << " ORACLE FAIL mini gateway: frame #" << got << " of the C++ stream was received as a different Message\n"; bad = true;}
            MMFreeMessage(m);
            got++;
         }
         if (r < 0) {if (!bad) orc << k << " ORACLE FAIL mini gateway: MGDoInput rejects the C++ gateway's stream after " << got << " Messages\n"; bad = true;}
         if ((cur.pos >= ref.size())&&(m == NULL)&&(r == 0)) break;
      }
      if (!bad && (got != flats.size())) orc << k << " ORACLE FAIL mini gateway: only " << got << " of " << flats.size() << " Messages came out of the C++ stream\n";
      if (mg) MGFreeMessageGateway(mg);
   }

   // ---- micro gateway: SEND (one Message at a time: its output buffer holds one frame) and RECEIVE
   {
      size_t maxfs = 0; for (size_t i=0; i<flats.size(); i++) if (flats[i].size() > maxfs) maxfs = flats[i].size();
      std::vector<uint8> inbuf(maxfs + 64), outbuf(maxfs + 128), stream;
      UMessageGateway ug;
      UGGatewayInitialize(&ug, &inbuf[0], (uint32) inbuf.size(), &outbuf[0], (uint32) outbuf.size());
      bool ok = true;
      for (size_t i=0; ok && i<trees.size(); i++)
      {
         std::string w;
         UMessage um = UGGetOutgoingMessage(&ug, trees[i]->what);
         ok = UMIsMessageValid(&um) && micro_fill(um, *trees[i], w, (uint32) maxfs + 64);
         if (ok)
         {
            UGOutgoingMessagePrepared(&ug, &um);
            for (int guard=0; (guard < 100000) && UGHasBytesToOutput(&ug); guard++) if (UGDoOutput(&ug, seg_next(), seg_send, &stream) < 0) {ok = false; break;}
         }
      }
      if (!ok) orc << k << " ORACLE FAIL micro gateway: could not send the Messages\n";
      else if (stream != ref) orc << k << " ORACLE FAIL micro gateway: stream differs from the C++ gateway's\n";

      SegCursor cur = {&ref, 0};
      size_t got = 0; bool bad = false;
      for (int guard=0; (guard < 200000) && !bad; guard++)
      {
         UMessage um;
         const int32 r = UGDoInput(&ug, seg_next(), seg_recv, &cur, &um);
         const bool have = (UMIsMessageValid(&um) != 0);
         if (have)
         {
            const uint32 fs = UMGetFlattenedSize(&um);
            if ((got >= flats.size())||(fs != flats[got].size())||(memcmp(UMGetFlattenedBuffer(&um), &flats[got][0], fs) != 0)) {orc << k << " ORACLE FAIL micro gateway: frame #" << got << " of the C++ stream was received as a different Message\n"; bad = true;}
            got++;
         }
         if (r < 0) {if (!bad) orc << k << " ORACLE FAIL micro gateway: UGDoInput rejects the C++ gateway's stream after " << got << " Messages\n"; bad = true;}
         if ((cur.pos >= ref.size())&&(!have)&&(r == 0)) break;
      }
      if (!bad && (got != flats.size())) orc << k << " ORACLE FAIL micro gateway: only " << got << " of " << flats.size() << " Messages came out of the C++ stream\n";
   }
}

// a MiniMessage built by the harness: its bytes must be the documented layout, the C++ bytes of the same content, parse in
// C++ to the same content, and its gateway stream must be the C++ gateway's
static void check_mini_built(int k, MMessage * mb, const char * how, const std::vector<uint8> & B, const std::vector<uint8> & FR, const std::string & refcct, std::ostringstream & orc)
{
   const uint32 fs = (uint32) B.size();
   if (mb == NULL) {orc << k << " ORACLE FAIL mini: could not build " << how << "\n"; return;}
   const uint32 ms = MMGetFlattenedSize(mb);
   uint8 * raw = new uint8[ms ? ms : 1];            // exact size: ASan sees a write past MMGetFlattenedSize()
   memset(raw, 0xEE, ms ? ms : 1);
   MMFlattenMessage(mb, raw);
   std::vector<uint8> bytes(raw, raw+ms);
   delete [] raw;
   std::string lw;
   if (!layout_ok(bytes.empty() ? (const uint8 *) "" : &bytes[0], ms, lw)) orc << k << " ORACLE FAIL mini: " << how << " does not serialise to the documented layout: " << lw << "\n";
   if ((ms != fs)||(memcmp(bytes.empty() ? (const uint8 *) "" : &bytes[0], &B[0], fs) != 0)) orc << k << " ORACLE FAIL mini: " << how << " serialises to different bytes: " << hex(bytes.empty() ? (const uint8 *) "" : &bytes[0], ms).substr(0, 400) << "\n";
   Message back;
   if (back.UnflattenFromBytes(bytes.empty() ? (const uint8 *) "" : &bytes[0], ms).IsError()) orc << k << " ORACLE FAIL C++ rejects the bytes MMFlattenMessage produced\n";
   else
   {
      CMsg t; std::string s, w2;
      if (tree_of_cpp(back, t, w2)) {cct(t, s); if (s != refcct) orc << k << " ORACLE FAIL C++ parses mini's bytes to different content\n";}
      const uint32 bs = back.FlattenedSize(); std::vector<uint8> bb(bs ? bs : 1); back.FlattenToBytes(&bb[0], bs);
      if ((bs != ms)||(memcmp(&bb[0], bytes.empty() ? (const uint8 *) "" : &bytes[0], ms) != 0)) orc << k << " ORACLE FAIL C++ re-serialises mini's bytes to different bytes\n";
   }
   {
      // mini's own reading of what it built
      CMsg t; std::string s, w2;
      if (!tree_of_mini(mb, t, w2)) orc << k << " ORACLE FAIL mini: cannot read back " << how << ": " << w2 << "\n";
      else {cct(t, s); if (s != refcct) orc << k << " ORACLE FAIL mini: " << how << " reads back as different content: " << s.substr(0, 300) << "\n";}
   }
   // the C gateway's stream for this Message must be the C++ gateway's, byte for byte
   MMessageGateway * mg = MGAllocMessageGateway();
   if (mg && (MGAddOutgoingMessage(mg, mb) == CB_NO_ERROR))
   {
      std::vector<uint8> stream;
      for (int guard=0; (guard < 1000) && MGHasBytesToOutput(mg); guard++) if (MGDoOutput(mg, 1u<<30, collect_send, &stream) < 0) break;
      if (stream != FR) orc << k << " ORACLE FAIL mini gateway: stream differs from the C++ gateway's: " << hex(stream.empty() ? (const uint8 *)"" : &stream[0], stream.size() < 16 ? stream.size() : 16) << "\n";
   }
   else orc << k << " ORACLE FAIL mini gateway: MGAddOutgoingMessage failed\n";
   if (mg) MGFreeMessageGateway(mg);
   MMFreeMessage(mb);
}

static void run_case(int k, const std::string & head, const std::string & body)
{
   std::ostringstream out, orc;
   (void) head;
   {
      Message regs[8];
      std::vector<std::string> ops = split(body, ';');
      for (size_t n=0; n<ops.size(); n++)
      {
         if (ops[n].empty()) continue;
         std::vector<std::string> a = split(ops[n], ':');
         const std::string & c = a[0];
         #define REG(i) (regs[(unsigned)atoi(a[i].c_str()) & 7])
         #define FN(i) mkstr(unhex(a[i]))
         if ((c == "w")&&(a.size() == 3)) REG(1).what = (uint32) strtoul(a[2].c_str(), NULL, 10);
         else if (((c == "a")||(c == "p"))&&(a.size() == 5)) (void) typed_op(REG(1), c[0], FN(2), a[3], unhex(a[4]), 0, false);
         else if (((c == "am")||(c == "pm"))&&(a.size() == 4))
         {
            MessageRef copy = GetMessageFromPool(REG(3));
            (void) ((c == "am") ? REG(1).AddMessage(FN(2), copy) : REG(1).PrependMessage(FN(2), copy));
         }
         else if ((c == "r")&&(a.size() == 7)) (void) typed_op(REG(1), 'r', FN(2), a[4], unhex(a[5]), (uint32) strtoul(a[3].c_str(), NULL, 10), a[6] == "1");
         else if ((c == "rm")&&(a.size() == 6)) (void) REG(1).ReplaceMessage(a[5] == "1", FN(2), (uint32) strtoul(a[3].c_str(), NULL, 10), GetMessageFromPool(REG(4)));
         else if ((c == "x")&&(a.size() == 4))  (void) REG(1).RemoveData(FN(2), (uint32) strtoul(a[3].c_str(), NULL, 10));
         else if ((c == "xn")&&(a.size() == 3)) (void) REG(1).RemoveName(FN(2));
         else if ((c == "rn")&&(a.size() == 4)) (void) REG(1).Rename(FN(2), FN(3));
         else if ((c == "cl")&&(a.size() == 2)) REG(1).Clear();
         else if ((c == "pad")&&(a.size() == 4))
         {
            // add to field NAME one raw item of the length that makes FlattenedSize() equal to the target (if reachable)
            Message & m = REG(1);
            const long tl = strtol(a[3].c_str(), NULL, 10);
            const uint32 target = (uint32) tl;
            Message trial = m;
            if ((tl >= 0)&&(tl <= (1L<<26))&&trial.AddFlat(FN(2), FlatCountableRef(GetByteBufferFromPool(0))).IsOK() && (trial.FlattenedSize() <= target))
            {
               const uint32 n = target - trial.FlattenedSize();
               std::vector<uint8> pb(n ? n : 1);
               for (uint32 i=0; i<n; i++) pb[i] = (uint8)(i*7+3);
               (void) m.AddFlat(FN(2), FlatCountableRef(GetByteBufferFromPool(n, &pb[0])));
            }
         }
         else if ((c == "mf")&&(a.size() == 3)) (void) REG(1).MoveNameToFront(FN(2));
         else if ((c == "mb")&&(a.size() == 3)) (void) REG(1).MoveNameToBack(FN(2));
         else if ((c == "cn")&&(a.size() == 4)) {Message & m = REG(1); (void) m.CopyName(FN(2), m, FN(3));}
         else if ((c == "cp")&&(a.size() == 3)) {Message & d = REG(1); const Message & s = REG(2); if (&d != &s) d = s;}
         else if ((c == "u")&&(a.size() == 2))
         {
            Message & m = REG(1);
            const uint32 fs = m.FlattenedSize();
            std::vector<uint8> buf(fs);
            m.FlattenToBytes(&buf[0], fs);
            Message tmp;
            if (tmp.UnflattenFromBytes(&buf[0], fs).IsOK()) m = tmp;
         }
         else {fprintf(stderr, "bad op [%s]\n", ops[n].c_str()); exit(2);}
      }

      const Message & m0 = regs[0];
      const uint32 fs = m0.FlattenedSize();
      std::vector<uint8> B(fs);
      m0.FlattenToBytes(&B[0], fs);
      out << k << " B " << hex(&B[0], fs) << "\n";
      // the stream frame as MessageIOGateway writes it: 8-byte header (body length, encoding id) + body
      std::vector<uint8> FR;
      {
         MessageIOGateway gw;
         MessageRef mref = GetMessageFromPool(m0);
         ByteBufferRef fb = gw.CallFlattenHeaderAndMessage(mref);
         if (fb() && (fb()->GetNumBytes() >= 8))
         {
            FR.assign(fb()->GetBuffer(), fb()->GetBuffer()+fb()->GetNumBytes());
            out << k << " FR " << hex(&FR[0], 8) << "\n";
            if ((FR.size() != fs+8)||(memcmp(&FR[8], &B[0], fs) != 0)) orc << k << " ORACLE FAIL C++ gateway: frame body differs from Flatten()\n";
         }
         else out << k << " FR error\n";
      }
      CMsg ref; std::string why, refcct;
      if (!tree_of_cpp(m0, ref, why)) {out << k << " CCT error " << why << "\n";}
      else
      {
         cct(ref, refcct);
         out << k << " CCT " << refcct << "\n";
         {
            // gateway leg: the stream Message 0, Message 1, Message 0
            CMsg ref1; std::string w1, cct1;
            const Message & m1 = regs[1];
            if (tree_of_cpp(m1, ref1, w1))
            {
               cct(ref1, cct1);
               const uint32 fs1 = m1.FlattenedSize(); std::vector<uint8> B1(fs1); m1.FlattenToBytes(&B1[0], fs1);
               std::vector<const Message *> msgs; msgs.push_back(&m0); msgs.push_back(&m1); msgs.push_back(&m0);
               std::vector<const CMsg *> trees; trees.push_back(&ref); trees.push_back(&ref1); trees.push_back(&ref);
               std::vector<std::string> ccts; ccts.push_back(refcct); ccts.push_back(cct1); ccts.push_back(refcct);
               std::vector< std::vector<uint8> > flats; flats.push_back(B); flats.push_back(B1); flats.push_back(B);
               g_seg = 12345; for (size_t i=0; i<body.size(); i++) g_seg = (g_seg*31 + (uint8) body[i]) & 0x7fffffff;
               gateway_leg(k, msgs, trees, ccts, flats, c_representable(ref) && c_representable(ref1), out, orc, head == "wg");
            }
         }
         if (c_representable(ref))
         {
            // ---------------- mini: parse the C++ bytes
            MMessage * mm = MMAllocMessage(0);
            if (mm && (MMUnflattenMessage(mm, &B[0], fs) == CB_NO_ERROR))
            {
               CMsg t; std::string s, w2;
               if (!tree_of_mini(mm, t, w2)) orc << k << " ORACLE FAIL mini: cannot read back what it parsed: " << w2 << "\n";
               else {cct(t, s); if (s != refcct) orc << k << " ORACLE FAIL mini: parses the C++ bytes to different content: " << s.substr(0, 300) << "\n";}
               const uint32 ms = MMGetFlattenedSize(mm);
               std::vector<uint8> mb(ms ? ms : 1);
               MMFlattenMessage(mm, &mb[0]);
               if ((ms != fs)||(memcmp(&mb[0], &B[0], fs) != 0)) orc << k << " ORACLE FAIL mini: re-serialises the parsed Message to different bytes: " << hex(&mb[0], ms).substr(0, 400) << "\n";
            }
            else orc << k << " ORACLE FAIL mini: MMUnflattenMessage rejects the C++ bytes\n";
            if (mm) MMFreeMessage(mm);

            // ---------------- mini: build with its own API (one-shot, then through an edit history), serialise, let C++ parse
            check_mini_built(k, mini_of_tree(ref), "a Message built with the MMPut API", B, FR, refcct, orc);
            for (int round=0; round<2; round++)
            {
               g_hist = 777 + (uint32) round; for (size_t i=0; i<body.size(); i++) g_hist = (g_hist*33 + (uint8) body[i]) & 0x7fffffff;
               check_mini_built(k, mini_history_of_tree(ref), "a Message reached through an edit history (MMRenameField/MMRemoveField/MMMoveField/re-put)", B, FR, refcct, orc);
            }
            {
               std::string lw;
               if (!layout_ok(&B[0], fs, lw)) orc << k << " ORACLE FAIL C++: the flattened bytes are not the documented layout: " << lw << "\n";
            }

            // ---------------- micro: parse the C++ bytes
            {
               UMessage um;
               if (UMInitializeWithExistingData(&um, &B[0], fs) == CB_NO_ERROR)
               {
                  CMsg t; std::string s, w2;
                  if (!tree_of_micro(&um, t, w2)) orc << k << " ORACLE FAIL micro: cannot read the C++ bytes: " << w2 << "\n";
                  else {cct(t, s); if (s != refcct) orc << k << " ORACLE FAIL micro: reads the C++ bytes as different content: " << s.substr(0, 300) << "\n";}
                  if (UMGetFlattenedSize(&um) != fs) orc << k << " ORACLE FAIL micro: UMGetFlattenedSize differs from the byte count\n";
               }
               else orc << k << " ORACLE FAIL micro: UMInitializeWithExistingData rejects the C++ bytes\n";
            }
            // ---------------- micro: build with its own API, let C++ parse
            {
               std::vector<uint8> bytes; std::string w2;
               if (micro_of_tree(ref, bytes, w2, fs + 64))
               {
                  if ((bytes.size() != fs)||(memcmp(&bytes[0], &B[0], fs) != 0)) orc << k << " ORACLE FAIL micro: a Message built with the UMAdd API serialises to different bytes: " << hex(&bytes[0], bytes.size()).substr(0, 400) << "\n";
                  Message back;
                  if (back.UnflattenFromBytes(&bytes[0], (uint32) bytes.size()).IsError()) orc << k << " ORACLE FAIL C++ rejects the bytes the UMAdd API produced\n";
                  else
                  {
                     CMsg t; std::string s, w3;
                     if (tree_of_cpp(back, t, w3)) {cct(t, s); if (s != refcct) orc << k << " ORACLE FAIL C++ parses micro's bytes to different content\n";}
                  }
               }
               else orc << k << " ORACLE FAIL micro: could not build the Message with the UMAdd API: " << w2 << "\n";
            }
            // ---------------- micro gateway: build the Message in the gateway's output buffer, collect the stream
            {
               std::vector<uint8> inbuf(64), outbuf(fs + 128), stream; std::string w2;
               UMessageGateway ug;
               UGGatewayInitialize(&ug, &inbuf[0], (uint32) inbuf.size(), &outbuf[0], (uint32) outbuf.size());
               UMessage um = UGGetOutgoingMessage(&ug, ref.what);
               if (UMIsMessageValid(&um) && micro_fill(um, ref, w2, fs + 64))
               {
                  UGOutgoingMessagePrepared(&ug, &um);
                  for (int guard=0; (guard < 1000) && UGHasBytesToOutput(&ug); guard++) if (UGDoOutput(&ug, 1u<<30, collect_send, &stream) < 0) break;
                  if (stream != FR) orc << k << " ORACLE FAIL micro gateway: stream differs from the C++ gateway's: " << hex(stream.empty() ? (const uint8 *)"" : &stream[0], stream.size() < 16 ? stream.size() : 16) << "\n";
               }
               else orc << k << " ORACLE FAIL micro gateway: could not prepare the outgoing Message: " << w2 << "\n";
            }
         }
      }
   }
   g_tags.clear();
   fputs(out.str().c_str(), stdout);
   if (!orc.str().empty()) fputs(orc.str().c_str(), stdout);
   fflush(stdout);
}

int main()
{
   CompleteSetupSystem css;
   std::string line;
   int k = 0;
   while(std::getline(std::cin, line))
   {
      size_t p = line.find('|');
      if (p != std::string::npos) run_case(k, line.substr(0, p), line.substr(p+1));
      k++;
   }
   return 0;
}
