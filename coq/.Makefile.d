theories/Common/LE.vo theories/Common/LE.glob theories/Common/LE.v.beautified theories/Common/LE.required_vo: theories/Common/LE.v 
theories/Common/LE.vio: theories/Common/LE.v 
theories/Common/LE.vos theories/Common/LE.vok theories/Common/LE.required_vos: theories/Common/LE.v 
theories/Conc/Pool.vo theories/Conc/Pool.glob theories/Conc/Pool.v.beautified theories/Conc/Pool.required_vo: theories/Conc/Pool.v 
theories/Conc/Pool.vio: theories/Conc/Pool.v 
theories/Conc/Pool.vos theories/Conc/Pool.vok theories/Conc/Pool.required_vos: theories/Conc/Pool.v 
theories/Conc/PoolProofs.vo theories/Conc/PoolProofs.glob theories/Conc/PoolProofs.v.beautified theories/Conc/PoolProofs.required_vo: theories/Conc/PoolProofs.v theories/Conc/Pool.vo
theories/Conc/PoolProofs.vio: theories/Conc/PoolProofs.v theories/Conc/Pool.vio
theories/Conc/PoolProofs.vos theories/Conc/PoolProofs.vok theories/Conc/PoolProofs.required_vos: theories/Conc/PoolProofs.v theories/Conc/Pool.vos
theories/Conc/RefActs.vo theories/Conc/RefActs.glob theories/Conc/RefActs.v.beautified theories/Conc/RefActs.required_vo: theories/Conc/RefActs.v theories/Conc/Pool.vo theories/Conc/PoolProofs.vo theories/Conc/RefCnt.vo theories/Conc/RefInv.vo theories/Conc/RefExcl.vo theories/Conc/RefStep.vo
theories/Conc/RefActs.vio: theories/Conc/RefActs.v theories/Conc/Pool.vio theories/Conc/PoolProofs.vio theories/Conc/RefCnt.vio theories/Conc/RefInv.vio theories/Conc/RefExcl.vio theories/Conc/RefStep.vio
theories/Conc/RefActs.vos theories/Conc/RefActs.vok theories/Conc/RefActs.required_vos: theories/Conc/RefActs.v theories/Conc/Pool.vos theories/Conc/PoolProofs.vos theories/Conc/RefCnt.vos theories/Conc/RefInv.vos theories/Conc/RefExcl.vos theories/Conc/RefStep.vos
theories/Conc/RefCnt.vo theories/Conc/RefCnt.glob theories/Conc/RefCnt.v.beautified theories/Conc/RefCnt.required_vo: theories/Conc/RefCnt.v theories/Conc/Pool.vo
theories/Conc/RefCnt.vio: theories/Conc/RefCnt.v theories/Conc/Pool.vio
theories/Conc/RefCnt.vos theories/Conc/RefCnt.vok theories/Conc/RefCnt.required_vos: theories/Conc/RefCnt.v theories/Conc/Pool.vos
theories/Conc/RefExcl.vo theories/Conc/RefExcl.glob theories/Conc/RefExcl.v.beautified theories/Conc/RefExcl.required_vo: theories/Conc/RefExcl.v theories/Conc/Pool.vo theories/Conc/PoolProofs.vo theories/Conc/RefCnt.vo theories/Conc/RefInv.vo
theories/Conc/RefExcl.vio: theories/Conc/RefExcl.v theories/Conc/Pool.vio theories/Conc/PoolProofs.vio theories/Conc/RefCnt.vio theories/Conc/RefInv.vio
theories/Conc/RefExcl.vos theories/Conc/RefExcl.vok theories/Conc/RefExcl.required_vos: theories/Conc/RefExcl.v theories/Conc/Pool.vos theories/Conc/PoolProofs.vos theories/Conc/RefCnt.vos theories/Conc/RefInv.vos
theories/Conc/RefInv.vo theories/Conc/RefInv.glob theories/Conc/RefInv.v.beautified theories/Conc/RefInv.required_vo: theories/Conc/RefInv.v theories/Conc/Pool.vo theories/Conc/PoolProofs.vo theories/Conc/RefCnt.vo
theories/Conc/RefInv.vio: theories/Conc/RefInv.v theories/Conc/Pool.vio theories/Conc/PoolProofs.vio theories/Conc/RefCnt.vio
theories/Conc/RefInv.vos theories/Conc/RefInv.vok theories/Conc/RefInv.required_vos: theories/Conc/RefInv.v theories/Conc/Pool.vos theories/Conc/PoolProofs.vos theories/Conc/RefCnt.vos
theories/Conc/RefProofs.vo theories/Conc/RefProofs.glob theories/Conc/RefProofs.v.beautified theories/Conc/RefProofs.required_vo: theories/Conc/RefProofs.v theories/Conc/Pool.vo theories/Conc/RefCnt.vo
theories/Conc/RefProofs.vio: theories/Conc/RefProofs.v theories/Conc/Pool.vio theories/Conc/RefCnt.vio
theories/Conc/RefProofs.vos theories/Conc/RefProofs.vok theories/Conc/RefProofs.required_vos: theories/Conc/RefProofs.v theories/Conc/Pool.vos theories/Conc/RefCnt.vos
theories/Conc/RefStep.vo theories/Conc/RefStep.glob theories/Conc/RefStep.v.beautified theories/Conc/RefStep.required_vo: theories/Conc/RefStep.v theories/Conc/Pool.vo theories/Conc/PoolProofs.vo theories/Conc/RefCnt.vo theories/Conc/RefInv.vo theories/Conc/RefExcl.vo
theories/Conc/RefStep.vio: theories/Conc/RefStep.v theories/Conc/Pool.vio theories/Conc/PoolProofs.vio theories/Conc/RefCnt.vio theories/Conc/RefInv.vio theories/Conc/RefExcl.vio
theories/Conc/RefStep.vos theories/Conc/RefStep.vok theories/Conc/RefStep.required_vos: theories/Conc/RefStep.v theories/Conc/Pool.vos theories/Conc/PoolProofs.vos theories/Conc/RefCnt.vos theories/Conc/RefInv.vos theories/Conc/RefExcl.vos
theories/Conc/RwMutexInv.vo theories/Conc/RwMutexInv.glob theories/Conc/RwMutexInv.v.beautified theories/Conc/RwMutexInv.required_vo: theories/Conc/RwMutexInv.v theories/Conc/RwMutexModel.vo theories/Conc/RwMutexProofs.vo
theories/Conc/RwMutexInv.vio: theories/Conc/RwMutexInv.v theories/Conc/RwMutexModel.vio theories/Conc/RwMutexProofs.vio
theories/Conc/RwMutexInv.vos theories/Conc/RwMutexInv.vok theories/Conc/RwMutexInv.required_vos: theories/Conc/RwMutexInv.v theories/Conc/RwMutexModel.vos theories/Conc/RwMutexProofs.vos
theories/Conc/RwMutexModel.vo theories/Conc/RwMutexModel.glob theories/Conc/RwMutexModel.v.beautified theories/Conc/RwMutexModel.required_vo: theories/Conc/RwMutexModel.v 
theories/Conc/RwMutexModel.vio: theories/Conc/RwMutexModel.v 
theories/Conc/RwMutexModel.vos theories/Conc/RwMutexModel.vok theories/Conc/RwMutexModel.required_vos: theories/Conc/RwMutexModel.v 
theories/Conc/RwMutexProofs.vo theories/Conc/RwMutexProofs.glob theories/Conc/RwMutexProofs.v.beautified theories/Conc/RwMutexProofs.required_vo: theories/Conc/RwMutexProofs.v theories/Conc/RwMutexModel.vo
theories/Conc/RwMutexProofs.vio: theories/Conc/RwMutexProofs.v theories/Conc/RwMutexModel.vio
theories/Conc/RwMutexProofs.vos theories/Conc/RwMutexProofs.vok theories/Conc/RwMutexProofs.required_vos: theories/Conc/RwMutexProofs.v theories/Conc/RwMutexModel.vos
theories/Conc/RwMutexThms.vo theories/Conc/RwMutexThms.glob theories/Conc/RwMutexThms.v.beautified theories/Conc/RwMutexThms.required_vo: theories/Conc/RwMutexThms.v theories/Conc/RwMutexModel.vo theories/Conc/RwMutexProofs.vo theories/Conc/RwMutexInv.vo
theories/Conc/RwMutexThms.vio: theories/Conc/RwMutexThms.v theories/Conc/RwMutexModel.vio theories/Conc/RwMutexProofs.vio theories/Conc/RwMutexInv.vio
theories/Conc/RwMutexThms.vos theories/Conc/RwMutexThms.vok theories/Conc/RwMutexThms.required_vos: theories/Conc/RwMutexThms.v theories/Conc/RwMutexModel.vos theories/Conc/RwMutexProofs.vos theories/Conc/RwMutexInv.vos
theories/Conc/TPool.vo theories/Conc/TPool.glob theories/Conc/TPool.v.beautified theories/Conc/TPool.required_vo: theories/Conc/TPool.v 
theories/Conc/TPool.vio: theories/Conc/TPool.v 
theories/Conc/TPool.vos theories/Conc/TPool.vok theories/Conc/TPool.required_vos: theories/Conc/TPool.v 
theories/Conc/TPoolInv.vo theories/Conc/TPoolInv.glob theories/Conc/TPoolInv.v.beautified theories/Conc/TPoolInv.required_vo: theories/Conc/TPoolInv.v theories/Conc/TPool.vo theories/Conc/TPoolLemmas.vo
theories/Conc/TPoolInv.vio: theories/Conc/TPoolInv.v theories/Conc/TPool.vio theories/Conc/TPoolLemmas.vio
theories/Conc/TPoolInv.vos theories/Conc/TPoolInv.vok theories/Conc/TPoolInv.required_vos: theories/Conc/TPoolInv.v theories/Conc/TPool.vos theories/Conc/TPoolLemmas.vos
theories/Conc/TPoolLemmas.vo theories/Conc/TPoolLemmas.glob theories/Conc/TPoolLemmas.v.beautified theories/Conc/TPoolLemmas.required_vo: theories/Conc/TPoolLemmas.v theories/Conc/TPool.vo
theories/Conc/TPoolLemmas.vio: theories/Conc/TPoolLemmas.v theories/Conc/TPool.vio
theories/Conc/TPoolLemmas.vos theories/Conc/TPoolLemmas.vok theories/Conc/TPoolLemmas.required_vos: theories/Conc/TPoolLemmas.v theories/Conc/TPool.vos
theories/Conc/TPoolStep.vo theories/Conc/TPoolStep.glob theories/Conc/TPoolStep.v.beautified theories/Conc/TPoolStep.required_vo: theories/Conc/TPoolStep.v theories/Conc/TPool.vo theories/Conc/TPoolLemmas.vo theories/Conc/TPoolInv.vo
theories/Conc/TPoolStep.vio: theories/Conc/TPoolStep.v theories/Conc/TPool.vio theories/Conc/TPoolLemmas.vio theories/Conc/TPoolInv.vio
theories/Conc/TPoolStep.vos theories/Conc/TPoolStep.vok theories/Conc/TPoolStep.required_vos: theories/Conc/TPoolStep.v theories/Conc/TPool.vos theories/Conc/TPoolLemmas.vos theories/Conc/TPoolInv.vos
theories/Conc/TPoolTrace.vo theories/Conc/TPoolTrace.glob theories/Conc/TPoolTrace.v.beautified theories/Conc/TPoolTrace.required_vo: theories/Conc/TPoolTrace.v theories/Conc/TPool.vo theories/Conc/TPoolLemmas.vo theories/Conc/TPoolInv.vo theories/Conc/TPoolStep.vo
theories/Conc/TPoolTrace.vio: theories/Conc/TPoolTrace.v theories/Conc/TPool.vio theories/Conc/TPoolLemmas.vio theories/Conc/TPoolInv.vio theories/Conc/TPoolStep.vio
theories/Conc/TPoolTrace.vos theories/Conc/TPoolTrace.vok theories/Conc/TPoolTrace.required_vos: theories/Conc/TPoolTrace.v theories/Conc/TPool.vos theories/Conc/TPoolLemmas.vos theories/Conc/TPoolInv.vos theories/Conc/TPoolStep.vos
theories/Conc/ThreadQ.vo theories/Conc/ThreadQ.glob theories/Conc/ThreadQ.v.beautified theories/Conc/ThreadQ.required_vo: theories/Conc/ThreadQ.v 
theories/Conc/ThreadQ.vio: theories/Conc/ThreadQ.v 
theories/Conc/ThreadQ.vos theories/Conc/ThreadQ.vok theories/Conc/ThreadQ.required_vos: theories/Conc/ThreadQ.v 
theories/Conc/ThreadQProofs.vo theories/Conc/ThreadQProofs.glob theories/Conc/ThreadQProofs.v.beautified theories/Conc/ThreadQProofs.required_vo: theories/Conc/ThreadQProofs.v theories/Conc/ThreadQ.vo
theories/Conc/ThreadQProofs.vio: theories/Conc/ThreadQProofs.v theories/Conc/ThreadQ.vio
theories/Conc/ThreadQProofs.vos theories/Conc/ThreadQProofs.vok theories/Conc/ThreadQProofs.required_vos: theories/Conc/ThreadQProofs.v theories/Conc/ThreadQ.vos
theories/Conc/ThreadQWf.vo theories/Conc/ThreadQWf.glob theories/Conc/ThreadQWf.v.beautified theories/Conc/ThreadQWf.required_vo: theories/Conc/ThreadQWf.v theories/Conc/ThreadQ.vo
theories/Conc/ThreadQWf.vio: theories/Conc/ThreadQWf.v theories/Conc/ThreadQ.vio
theories/Conc/ThreadQWf.vos theories/Conc/ThreadQWf.vok theories/Conc/ThreadQWf.required_vos: theories/Conc/ThreadQWf.v theories/Conc/ThreadQ.vos
theories/Cont/HtIdeal.vo theories/Cont/HtIdeal.glob theories/Cont/HtIdeal.v.beautified theories/Cont/HtIdeal.required_vo: theories/Cont/HtIdeal.v theories/Cont/HtModel.vo
theories/Cont/HtIdeal.vio: theories/Cont/HtIdeal.v theories/Cont/HtModel.vio
theories/Cont/HtIdeal.vos theories/Cont/HtIdeal.vok theories/Cont/HtIdeal.required_vos: theories/Cont/HtIdeal.v theories/Cont/HtModel.vos
theories/Cont/HtIters.vo theories/Cont/HtIters.glob theories/Cont/HtIters.v.beautified theories/Cont/HtIters.required_vo: theories/Cont/HtIters.v theories/Cont/HtModel.vo theories/Cont/HtLemmas.vo
theories/Cont/HtIters.vio: theories/Cont/HtIters.v theories/Cont/HtModel.vio theories/Cont/HtLemmas.vio
theories/Cont/HtIters.vos theories/Cont/HtIters.vok theories/Cont/HtIters.required_vos: theories/Cont/HtIters.v theories/Cont/HtModel.vos theories/Cont/HtLemmas.vos
theories/Cont/HtLemmas.vo theories/Cont/HtLemmas.glob theories/Cont/HtLemmas.v.beautified theories/Cont/HtLemmas.required_vo: theories/Cont/HtLemmas.v theories/Cont/HtModel.vo
theories/Cont/HtLemmas.vio: theories/Cont/HtLemmas.v theories/Cont/HtModel.vio
theories/Cont/HtLemmas.vos theories/Cont/HtLemmas.vok theories/Cont/HtLemmas.required_vos: theories/Cont/HtLemmas.v theories/Cont/HtModel.vos
theories/Cont/HtModel.vo theories/Cont/HtModel.glob theories/Cont/HtModel.v.beautified theories/Cont/HtModel.required_vo: theories/Cont/HtModel.v 
theories/Cont/HtModel.vio: theories/Cont/HtModel.v 
theories/Cont/HtModel.vos theories/Cont/HtModel.vok theories/Cont/HtModel.required_vos: theories/Cont/HtModel.v 
theories/Cont/HtMoves.vo theories/Cont/HtMoves.glob theories/Cont/HtMoves.v.beautified theories/Cont/HtMoves.required_vo: theories/Cont/HtMoves.v theories/Cont/HtModel.vo theories/Cont/HtLemmas.vo theories/Cont/HtRepr.vo theories/Cont/HtWalk.vo theories/Cont/HtIters.vo theories/Cont/HtTable.vo
theories/Cont/HtMoves.vio: theories/Cont/HtMoves.v theories/Cont/HtModel.vio theories/Cont/HtLemmas.vio theories/Cont/HtRepr.vio theories/Cont/HtWalk.vio theories/Cont/HtIters.vio theories/Cont/HtTable.vio
theories/Cont/HtMoves.vos theories/Cont/HtMoves.vok theories/Cont/HtMoves.required_vos: theories/Cont/HtMoves.v theories/Cont/HtModel.vos theories/Cont/HtLemmas.vos theories/Cont/HtRepr.vos theories/Cont/HtWalk.vos theories/Cont/HtIters.vos theories/Cont/HtTable.vos
theories/Cont/HtPut.vo theories/Cont/HtPut.glob theories/Cont/HtPut.v.beautified theories/Cont/HtPut.required_vo: theories/Cont/HtPut.v theories/Cont/HtModel.vo theories/Cont/HtLemmas.vo theories/Cont/HtRepr.vo theories/Cont/HtWalk.vo theories/Cont/HtIters.vo theories/Cont/HtTable.vo theories/Cont/HtMoves.vo
theories/Cont/HtPut.vio: theories/Cont/HtPut.v theories/Cont/HtModel.vio theories/Cont/HtLemmas.vio theories/Cont/HtRepr.vio theories/Cont/HtWalk.vio theories/Cont/HtIters.vio theories/Cont/HtTable.vio theories/Cont/HtMoves.vio
theories/Cont/HtPut.vos theories/Cont/HtPut.vok theories/Cont/HtPut.required_vos: theories/Cont/HtPut.v theories/Cont/HtModel.vos theories/Cont/HtLemmas.vos theories/Cont/HtRepr.vos theories/Cont/HtWalk.vos theories/Cont/HtIters.vos theories/Cont/HtTable.vos theories/Cont/HtMoves.vos
theories/Cont/HtRepr.vo theories/Cont/HtRepr.glob theories/Cont/HtRepr.v.beautified theories/Cont/HtRepr.required_vo: theories/Cont/HtRepr.v theories/Cont/HtModel.vo theories/Cont/HtLemmas.vo
theories/Cont/HtRepr.vio: theories/Cont/HtRepr.v theories/Cont/HtModel.vio theories/Cont/HtLemmas.vio
theories/Cont/HtRepr.vos theories/Cont/HtRepr.vok theories/Cont/HtRepr.required_vos: theories/Cont/HtRepr.v theories/Cont/HtModel.vos theories/Cont/HtLemmas.vos
theories/Cont/HtStep.vo theories/Cont/HtStep.glob theories/Cont/HtStep.v.beautified theories/Cont/HtStep.required_vo: theories/Cont/HtStep.v theories/Cont/HtModel.vo
theories/Cont/HtStep.vio: theories/Cont/HtStep.v theories/Cont/HtModel.vio
theories/Cont/HtStep.vos theories/Cont/HtStep.vok theories/Cont/HtStep.required_vos: theories/Cont/HtStep.v theories/Cont/HtModel.vos
theories/Cont/HtTable.vo theories/Cont/HtTable.glob theories/Cont/HtTable.v.beautified theories/Cont/HtTable.required_vo: theories/Cont/HtTable.v theories/Cont/HtModel.vo theories/Cont/HtLemmas.vo theories/Cont/HtRepr.vo theories/Cont/HtWalk.vo theories/Cont/HtIters.vo
theories/Cont/HtTable.vio: theories/Cont/HtTable.v theories/Cont/HtModel.vio theories/Cont/HtLemmas.vio theories/Cont/HtRepr.vio theories/Cont/HtWalk.vio theories/Cont/HtIters.vio
theories/Cont/HtTable.vos theories/Cont/HtTable.vok theories/Cont/HtTable.required_vos: theories/Cont/HtTable.v theories/Cont/HtModel.vos theories/Cont/HtLemmas.vos theories/Cont/HtRepr.vos theories/Cont/HtWalk.vos theories/Cont/HtIters.vos
theories/Cont/HtWalk.vo theories/Cont/HtWalk.glob theories/Cont/HtWalk.v.beautified theories/Cont/HtWalk.required_vo: theories/Cont/HtWalk.v theories/Cont/HtModel.vo theories/Cont/HtLemmas.vo theories/Cont/HtRepr.vo
theories/Cont/HtWalk.vio: theories/Cont/HtWalk.v theories/Cont/HtModel.vio theories/Cont/HtLemmas.vio theories/Cont/HtRepr.vio
theories/Cont/HtWalk.vos theories/Cont/HtWalk.vok theories/Cont/HtWalk.required_vos: theories/Cont/HtWalk.v theories/Cont/HtModel.vos theories/Cont/HtLemmas.vos theories/Cont/HtRepr.vos
theories/Cont/QueueEnsure.vo theories/Cont/QueueEnsure.glob theories/Cont/QueueEnsure.v.beautified theories/Cont/QueueEnsure.required_vo: theories/Cont/QueueEnsure.v theories/Cont/QueueModel.vo theories/Cont/QueueLemmas.vo theories/Cont/QueueInv.vo theories/Cont/QueueOps1.vo
theories/Cont/QueueEnsure.vio: theories/Cont/QueueEnsure.v theories/Cont/QueueModel.vio theories/Cont/QueueLemmas.vio theories/Cont/QueueInv.vio theories/Cont/QueueOps1.vio
theories/Cont/QueueEnsure.vos theories/Cont/QueueEnsure.vok theories/Cont/QueueEnsure.required_vos: theories/Cont/QueueEnsure.v theories/Cont/QueueModel.vos theories/Cont/QueueLemmas.vos theories/Cont/QueueInv.vos theories/Cont/QueueOps1.vos
theories/Cont/QueueInv.vo theories/Cont/QueueInv.glob theories/Cont/QueueInv.v.beautified theories/Cont/QueueInv.required_vo: theories/Cont/QueueInv.v theories/Cont/QueueModel.vo theories/Cont/QueueLemmas.vo
theories/Cont/QueueInv.vio: theories/Cont/QueueInv.v theories/Cont/QueueModel.vio theories/Cont/QueueLemmas.vio
theories/Cont/QueueInv.vos theories/Cont/QueueInv.vok theories/Cont/QueueInv.required_vos: theories/Cont/QueueInv.v theories/Cont/QueueModel.vos theories/Cont/QueueLemmas.vos
theories/Cont/QueueLemmas.vo theories/Cont/QueueLemmas.glob theories/Cont/QueueLemmas.v.beautified theories/Cont/QueueLemmas.required_vo: theories/Cont/QueueLemmas.v theories/Cont/QueueModel.vo
theories/Cont/QueueLemmas.vio: theories/Cont/QueueLemmas.v theories/Cont/QueueModel.vio
theories/Cont/QueueLemmas.vos theories/Cont/QueueLemmas.vok theories/Cont/QueueLemmas.required_vos: theories/Cont/QueueLemmas.v theories/Cont/QueueModel.vos
theories/Cont/QueueModel.vo theories/Cont/QueueModel.glob theories/Cont/QueueModel.v.beautified theories/Cont/QueueModel.required_vo: theories/Cont/QueueModel.v 
theories/Cont/QueueModel.vio: theories/Cont/QueueModel.v 
theories/Cont/QueueModel.vos theories/Cont/QueueModel.vok theories/Cont/QueueModel.required_vos: theories/Cont/QueueModel.v 
theories/Cont/QueueOps1.vo theories/Cont/QueueOps1.glob theories/Cont/QueueOps1.v.beautified theories/Cont/QueueOps1.required_vo: theories/Cont/QueueOps1.v theories/Cont/QueueModel.vo theories/Cont/QueueLemmas.vo theories/Cont/QueueInv.vo
theories/Cont/QueueOps1.vio: theories/Cont/QueueOps1.v theories/Cont/QueueModel.vio theories/Cont/QueueLemmas.vio theories/Cont/QueueInv.vio
theories/Cont/QueueOps1.vos theories/Cont/QueueOps1.vok theories/Cont/QueueOps1.required_vos: theories/Cont/QueueOps1.v theories/Cont/QueueModel.vos theories/Cont/QueueLemmas.vos theories/Cont/QueueInv.vos
theories/Cont/QueueOps2.vo theories/Cont/QueueOps2.glob theories/Cont/QueueOps2.v.beautified theories/Cont/QueueOps2.required_vo: theories/Cont/QueueOps2.v theories/Cont/QueueModel.vo theories/Cont/QueueLemmas.vo theories/Cont/QueueInv.vo theories/Cont/QueueOps1.vo theories/Cont/QueueEnsure.vo
theories/Cont/QueueOps2.vio: theories/Cont/QueueOps2.v theories/Cont/QueueModel.vio theories/Cont/QueueLemmas.vio theories/Cont/QueueInv.vio theories/Cont/QueueOps1.vio theories/Cont/QueueEnsure.vio
theories/Cont/QueueOps2.vos theories/Cont/QueueOps2.vok theories/Cont/QueueOps2.required_vos: theories/Cont/QueueOps2.v theories/Cont/QueueModel.vos theories/Cont/QueueLemmas.vos theories/Cont/QueueInv.vos theories/Cont/QueueOps1.vos theories/Cont/QueueEnsure.vos
theories/Cont/QueueOps3.vo theories/Cont/QueueOps3.glob theories/Cont/QueueOps3.v.beautified theories/Cont/QueueOps3.required_vo: theories/Cont/QueueOps3.v theories/Cont/QueueModel.vo theories/Cont/QueueLemmas.vo theories/Cont/QueueInv.vo theories/Cont/QueueOps1.vo theories/Cont/QueueEnsure.vo theories/Cont/QueueOps2.vo
theories/Cont/QueueOps3.vio: theories/Cont/QueueOps3.v theories/Cont/QueueModel.vio theories/Cont/QueueLemmas.vio theories/Cont/QueueInv.vio theories/Cont/QueueOps1.vio theories/Cont/QueueEnsure.vio theories/Cont/QueueOps2.vio
theories/Cont/QueueOps3.vos theories/Cont/QueueOps3.vok theories/Cont/QueueOps3.required_vos: theories/Cont/QueueOps3.v theories/Cont/QueueModel.vos theories/Cont/QueueLemmas.vos theories/Cont/QueueInv.vos theories/Cont/QueueOps1.vos theories/Cont/QueueEnsure.vos theories/Cont/QueueOps2.vos
theories/Cont/QueueProofs.vo theories/Cont/QueueProofs.glob theories/Cont/QueueProofs.v.beautified theories/Cont/QueueProofs.required_vo: theories/Cont/QueueProofs.v theories/Gen/Consts.vo theories/Cont/QueueModel.vo theories/Cont/QueueLemmas.vo theories/Cont/QueueInv.vo theories/Cont/QueueOps1.vo theories/Cont/QueueEnsure.vo theories/Cont/QueueOps2.vo theories/Cont/QueueOps3.vo
theories/Cont/QueueProofs.vio: theories/Cont/QueueProofs.v theories/Gen/Consts.vio theories/Cont/QueueModel.vio theories/Cont/QueueLemmas.vio theories/Cont/QueueInv.vio theories/Cont/QueueOps1.vio theories/Cont/QueueEnsure.vio theories/Cont/QueueOps2.vio theories/Cont/QueueOps3.vio
theories/Cont/QueueProofs.vos theories/Cont/QueueProofs.vok theories/Cont/QueueProofs.required_vos: theories/Cont/QueueProofs.v theories/Gen/Consts.vos theories/Cont/QueueModel.vos theories/Cont/QueueLemmas.vos theories/Cont/QueueInv.vos theories/Cont/QueueOps1.vos theories/Cont/QueueEnsure.vos theories/Cont/QueueOps2.vos theories/Cont/QueueOps3.vos
theories/Cont/StrCore.vo theories/Cont/StrCore.glob theories/Cont/StrCore.v.beautified theories/Cont/StrCore.required_vo: theories/Cont/StrCore.v theories/Cont/StrL0.vo theories/Cont/StrModel.vo theories/Cont/StrLemmas.vo theories/Cont/StrGrow.vo
theories/Cont/StrCore.vio: theories/Cont/StrCore.v theories/Cont/StrL0.vio theories/Cont/StrModel.vio theories/Cont/StrLemmas.vio theories/Cont/StrGrow.vio
theories/Cont/StrCore.vos theories/Cont/StrCore.vok theories/Cont/StrCore.required_vos: theories/Cont/StrCore.v theories/Cont/StrL0.vos theories/Cont/StrModel.vos theories/Cont/StrLemmas.vos theories/Cont/StrGrow.vos
theories/Cont/StrGrow.vo theories/Cont/StrGrow.glob theories/Cont/StrGrow.v.beautified theories/Cont/StrGrow.required_vo: theories/Cont/StrGrow.v theories/Cont/StrL0.vo theories/Cont/StrModel.vo
theories/Cont/StrGrow.vio: theories/Cont/StrGrow.v theories/Cont/StrL0.vio theories/Cont/StrModel.vio
theories/Cont/StrGrow.vos theories/Cont/StrGrow.vok theories/Cont/StrGrow.required_vos: theories/Cont/StrGrow.v theories/Cont/StrL0.vos theories/Cont/StrModel.vos
theories/Cont/StrL0.vo theories/Cont/StrL0.glob theories/Cont/StrL0.v.beautified theories/Cont/StrL0.required_vo: theories/Cont/StrL0.v 
theories/Cont/StrL0.vio: theories/Cont/StrL0.v 
theories/Cont/StrL0.vos theories/Cont/StrL0.vok theories/Cont/StrL0.required_vos: theories/Cont/StrL0.v 
theories/Cont/StrLemmas.vo theories/Cont/StrLemmas.glob theories/Cont/StrLemmas.v.beautified theories/Cont/StrLemmas.required_vo: theories/Cont/StrLemmas.v theories/Cont/StrL0.vo
theories/Cont/StrLemmas.vio: theories/Cont/StrLemmas.v theories/Cont/StrL0.vio
theories/Cont/StrLemmas.vos theories/Cont/StrLemmas.vok theories/Cont/StrLemmas.required_vos: theories/Cont/StrLemmas.v theories/Cont/StrL0.vos
theories/Cont/StrModel.vo theories/Cont/StrModel.glob theories/Cont/StrModel.v.beautified theories/Cont/StrModel.required_vo: theories/Cont/StrModel.v theories/Cont/StrL0.vo
theories/Cont/StrModel.vio: theories/Cont/StrModel.v theories/Cont/StrL0.vio
theories/Cont/StrModel.vos theories/Cont/StrModel.vok theories/Cont/StrModel.required_vos: theories/Cont/StrModel.v theories/Cont/StrL0.vos
theories/Cont/StrOps.vo theories/Cont/StrOps.glob theories/Cont/StrOps.v.beautified theories/Cont/StrOps.required_vo: theories/Cont/StrOps.v theories/Cont/StrL0.vo theories/Cont/StrModel.vo theories/Cont/StrLemmas.vo theories/Cont/StrGrow.vo theories/Cont/StrCore.vo
theories/Cont/StrOps.vio: theories/Cont/StrOps.v theories/Cont/StrL0.vio theories/Cont/StrModel.vio theories/Cont/StrLemmas.vio theories/Cont/StrGrow.vio theories/Cont/StrCore.vio
theories/Cont/StrOps.vos theories/Cont/StrOps.vok theories/Cont/StrOps.required_vos: theories/Cont/StrOps.v theories/Cont/StrL0.vos theories/Cont/StrModel.vos theories/Cont/StrLemmas.vos theories/Cont/StrGrow.vos theories/Cont/StrCore.vos
theories/Cont/StrProofs.vo theories/Cont/StrProofs.glob theories/Cont/StrProofs.v.beautified theories/Cont/StrProofs.required_vo: theories/Cont/StrProofs.v theories/Gen/Consts.vo theories/Cont/StrL0.vo theories/Cont/StrModel.vo
theories/Cont/StrProofs.vio: theories/Cont/StrProofs.v theories/Gen/Consts.vio theories/Cont/StrL0.vio theories/Cont/StrModel.vio
theories/Cont/StrProofs.vos theories/Cont/StrProofs.vok theories/Cont/StrProofs.required_vos: theories/Cont/StrProofs.v theories/Gen/Consts.vos theories/Cont/StrL0.vos theories/Cont/StrModel.vos
theories/Flt/FltArchive.vo theories/Flt/FltArchive.glob theories/Flt/FltArchive.v.beautified theories/Flt/FltArchive.required_vo: theories/Flt/FltArchive.v theories/Gen/Consts.vo theories/Msg/MsgDefs.vo theories/Msg/MsgModel.vo theories/Msg/MsgApi.vo theories/Flt/FltModel.vo
theories/Flt/FltArchive.vio: theories/Flt/FltArchive.v theories/Gen/Consts.vio theories/Msg/MsgDefs.vio theories/Msg/MsgModel.vio theories/Msg/MsgApi.vio theories/Flt/FltModel.vio
theories/Flt/FltArchive.vos theories/Flt/FltArchive.vok theories/Flt/FltArchive.required_vos: theories/Flt/FltArchive.v theories/Gen/Consts.vos theories/Msg/MsgDefs.vos theories/Msg/MsgModel.vos theories/Msg/MsgApi.vos theories/Flt/FltModel.vos
theories/Flt/FltLemmas.vo theories/Flt/FltLemmas.glob theories/Flt/FltLemmas.v.beautified theories/Flt/FltLemmas.required_vo: theories/Flt/FltLemmas.v theories/Gen/Consts.vo theories/Msg/MsgDefs.vo theories/Msg/MsgModel.vo theories/Msg/MsgApi.vo theories/Msg/MsgBytesProofs.vo theories/Flt/FltModel.vo theories/Flt/FltArchive.vo
theories/Flt/FltLemmas.vio: theories/Flt/FltLemmas.v theories/Gen/Consts.vio theories/Msg/MsgDefs.vio theories/Msg/MsgModel.vio theories/Msg/MsgApi.vio theories/Msg/MsgBytesProofs.vio theories/Flt/FltModel.vio theories/Flt/FltArchive.vio
theories/Flt/FltLemmas.vos theories/Flt/FltLemmas.vok theories/Flt/FltLemmas.required_vos: theories/Flt/FltLemmas.v theories/Gen/Consts.vos theories/Msg/MsgDefs.vos theories/Msg/MsgModel.vos theories/Msg/MsgApi.vos theories/Msg/MsgBytesProofs.vos theories/Flt/FltModel.vos theories/Flt/FltArchive.vos
theories/Flt/FltModel.vo theories/Flt/FltModel.glob theories/Flt/FltModel.v.beautified theories/Flt/FltModel.required_vo: theories/Flt/FltModel.v theories/Gen/Consts.vo theories/Msg/MsgDefs.vo theories/Msg/MsgModel.vo
theories/Flt/FltModel.vio: theories/Flt/FltModel.v theories/Gen/Consts.vio theories/Msg/MsgDefs.vio theories/Msg/MsgModel.vio
theories/Flt/FltModel.vos theories/Flt/FltModel.vok theories/Flt/FltModel.required_vos: theories/Flt/FltModel.v theories/Gen/Consts.vos theories/Msg/MsgDefs.vos theories/Msg/MsgModel.vos
theories/Flt/FltProofs.vo theories/Flt/FltProofs.glob theories/Flt/FltProofs.v.beautified theories/Flt/FltProofs.required_vo: theories/Flt/FltProofs.v theories/Gen/Consts.vo theories/Msg/MsgDefs.vo theories/Msg/MsgModel.vo theories/Flt/FltModel.vo
theories/Flt/FltProofs.vio: theories/Flt/FltProofs.v theories/Gen/Consts.vio theories/Msg/MsgDefs.vio theories/Msg/MsgModel.vio theories/Flt/FltModel.vio
theories/Flt/FltProofs.vos theories/Flt/FltProofs.vok theories/Flt/FltProofs.required_vos: theories/Flt/FltProofs.v theories/Gen/Consts.vos theories/Msg/MsgDefs.vos theories/Msg/MsgModel.vos theories/Flt/FltModel.vos
theories/Gen/Consts.vo theories/Gen/Consts.glob theories/Gen/Consts.v.beautified theories/Gen/Consts.required_vo: theories/Gen/Consts.v 
theories/Gen/Consts.vio: theories/Gen/Consts.v 
theories/Gen/Consts.vos theories/Gen/Consts.vok theories/Gen/Consts.required_vos: theories/Gen/Consts.v 
theories/Gw/FrameModel.vo theories/Gw/FrameModel.glob theories/Gw/FrameModel.v.beautified theories/Gw/FrameModel.required_vo: theories/Gw/FrameModel.v theories/Gen/Consts.vo theories/Gw/GwBase.vo
theories/Gw/FrameModel.vio: theories/Gw/FrameModel.v theories/Gen/Consts.vio theories/Gw/GwBase.vio
theories/Gw/FrameModel.vos theories/Gw/FrameModel.vok theories/Gw/FrameModel.required_vos: theories/Gw/FrameModel.v theories/Gen/Consts.vos theories/Gw/GwBase.vos
theories/Gw/FrameProofs.vo theories/Gw/FrameProofs.glob theories/Gw/FrameProofs.v.beautified theories/Gw/FrameProofs.required_vo: theories/Gw/FrameProofs.v theories/Gen/Consts.vo theories/Gw/GwBase.vo theories/Gw/GwLemmas.vo theories/Gw/FrameModel.vo theories/Gw/TransportProofs.vo
theories/Gw/FrameProofs.vio: theories/Gw/FrameProofs.v theories/Gen/Consts.vio theories/Gw/GwBase.vio theories/Gw/GwLemmas.vio theories/Gw/FrameModel.vio theories/Gw/TransportProofs.vio
theories/Gw/FrameProofs.vos theories/Gw/FrameProofs.vok theories/Gw/FrameProofs.required_vos: theories/Gw/FrameProofs.v theories/Gen/Consts.vos theories/Gw/GwBase.vos theories/Gw/GwLemmas.vos theories/Gw/FrameModel.vos theories/Gw/TransportProofs.vos
theories/Gw/GwBase.vo theories/Gw/GwBase.glob theories/Gw/GwBase.v.beautified theories/Gw/GwBase.required_vo: theories/Gw/GwBase.v 
theories/Gw/GwBase.vio: theories/Gw/GwBase.v 
theories/Gw/GwBase.vos theories/Gw/GwBase.vok theories/Gw/GwBase.required_vos: theories/Gw/GwBase.v 
theories/Gw/GwLemmas.vo theories/Gw/GwLemmas.glob theories/Gw/GwLemmas.v.beautified theories/Gw/GwLemmas.required_vo: theories/Gw/GwLemmas.v theories/Gw/GwBase.vo
theories/Gw/GwLemmas.vio: theories/Gw/GwLemmas.v theories/Gw/GwBase.vio
theories/Gw/GwLemmas.vos theories/Gw/GwLemmas.vok theories/Gw/GwLemmas.required_vos: theories/Gw/GwLemmas.v theories/Gw/GwBase.vos
theories/Gw/MiniTunnel.vo theories/Gw/MiniTunnel.glob theories/Gw/MiniTunnel.v.beautified theories/Gw/MiniTunnel.required_vo: theories/Gw/MiniTunnel.v theories/Common/LE.vo theories/Gen/Consts.vo theories/Gw/Tunnel.vo
theories/Gw/MiniTunnel.vio: theories/Gw/MiniTunnel.v theories/Common/LE.vio theories/Gen/Consts.vio theories/Gw/Tunnel.vio
theories/Gw/MiniTunnel.vos theories/Gw/MiniTunnel.vok theories/Gw/MiniTunnel.required_vos: theories/Gw/MiniTunnel.v theories/Common/LE.vos theories/Gen/Consts.vos theories/Gw/Tunnel.vos
theories/Gw/MiniTunnelDrain.vo theories/Gw/MiniTunnelDrain.glob theories/Gw/MiniTunnelDrain.v.beautified theories/Gw/MiniTunnelDrain.required_vo: theories/Gw/MiniTunnelDrain.v theories/Common/LE.vo theories/Gen/Consts.vo theories/Gw/Tunnel.vo theories/Gw/TunnelProofs.vo theories/Gw/MiniTunnel.vo theories/Gw/MiniTunnelProofs.vo
theories/Gw/MiniTunnelDrain.vio: theories/Gw/MiniTunnelDrain.v theories/Common/LE.vio theories/Gen/Consts.vio theories/Gw/Tunnel.vio theories/Gw/TunnelProofs.vio theories/Gw/MiniTunnel.vio theories/Gw/MiniTunnelProofs.vio
theories/Gw/MiniTunnelDrain.vos theories/Gw/MiniTunnelDrain.vok theories/Gw/MiniTunnelDrain.required_vos: theories/Gw/MiniTunnelDrain.v theories/Common/LE.vos theories/Gen/Consts.vos theories/Gw/Tunnel.vos theories/Gw/TunnelProofs.vos theories/Gw/MiniTunnel.vos theories/Gw/MiniTunnelProofs.vos
theories/Gw/MiniTunnelProofs.vo theories/Gw/MiniTunnelProofs.glob theories/Gw/MiniTunnelProofs.v.beautified theories/Gw/MiniTunnelProofs.required_vo: theories/Gw/MiniTunnelProofs.v theories/Common/LE.vo theories/Gen/Consts.vo theories/Gw/Tunnel.vo theories/Gw/TunnelProofs.vo theories/Gw/MiniTunnel.vo
theories/Gw/MiniTunnelProofs.vio: theories/Gw/MiniTunnelProofs.v theories/Common/LE.vio theories/Gen/Consts.vio theories/Gw/Tunnel.vio theories/Gw/TunnelProofs.vio theories/Gw/MiniTunnel.vio
theories/Gw/MiniTunnelProofs.vos theories/Gw/MiniTunnelProofs.vok theories/Gw/MiniTunnelProofs.required_vos: theories/Gw/MiniTunnelProofs.v theories/Common/LE.vos theories/Gen/Consts.vos theories/Gw/Tunnel.vos theories/Gw/TunnelProofs.vos theories/Gw/MiniTunnel.vos
theories/Gw/RawModel.vo theories/Gw/RawModel.glob theories/Gw/RawModel.v.beautified theories/Gw/RawModel.required_vo: theories/Gw/RawModel.v theories/Gen/Consts.vo theories/Gw/GwBase.vo
theories/Gw/RawModel.vio: theories/Gw/RawModel.v theories/Gen/Consts.vio theories/Gw/GwBase.vio
theories/Gw/RawModel.vos theories/Gw/RawModel.vok theories/Gw/RawModel.required_vos: theories/Gw/RawModel.v theories/Gen/Consts.vos theories/Gw/GwBase.vos
theories/Gw/RawProofs.vo theories/Gw/RawProofs.glob theories/Gw/RawProofs.v.beautified theories/Gw/RawProofs.required_vo: theories/Gw/RawProofs.v theories/Gen/Consts.vo theories/Gw/GwBase.vo theories/Gw/GwLemmas.vo theories/Gw/RawModel.vo theories/Gw/TransportProofs.vo
theories/Gw/RawProofs.vio: theories/Gw/RawProofs.v theories/Gen/Consts.vio theories/Gw/GwBase.vio theories/Gw/GwLemmas.vio theories/Gw/RawModel.vio theories/Gw/TransportProofs.vio
theories/Gw/RawProofs.vos theories/Gw/RawProofs.vok theories/Gw/RawProofs.required_vos: theories/Gw/RawProofs.v theories/Gen/Consts.vos theories/Gw/GwBase.vos theories/Gw/GwLemmas.vos theories/Gw/RawModel.vos theories/Gw/TransportProofs.vos
theories/Gw/SlipModel.vo theories/Gw/SlipModel.glob theories/Gw/SlipModel.v.beautified theories/Gw/SlipModel.required_vo: theories/Gw/SlipModel.v theories/Gen/Consts.vo theories/Gw/GwBase.vo theories/Gw/RawModel.vo
theories/Gw/SlipModel.vio: theories/Gw/SlipModel.v theories/Gen/Consts.vio theories/Gw/GwBase.vio theories/Gw/RawModel.vio
theories/Gw/SlipModel.vos theories/Gw/SlipModel.vok theories/Gw/SlipModel.required_vos: theories/Gw/SlipModel.v theories/Gen/Consts.vos theories/Gw/GwBase.vos theories/Gw/RawModel.vos
theories/Gw/SlipProofs.vo theories/Gw/SlipProofs.glob theories/Gw/SlipProofs.v.beautified theories/Gw/SlipProofs.required_vo: theories/Gw/SlipProofs.v theories/Gen/Consts.vo theories/Gw/GwBase.vo theories/Gw/GwLemmas.vo theories/Gw/RawModel.vo theories/Gw/SlipModel.vo theories/Gw/RawProofs.vo theories/Gw/TransportProofs.vo
theories/Gw/SlipProofs.vio: theories/Gw/SlipProofs.v theories/Gen/Consts.vio theories/Gw/GwBase.vio theories/Gw/GwLemmas.vio theories/Gw/RawModel.vio theories/Gw/SlipModel.vio theories/Gw/RawProofs.vio theories/Gw/TransportProofs.vio
theories/Gw/SlipProofs.vos theories/Gw/SlipProofs.vok theories/Gw/SlipProofs.required_vos: theories/Gw/SlipProofs.v theories/Gen/Consts.vos theories/Gw/GwBase.vos theories/Gw/GwLemmas.vos theories/Gw/RawModel.vos theories/Gw/SlipModel.vos theories/Gw/RawProofs.vos theories/Gw/TransportProofs.vos
theories/Gw/TextModel.vo theories/Gw/TextModel.glob theories/Gw/TextModel.v.beautified theories/Gw/TextModel.required_vo: theories/Gw/TextModel.v theories/Gen/Consts.vo theories/Gw/GwBase.vo
theories/Gw/TextModel.vio: theories/Gw/TextModel.v theories/Gen/Consts.vio theories/Gw/GwBase.vio
theories/Gw/TextModel.vos theories/Gw/TextModel.vok theories/Gw/TextModel.required_vos: theories/Gw/TextModel.v theories/Gen/Consts.vos theories/Gw/GwBase.vos
theories/Gw/TextProofs.vo theories/Gw/TextProofs.glob theories/Gw/TextProofs.v.beautified theories/Gw/TextProofs.required_vo: theories/Gw/TextProofs.v theories/Gen/Consts.vo theories/Gw/GwBase.vo theories/Gw/GwLemmas.vo theories/Gw/TextModel.vo theories/Gw/TransportProofs.vo
theories/Gw/TextProofs.vio: theories/Gw/TextProofs.v theories/Gen/Consts.vio theories/Gw/GwBase.vio theories/Gw/GwLemmas.vio theories/Gw/TextModel.vio theories/Gw/TransportProofs.vio
theories/Gw/TextProofs.vos theories/Gw/TextProofs.vok theories/Gw/TextProofs.required_vos: theories/Gw/TextProofs.v theories/Gen/Consts.vos theories/Gw/GwBase.vos theories/Gw/GwLemmas.vos theories/Gw/TextModel.vos theories/Gw/TransportProofs.vos
theories/Gw/TransportProofs.vo theories/Gw/TransportProofs.glob theories/Gw/TransportProofs.v.beautified theories/Gw/TransportProofs.required_vo: theories/Gw/TransportProofs.v theories/Gw/GwBase.vo
theories/Gw/TransportProofs.vio: theories/Gw/TransportProofs.v theories/Gw/GwBase.vio
theories/Gw/TransportProofs.vos theories/Gw/TransportProofs.vok theories/Gw/TransportProofs.required_vos: theories/Gw/TransportProofs.v theories/Gw/GwBase.vos
theories/Gw/Tunnel.vo theories/Gw/Tunnel.glob theories/Gw/Tunnel.v.beautified theories/Gw/Tunnel.required_vo: theories/Gw/Tunnel.v theories/Common/LE.vo theories/Gen/Consts.vo
theories/Gw/Tunnel.vio: theories/Gw/Tunnel.v theories/Common/LE.vio theories/Gen/Consts.vio
theories/Gw/Tunnel.vos theories/Gw/Tunnel.vok theories/Gw/Tunnel.required_vos: theories/Gw/Tunnel.v theories/Common/LE.vos theories/Gen/Consts.vos
theories/Gw/TunnelComplete.vo theories/Gw/TunnelComplete.glob theories/Gw/TunnelComplete.v.beautified theories/Gw/TunnelComplete.required_vo: theories/Gw/TunnelComplete.v theories/Common/LE.vo theories/Gen/Consts.vo theories/Gw/Tunnel.vo theories/Gw/TunnelProofs.vo theories/Gw/TunnelSound.vo theories/Gw/TunnelSender.vo
theories/Gw/TunnelComplete.vio: theories/Gw/TunnelComplete.v theories/Common/LE.vio theories/Gen/Consts.vio theories/Gw/Tunnel.vio theories/Gw/TunnelProofs.vio theories/Gw/TunnelSound.vio theories/Gw/TunnelSender.vio
theories/Gw/TunnelComplete.vos theories/Gw/TunnelComplete.vok theories/Gw/TunnelComplete.required_vos: theories/Gw/TunnelComplete.v theories/Common/LE.vos theories/Gen/Consts.vos theories/Gw/Tunnel.vos theories/Gw/TunnelProofs.vos theories/Gw/TunnelSound.vos theories/Gw/TunnelSender.vos
theories/Gw/TunnelDrain.vo theories/Gw/TunnelDrain.glob theories/Gw/TunnelDrain.v.beautified theories/Gw/TunnelDrain.required_vo: theories/Gw/TunnelDrain.v theories/Common/LE.vo theories/Gen/Consts.vo theories/Gw/Tunnel.vo theories/Gw/TunnelProofs.vo theories/Gw/TunnelSound.vo theories/Gw/TunnelSender.vo
theories/Gw/TunnelDrain.vio: theories/Gw/TunnelDrain.v theories/Common/LE.vio theories/Gen/Consts.vio theories/Gw/Tunnel.vio theories/Gw/TunnelProofs.vio theories/Gw/TunnelSound.vio theories/Gw/TunnelSender.vio
theories/Gw/TunnelDrain.vos theories/Gw/TunnelDrain.vok theories/Gw/TunnelDrain.required_vos: theories/Gw/TunnelDrain.v theories/Common/LE.vos theories/Gen/Consts.vos theories/Gw/Tunnel.vos theories/Gw/TunnelProofs.vos theories/Gw/TunnelSound.vos theories/Gw/TunnelSender.vos
theories/Gw/TunnelMulti.vo theories/Gw/TunnelMulti.glob theories/Gw/TunnelMulti.v.beautified theories/Gw/TunnelMulti.required_vo: theories/Gw/TunnelMulti.v theories/Common/LE.vo theories/Gen/Consts.vo theories/Gw/Tunnel.vo theories/Gw/TunnelProofs.vo theories/Gw/TunnelSound.vo theories/Gw/TunnelSender.vo theories/Gw/TunnelComplete.vo theories/Gw/TunnelTheorems.vo
theories/Gw/TunnelMulti.vio: theories/Gw/TunnelMulti.v theories/Common/LE.vio theories/Gen/Consts.vio theories/Gw/Tunnel.vio theories/Gw/TunnelProofs.vio theories/Gw/TunnelSound.vio theories/Gw/TunnelSender.vio theories/Gw/TunnelComplete.vio theories/Gw/TunnelTheorems.vio
theories/Gw/TunnelMulti.vos theories/Gw/TunnelMulti.vok theories/Gw/TunnelMulti.required_vos: theories/Gw/TunnelMulti.v theories/Common/LE.vos theories/Gen/Consts.vos theories/Gw/Tunnel.vos theories/Gw/TunnelProofs.vos theories/Gw/TunnelSound.vos theories/Gw/TunnelSender.vos theories/Gw/TunnelComplete.vos theories/Gw/TunnelTheorems.vos
theories/Gw/TunnelProofs.vo theories/Gw/TunnelProofs.glob theories/Gw/TunnelProofs.v.beautified theories/Gw/TunnelProofs.required_vo: theories/Gw/TunnelProofs.v theories/Common/LE.vo theories/Gen/Consts.vo theories/Gw/Tunnel.vo
theories/Gw/TunnelProofs.vio: theories/Gw/TunnelProofs.v theories/Common/LE.vio theories/Gen/Consts.vio theories/Gw/Tunnel.vio
theories/Gw/TunnelProofs.vos theories/Gw/TunnelProofs.vok theories/Gw/TunnelProofs.required_vos: theories/Gw/TunnelProofs.v theories/Common/LE.vos theories/Gen/Consts.vos theories/Gw/Tunnel.vos
theories/Gw/TunnelSender.vo theories/Gw/TunnelSender.glob theories/Gw/TunnelSender.v.beautified theories/Gw/TunnelSender.required_vo: theories/Gw/TunnelSender.v theories/Common/LE.vo theories/Gen/Consts.vo theories/Gw/Tunnel.vo theories/Gw/TunnelProofs.vo theories/Gw/TunnelSound.vo
theories/Gw/TunnelSender.vio: theories/Gw/TunnelSender.v theories/Common/LE.vio theories/Gen/Consts.vio theories/Gw/Tunnel.vio theories/Gw/TunnelProofs.vio theories/Gw/TunnelSound.vio
theories/Gw/TunnelSender.vos theories/Gw/TunnelSender.vok theories/Gw/TunnelSender.required_vos: theories/Gw/TunnelSender.v theories/Common/LE.vos theories/Gen/Consts.vos theories/Gw/Tunnel.vos theories/Gw/TunnelProofs.vos theories/Gw/TunnelSound.vos
theories/Gw/TunnelSound.vo theories/Gw/TunnelSound.glob theories/Gw/TunnelSound.v.beautified theories/Gw/TunnelSound.required_vo: theories/Gw/TunnelSound.v theories/Common/LE.vo theories/Gen/Consts.vo theories/Gw/Tunnel.vo theories/Gw/TunnelProofs.vo
theories/Gw/TunnelSound.vio: theories/Gw/TunnelSound.v theories/Common/LE.vio theories/Gen/Consts.vio theories/Gw/Tunnel.vio theories/Gw/TunnelProofs.vio
theories/Gw/TunnelSound.vos theories/Gw/TunnelSound.vok theories/Gw/TunnelSound.required_vos: theories/Gw/TunnelSound.v theories/Common/LE.vos theories/Gen/Consts.vos theories/Gw/Tunnel.vos theories/Gw/TunnelProofs.vos
theories/Gw/TunnelTheorems.vo theories/Gw/TunnelTheorems.glob theories/Gw/TunnelTheorems.v.beautified theories/Gw/TunnelTheorems.required_vo: theories/Gw/TunnelTheorems.v theories/Common/LE.vo theories/Gen/Consts.vo theories/Gw/Tunnel.vo theories/Gw/TunnelProofs.vo theories/Gw/TunnelSound.vo theories/Gw/TunnelSender.vo theories/Gw/TunnelComplete.vo theories/Gw/TunnelDrain.vo
theories/Gw/TunnelTheorems.vio: theories/Gw/TunnelTheorems.v theories/Common/LE.vio theories/Gen/Consts.vio theories/Gw/Tunnel.vio theories/Gw/TunnelProofs.vio theories/Gw/TunnelSound.vio theories/Gw/TunnelSender.vio theories/Gw/TunnelComplete.vio theories/Gw/TunnelDrain.vio
theories/Gw/TunnelTheorems.vos theories/Gw/TunnelTheorems.vok theories/Gw/TunnelTheorems.required_vos: theories/Gw/TunnelTheorems.v theories/Common/LE.vos theories/Gen/Consts.vos theories/Gw/Tunnel.vos theories/Gw/TunnelProofs.vos theories/Gw/TunnelSound.vos theories/Gw/TunnelSender.vos theories/Gw/TunnelComplete.vos theories/Gw/TunnelDrain.vos
theories/Msg/MsgApi.vo theories/Msg/MsgApi.glob theories/Msg/MsgApi.v.beautified theories/Msg/MsgApi.required_vo: theories/Msg/MsgApi.v theories/Gen/Consts.vo theories/Msg/MsgDefs.vo theories/Msg/MsgModel.vo
theories/Msg/MsgApi.vio: theories/Msg/MsgApi.v theories/Gen/Consts.vio theories/Msg/MsgDefs.vio theories/Msg/MsgModel.vio
theories/Msg/MsgApi.vos theories/Msg/MsgApi.vok theories/Msg/MsgApi.required_vos: theories/Msg/MsgApi.v theories/Gen/Consts.vos theories/Msg/MsgDefs.vos theories/Msg/MsgModel.vos
theories/Msg/MsgApiProofs.vo theories/Msg/MsgApiProofs.glob theories/Msg/MsgApiProofs.v.beautified theories/Msg/MsgApiProofs.required_vo: theories/Msg/MsgApiProofs.v theories/Gen/Consts.vo theories/Msg/MsgDefs.vo theories/Msg/MsgModel.vo theories/Msg/MsgApi.vo theories/Msg/MsgBytesProofs.vo
theories/Msg/MsgApiProofs.vio: theories/Msg/MsgApiProofs.v theories/Gen/Consts.vio theories/Msg/MsgDefs.vio theories/Msg/MsgModel.vio theories/Msg/MsgApi.vio theories/Msg/MsgBytesProofs.vio
theories/Msg/MsgApiProofs.vos theories/Msg/MsgApiProofs.vok theories/Msg/MsgApiProofs.required_vos: theories/Msg/MsgApiProofs.v theories/Gen/Consts.vos theories/Msg/MsgDefs.vos theories/Msg/MsgModel.vos theories/Msg/MsgApi.vos theories/Msg/MsgBytesProofs.vos
theories/Msg/MsgBytesProofs.vo theories/Msg/MsgBytesProofs.glob theories/Msg/MsgBytesProofs.v.beautified theories/Msg/MsgBytesProofs.required_vo: theories/Msg/MsgBytesProofs.v theories/Gen/Consts.vo theories/Msg/MsgDefs.vo theories/Msg/MsgModel.vo
theories/Msg/MsgBytesProofs.vio: theories/Msg/MsgBytesProofs.v theories/Gen/Consts.vio theories/Msg/MsgDefs.vio theories/Msg/MsgModel.vio
theories/Msg/MsgBytesProofs.vos theories/Msg/MsgBytesProofs.vok theories/Msg/MsgBytesProofs.required_vos: theories/Msg/MsgBytesProofs.v theories/Gen/Consts.vos theories/Msg/MsgDefs.vos theories/Msg/MsgModel.vos
theories/Msg/MsgDefs.vo theories/Msg/MsgDefs.glob theories/Msg/MsgDefs.v.beautified theories/Msg/MsgDefs.required_vo: theories/Msg/MsgDefs.v theories/Gen/Consts.vo
theories/Msg/MsgDefs.vio: theories/Msg/MsgDefs.v theories/Gen/Consts.vio
theories/Msg/MsgDefs.vos theories/Msg/MsgDefs.vok theories/Msg/MsgDefs.required_vos: theories/Msg/MsgDefs.v theories/Gen/Consts.vos
theories/Msg/MsgEqProofs.vo theories/Msg/MsgEqProofs.glob theories/Msg/MsgEqProofs.v.beautified theories/Msg/MsgEqProofs.required_vo: theories/Msg/MsgEqProofs.v theories/Gen/Consts.vo theories/Msg/MsgDefs.vo theories/Msg/MsgModel.vo theories/Msg/MsgBytesProofs.vo theories/Msg/MsgSizeProofs.vo theories/Msg/MsgRoundTrip.vo theories/Msg/MsgApiProofs.vo
theories/Msg/MsgEqProofs.vio: theories/Msg/MsgEqProofs.v theories/Gen/Consts.vio theories/Msg/MsgDefs.vio theories/Msg/MsgModel.vio theories/Msg/MsgBytesProofs.vio theories/Msg/MsgSizeProofs.vio theories/Msg/MsgRoundTrip.vio theories/Msg/MsgApiProofs.vio
theories/Msg/MsgEqProofs.vos theories/Msg/MsgEqProofs.vok theories/Msg/MsgEqProofs.required_vos: theories/Msg/MsgEqProofs.v theories/Gen/Consts.vos theories/Msg/MsgDefs.vos theories/Msg/MsgModel.vos theories/Msg/MsgBytesProofs.vos theories/Msg/MsgSizeProofs.vos theories/Msg/MsgRoundTrip.vos theories/Msg/MsgApiProofs.vos
theories/Msg/MsgExamples.vo theories/Msg/MsgExamples.glob theories/Msg/MsgExamples.v.beautified theories/Msg/MsgExamples.required_vo: theories/Msg/MsgExamples.v theories/Gen/Consts.vo theories/Msg/MsgDefs.vo theories/Msg/MsgModel.vo theories/Msg/MsgApi.vo theories/Msg/MsgBytesProofs.vo theories/Msg/MsgRoundTrip.vo
theories/Msg/MsgExamples.vio: theories/Msg/MsgExamples.v theories/Gen/Consts.vio theories/Msg/MsgDefs.vio theories/Msg/MsgModel.vio theories/Msg/MsgApi.vio theories/Msg/MsgBytesProofs.vio theories/Msg/MsgRoundTrip.vio
theories/Msg/MsgExamples.vos theories/Msg/MsgExamples.vok theories/Msg/MsgExamples.required_vos: theories/Msg/MsgExamples.v theories/Gen/Consts.vos theories/Msg/MsgDefs.vos theories/Msg/MsgModel.vos theories/Msg/MsgApi.vos theories/Msg/MsgBytesProofs.vos theories/Msg/MsgRoundTrip.vos
theories/Msg/MsgModel.vo theories/Msg/MsgModel.glob theories/Msg/MsgModel.v.beautified theories/Msg/MsgModel.required_vo: theories/Msg/MsgModel.v theories/Gen/Consts.vo theories/Msg/MsgDefs.vo
theories/Msg/MsgModel.vio: theories/Msg/MsgModel.v theories/Gen/Consts.vio theories/Msg/MsgDefs.vio
theories/Msg/MsgModel.vos theories/Msg/MsgModel.vok theories/Msg/MsgModel.required_vos: theories/Msg/MsgModel.v theories/Gen/Consts.vos theories/Msg/MsgDefs.vos
theories/Msg/MsgReprProofs.vo theories/Msg/MsgReprProofs.glob theories/Msg/MsgReprProofs.v.beautified theories/Msg/MsgReprProofs.required_vo: theories/Msg/MsgReprProofs.v theories/Gen/Consts.vo theories/Msg/MsgDefs.vo theories/Msg/MsgModel.vo theories/Msg/MsgBytesProofs.vo theories/Msg/MsgSizeProofs.vo theories/Msg/MsgRoundTrip.vo
theories/Msg/MsgReprProofs.vio: theories/Msg/MsgReprProofs.v theories/Gen/Consts.vio theories/Msg/MsgDefs.vio theories/Msg/MsgModel.vio theories/Msg/MsgBytesProofs.vio theories/Msg/MsgSizeProofs.vio theories/Msg/MsgRoundTrip.vio
theories/Msg/MsgReprProofs.vos theories/Msg/MsgReprProofs.vok theories/Msg/MsgReprProofs.required_vos: theories/Msg/MsgReprProofs.v theories/Gen/Consts.vos theories/Msg/MsgDefs.vos theories/Msg/MsgModel.vos theories/Msg/MsgBytesProofs.vos theories/Msg/MsgSizeProofs.vos theories/Msg/MsgRoundTrip.vos
theories/Msg/MsgRoundTrip.vo theories/Msg/MsgRoundTrip.glob theories/Msg/MsgRoundTrip.v.beautified theories/Msg/MsgRoundTrip.required_vo: theories/Msg/MsgRoundTrip.v theories/Gen/Consts.vo theories/Msg/MsgDefs.vo theories/Msg/MsgModel.vo theories/Msg/MsgBytesProofs.vo theories/Msg/MsgSizeProofs.vo
theories/Msg/MsgRoundTrip.vio: theories/Msg/MsgRoundTrip.v theories/Gen/Consts.vio theories/Msg/MsgDefs.vio theories/Msg/MsgModel.vio theories/Msg/MsgBytesProofs.vio theories/Msg/MsgSizeProofs.vio
theories/Msg/MsgRoundTrip.vos theories/Msg/MsgRoundTrip.vok theories/Msg/MsgRoundTrip.required_vos: theories/Msg/MsgRoundTrip.v theories/Gen/Consts.vos theories/Msg/MsgDefs.vos theories/Msg/MsgModel.vos theories/Msg/MsgBytesProofs.vos theories/Msg/MsgSizeProofs.vos
theories/Msg/MsgSizeProofs.vo theories/Msg/MsgSizeProofs.glob theories/Msg/MsgSizeProofs.v.beautified theories/Msg/MsgSizeProofs.required_vo: theories/Msg/MsgSizeProofs.v theories/Gen/Consts.vo theories/Msg/MsgDefs.vo theories/Msg/MsgModel.vo theories/Msg/MsgBytesProofs.vo
theories/Msg/MsgSizeProofs.vio: theories/Msg/MsgSizeProofs.v theories/Gen/Consts.vio theories/Msg/MsgDefs.vio theories/Msg/MsgModel.vio theories/Msg/MsgBytesProofs.vio
theories/Msg/MsgSizeProofs.vos theories/Msg/MsgSizeProofs.vok theories/Msg/MsgSizeProofs.required_vos: theories/Msg/MsgSizeProofs.v theories/Gen/Consts.vos theories/Msg/MsgDefs.vos theories/Msg/MsgModel.vos theories/Msg/MsgBytesProofs.vos
theories/Msg/MsgSpec.vo theories/Msg/MsgSpec.glob theories/Msg/MsgSpec.v.beautified theories/Msg/MsgSpec.required_vo: theories/Msg/MsgSpec.v theories/Msg/MsgDefs.vo
theories/Msg/MsgSpec.vio: theories/Msg/MsgSpec.v theories/Msg/MsgDefs.vio
theories/Msg/MsgSpec.vos theories/Msg/MsgSpec.vok theories/Msg/MsgSpec.required_vos: theories/Msg/MsgSpec.v theories/Msg/MsgDefs.vos
theories/Pat/DenoteProofs.vo theories/Pat/DenoteProofs.glob theories/Pat/DenoteProofs.v.beautified theories/Pat/DenoteProofs.required_vo: theories/Pat/DenoteProofs.v theories/Gen/Consts.vo theories/Pat/Ere.vo theories/Pat/EreProofs.vo theories/Pat/Translate.vo theories/Pat/Simple.vo theories/Pat/TranslateProofs.vo
theories/Pat/DenoteProofs.vio: theories/Pat/DenoteProofs.v theories/Gen/Consts.vio theories/Pat/Ere.vio theories/Pat/EreProofs.vio theories/Pat/Translate.vio theories/Pat/Simple.vio theories/Pat/TranslateProofs.vio
theories/Pat/DenoteProofs.vos theories/Pat/DenoteProofs.vok theories/Pat/DenoteProofs.required_vos: theories/Pat/DenoteProofs.v theories/Gen/Consts.vos theories/Pat/Ere.vos theories/Pat/EreProofs.vos theories/Pat/Translate.vos theories/Pat/Simple.vos theories/Pat/TranslateProofs.vos
theories/Pat/Ere.vo theories/Pat/Ere.glob theories/Pat/Ere.v.beautified theories/Pat/Ere.required_vo: theories/Pat/Ere.v 
theories/Pat/Ere.vio: theories/Pat/Ere.v 
theories/Pat/Ere.vos theories/Pat/Ere.vok theories/Pat/Ere.required_vos: theories/Pat/Ere.v 
theories/Pat/EreProofs.vo theories/Pat/EreProofs.glob theories/Pat/EreProofs.v.beautified theories/Pat/EreProofs.required_vo: theories/Pat/EreProofs.v theories/Pat/Ere.vo
theories/Pat/EreProofs.vio: theories/Pat/EreProofs.v theories/Pat/Ere.vio
theories/Pat/EreProofs.vos theories/Pat/EreProofs.vok theories/Pat/EreProofs.required_vos: theories/Pat/EreProofs.v theories/Pat/Ere.vos
theories/Pat/PatProofs.vo theories/Pat/PatProofs.glob theories/Pat/PatProofs.v.beautified theories/Pat/PatProofs.required_vo: theories/Pat/PatProofs.v theories/Gen/Consts.vo theories/Pat/Ere.vo theories/Pat/EreProofs.vo theories/Pat/Translate.vo theories/Pat/Simple.vo theories/Pat/TranslateProofs.vo theories/Pat/DenoteProofs.vo
theories/Pat/PatProofs.vio: theories/Pat/PatProofs.v theories/Gen/Consts.vio theories/Pat/Ere.vio theories/Pat/EreProofs.vio theories/Pat/Translate.vio theories/Pat/Simple.vio theories/Pat/TranslateProofs.vio theories/Pat/DenoteProofs.vio
theories/Pat/PatProofs.vos theories/Pat/PatProofs.vok theories/Pat/PatProofs.required_vos: theories/Pat/PatProofs.v theories/Gen/Consts.vos theories/Pat/Ere.vos theories/Pat/EreProofs.vos theories/Pat/Translate.vos theories/Pat/Simple.vos theories/Pat/TranslateProofs.vos theories/Pat/DenoteProofs.vos
theories/Pat/Simple.vo theories/Pat/Simple.glob theories/Pat/Simple.v.beautified theories/Pat/Simple.required_vo: theories/Pat/Simple.v theories/Pat/Ere.vo
theories/Pat/Simple.vio: theories/Pat/Simple.v theories/Pat/Ere.vio
theories/Pat/Simple.vos theories/Pat/Simple.vok theories/Pat/Simple.required_vos: theories/Pat/Simple.v theories/Pat/Ere.vos
theories/Pat/Translate.vo theories/Pat/Translate.glob theories/Pat/Translate.v.beautified theories/Pat/Translate.required_vo: theories/Pat/Translate.v theories/Gen/Consts.vo theories/Pat/Ere.vo
theories/Pat/Translate.vio: theories/Pat/Translate.v theories/Gen/Consts.vio theories/Pat/Ere.vio
theories/Pat/Translate.vos theories/Pat/Translate.vok theories/Pat/Translate.required_vos: theories/Pat/Translate.v theories/Gen/Consts.vos theories/Pat/Ere.vos
theories/Pat/TranslateProofs.vo theories/Pat/TranslateProofs.glob theories/Pat/TranslateProofs.v.beautified theories/Pat/TranslateProofs.required_vo: theories/Pat/TranslateProofs.v theories/Gen/Consts.vo theories/Pat/Ere.vo theories/Pat/EreProofs.vo theories/Pat/Translate.vo theories/Pat/Simple.vo
theories/Pat/TranslateProofs.vio: theories/Pat/TranslateProofs.v theories/Gen/Consts.vio theories/Pat/Ere.vio theories/Pat/EreProofs.vio theories/Pat/Translate.vio theories/Pat/Simple.vio
theories/Pat/TranslateProofs.vos theories/Pat/TranslateProofs.vok theories/Pat/TranslateProofs.required_vos: theories/Pat/TranslateProofs.v theories/Gen/Consts.vos theories/Pat/Ere.vos theories/Pat/EreProofs.vos theories/Pat/Translate.vos theories/Pat/Simple.vos
theories/Properties_C01.vo theories/Properties_C01.glob theories/Properties_C01.v.beautified theories/Properties_C01.required_vo: theories/Properties_C01.v theories/Msg/MsgDefs.vo theories/Msg/MsgModel.vo theories/Msg/MsgApi.vo theories/Msg/MsgBytesProofs.vo theories/Msg/MsgSizeProofs.vo theories/Msg/MsgRoundTrip.vo theories/Msg/MsgReprProofs.vo theories/Msg/MsgApiProofs.vo theories/Msg/MsgEqProofs.vo theories/Msg/MsgExamples.vo
theories/Properties_C01.vio: theories/Properties_C01.v theories/Msg/MsgDefs.vio theories/Msg/MsgModel.vio theories/Msg/MsgApi.vio theories/Msg/MsgBytesProofs.vio theories/Msg/MsgSizeProofs.vio theories/Msg/MsgRoundTrip.vio theories/Msg/MsgReprProofs.vio theories/Msg/MsgApiProofs.vio theories/Msg/MsgEqProofs.vio theories/Msg/MsgExamples.vio
theories/Properties_C01.vos theories/Properties_C01.vok theories/Properties_C01.required_vos: theories/Properties_C01.v theories/Msg/MsgDefs.vos theories/Msg/MsgModel.vos theories/Msg/MsgApi.vos theories/Msg/MsgBytesProofs.vos theories/Msg/MsgSizeProofs.vos theories/Msg/MsgRoundTrip.vos theories/Msg/MsgReprProofs.vos theories/Msg/MsgApiProofs.vos theories/Msg/MsgEqProofs.vos theories/Msg/MsgExamples.vos
theories/Properties_C03.vo theories/Properties_C03.glob theories/Properties_C03.v.beautified theories/Properties_C03.required_vo: theories/Properties_C03.v theories/Gw/GwBase.vo theories/Gw/FrameModel.vo theories/Gw/FrameProofs.vo
theories/Properties_C03.vio: theories/Properties_C03.v theories/Gw/GwBase.vio theories/Gw/FrameModel.vio theories/Gw/FrameProofs.vio
theories/Properties_C03.vos theories/Properties_C03.vok theories/Properties_C03.required_vos: theories/Properties_C03.v theories/Gw/GwBase.vos theories/Gw/FrameModel.vos theories/Gw/FrameProofs.vos
theories/Properties_C04.vo theories/Properties_C04.glob theories/Properties_C04.v.beautified theories/Properties_C04.required_vo: theories/Properties_C04.v theories/Refl/Base.vo theories/Refl/Tree.vo theories/Refl/TreeProofs.vo
theories/Properties_C04.vio: theories/Properties_C04.v theories/Refl/Base.vio theories/Refl/Tree.vio theories/Refl/TreeProofs.vio
theories/Properties_C04.vos theories/Properties_C04.vok theories/Properties_C04.required_vos: theories/Properties_C04.v theories/Refl/Base.vos theories/Refl/Tree.vos theories/Refl/TreeProofs.vos
theories/Properties_C05.vo theories/Properties_C05.glob theories/Properties_C05.v.beautified theories/Properties_C05.required_vo: theories/Properties_C05.v theories/Gen/Consts.vo theories/Refl/Base.vo theories/Refl/Tree.vo theories/Refl/Matcher.vo theories/Refl/Traverse.vo theories/Refl/Session.vo theories/Refl/Server.vo theories/Refl/Route.vo
theories/Properties_C05.vio: theories/Properties_C05.v theories/Gen/Consts.vio theories/Refl/Base.vio theories/Refl/Tree.vio theories/Refl/Matcher.vio theories/Refl/Traverse.vio theories/Refl/Session.vio theories/Refl/Server.vio theories/Refl/Route.vio
theories/Properties_C05.vos theories/Properties_C05.vok theories/Properties_C05.required_vos: theories/Properties_C05.v theories/Gen/Consts.vos theories/Refl/Base.vos theories/Refl/Tree.vos theories/Refl/Matcher.vos theories/Refl/Traverse.vos theories/Refl/Session.vos theories/Refl/Server.vos theories/Refl/Route.vos
theories/Properties_C06.vo theories/Properties_C06.glob theories/Properties_C06.v.beautified theories/Properties_C06.required_vo: theories/Properties_C06.v theories/Refl/Base.vo theories/Refl/Server.vo theories/Refl/IsoModel.vo theories/Refl/IsoProofs.vo
theories/Properties_C06.vio: theories/Properties_C06.v theories/Refl/Base.vio theories/Refl/Server.vio theories/Refl/IsoModel.vio theories/Refl/IsoProofs.vio
theories/Properties_C06.vos theories/Properties_C06.vok theories/Properties_C06.required_vos: theories/Properties_C06.v theories/Refl/Base.vos theories/Refl/Server.vos theories/Refl/IsoModel.vos theories/Refl/IsoProofs.vos
theories/Properties_C07.vo theories/Properties_C07.glob theories/Properties_C07.v.beautified theories/Properties_C07.required_vo: theories/Properties_C07.v theories/Refl/Base.vo theories/Refl/Bounded.vo theories/Refl/BoundedProofs.vo
theories/Properties_C07.vio: theories/Properties_C07.v theories/Refl/Base.vio theories/Refl/Bounded.vio theories/Refl/BoundedProofs.vio
theories/Properties_C07.vos theories/Properties_C07.vok theories/Properties_C07.required_vos: theories/Properties_C07.v theories/Refl/Base.vos theories/Refl/Bounded.vos theories/Refl/BoundedProofs.vos
theories/Properties_C09.vo theories/Properties_C09.glob theories/Properties_C09.v.beautified theories/Properties_C09.required_vo: theories/Properties_C09.v theories/Cont/HtModel.vo theories/Cont/HtStep.vo theories/Cont/HtIdeal.vo theories/Cont/HtLemmas.vo
theories/Properties_C09.vio: theories/Properties_C09.v theories/Cont/HtModel.vio theories/Cont/HtStep.vio theories/Cont/HtIdeal.vio theories/Cont/HtLemmas.vio
theories/Properties_C09.vos theories/Properties_C09.vok theories/Properties_C09.required_vos: theories/Properties_C09.v theories/Cont/HtModel.vos theories/Cont/HtStep.vos theories/Cont/HtIdeal.vos theories/Cont/HtLemmas.vos
theories/Properties_C10.vo theories/Properties_C10.glob theories/Properties_C10.v.beautified theories/Properties_C10.required_vo: theories/Properties_C10.v theories/Conc/Pool.vo theories/Conc/RefCnt.vo theories/Conc/RefProofs.vo
theories/Properties_C10.vio: theories/Properties_C10.v theories/Conc/Pool.vio theories/Conc/RefCnt.vio theories/Conc/RefProofs.vio
theories/Properties_C10.vos theories/Properties_C10.vok theories/Properties_C10.required_vos: theories/Properties_C10.v theories/Conc/Pool.vos theories/Conc/RefCnt.vos theories/Conc/RefProofs.vos
theories/Properties_C11.vo theories/Properties_C11.glob theories/Properties_C11.v.beautified theories/Properties_C11.required_vo: theories/Properties_C11.v theories/Gen/Consts.vo theories/Conc/ThreadQ.vo theories/Conc/ThreadQProofs.vo
theories/Properties_C11.vio: theories/Properties_C11.v theories/Gen/Consts.vio theories/Conc/ThreadQ.vio theories/Conc/ThreadQProofs.vio
theories/Properties_C11.vos theories/Properties_C11.vok theories/Properties_C11.required_vos: theories/Properties_C11.v theories/Gen/Consts.vos theories/Conc/ThreadQ.vos theories/Conc/ThreadQProofs.vos
theories/Properties_C12.vo theories/Properties_C12.glob theories/Properties_C12.v.beautified theories/Properties_C12.required_vo: theories/Properties_C12.v theories/Common/LE.vo theories/Gw/Tunnel.vo theories/Gw/TunnelProofs.vo theories/Gw/TunnelSound.vo theories/Gw/TunnelSender.vo theories/Gw/TunnelComplete.vo theories/Gw/TunnelTheorems.vo theories/Gw/MiniTunnel.vo theories/Gw/MiniTunnelProofs.vo theories/Gw/MiniTunnelDrain.vo
theories/Properties_C12.vio: theories/Properties_C12.v theories/Common/LE.vio theories/Gw/Tunnel.vio theories/Gw/TunnelProofs.vio theories/Gw/TunnelSound.vio theories/Gw/TunnelSender.vio theories/Gw/TunnelComplete.vio theories/Gw/TunnelTheorems.vio theories/Gw/MiniTunnel.vio theories/Gw/MiniTunnelProofs.vio theories/Gw/MiniTunnelDrain.vio
theories/Properties_C12.vos theories/Properties_C12.vok theories/Properties_C12.required_vos: theories/Properties_C12.v theories/Common/LE.vos theories/Gw/Tunnel.vos theories/Gw/TunnelProofs.vos theories/Gw/TunnelSound.vos theories/Gw/TunnelSender.vos theories/Gw/TunnelComplete.vos theories/Gw/TunnelTheorems.vos theories/Gw/MiniTunnel.vos theories/Gw/MiniTunnelProofs.vos theories/Gw/MiniTunnelDrain.vos
theories/Properties_C13.vo theories/Properties_C13.glob theories/Properties_C13.v.beautified theories/Properties_C13.required_vo: theories/Properties_C13.v theories/Gen/Consts.vo theories/Refl/Index.vo theories/Refl/IndexProofs.vo theories/Refl/IndexModel.vo theories/Refl/IndexModelProofs.vo theories/Refl/IndexWitness.vo
theories/Properties_C13.vio: theories/Properties_C13.v theories/Gen/Consts.vio theories/Refl/Index.vio theories/Refl/IndexProofs.vio theories/Refl/IndexModel.vio theories/Refl/IndexModelProofs.vio theories/Refl/IndexWitness.vio
theories/Properties_C13.vos theories/Properties_C13.vok theories/Properties_C13.required_vos: theories/Properties_C13.v theories/Gen/Consts.vos theories/Refl/Index.vos theories/Refl/IndexProofs.vos theories/Refl/IndexModel.vos theories/Refl/IndexModelProofs.vos theories/Refl/IndexWitness.vos
theories/Properties_C14.vo theories/Properties_C14.glob theories/Properties_C14.v.beautified theories/Properties_C14.required_vo: theories/Properties_C14.v theories/Msg/MsgDefs.vo theories/Msg/MsgModel.vo theories/Flt/FltModel.vo theories/Flt/FltProofs.vo
theories/Properties_C14.vio: theories/Properties_C14.v theories/Msg/MsgDefs.vio theories/Msg/MsgModel.vio theories/Flt/FltModel.vio theories/Flt/FltProofs.vio
theories/Properties_C14.vos theories/Properties_C14.vok theories/Properties_C14.required_vos: theories/Properties_C14.v theories/Msg/MsgDefs.vos theories/Msg/MsgModel.vos theories/Flt/FltModel.vos theories/Flt/FltProofs.vos
theories/Properties_C15.vo theories/Properties_C15.glob theories/Properties_C15.v.beautified theories/Properties_C15.required_vo: theories/Properties_C15.v theories/Gen/Consts.vo theories/Pat/Ere.vo theories/Pat/Translate.vo theories/Pat/PatProofs.vo
theories/Properties_C15.vio: theories/Properties_C15.v theories/Gen/Consts.vio theories/Pat/Ere.vio theories/Pat/Translate.vio theories/Pat/PatProofs.vio
theories/Properties_C15.vos theories/Properties_C15.vok theories/Properties_C15.required_vos: theories/Properties_C15.v theories/Gen/Consts.vos theories/Pat/Ere.vos theories/Pat/Translate.vos theories/Pat/PatProofs.vos
theories/Properties_C16.vo theories/Properties_C16.glob theories/Properties_C16.v.beautified theories/Properties_C16.required_vo: theories/Properties_C16.v theories/Cont/QueueModel.vo theories/Cont/QueueInv.vo theories/Cont/QueueProofs.vo
theories/Properties_C16.vio: theories/Properties_C16.v theories/Cont/QueueModel.vio theories/Cont/QueueInv.vio theories/Cont/QueueProofs.vio
theories/Properties_C16.vos theories/Properties_C16.vok theories/Properties_C16.required_vos: theories/Properties_C16.v theories/Cont/QueueModel.vos theories/Cont/QueueInv.vos theories/Cont/QueueProofs.vos
theories/Properties_C17.vo theories/Properties_C17.glob theories/Properties_C17.v.beautified theories/Properties_C17.required_vo: theories/Properties_C17.v theories/Gen/Consts.vo theories/Cont/StrL0.vo theories/Cont/StrModel.vo theories/Cont/StrProofs.vo
theories/Properties_C17.vio: theories/Properties_C17.v theories/Gen/Consts.vio theories/Cont/StrL0.vio theories/Cont/StrModel.vio theories/Cont/StrProofs.vio
theories/Properties_C17.vos theories/Properties_C17.vok theories/Properties_C17.required_vos: theories/Properties_C17.v theories/Gen/Consts.vos theories/Cont/StrL0.vos theories/Cont/StrModel.vos theories/Cont/StrProofs.vos
theories/Properties_C18.vo theories/Properties_C18.glob theories/Properties_C18.v.beautified theories/Properties_C18.required_vo: theories/Properties_C18.v theories/Conc/RwMutexModel.vo theories/Conc/RwMutexProofs.vo theories/Conc/RwMutexInv.vo theories/Conc/RwMutexThms.vo
theories/Properties_C18.vio: theories/Properties_C18.v theories/Conc/RwMutexModel.vio theories/Conc/RwMutexProofs.vio theories/Conc/RwMutexInv.vio theories/Conc/RwMutexThms.vio
theories/Properties_C18.vos theories/Properties_C18.vok theories/Properties_C18.required_vos: theories/Properties_C18.v theories/Conc/RwMutexModel.vos theories/Conc/RwMutexProofs.vos theories/Conc/RwMutexInv.vos theories/Conc/RwMutexThms.vos
theories/Properties_C19.vo theories/Properties_C19.glob theories/Properties_C19.v.beautified theories/Properties_C19.required_vo: theories/Properties_C19.v theories/Conc/TPool.vo theories/Conc/TPoolLemmas.vo
theories/Properties_C19.vio: theories/Properties_C19.v theories/Conc/TPool.vio theories/Conc/TPoolLemmas.vio
theories/Properties_C19.vos theories/Properties_C19.vok theories/Properties_C19.required_vos: theories/Properties_C19.v theories/Conc/TPool.vos theories/Conc/TPoolLemmas.vos
theories/Properties_C20.vo theories/Properties_C20.glob theories/Properties_C20.v.beautified theories/Properties_C20.required_vo: theories/Properties_C20.v theories/Pulse/PulseModel.vo theories/Pulse/PulseProofs.vo
theories/Properties_C20.vio: theories/Properties_C20.v theories/Pulse/PulseModel.vio theories/Pulse/PulseProofs.vio
theories/Properties_C20.vos theories/Properties_C20.vok theories/Properties_C20.required_vos: theories/Properties_C20.v theories/Pulse/PulseModel.vos theories/Pulse/PulseProofs.vos
theories/Pulse/PulseForest.vo theories/Pulse/PulseForest.glob theories/Pulse/PulseForest.v.beautified theories/Pulse/PulseForest.required_vo: theories/Pulse/PulseForest.v theories/Pulse/PulseModel.vo theories/Pulse/PulseInv.vo
theories/Pulse/PulseForest.vio: theories/Pulse/PulseForest.v theories/Pulse/PulseModel.vio theories/Pulse/PulseInv.vio
theories/Pulse/PulseForest.vos theories/Pulse/PulseForest.vok theories/Pulse/PulseForest.required_vos: theories/Pulse/PulseForest.v theories/Pulse/PulseModel.vos theories/Pulse/PulseInv.vos
theories/Pulse/PulseInv.vo theories/Pulse/PulseInv.glob theories/Pulse/PulseInv.v.beautified theories/Pulse/PulseInv.required_vo: theories/Pulse/PulseInv.v theories/Pulse/PulseModel.vo
theories/Pulse/PulseInv.vio: theories/Pulse/PulseInv.v theories/Pulse/PulseModel.vio
theories/Pulse/PulseInv.vos theories/Pulse/PulseInv.vok theories/Pulse/PulseInv.required_vos: theories/Pulse/PulseInv.v theories/Pulse/PulseModel.vos
theories/Pulse/PulseModel.vo theories/Pulse/PulseModel.glob theories/Pulse/PulseModel.v.beautified theories/Pulse/PulseModel.required_vo: theories/Pulse/PulseModel.v theories/Gen/Consts.vo
theories/Pulse/PulseModel.vio: theories/Pulse/PulseModel.v theories/Gen/Consts.vio
theories/Pulse/PulseModel.vos theories/Pulse/PulseModel.vok theories/Pulse/PulseModel.required_vos: theories/Pulse/PulseModel.v theories/Gen/Consts.vos
theories/Pulse/PulseOps.vo theories/Pulse/PulseOps.glob theories/Pulse/PulseOps.v.beautified theories/Pulse/PulseOps.required_vo: theories/Pulse/PulseOps.v theories/Pulse/PulseModel.vo theories/Pulse/PulseInv.vo theories/Pulse/PulseForest.vo theories/Pulse/PulseResched.vo
theories/Pulse/PulseOps.vio: theories/Pulse/PulseOps.v theories/Pulse/PulseModel.vio theories/Pulse/PulseInv.vio theories/Pulse/PulseForest.vio theories/Pulse/PulseResched.vio
theories/Pulse/PulseOps.vos theories/Pulse/PulseOps.vok theories/Pulse/PulseOps.required_vos: theories/Pulse/PulseOps.v theories/Pulse/PulseModel.vos theories/Pulse/PulseInv.vos theories/Pulse/PulseForest.vos theories/Pulse/PulseResched.vos
theories/Pulse/PulseProofs.vo theories/Pulse/PulseProofs.glob theories/Pulse/PulseProofs.v.beautified theories/Pulse/PulseProofs.required_vo: theories/Pulse/PulseProofs.v theories/Pulse/PulseModel.vo
theories/Pulse/PulseProofs.vio: theories/Pulse/PulseProofs.v theories/Pulse/PulseModel.vio
theories/Pulse/PulseProofs.vos theories/Pulse/PulseProofs.vok theories/Pulse/PulseProofs.required_vos: theories/Pulse/PulseProofs.v theories/Pulse/PulseModel.vos
theories/Pulse/PulseResched.vo theories/Pulse/PulseResched.glob theories/Pulse/PulseResched.v.beautified theories/Pulse/PulseResched.required_vo: theories/Pulse/PulseResched.v theories/Pulse/PulseModel.vo theories/Pulse/PulseInv.vo theories/Pulse/PulseForest.vo
theories/Pulse/PulseResched.vio: theories/Pulse/PulseResched.v theories/Pulse/PulseModel.vio theories/Pulse/PulseInv.vio theories/Pulse/PulseForest.vio
theories/Pulse/PulseResched.vos theories/Pulse/PulseResched.vok theories/Pulse/PulseResched.required_vos: theories/Pulse/PulseResched.v theories/Pulse/PulseModel.vos theories/Pulse/PulseInv.vos theories/Pulse/PulseForest.vos
theories/Pulse/PulseSweep.vo theories/Pulse/PulseSweep.glob theories/Pulse/PulseSweep.v.beautified theories/Pulse/PulseSweep.required_vo: theories/Pulse/PulseSweep.v theories/Pulse/PulseModel.vo theories/Pulse/PulseInv.vo theories/Pulse/PulseForest.vo theories/Pulse/PulseResched.vo theories/Pulse/PulseOps.vo
theories/Pulse/PulseSweep.vio: theories/Pulse/PulseSweep.v theories/Pulse/PulseModel.vio theories/Pulse/PulseInv.vio theories/Pulse/PulseForest.vio theories/Pulse/PulseResched.vio theories/Pulse/PulseOps.vio
theories/Pulse/PulseSweep.vos theories/Pulse/PulseSweep.vok theories/Pulse/PulseSweep.required_vos: theories/Pulse/PulseSweep.v theories/Pulse/PulseModel.vos theories/Pulse/PulseInv.vos theories/Pulse/PulseForest.vos theories/Pulse/PulseResched.vos theories/Pulse/PulseOps.vos
theories/Refl/Base.vo theories/Refl/Base.glob theories/Refl/Base.v.beautified theories/Refl/Base.required_vo: theories/Refl/Base.v 
theories/Refl/Base.vio: theories/Refl/Base.v 
theories/Refl/Base.vos theories/Refl/Base.vok theories/Refl/Base.required_vos: theories/Refl/Base.v 
theories/Refl/BaseProofs.vo theories/Refl/BaseProofs.glob theories/Refl/BaseProofs.v.beautified theories/Refl/BaseProofs.required_vo: theories/Refl/BaseProofs.v theories/Refl/Base.vo
theories/Refl/BaseProofs.vio: theories/Refl/BaseProofs.v theories/Refl/Base.vio
theories/Refl/BaseProofs.vos theories/Refl/BaseProofs.vok theories/Refl/BaseProofs.required_vos: theories/Refl/BaseProofs.v theories/Refl/Base.vos
theories/Refl/Bounded.vo theories/Refl/Bounded.glob theories/Refl/Bounded.v.beautified theories/Refl/Bounded.required_vo: theories/Refl/Bounded.v theories/Gen/Consts.vo theories/Refl/Base.vo theories/Refl/Tree.vo theories/Refl/Matcher.vo theories/Refl/Traverse.vo theories/Refl/Session.vo theories/Refl/Server.vo
theories/Refl/Bounded.vio: theories/Refl/Bounded.v theories/Gen/Consts.vio theories/Refl/Base.vio theories/Refl/Tree.vio theories/Refl/Matcher.vio theories/Refl/Traverse.vio theories/Refl/Session.vio theories/Refl/Server.vio
theories/Refl/Bounded.vos theories/Refl/Bounded.vok theories/Refl/Bounded.required_vos: theories/Refl/Bounded.v theories/Gen/Consts.vos theories/Refl/Base.vos theories/Refl/Tree.vos theories/Refl/Matcher.vos theories/Refl/Traverse.vos theories/Refl/Session.vos theories/Refl/Server.vos
theories/Refl/BoundedProofs.vo theories/Refl/BoundedProofs.glob theories/Refl/BoundedProofs.v.beautified theories/Refl/BoundedProofs.required_vo: theories/Refl/BoundedProofs.v theories/Gen/Consts.vo theories/Refl/Base.vo theories/Refl/Tree.vo theories/Refl/Matcher.vo theories/Refl/Traverse.vo theories/Refl/Session.vo theories/Refl/Server.vo theories/Refl/Bounded.vo
theories/Refl/BoundedProofs.vio: theories/Refl/BoundedProofs.v theories/Gen/Consts.vio theories/Refl/Base.vio theories/Refl/Tree.vio theories/Refl/Matcher.vio theories/Refl/Traverse.vio theories/Refl/Session.vio theories/Refl/Server.vio theories/Refl/Bounded.vio
theories/Refl/BoundedProofs.vos theories/Refl/BoundedProofs.vok theories/Refl/BoundedProofs.required_vos: theories/Refl/BoundedProofs.v theories/Gen/Consts.vos theories/Refl/Base.vos theories/Refl/Tree.vos theories/Refl/Matcher.vos theories/Refl/Traverse.vos theories/Refl/Session.vos theories/Refl/Server.vos theories/Refl/Bounded.vos
theories/Refl/ClauseKeys.vo theories/Refl/ClauseKeys.glob theories/Refl/ClauseKeys.v.beautified theories/Refl/ClauseKeys.required_vo: theories/Refl/ClauseKeys.v theories/Gen/Consts.vo theories/Pat/Ere.vo theories/Pat/Translate.vo
theories/Refl/ClauseKeys.vio: theories/Refl/ClauseKeys.v theories/Gen/Consts.vio theories/Pat/Ere.vio theories/Pat/Translate.vio
theories/Refl/ClauseKeys.vos theories/Refl/ClauseKeys.vok theories/Refl/ClauseKeys.required_vos: theories/Refl/ClauseKeys.v theories/Gen/Consts.vos theories/Pat/Ere.vos theories/Pat/Translate.vos
theories/Refl/Index.vo theories/Refl/Index.glob theories/Refl/Index.v.beautified theories/Refl/Index.required_vo: theories/Refl/Index.v 
theories/Refl/Index.vio: theories/Refl/Index.v 
theories/Refl/Index.vos theories/Refl/Index.vok theories/Refl/Index.required_vos: theories/Refl/Index.v 
theories/Refl/IndexModel.vo theories/Refl/IndexModel.glob theories/Refl/IndexModel.v.beautified theories/Refl/IndexModel.required_vo: theories/Refl/IndexModel.v theories/Refl/Index.vo
theories/Refl/IndexModel.vio: theories/Refl/IndexModel.v theories/Refl/Index.vio
theories/Refl/IndexModel.vos theories/Refl/IndexModel.vok theories/Refl/IndexModel.required_vos: theories/Refl/IndexModel.v theories/Refl/Index.vos
theories/Refl/IndexModelProofs.vo theories/Refl/IndexModelProofs.glob theories/Refl/IndexModelProofs.v.beautified theories/Refl/IndexModelProofs.required_vo: theories/Refl/IndexModelProofs.v theories/Refl/Index.vo theories/Refl/IndexProofs.vo theories/Refl/IndexModel.vo
theories/Refl/IndexModelProofs.vio: theories/Refl/IndexModelProofs.v theories/Refl/Index.vio theories/Refl/IndexProofs.vio theories/Refl/IndexModel.vio
theories/Refl/IndexModelProofs.vos theories/Refl/IndexModelProofs.vok theories/Refl/IndexModelProofs.required_vos: theories/Refl/IndexModelProofs.v theories/Refl/Index.vos theories/Refl/IndexProofs.vos theories/Refl/IndexModel.vos
theories/Refl/IndexProofs.vo theories/Refl/IndexProofs.glob theories/Refl/IndexProofs.v.beautified theories/Refl/IndexProofs.required_vo: theories/Refl/IndexProofs.v theories/Refl/Index.vo
theories/Refl/IndexProofs.vio: theories/Refl/IndexProofs.v theories/Refl/Index.vio
theories/Refl/IndexProofs.vos theories/Refl/IndexProofs.vok theories/Refl/IndexProofs.required_vos: theories/Refl/IndexProofs.v theories/Refl/Index.vos
theories/Refl/IndexWitness.vo theories/Refl/IndexWitness.glob theories/Refl/IndexWitness.v.beautified theories/Refl/IndexWitness.required_vo: theories/Refl/IndexWitness.v theories/Refl/Index.vo theories/Refl/IndexProofs.vo theories/Refl/IndexModel.vo theories/Refl/IndexModelProofs.vo theories/Gen/Consts.vo
theories/Refl/IndexWitness.vio: theories/Refl/IndexWitness.v theories/Refl/Index.vio theories/Refl/IndexProofs.vio theories/Refl/IndexModel.vio theories/Refl/IndexModelProofs.vio theories/Gen/Consts.vio
theories/Refl/IndexWitness.vos theories/Refl/IndexWitness.vok theories/Refl/IndexWitness.required_vos: theories/Refl/IndexWitness.v theories/Refl/Index.vos theories/Refl/IndexProofs.vos theories/Refl/IndexModel.vos theories/Refl/IndexModelProofs.vos theories/Gen/Consts.vos
theories/Refl/IsoBase.vo theories/Refl/IsoBase.glob theories/Refl/IsoBase.v.beautified theories/Refl/IsoBase.required_vo: theories/Refl/IsoBase.v theories/Refl/Base.vo theories/Refl/Tree.vo
theories/Refl/IsoBase.vio: theories/Refl/IsoBase.v theories/Refl/Base.vio theories/Refl/Tree.vio
theories/Refl/IsoBase.vos theories/Refl/IsoBase.vok theories/Refl/IsoBase.required_vos: theories/Refl/IsoBase.v theories/Refl/Base.vos theories/Refl/Tree.vos
theories/Refl/IsoFrame.vo theories/Refl/IsoFrame.glob theories/Refl/IsoFrame.v.beautified theories/Refl/IsoFrame.required_vo: theories/Refl/IsoFrame.v theories/Gen/Consts.vo theories/Refl/Base.vo theories/Refl/Tree.vo theories/Refl/Matcher.vo theories/Refl/Traverse.vo theories/Refl/Session.vo theories/Refl/Server.vo theories/Refl/IsoModel.vo theories/Refl/IsoBase.vo theories/Refl/IsoTrav.vo
theories/Refl/IsoFrame.vio: theories/Refl/IsoFrame.v theories/Gen/Consts.vio theories/Refl/Base.vio theories/Refl/Tree.vio theories/Refl/Matcher.vio theories/Refl/Traverse.vio theories/Refl/Session.vio theories/Refl/Server.vio theories/Refl/IsoModel.vio theories/Refl/IsoBase.vio theories/Refl/IsoTrav.vio
theories/Refl/IsoFrame.vos theories/Refl/IsoFrame.vok theories/Refl/IsoFrame.required_vos: theories/Refl/IsoFrame.v theories/Gen/Consts.vos theories/Refl/Base.vos theories/Refl/Tree.vos theories/Refl/Matcher.vos theories/Refl/Traverse.vos theories/Refl/Session.vos theories/Refl/Server.vos theories/Refl/IsoModel.vos theories/Refl/IsoBase.vos theories/Refl/IsoTrav.vos
theories/Refl/IsoModel.vo theories/Refl/IsoModel.glob theories/Refl/IsoModel.v.beautified theories/Refl/IsoModel.required_vo: theories/Refl/IsoModel.v theories/Gen/Consts.vo theories/Refl/Base.vo theories/Refl/Tree.vo theories/Refl/Matcher.vo theories/Refl/Traverse.vo theories/Refl/Session.vo theories/Refl/Server.vo
theories/Refl/IsoModel.vio: theories/Refl/IsoModel.v theories/Gen/Consts.vio theories/Refl/Base.vio theories/Refl/Tree.vio theories/Refl/Matcher.vio theories/Refl/Traverse.vio theories/Refl/Session.vio theories/Refl/Server.vio
theories/Refl/IsoModel.vos theories/Refl/IsoModel.vok theories/Refl/IsoModel.required_vos: theories/Refl/IsoModel.v theories/Gen/Consts.vos theories/Refl/Base.vos theories/Refl/Tree.vos theories/Refl/Matcher.vos theories/Refl/Traverse.vos theories/Refl/Session.vos theories/Refl/Server.vos
theories/Refl/IsoProofs.vo theories/Refl/IsoProofs.glob theories/Refl/IsoProofs.v.beautified theories/Refl/IsoProofs.required_vo: theories/Refl/IsoProofs.v theories/Gen/Consts.vo theories/Refl/Base.vo theories/Refl/Tree.vo theories/Refl/Matcher.vo theories/Refl/Traverse.vo theories/Refl/Session.vo theories/Refl/Server.vo theories/Refl/IsoModel.vo
theories/Refl/IsoProofs.vio: theories/Refl/IsoProofs.v theories/Gen/Consts.vio theories/Refl/Base.vio theories/Refl/Tree.vio theories/Refl/Matcher.vio theories/Refl/Traverse.vio theories/Refl/Session.vio theories/Refl/Server.vio theories/Refl/IsoModel.vio
theories/Refl/IsoProofs.vos theories/Refl/IsoProofs.vok theories/Refl/IsoProofs.required_vos: theories/Refl/IsoProofs.v theories/Gen/Consts.vos theories/Refl/Base.vos theories/Refl/Tree.vos theories/Refl/Matcher.vos theories/Refl/Traverse.vos theories/Refl/Session.vos theories/Refl/Server.vos theories/Refl/IsoModel.vos
theories/Refl/IsoTrav.vo theories/Refl/IsoTrav.glob theories/Refl/IsoTrav.v.beautified theories/Refl/IsoTrav.required_vo: theories/Refl/IsoTrav.v theories/Refl/Base.vo theories/Refl/Tree.vo theories/Refl/Matcher.vo theories/Refl/Traverse.vo theories/Refl/IsoBase.vo
theories/Refl/IsoTrav.vio: theories/Refl/IsoTrav.v theories/Refl/Base.vio theories/Refl/Tree.vio theories/Refl/Matcher.vio theories/Refl/Traverse.vio theories/Refl/IsoBase.vio
theories/Refl/IsoTrav.vos theories/Refl/IsoTrav.vok theories/Refl/IsoTrav.required_vos: theories/Refl/IsoTrav.v theories/Refl/Base.vos theories/Refl/Tree.vos theories/Refl/Matcher.vos theories/Refl/Traverse.vos theories/Refl/IsoBase.vos
theories/Refl/Matcher.vo theories/Refl/Matcher.glob theories/Refl/Matcher.v.beautified theories/Refl/Matcher.required_vo: theories/Refl/Matcher.v theories/Refl/Base.vo theories/Refl/Tree.vo
theories/Refl/Matcher.vio: theories/Refl/Matcher.v theories/Refl/Base.vio theories/Refl/Tree.vio
theories/Refl/Matcher.vos theories/Refl/Matcher.vok theories/Refl/Matcher.required_vos: theories/Refl/Matcher.v theories/Refl/Base.vos theories/Refl/Tree.vos
theories/Refl/MatcherProofs.vo theories/Refl/MatcherProofs.glob theories/Refl/MatcherProofs.v.beautified theories/Refl/MatcherProofs.required_vo: theories/Refl/MatcherProofs.v theories/Refl/Base.vo theories/Refl/BaseProofs.vo theories/Refl/Tree.vo theories/Refl/Matcher.vo theories/Refl/Traverse.vo
theories/Refl/MatcherProofs.vio: theories/Refl/MatcherProofs.v theories/Refl/Base.vio theories/Refl/BaseProofs.vio theories/Refl/Tree.vio theories/Refl/Matcher.vio theories/Refl/Traverse.vio
theories/Refl/MatcherProofs.vos theories/Refl/MatcherProofs.vok theories/Refl/MatcherProofs.required_vos: theories/Refl/MatcherProofs.v theories/Refl/Base.vos theories/Refl/BaseProofs.vos theories/Refl/Tree.vos theories/Refl/Matcher.vos theories/Refl/Traverse.vos
theories/Refl/Mirror.vo theories/Refl/Mirror.glob theories/Refl/Mirror.v.beautified theories/Refl/Mirror.required_vo: theories/Refl/Mirror.v theories/Refl/Base.vo theories/Refl/Tree.vo theories/Refl/Matcher.vo theories/Refl/Traverse.vo theories/Refl/Session.vo theories/Refl/Server.vo
theories/Refl/Mirror.vio: theories/Refl/Mirror.v theories/Refl/Base.vio theories/Refl/Tree.vio theories/Refl/Matcher.vio theories/Refl/Traverse.vio theories/Refl/Session.vio theories/Refl/Server.vio
theories/Refl/Mirror.vos theories/Refl/Mirror.vok theories/Refl/Mirror.required_vos: theories/Refl/Mirror.v theories/Refl/Base.vos theories/Refl/Tree.vos theories/Refl/Matcher.vos theories/Refl/Traverse.vos theories/Refl/Session.vos theories/Refl/Server.vos
theories/Refl/Route.vo theories/Refl/Route.glob theories/Refl/Route.v.beautified theories/Refl/Route.required_vo: theories/Refl/Route.v theories/Gen/Consts.vo theories/Refl/Base.vo theories/Refl/Tree.vo theories/Refl/Matcher.vo theories/Refl/Traverse.vo theories/Refl/Session.vo theories/Refl/Server.vo
theories/Refl/Route.vio: theories/Refl/Route.v theories/Gen/Consts.vio theories/Refl/Base.vio theories/Refl/Tree.vio theories/Refl/Matcher.vio theories/Refl/Traverse.vio theories/Refl/Session.vio theories/Refl/Server.vio
theories/Refl/Route.vos theories/Refl/Route.vok theories/Refl/Route.required_vos: theories/Refl/Route.v theories/Gen/Consts.vos theories/Refl/Base.vos theories/Refl/Tree.vos theories/Refl/Matcher.vos theories/Refl/Traverse.vos theories/Refl/Session.vos theories/Refl/Server.vos
theories/Refl/Server.vo theories/Refl/Server.glob theories/Refl/Server.v.beautified theories/Refl/Server.required_vo: theories/Refl/Server.v theories/Gen/Consts.vo theories/Refl/Base.vo theories/Refl/Tree.vo theories/Refl/Matcher.vo theories/Refl/Traverse.vo theories/Refl/Session.vo
theories/Refl/Server.vio: theories/Refl/Server.v theories/Gen/Consts.vio theories/Refl/Base.vio theories/Refl/Tree.vio theories/Refl/Matcher.vio theories/Refl/Traverse.vio theories/Refl/Session.vio
theories/Refl/Server.vos theories/Refl/Server.vok theories/Refl/Server.required_vos: theories/Refl/Server.v theories/Gen/Consts.vos theories/Refl/Base.vos theories/Refl/Tree.vos theories/Refl/Matcher.vos theories/Refl/Traverse.vos theories/Refl/Session.vos
theories/Refl/Session.vo theories/Refl/Session.glob theories/Refl/Session.v.beautified theories/Refl/Session.required_vo: theories/Refl/Session.v theories/Refl/Base.vo theories/Refl/Tree.vo theories/Refl/Matcher.vo
theories/Refl/Session.vio: theories/Refl/Session.v theories/Refl/Base.vio theories/Refl/Tree.vio theories/Refl/Matcher.vio
theories/Refl/Session.vos theories/Refl/Session.vok theories/Refl/Session.required_vos: theories/Refl/Session.v theories/Refl/Base.vos theories/Refl/Tree.vos theories/Refl/Matcher.vos
theories/Refl/Traverse.vo theories/Refl/Traverse.glob theories/Refl/Traverse.v.beautified theories/Refl/Traverse.required_vo: theories/Refl/Traverse.v theories/Refl/Base.vo theories/Refl/Tree.vo theories/Refl/Matcher.vo
theories/Refl/Traverse.vio: theories/Refl/Traverse.v theories/Refl/Base.vio theories/Refl/Tree.vio theories/Refl/Matcher.vio
theories/Refl/Traverse.vos theories/Refl/Traverse.vok theories/Refl/Traverse.required_vos: theories/Refl/Traverse.v theories/Refl/Base.vos theories/Refl/Tree.vos theories/Refl/Matcher.vos
theories/Refl/TraverseFold.vo theories/Refl/TraverseFold.glob theories/Refl/TraverseFold.v.beautified theories/Refl/TraverseFold.required_vo: theories/Refl/TraverseFold.v theories/Refl/Base.vo theories/Refl/BaseProofs.vo theories/Refl/Tree.vo theories/Refl/TreeProofs.vo theories/Refl/Matcher.vo theories/Refl/Traverse.vo
theories/Refl/TraverseFold.vio: theories/Refl/TraverseFold.v theories/Refl/Base.vio theories/Refl/BaseProofs.vio theories/Refl/Tree.vio theories/Refl/TreeProofs.vio theories/Refl/Matcher.vio theories/Refl/Traverse.vio
theories/Refl/TraverseFold.vos theories/Refl/TraverseFold.vok theories/Refl/TraverseFold.required_vos: theories/Refl/TraverseFold.v theories/Refl/Base.vos theories/Refl/BaseProofs.vos theories/Refl/Tree.vos theories/Refl/TreeProofs.vos theories/Refl/Matcher.vos theories/Refl/Traverse.vos
theories/Refl/TraverseSpec.vo theories/Refl/TraverseSpec.glob theories/Refl/TraverseSpec.v.beautified theories/Refl/TraverseSpec.required_vo: theories/Refl/TraverseSpec.v theories/Refl/Base.vo theories/Refl/BaseProofs.vo theories/Refl/Tree.vo theories/Refl/TreeProofs.vo theories/Refl/Matcher.vo theories/Refl/MatcherProofs.vo theories/Refl/Traverse.vo theories/Refl/TraverseFold.vo
theories/Refl/TraverseSpec.vio: theories/Refl/TraverseSpec.v theories/Refl/Base.vio theories/Refl/BaseProofs.vio theories/Refl/Tree.vio theories/Refl/TreeProofs.vio theories/Refl/Matcher.vio theories/Refl/MatcherProofs.vio theories/Refl/Traverse.vio theories/Refl/TraverseFold.vio
theories/Refl/TraverseSpec.vos theories/Refl/TraverseSpec.vok theories/Refl/TraverseSpec.required_vos: theories/Refl/TraverseSpec.v theories/Refl/Base.vos theories/Refl/BaseProofs.vos theories/Refl/Tree.vos theories/Refl/TreeProofs.vos theories/Refl/Matcher.vos theories/Refl/MatcherProofs.vos theories/Refl/Traverse.vos theories/Refl/TraverseFold.vos
theories/Refl/Tree.vo theories/Refl/Tree.glob theories/Refl/Tree.v.beautified theories/Refl/Tree.required_vo: theories/Refl/Tree.v theories/Refl/Base.vo
theories/Refl/Tree.vio: theories/Refl/Tree.v theories/Refl/Base.vio
theories/Refl/Tree.vos theories/Refl/Tree.vok theories/Refl/Tree.required_vos: theories/Refl/Tree.v theories/Refl/Base.vos
theories/Refl/TreeProofs.vo theories/Refl/TreeProofs.glob theories/Refl/TreeProofs.v.beautified theories/Refl/TreeProofs.required_vo: theories/Refl/TreeProofs.v theories/Refl/Base.vo theories/Refl/BaseProofs.vo theories/Refl/Tree.vo
theories/Refl/TreeProofs.vio: theories/Refl/TreeProofs.v theories/Refl/Base.vio theories/Refl/BaseProofs.vio theories/Refl/Tree.vio
theories/Refl/TreeProofs.vos theories/Refl/TreeProofs.vok theories/Refl/TreeProofs.required_vos: theories/Refl/TreeProofs.v theories/Refl/Base.vos theories/Refl/BaseProofs.vos theories/Refl/Tree.vos
