theories/Cont/QueueModel.vo theories/Cont/QueueModel.glob theories/Cont/QueueModel.v.beautified theories/Cont/QueueModel.required_vo: theories/Cont/QueueModel.v 
theories/Cont/QueueModel.vio: theories/Cont/QueueModel.v 
theories/Cont/QueueModel.vos theories/Cont/QueueModel.vok theories/Cont/QueueModel.required_vos: theories/Cont/QueueModel.v 
theories/Cont/QueueProofs.vo theories/Cont/QueueProofs.glob theories/Cont/QueueProofs.v.beautified theories/Cont/QueueProofs.required_vo: theories/Cont/QueueProofs.v theories/Cont/QueueModel.vo
theories/Cont/QueueProofs.vio: theories/Cont/QueueProofs.v theories/Cont/QueueModel.vio
theories/Cont/QueueProofs.vos theories/Cont/QueueProofs.vok theories/Cont/QueueProofs.required_vos: theories/Cont/QueueProofs.v theories/Cont/QueueModel.vos
theories/Gen/Consts.vo theories/Gen/Consts.glob theories/Gen/Consts.v.beautified theories/Gen/Consts.required_vo: theories/Gen/Consts.v 
theories/Gen/Consts.vio: theories/Gen/Consts.v 
theories/Gen/Consts.vos theories/Gen/Consts.vok theories/Gen/Consts.required_vos: theories/Gen/Consts.v 
theories/Properties_C16.vo theories/Properties_C16.glob theories/Properties_C16.v.beautified theories/Properties_C16.required_vo: theories/Properties_C16.v theories/Cont/QueueModel.vo theories/Cont/QueueProofs.vo
theories/Properties_C16.vio: theories/Properties_C16.v theories/Cont/QueueModel.vio theories/Cont/QueueProofs.vio
theories/Properties_C16.vos theories/Properties_C16.vok theories/Properties_C16.required_vos: theories/Properties_C16.v theories/Cont/QueueModel.vos theories/Cont/QueueProofs.vos
