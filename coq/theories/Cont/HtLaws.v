(* C09 -- user-level laws of the code-shaped model, obtained through the refinement: Get after Put,
   Get after Remove, for every class (also when the auto-sorting classes move entries around). *)
From Coq Require Import List Arith ZArith NArith PArith Bool Lia Permutation.
From Muscle Require Import Cont.HtModel Cont.HtStep Cont.HtIdeal Cont.HtLemmas Cont.HtWalk Cont.HtInv Cont.HtSafeAll
                           Cont.HtRefine Cont.HtIdealLaws.
Import ListNotations.

Section L.
Variable var : variant.
Variable dcap : N.

Lemma gett0_sett0_same : forall (w0 : world0) t x, t < length w0 -> gett0 (sett0 w0 t x) t = x.
Proof. intros. unfold gett0, sett0. apply nth_upd_nth_same. assumption. Qed.

Lemma get_is_ideal : forall w t k, WF w -> snd (step1 var dcap w (OGet t k)) = OVal (a_get (abs (gett w t)) k).
Proof.
  intros w t k W. destruct (step_refines var dcap w (OGet t k) W) as [_ B]. rewrite (B eq_refl). cbn [step0 snd].
  rewrite gett0_abs. reflexivity.
Qed.

Theorem put_then_get : forall w t k v, WF w -> t < length (tabs w) ->
  let w' := fst (step1 var dcap w (OPut t k v)) in
  snd (step1 var dcap w' (OGet t k)) = OVal (Some v) /\
  (forall k', k' <> k -> snd (step1 var dcap w' (OGet t k')) = snd (step1 var dcap w (OGet t k'))).
Proof.
  intros w t k v W Ht w'.
  assert (W' : WF w') by (apply step1_WF; exact W).
  destruct (step_refines var dcap w (OPut t k v) W) as [A _]. fold w' in A.
  assert (V : valid_t0 (abs_world w) t = true) by (rewrite valid_t0_abs; apply Nat.ltb_lt; exact Ht).
  cbn [step0] in A. rewrite V in A. rewrite (surjective_pairing (l0_put var dcap (gett0 (abs_world w) t) k v)) in A. cbn [fst] in A.
  assert (Ht0 : t < length (abs_world w)) by (unfold abs_world; rewrite map_length; exact Ht).
  assert (E : abs_tab (gett w' t) = fst (l0_put var dcap (abs_tab (gett w t)) k v)).
  { rewrite <- gett0_abs, A, gett0_sett0_same by exact Ht0. rewrite gett0_abs. reflexivity. }
  assert (Ea : abs (gett w' t) = pairs (fst (l0_put var dcap (abs_tab (gett w t)) k v))) by (rewrite <- E; reflexivity).
  destruct (WF_tinv w t W Ht) as (l & T). pose proof (abs_nodup_keys _ l T) as Hnd.
  split.
  - rewrite (get_is_ideal w' t k W'), Ea. f_equal. apply l0_put_get_same. exact Hnd.
  - intros k' Hk. rewrite (get_is_ideal w' t k' W'), (get_is_ideal w t k' W), Ea. f_equal. apply l0_put_get_other; assumption.
Qed.

Theorem remove_then_get : forall w t k, WF w -> t < length (tabs w) ->
  let w' := fst (step1 var dcap w (ORemove t k)) in
  snd (step1 var dcap w' (OGet t k)) = OVal None /\
  (forall k', k' <> k -> snd (step1 var dcap w' (OGet t k')) = snd (step1 var dcap w (OGet t k'))).
Proof.
  intros w t k W Ht w'.
  assert (W' : WF w') by (apply step1_WF; exact W).
  destruct (step_refines var dcap w (ORemove t k) W) as [A _]. fold w' in A.
  assert (V : valid_t0 (abs_world w) t = true) by (rewrite valid_t0_abs; apply Nat.ltb_lt; exact Ht).
  cbn [step0] in A. rewrite V in A. rewrite gett0_abs in A. cbn [pairs abs_tab] in A.
  assert (Ht0 : t < length (abs_world w)) by (unfold abs_world; rewrite map_length; exact Ht).
  destruct (WF_tinv w t W Ht) as (l & T). pose proof (abs_nodup_keys _ l T) as Hnd.
  assert (Ea : abs (gett w' t) = a_remove (abs (gett w t)) k).
  { destruct (a_get (abs (gett w t)) k) eqn:Eg; cbn [fst] in A.
    - assert (E : abs_tab (gett w' t) = with_pairs (abs_tab (gett w t)) (a_remove (abs (gett w t)) k)).
      { rewrite <- gett0_abs, A, gett0_sett0_same by exact Ht0. reflexivity. }
      change (abs (gett w' t)) with (pairs (abs_tab (gett w' t))). rewrite E. reflexivity.
    - assert (E : abs_tab (gett w' t) = abs_tab (gett w t)) by (rewrite <- !gett0_abs, A; reflexivity).
      change (abs (gett w' t)) with (pairs (abs_tab (gett w' t))). rewrite E. cbn [pairs abs_tab].
      symmetry. clear - Eg. induction (abs (gett w t)) as [|[k1 v1] r IH]; [reflexivity|]. cbn [a_get a_remove] in *.
      destruct (Z.eqb k1 k); [discriminate|f_equal; apply IH; exact Eg]. }
  split.
  - rewrite (get_is_ideal w' t k W'), Ea. f_equal. apply a_remove_get_same. exact Hnd.
  - intros k' Hk. rewrite (get_is_ideal w' t k' W'), (get_is_ideal w t k' W), Ea. f_equal. apply a_remove_get_other. exact Hk.
Qed.

End L.
