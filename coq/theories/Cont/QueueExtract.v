(* Extraction of the Queue model for the correspondence run (ExtrOcamlBasic only). *)
From Coq Require Import ExtrOcamlBasic.
From Coq Require Extraction.
From Coq Require Import NArith.
From Muscle Require Import Gen.Consts Cont.QueueModel.
Definition small_queue_size : nat := N.to_nat c_QUEUE_INLINE_SLOTS_INT32.
Extraction "queue_model.ml" step0 step1 step20 step2 empty_q abs qsize release small_queue_size.
