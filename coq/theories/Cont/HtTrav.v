(* C09 -- traversal theory, table level: a relation [tcalm] between (list, fresh counter, iterator)
   before and after a table function that says: nothing the iterator still had to visit is lost
   unless it was removed, and nothing comes back. *)
From Coq Require Import List Arith ZArith NArith PArith Bool Lia FMapPositive Permutation.
From Muscle Require Import Cont.HtModel Cont.HtLemmas Cont.HtRepr Cont.HtWalk Cont.HtIters Cont.HtTable
                           Cont.HtMoves Cont.HtPut Cont.HtExact Cont.HtPend Cont.HtStep Cont.HtIdeal Cont.HtAbs Cont.HtOrdered Cont.HtRefTab.
Import ListNotations.

Record tcalm (l : list positive) (f : positive) (it : iter) (l' : list positive) (f' : positive) (it' : iter) : Prop := mkTcalm {
  tc_fresh : (f <= f')%positive;
  tc_new : forall n, In n l' -> In n l \/ (f <= n)%positive;
  tc_keep : forall n, In n (pend l it) -> In n l' -> In n (pend l' it');
  tc_res : forall n, In n (pend l' it') -> In n (pend l it) \/ (f <= n)%positive;
  tc_bw : ibw it' = ibw it }.

Lemma tcalm_refl : forall l f it, tcalm l f it l f it.
Proof. intros. constructor; auto. apply Pos.le_refl. Qed.

Lemma pend_incl : forall l it n, In n (pend l it) -> In n l \/ icookie it = Some n.
Proof.
  intros l it n H. unfold pend in H. destruct (icookie it) as [c|]; [|destruct H].
  apply in_app_or in H. destruct H as [H|H].
  - destruct (iscr it); [|destruct H]. destruct H as [<-|[]]. right; reflexivity.
  - left. eapply rest_of_incl; exact H.
Qed.

Lemma tcalm_trans : forall l0 f0 it0 l1 f1 it1 l2 f2 it2,
  (forall n, In n l0 -> (n < f0)%positive) -> (forall c, icookie it0 = Some c -> In c l0) ->
  tcalm l0 f0 it0 l1 f1 it1 -> tcalm l1 f1 it1 l2 f2 it2 -> tcalm l0 f0 it0 l2 f2 it2.
Proof.
  intros l0 f0 it0 l1 f1 it1 l2 f2 it2 B0 C0 [F1 N1 K1 R1 W1] [F2 N2 K2 R2 W2]. constructor.
  - eapply Pos.le_trans; eassumption.
  - intros n Hn. destruct (N2 n Hn) as [H|H]; [apply N1; exact H|right; eapply Pos.le_trans; eassumption].
  - intros n Hp Hn2. apply K2; [|exact Hn2]. apply K1; [exact Hp|].
    destruct (N2 n Hn2) as [H|H]; [exact H|]. exfalso.
    assert (Hl0 : In n l0) by (destruct (pend_incl l0 it0 n Hp) as [H0|H0]; [exact H0|apply C0; exact H0]).
    pose proof (B0 n Hl0). lia.
  - intros n Hn. destruct (R2 n Hn) as [H|H]; [apply R1; exact H|right; eapply Pos.le_trans; eassumption].
  - congruence.
Qed.

(* ------------------------------------------------------------------ RemoveEntry *)

Lemma subseq_moved_cookie : forall h l1 l2 e bw, linked h (l1 ++ e :: l2) ->
  subseq h (Some e) bw = moved_cookie bw l1 l2.
Proof.
  intros h l1 l2 e bw L. unfold subseq, moved_cookie. destruct bw.
  - apply (prev_of_prefix h _ l1 e l2 L eq_refl).
  - apply (next_of_suffix h _ l1 e l2 L eq_refl).
Qed.

Lemma tcalm_remove : forall h l1 l2 e f it, linked h (l1 ++ e :: l2) ->
  (forall c, icookie it = Some c -> In c (l1 ++ e :: l2)) ->
  tcalm (l1 ++ e :: l2) f it (l1 ++ l2) f (patch_iter h e it).
Proof.
  intros h l1 l2 e f it L Hc. pose proof (lk_nodup _ _ L) as Hnd. destruct (nodup_split_notin _ _ _ Hnd) as [H1 H2].
  assert (Hsub : forall n, In n (l1 ++ l2) -> In n (l1 ++ e :: l2) /\ n <> e).
  { intros n Hn. apply in_app_or in Hn. split; [apply in_or_app; destruct Hn; [left|right; right]; assumption|intro; subst; destruct Hn; contradiction]. }
  unfold patch_iter. destruct (opt_pos_eqb (icookie it) (Some e)) eqn:Ec.
  - apply opt_pos_eqb_true in Ec. rewrite Ec, (subseq_moved_cookie h l1 l2 e (ibw it) L).
    set (scr' := match iscr it with Some s => Some s | None => kv_of h e end).
    assert (Hs : exists s0, scr' = Some s0).
    { unfold scr'. destruct (iscr it) as [s|]; [eexists; reflexivity|].
      assert (Hine : In e (l1 ++ e :: l2)) by (apply in_or_app; right; left; reflexivity).
      rewrite (kv_of_live h e (lk_live _ _ L e Hine)). eexists; reflexivity. }
    destruct Hs as (s0 & Es).
    assert (P' : forall n, In n (pend (l1 ++ l2) (mkIter (iown it) (moved_cookie (ibw it) l1 l2) (ibw it) (inoreg it) scr')) <->
                            In n (rest_of (ibw it) (l1 ++ e :: l2) e)).
    { intros n. rewrite Es. rewrite <- (pend_after_fixup (ibw it) l1 l2 e s0 Hnd n). unfold pend. cbn [icookie iscr ibw]. tauto. }
    constructor; cbn [ibw]; [apply Pos.le_refl| | | |reflexivity].
    + intros n Hn. left. apply Hsub. exact Hn.
    + intros n Hp Hn. apply P'. unfold pend in Hp. rewrite Ec in Hp. apply in_app_or in Hp. destruct Hp as [Hp|Hp]; [|exact Hp].
      destruct (iscr it); [|destruct Hp]. destruct Hp as [<-|[]]. exfalso. destruct (Hsub e Hn) as [_ Hne]. congruence.
    + intros n Hn. left. apply P' in Hn. unfold pend. rewrite Ec. apply in_or_app. right. exact Hn.
  - apply opt_pos_eqb_false in Ec. constructor; [apply Pos.le_refl| | | |reflexivity].
    + intros n Hn. left. apply Hsub. exact Hn.
    + intros n Hp Hn. unfold pend in *. destruct (icookie it) as [c|] eqn:Ek; [|destruct Hp].
      assert (Hce : c <> e) by (intro; subst; apply Ec; reflexivity).
      assert (Hcl : In c (l1 ++ l2)).
      { specialize (Hc c eq_refl). apply in_app_or in Hc. apply in_or_app. destruct Hc as [Hc|[Hc|Hc]]; [left; exact Hc|congruence|right; exact Hc]. }
      apply in_app_or in Hp. apply in_or_app. destruct Hp as [Hp|Hp]; [left; exact Hp|right].
      destruct (rest_insert (ibw it) l1 l2 e c Hnd Hcl) as [_ B]. destruct (B n Hp) as [B1|B1]; [exact B1|].
      subst n. destruct (Hsub e Hn) as [_ Hne]. congruence.
    + intros n Hn. left. unfold pend in *. destruct (icookie it) as [c|] eqn:Ek; [|destruct Hn].
      assert (Hce : c <> e) by (intro; subst; apply Ec; reflexivity).
      assert (Hcl : In c (l1 ++ l2)).
      { specialize (Hc c eq_refl). apply in_app_or in Hc. apply in_or_app. destruct Hc as [Hc|[Hc|Hc]]; [left; exact Hc|congruence|right; exact Hc]. }
      apply in_app_or in Hn. apply in_or_app. destruct Hn as [Hn|Hn]; [left; exact Hn|right].
      destruct (rest_insert (ibw it) l1 l2 e c Hnd Hcl) as [A _]. apply A. exact Hn.
Qed.

(* ------------------------------------------------------------------ a new entry *)

Lemma tcalm_insert : forall m1 m2 e it, NoDup (m1 ++ e :: m2) ->
  (forall c, icookie it = Some c -> In c (m1 ++ m2)) ->
  tcalm (m1 ++ m2) e it (m1 ++ e :: m2) (Pos.succ e) it.
Proof.
  intros m1 m2 e it Hnd Hc. constructor; [lia| | | |reflexivity].
  - intros n Hn. apply in_app_or in Hn. destruct Hn as [Hn|[<-|Hn]]; [left; apply in_or_app; left; exact Hn|right; apply Pos.le_refl|left; apply in_or_app; right; exact Hn].
  - intros n Hp _. unfold pend in *. destruct (icookie it) as [c|] eqn:Ek; [|destruct Hp].
    apply in_app_or in Hp. apply in_or_app. destruct Hp as [Hp|Hp]; [left; exact Hp|right].
    destruct (rest_insert (ibw it) m1 m2 e c Hnd (Hc c eq_refl)) as [A _]. apply A. exact Hp.
  - intros n Hn. unfold pend in *. destruct (icookie it) as [c|] eqn:Ek; [|destruct Hn].
    apply in_app_or in Hn. destruct Hn as [Hn|Hn]; [left; apply in_or_app; left; exact Hn|].
    destruct (rest_insert (ibw it) m1 m2 e c Hnd (Hc c eq_refl)) as [_ B]. destruct (B n Hn) as [B1|B1].
    + left. apply in_or_app. right. exact B1.
    + right. subst n. apply Pos.le_refl.
Qed.

Lemma abs_remove_entry_ids : forall h I l1 l2 e, tinv h (l1 ++ e :: l2) ->
  tinv (fst (remove_entry h I e)) (l1 ++ l2) /\ fresh (fst (remove_entry h I e)) = fresh h /\
  snd (remove_entry h I e) = patch_all h e I.
Proof.
  intros h I l1 l2 e T. unfold remove_entry, remove_iter_entry. cbn [fst snd].
  destruct (tinv_remove_entry h l1 l2 e T) as (T' & _ & _ & _ & _ & _ & Hf & _). auto.
Qed.

(* ------------------------------------------------------------------ one table and all its iterators *)

Definition tscalm (t : nat) (h : ht) (I : itab) (h' : ht) (I' : itab) : Prop :=
  forall i it, geti I i = Some it -> iown it = Some t ->
    exists it', geti I' i = Some it' /\ inoreg it' = inoreg it /\
      ((iown it' = Some t /\ tcalm (ids h) (fresh h) it (ids h') (fresh h') it') \/
       (iown it' = None /\ icookie it' = None)).

Lemma tscalm_refl : forall t h I, tscalm t h I h I.
Proof. intros t h I i it Hg O. exists it. split; [exact Hg|split; [reflexivity|left; split; [exact O|apply tcalm_refl]]]. Qed.

Lemma TL_bounds : forall t h I, TL t h I ->
  (forall n, In n (ids h) -> (n < fresh h)%positive) /\
  (forall i it c, geti I i = Some it -> iown it = Some t -> icookie it = Some c -> In c (ids h)).
Proof.
  intros t h I HTL. destruct (tl_tinv _ _ _ HTL) as (l & T). rewrite (tinv_ids h l T). split.
  - intros n Hn. apply (ti_fresh _ _ T). apply (lk_live _ _ (ti_linked _ _ T)). exact Hn.
  - intros i it c Hg O Hc. destruct (tl_own _ _ _ HTL i it Hg O) as [_ B]. destruct (B c Hc) as [_ L]. apply (ti_dom _ _ T). exact L.
Qed.

Lemma tscalm_trans : forall t h0 I0 h1 I1 h2 I2, TL t h0 I0 -> frame t I1 I2 ->
  tscalm t h0 I0 h1 I1 -> tscalm t h1 I1 h2 I2 -> tscalm t h0 I0 h2 I2.
Proof.
  intros t h0 I0 h1 I1 h2 I2 HTL0 F12 S01 S12 i it Hg O.
  destruct (TL_bounds t h0 I0 HTL0) as [B0 C0].
  destruct (S01 i it Hg O) as (it1 & Hg1 & R1 & [[O1 C1]|[O1 K1]]).
  - destruct (S12 i it1 Hg1 O1) as (it2 & Hg2 & R2 & [[O2 C2]|[O2 K2]]).
    + exists it2. split; [exact Hg2|split; [congruence|left; split; [exact O2|]]].
      eapply tcalm_trans; [exact B0|intros c Hc; eapply C0; eassumption|exact C1|exact C2].
    + exists it2. split; [exact Hg2|split; [congruence|right; auto]].
  - exists it1. split; [|split; [exact R1|right; auto]]. apply (fr_other _ _ _ F12 i it1 Hg1). rewrite O1. discriminate.
Qed.

(* same iterator table, the list grows by one fresh entry *)
Lemma tscalm_insert : forall t h I h' m1 m2, TL t h I -> ids h = m1 ++ m2 -> ids h' = m1 ++ fresh h :: m2 ->
  fresh h' = Pos.succ (fresh h) -> tscalm t h I h' I.
Proof.
  intros t h I h' m1 m2 HTL E E' F i it Hg O. exists it. split; [exact Hg|split; [reflexivity|left; split; [exact O|]]].
  destruct (TL_bounds t h I HTL) as [B C]. rewrite E, E', F. apply tcalm_insert.
  - destruct (tl_tinv _ _ _ HTL) as (l & T). pose proof (lk_nodup _ _ (ti_linked _ _ T)) as Hnd. rewrite <- (tinv_ids h l T), E in Hnd.
    apply nodup_insert_mid; [exact Hnd|]. intro Hin. rewrite <- E in Hin. pose proof (B _ Hin) as Hlt. lia.
  - intros c Hc. rewrite <- E. eapply C; eassumption.
Qed.

Lemma tscalm_same : forall t h I h', ids h' = ids h -> fresh h' = fresh h -> tscalm t h I h' I.
Proof.
  intros t h I h' E F i it Hg O. exists it. split; [exact Hg|split; [reflexivity|left; split; [exact O|]]]. rewrite E, F. apply tcalm_refl.
Qed.

Lemma unregistered_no_cookie : forall t h I i it, TL t h I -> geti I i = Some it -> iown it = Some t ->
  ~ In i (ilist h) -> icookie it = None.
Proof.
  intros t h I i it HTL Hg O Hn. destruct (tl_own _ _ _ HTL i it Hg O) as [A Bc].
  destruct (icookie it) as [c|] eqn:Ek; [|reflexivity]. destruct (Bc c eq_refl) as [R _]. exfalso. apply Hn. apply A. exact R.
Qed.

Lemma tcalm_no_cookie : forall l f it l' f', icookie it = None -> (f <= f')%positive ->
  (forall n, In n l' -> In n l \/ (f <= n)%positive) -> tcalm l f it l' f' it.
Proof.
  intros l f it l' f' Hk F N. constructor; [exact F|exact N| | |reflexivity];
    intros n Hp; unfold pend in Hp; rewrite Hk in Hp; destruct Hp.
Qed.

Lemma tscalm_remove_entry : forall t h I e l1 l2, TL t h I -> tinv h (l1 ++ e :: l2) ->
  tscalm t h I (fst (remove_entry h I e)) (snd (remove_entry h I e)).
Proof.
  intros t h I e l1 l2 HTL T i it Hg O.
  destruct (abs_remove_entry_ids h I l1 l2 e T) as (T' & Hf & Es).
  rewrite Es, patch_all_eq.
  destruct (TL_bounds t h I HTL) as [B C].
  destruct (in_dec Nat.eq_dec i (ilist h)) as [Hin|Hn].
  - rewrite map_its_in by (try apply (tl_nodup _ _ _ HTL); assumption). rewrite Hg. cbn [option_map].
    exists (patch_iter h e it). split; [reflexivity|split; [apply (patch_iter_own h e it)|left]]. split; [rewrite (proj1 (patch_iter_own h e it)); exact O|].
    rewrite (tinv_ids _ _ T), (tinv_ids _ _ T'), Hf. apply tcalm_remove; [apply T|].
    intros c Hc. rewrite <- (tinv_ids _ _ T). eapply C; eassumption.
  - rewrite map_its_notin by exact Hn. exists it. split; [exact Hg|split; [reflexivity|left; split; [exact O|]]].
    apply tcalm_no_cookie; [eapply unregistered_no_cookie; eassumption|rewrite Hf; apply Pos.le_refl|].
    intros n Hn'. left. rewrite (tinv_ids _ _ T') in Hn'. rewrite (tinv_ids _ _ T). apply in_app_or in Hn'. apply in_or_app. destruct Hn'; [left|right; right]; assumption.
Qed.

Lemma tscalm_clear : forall t dcap h I release, TL t h I ->
  tscalm t h I (fst (clear_tab dcap h I release)) (snd (clear_tab dcap h I release)).
Proof.
  intros t dcap h I release HTL i it Hg O. unfold clear_tab. cbn [fst snd]. rewrite detach_all_eq.
  destruct (in_dec Nat.eq_dec i (ilist h)) as [Hin|Hn].
  - rewrite map_its_in by (try apply (tl_nodup _ _ _ HTL); assumption). rewrite Hg. cbn [option_map].
    exists (detach_iter h it). split; [reflexivity|split; [reflexivity|right; split; reflexivity]].
  - rewrite map_its_notin by exact Hn. exists it. split; [exact Hg|split; [reflexivity|left; split; [exact O|]]].
    apply tcalm_no_cookie; [eapply unregistered_no_cookie; eassumption|apply Pos.le_refl|intros n []].
Qed.

Lemma ids_congr : forall h h', nodes h' = nodes h -> hd h' = hd h -> cnt h' = cnt h -> ids h' = ids h.
Proof.
  intros h h' En Eh Ec. unfold ids. rewrite Eh, Ec.
  assert (G : forall y, getn h' y = getn h y) by (intros; unfold getn; rewrite En; reflexivity).
  assert (W : forall fuel x, walk h' x fuel = walk h x fuel).
  { induction fuel as [|f IH]; intros x; [reflexivity|]. cbn [walk]. destruct x; [|reflexivity]. f_equal.
    unfold get_next. rewrite G. apply IH. }
  apply W.
Qed.

Lemma tscalm_ensure_size : forall t dcap h I req sh, TL t h I ->
  tscalm t h I (fst (fst (ensure_size dcap h I req sh))) (snd (fst (ensure_size dcap h I req sh))).
Proof.
  intros t dcap h I req sh HTL. unfold ensure_size.
  destruct (N.eqb _ (cap h)); [apply tscalm_refl|].
  destruct (N.eqb _ 0).
  - pose proof (tscalm_clear t dcap h I true HTL) as C. destruct (clear_tab dcap h I true). exact C.
  - destruct (N.eqb _ 4294967295); [apply tscalm_refl|]. cbn [fst snd]. apply tscalm_same; [apply ids_congr; reflexivity|reflexivity].
Qed.

(* ------------------------------------------------------------------ PutAux, calm cases *)

Lemma insert_entry_aux_meta : forall var h e, meta_eq h (insert_entry_aux var h e).
Proof.
  intros var h e. unfold insert_entry_aux.
  destruct var; [apply insert_same_data| |];
  (destruct (asort h); [|apply insert_same_data]; destruct (kv_of h e); [|apply insert_same_data];
   destruct (hd h); [|apply insert_same_data]; match goal with |- context [if ?c then _ else _] => destruct c end; apply insert_same_data).
Qed.

Lemma tscalm_put_new : forall var t h I l k v, TL t h I -> tinv h l -> find_id h k l = None ->
  let h1 := fst (alloc_node h k v) in
  let e := snd (alloc_node h k v) in
  let h2 := insert_entry_aux var h1 e in
  tscalm t h I (with_cnt h2 (cnt h2 + 1)) I.
Proof.
  intros var t h I l k v HTL T Hf h1 e h2.
  destruct (abs_insert_new var h l k v T Hf) as (m1 & m2 & El & T' & _ & _ & _ & _ & Ee & _).
  fold h1 e h2 in T', Ee.
  apply (tscalm_insert t h I _ m1 m2 HTL).
  - rewrite (tinv_ids h l T). exact El.
  - rewrite (tinv_ids _ _ T'), Ee. reflexivity.
  - cbn [fresh with_cnt]. destruct (insert_entry_aux_meta var h1 e) as (_ & _ & Mf & _). fold h2 in Mf. rewrite Mf. reflexivity.
Qed.

Section TP.
Variable var : variant.
Variable dcap : N.
Variable t : nat.

Lemma TL_ensure_allocated : forall h I, TL t h I -> TL t (ensure_allocated dcap h) I.
Proof. intros h I H. unfold ensure_allocated. destruct (N.eqb (cap h) 0); [apply TL_with_cap|]; exact H. Qed.

(* PutAux is calm when it does not reposition an existing entry: plain class, or a new key *)
Lemma tscalm_put_aux : forall h I k v, TL t h I ->
  (var = VPlain \/ find_key (ensure_allocated dcap h) k = None) ->
  tscalm t h I (pa_h (put_aux var dcap h I k v)) (pa_i (put_aux var dcap h I k v)).
Proof.
  intros h I k v HTL0 Hcalm. unfold put_aux.
  pose proof (TL_ensure_allocated h I HTL0) as HTL.
  assert (S0 : tscalm t h I (ensure_allocated dcap h) I).
  { apply tscalm_same; unfold ensure_allocated; destruct (N.eqb (cap h) 0); try reflexivity. apply ids_congr; reflexivity. }
  set (h0 := ensure_allocated dcap h) in *.
  destruct (tl_tinv _ _ _ HTL) as (l & T).
  destruct (find_key h0 k) as [e|] eqn:Ef.
  - destruct Hcalm as [Ev|Hn]; [|discriminate]. subst var. unfold reposition_aux, pa_h, pa_i. cbn [fst snd].
    destruct (find_key_some_in h0 l k e T Ef) as [He _].
    destruct (tinv_set_val h0 l e v T He) as (T1 & _).
    eapply tscalm_trans; [exact HTL0|apply frame_refl|exact S0|].
    apply tscalm_same; [rewrite (tinv_ids _ _ T1), (tinv_ids _ _ T); reflexivity|].
    destruct (meta_set_val h0 e v) as (_ & _ & Mf & _). exact Mf.
  - rewrite (tinv_find_key h0 l k T) in Ef.
    (* the optional growth step *)
    assert (ES : exists h00 I0 st, (if N.eqb (N.of_nat (cnt h0)) (cap h0) then ensure_size dcap h0 I (cap h0 * 2) false else (h0, I, 0)) = (h00, I0, st) /\
                 okstep t I (h00, I0) /\ tscalm t h0 I h00 I0 /\ exists l0, tinv h00 l0 /\ find_id h00 k l0 = None).
    { destruct (N.eqb (N.of_nat (cnt h0)) (cap h0)).
      - pose proof (ensure_size_ok t dcap h0 I (cap h0 * 2) false HTL) as O.
        pose proof (tscalm_ensure_size t dcap h0 I (cap h0 * 2) false HTL) as S.
        assert (F : exists l0, tinv (fst (fst (ensure_size dcap h0 I (cap h0 * 2) false))) l0 /\ find_id (fst (fst (ensure_size dcap h0 I (cap h0 * 2) false))) k l0 = None).
        { unfold ensure_size. destruct (N.eqb _ (cap h0)); [exists l; auto|]. destruct (N.eqb _ 0); [exists []; split; [apply tinv_empty|reflexivity]|].
          destruct (N.eqb _ 4294967295); [exists l; auto|]. exists l. cbn [fst]. split; [apply tinv_with_cap; exact T|rewrite find_id_with_cap; exact Ef]. }
        destruct (ensure_size dcap h0 I (cap h0 * 2) false) as [[h00 I0] st]. exists h00, I0, st. cbn [fst snd] in *. auto.
      - exists h0, I, 0. split; [reflexivity|split; [apply okstep_id; exact HTL|split; [apply tscalm_refl|exists l; auto]]]. }
    destruct ES as (h00 & I0 & st & -> & [HTL00 Fr] & S1 & l0 & T00 & Ef00). cbn [fst snd] in HTL00, Fr.
    pose proof (tscalm_put_new var t h00 I0 l0 k v HTL00 T00 Ef00) as S2. cbn zeta in S2.
    destruct (alloc_node h00 k v) as [h1 e] eqn:EA. cbn [fst snd] in S2. unfold pa_h, pa_i. cbn [fst snd].
    eapply tscalm_trans; [exact HTL0|exact Fr|exact S0|].
    eapply tscalm_trans; [exact HTL|apply frame_refl|exact S1|exact S2].
Qed.

(* ------------------------------------------------------------------ multi-removals *)

Lemma tscalm_remove_keys : forall ks h I, TL t h I ->
  tscalm t h I (fst (fst (remove_keys h I ks))) (snd (fst (remove_keys h I ks))).
Proof.
  intros ks. unfold remove_keys.
  assert (G : forall ks h0 I0 c0, TL t h0 I0 ->
     let r := fold_left (fun '(h, J, c) k => match find_key h k with
                                 | Some e => let '(h1, I1) := remove_entry h J e in (h1, I1, S c)
                                 | None => (h, J, c) end) ks (h0, I0, c0) in
     tscalm t h0 I0 (fst (fst r)) (snd (fst r))).
  { induction ks0 as [|k ks0 IH]; intros h0 I0 c0 HTL; [apply tscalm_refl|].
    cbn [fold_left]. destruct (find_key h0 k) as [e|] eqn:Ef; [|apply IH; exact HTL].
    destruct (tl_tinv _ _ _ HTL) as (l & T). destruct (find_key_split h0 l k e T Ef) as (l1 & l2 & El & _). subst l.
    pose proof (tscalm_remove_entry t h0 I0 e l1 l2 HTL T) as S1.
    assert (Hine : In e (l1 ++ e :: l2)) by (apply in_or_app; right; left; reflexivity).
    pose proof (remove_entry_TL t h0 I0 e HTL (lk_live _ _ (ti_linked _ _ T) e Hine)) as R.
    destruct (remove_entry h0 I0 e) as [h1 I1]. destruct R as [HTL1 F1]. cbn [fst snd] in S1.
    specialize (IH h1 I1 (S c0) HTL1). cbn zeta in IH.
    eapply tscalm_trans; [exact HTL| |exact S1|exact IH].
    (* the frame of the remaining removals *)
    pose proof (remove_keys_ok t ks0 h1 I1 HTL1) as O. unfold remove_keys in O.
    assert (Fg : forall kz hz Iz cz1 cz2, fst (fold_left (fun '(h, J, c) k => match find_key h k with
                                 | Some e => let '(h1, I1) := remove_entry h J e in (h1, I1, S c)
                                 | None => (h, J, c) end) kz (hz, Iz, cz1)) =
                                 fst (fold_left (fun '(h, J, c) k => match find_key h k with
                                 | Some e => let '(h1, I1) := remove_entry h J e in (h1, I1, S c)
                                 | None => (h, J, c) end) kz (hz, Iz, cz2))).
    { induction kz as [|k' ks' IHk]; intros h' I' c' c''; [reflexivity|]. cbn [fold_left].
      destruct (find_key h' k'); [destruct (remove_entry h' I' p)|]; apply IHk. }
    rewrite (Fg ks0 h1 I1 (S c0) 0). apply O. }
  intros h I HTL. apply (G ks h I 0 HTL).
Qed.

Lemma tscalm_intersect_ids : forall other l h I, TL t h I ->
  tscalm t h I (fst (fst (intersect_ids h I other l))) (snd (fst (intersect_ids h I other l))).
Proof.
  intros other l. unfold intersect_ids.
  assert (G : forall l h0 I0 c0, TL t h0 I0 ->
     let r := fold_left (fun '(h, J, c) e => match key_of h e with
                                 | Some k => match a_get other k with
                                             | Some _ => (h, J, c)
                                             | None => let '(h1, I1) := remove_entry h J e in (h1, I1, S c)
                                             end
                                 | None => (h, J, c) end) l (h0, I0, c0) in
     tscalm t h0 I0 (fst (fst r)) (snd (fst r)) /\ frame t I0 (snd (fst r))).
  { induction l0 as [|e l0 IH]; intros h0 I0 c0 HTL; [split; [apply tscalm_refl|apply frame_refl]|].
    cbn [fold_left]. destruct (key_of h0 e) as [k|] eqn:Ek; [|apply IH; exact HTL].
    destruct (a_get other k); [apply IH; exact HTL|].
    pose proof (key_of_live _ _ _ Ek) as Le.
    destruct (tl_tinv _ _ _ HTL) as (l1 & T). pose proof (ti_dom _ _ T e Le) as He. destruct (in_split _ _ He) as (a & b & ->).
    pose proof (tscalm_remove_entry t h0 I0 e a b HTL T) as S1.
    pose proof (remove_entry_TL t h0 I0 e HTL Le) as R.
    destruct (remove_entry h0 I0 e) as [h1 I1]. destruct R as [HTL1 F1]. cbn [fst snd] in S1.
    destruct (IH h1 I1 (S c0) HTL1) as [S2 F2]. cbn zeta in S2, F2.
    split; [eapply tscalm_trans; [exact HTL|exact F2|exact S1|exact S2]|eapply frame_trans; eassumption]. }
  intros h I HTL. apply (G l h I 0 HTL).
Qed.

End TP.
