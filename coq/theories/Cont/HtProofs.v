(* C09 -- proofs about the Hashtable model (HtModel.v / HtStep.v / HtIdeal.v). *)
From Coq Require Import List Arith ZArith NArith PArith Bool Lia FMapPositive.
From Muscle Require Import Cont.HtModel Cont.HtStep Cont.HtIdeal.
Import ListNotations.

Lemma upd_nth_length : forall A (l : list A) i x, length (upd_nth l i x) = length l.
Proof.
  intros A l i x. unfold upd_nth. destruct (i <? length l) eqn:E; [|reflexivity].
  apply Nat.ltb_lt in E. rewrite app_length, firstn_length. cbn [length]. rewrite skipn_length. lia.
Qed.
