(* C09 -- sanity of the ideal level (L0): the two order-dependent ideal operations of the auto-sorting
   classes only permute the pairs (nothing is lost or duplicated), and lookups depend on the set of
   pairs only. *)
From Coq Require Import List Arith ZArith NArith PArith Bool Lia Permutation.
From Muscle Require Import Cont.HtModel Cont.HtStep Cont.HtIdeal Cont.HtLemmas Cont.HtOrdered Cont.HtSorted.
Import ListNotations.

Lemma a_get_perm : forall (l l' : amap) k, NoDup (map fst l) -> Permutation l l' -> a_get l' k = a_get l k.
Proof.
  intros l l' k Hnd P. revert Hnd. induction P as [|[k1 v1] l l' P IH|[k1 v1] [k2 v2] l|l1 l2 l3 P1 IH1 P2 IH2]; intros Hnd.
  - reflexivity.
  - cbn [a_get]. cbn [map] in Hnd. inversion Hnd; subst. destruct (Z.eqb k1 k); [reflexivity|apply IH; assumption].
  - cbn [a_get]. cbn [map fst] in Hnd. inversion Hnd as [|? ? H1 H2]; subst.
    destruct (Z.eqb k1 k) eqn:E1; destruct (Z.eqb k2 k) eqn:E2; try reflexivity.
    apply Z.eqb_eq in E1. apply Z.eqb_eq in E2. subst. exfalso. apply H1. left; reflexivity.
  - rewrite IH2; [apply IH1; exact Hnd|]. eapply Permutation_NoDup; [apply Permutation_map; exact P1|exact Hnd].
Qed.

Lemma insert_ordered_perm : forall var l kv, Permutation (kv :: l) (l0_insert_ordered var l kv).
Proof.
  intros var l kv. unfold l0_insert_ordered. destruct l as [|x r]; [apply Permutation_refl|].
  destruct (is_lt (cmpv var kv x)); [apply Permutation_refl|].
  set (f := fun y => is_lt (cmpv var kv y)). fold (suf_of f (x :: r)). rewrite firstn_pre.
  rewrite <- (pre_suf _ f (x :: r)) at 1. apply Permutation_middle.
Qed.

Lemma insert_new_perm : forall var l srt kv, Permutation (kv :: l) (l0_insert_new var l srt kv).
Proof.
  intros var l srt kv. unfold l0_insert_new.
  assert (A : Permutation (kv :: l) (l ++ [kv])) by (apply Permutation_cons_append).
  destruct var; [exact A| |]; (destruct srt; [apply insert_ordered_perm|exact A]).
Qed.

Lemma a_index_split : forall (l : amap) k i v, a_index l k 0 = Some i -> a_get l k = Some v ->
  l = firstn i l ++ (k, v) :: skipn (S i) l.
Proof.
  assert (G : forall (l : amap) k j i v, a_index l k j = Some i -> a_get l k = Some v ->
              j <= i /\ l = firstn (i - j) l ++ (k, v) :: skipn (S (i - j)) l).
  { induction l as [|[k' v'] l IH]; intros k j i v Hi Hg; [discriminate|]. cbn [a_index a_get] in *.
    destruct (Z.eqb k' k) eqn:E.
    - apply Z.eqb_eq in E. subst k'. inversion Hi; subst. inversion Hg; subst. split; [lia|]. rewrite Nat.sub_diag. reflexivity.
    - destruct (IH k (S j) i v Hi Hg) as [Hle El]. split; [lia|].
      replace (i - j) with (S (i - S j)) by lia. cbn [firstn skipn app]. f_equal. exact El. }
  intros l k i v Hi Hg. destruct (G l k 0 i v Hi Hg) as [_ E]. rewrite Nat.sub_0_r in E. exact E.
Qed.

Lemma reposition_ordered_perm : forall var l k, Permutation l (l0_reposition_ordered var l k).
Proof.
  intros var l k. unfold l0_reposition_ordered.
  destruct (a_index l k 0) as [i|] eqn:Ei; [|apply Permutation_refl].
  destruct (a_get l k) as [v|] eqn:Eg; [|apply Permutation_refl].
  pose proof (a_index_split l k i v Ei Eg) as El.
  set (pre := firstn i l) in *. set (post := skipn (S i) l) in *. set (kv := (k, v)) in *.
  assert (Back : Permutation l
     (match post with
      | [] => l
      | y :: _ =>
        if is_gt (cmpv var kv y) then
          match last_opt l with
          | Some z => if is_gt (cmpv var kv z) then pre ++ post ++ [kv]
                      else pre ++ take_while (fun x => is_gt (cmpv var kv x)) post ++ kv :: skipn (length (take_while (fun x => is_gt (cmpv var kv x)) post)) post
          | None => l
          end
        else l
      end)).
  { destruct post as [|y post'] eqn:Ep; [apply Permutation_refl|]. destruct (is_gt (cmpv var kv y)); [|apply Permutation_refl].
    destruct (last_opt l); [|apply Permutation_refl]. destruct (is_gt (cmpv var kv p)).
    - rewrite El at 1. apply Permutation_app_head. apply Permutation_cons_append.
    - rewrite El at 1. apply Permutation_app_head.
      set (s := take_while (fun x => is_gt (cmpv var kv x)) (y :: post')).
      assert (Es : y :: post' = s ++ skipn (length s) (y :: post')).
      { unfold s. rewrite skipn_take_while. symmetry. apply take_drop_while. }
      rewrite Es at 1. apply Permutation_middle. }
  destruct (last_opt pre) as [b|]; [|exact Back].
  destruct (is_lt (cmpv var kv b)); [|exact Back].
  destruct l as [|x l'] eqn:Ell; [apply Permutation_refl|]. rewrite <- Ell in *.
  destruct (is_lt (cmpv var kv x)).
  - rewrite El at 1. apply Permutation_sym, Permutation_middle.
  - set (f := fun y => is_lt (cmpv var kv y)). fold (suf_of f pre). rewrite firstn_pre.
    rewrite El at 1. rewrite <- (pre_suf _ f pre) at 1. rewrite <- app_assoc.
    apply Permutation_app_head. apply Permutation_sym. rewrite app_comm_cons. apply Permutation_sym.
    change (suf_of f pre ++ kv :: post) with (suf_of f pre ++ [kv] ++ post). rewrite app_assoc.
    change (kv :: suf_of f pre ++ post) with ((kv :: suf_of f pre) ++ post). apply Permutation_app_tail.
    apply Permutation_sym, Permutation_cons_append.
Qed.

Lemma reposition_perm : forall var l k, Permutation l (l0_reposition var l k).
Proof. intros var l k. unfold l0_reposition. destruct var; [apply Permutation_refl| |]; apply reposition_ordered_perm. Qed.

(* ------------------------------------------------------------------ Put / Get / Remove are the map laws *)

Lemma l0_ensure_pairs : forall dcap x req sh, pairs (fst (l0_ensure dcap x req sh)) = pairs x.
Proof.
  intros dcap x req sh. unfold l0_ensure. destruct (N.eqb _ (acap x)); [reflexivity|].
  destruct (N.eqb (N.max (N.of_nat (length (pairs x))) _) 0) eqn:E; [|destruct (N.eqb _ 4294967295); reflexivity].
  apply N.eqb_eq in E. cbn [fst pairs]. destruct (pairs x); [reflexivity|cbn [length] in E; lia].
Qed.

Lemma a_get_a_set_same : forall (l : amap) k v, a_get l k <> None -> a_get (a_set l k v) k = Some v.
Proof.
  induction l as [|[k' v'] l IH]; intros k v H; [exfalso; apply H; reflexivity|]. cbn [a_get a_set] in *.
  destruct (Z.eqb k' k) eqn:E; cbn [a_get]; rewrite E; [reflexivity|apply IH; exact H].
Qed.

Lemma a_get_a_set_other : forall (l : amap) k v k', k' <> k -> a_get (a_set l k v) k' = a_get l k'.
Proof.
  induction l as [|[k1 v1] l IH]; intros k v k' H; [reflexivity|]. cbn [a_get a_set].
  destruct (Z.eqb k1 k) eqn:E; cbn [a_get].
  - apply Z.eqb_eq in E. subst k1. assert (E2 : Z.eqb k k' = false) by (apply Z.eqb_neq; congruence). rewrite E2. reflexivity.
  - destruct (Z.eqb k1 k'); [reflexivity|apply IH; exact H].
Qed.

Lemma keys_a_set : forall (l : amap) k v, map fst (a_set l k v) = map fst l.
Proof.
  induction l as [|[k1 v1] l IH]; intros k v; [reflexivity|]. cbn [a_set]. destruct (Z.eqb k1 k); cbn [map fst]; [reflexivity|f_equal; apply IH].
Qed.

Lemma a_get_none_notin : forall (l : amap) k, a_get l k = None -> ~ In k (map fst l).
Proof.
  induction l as [|[k1 v1] l IH]; intros k H Hin; [destruct Hin|]. cbn [a_get map fst] in *.
  destruct (Z.eqb k1 k) eqn:E; [discriminate|]. apply Z.eqb_neq in E. destruct Hin as [Hin|Hin]; [congruence|apply (IH k H Hin)].
Qed.

(* the pairs after the ideal Put are a permutation of the textbook result *)
Lemma l0_put_perm : forall var dcap x k v,
  Permutation (match a_get (pairs x) k with Some _ => a_set (pairs x) k v | None => (k, v) :: pairs x end)
              (pairs (fst (l0_put var dcap x k v))).
Proof.
  intros var dcap x0 k v. unfold l0_put.
  set (x := if N.eqb (acap x0) 0 then mkT0 (pairs x0) dcap (aasort x0) else x0).
  assert (Ep : pairs x = pairs x0) by (unfold x; destruct (N.eqb (acap x0) 0); reflexivity).
  rewrite <- Ep. destruct (a_get (pairs x) k) as [old|].
  - cbn [fst pairs with_pairs]. apply reposition_perm.
  - cbn [fst pairs with_pairs].
    set (x1 := if N.eqb (N.of_nat (length (pairs x))) (acap x) then fst (l0_ensure dcap x (acap x * 2) false) else x).
    assert (E1 : pairs x1 = pairs x) by (unfold x1; destruct (N.eqb _ (acap x)); [apply l0_ensure_pairs|reflexivity]).
    rewrite <- E1. apply insert_new_perm.
Qed.

Theorem l0_put_get_same : forall var dcap x k v, NoDup (map fst (pairs x)) ->
  a_get (pairs (fst (l0_put var dcap x k v))) k = Some v.
Proof.
  intros var dcap x k v Hnd. pose proof (l0_put_perm var dcap x k v) as P.
  destruct (a_get (pairs x) k) as [old|] eqn:Eg.
  - rewrite (a_get_perm _ _ k ltac:(rewrite keys_a_set; exact Hnd) P). apply a_get_a_set_same. rewrite Eg. discriminate.
  - assert (Hnd' : NoDup (map fst ((k, v) :: pairs x))) by (cbn [map fst]; constructor; [apply a_get_none_notin; exact Eg|exact Hnd]).
    rewrite (a_get_perm _ _ k Hnd' P). cbn [a_get]. rewrite Z.eqb_refl. reflexivity.
Qed.

Theorem l0_put_get_other : forall var dcap x k v k', NoDup (map fst (pairs x)) -> k' <> k ->
  a_get (pairs (fst (l0_put var dcap x k v))) k' = a_get (pairs x) k'.
Proof.
  intros var dcap x k v k' Hnd Hk. pose proof (l0_put_perm var dcap x k v) as P.
  destruct (a_get (pairs x) k) as [old|] eqn:Eg.
  - rewrite (a_get_perm _ _ k' ltac:(rewrite keys_a_set; exact Hnd) P). apply a_get_a_set_other. exact Hk.
  - assert (Hnd' : NoDup (map fst ((k, v) :: pairs x))) by (cbn [map fst]; constructor; [apply a_get_none_notin; exact Eg|exact Hnd]).
    rewrite (a_get_perm _ _ k' Hnd' P). cbn [a_get]. assert (E : Z.eqb k k' = false) by (apply Z.eqb_neq; congruence). rewrite E. reflexivity.
Qed.

Theorem a_remove_get_same : forall (l : amap) k, NoDup (map fst l) -> a_get (a_remove l k) k = None.
Proof.
  induction l as [|[k1 v1] l IH]; intros k Hnd; [reflexivity|]. cbn [a_remove map fst] in *. inversion Hnd as [|? ? Hk Hnd']; subst.
  destruct (Z.eqb k1 k) eqn:E.
  - apply Z.eqb_eq in E. subst k1. destruct (a_get l k) eqn:Eg; [|reflexivity]. exfalso. apply Hk.
    clear - Eg. induction l as [|[k2 v2] l IHl]; [discriminate|]. cbn [a_get map fst] in *. destruct (Z.eqb k2 k) eqn:E2; [apply Z.eqb_eq in E2; left; exact E2|right; apply IHl; exact Eg].
  - cbn [a_get]. rewrite E. apply IH. exact Hnd'.
Qed.

Theorem a_remove_get_other : forall (l : amap) k k', k' <> k -> a_get (a_remove l k) k' = a_get l k'.
Proof.
  induction l as [|[k1 v1] l IH]; intros k k' H; [reflexivity|]. cbn [a_remove a_get].
  destruct (Z.eqb k1 k) eqn:E.
  - apply Z.eqb_eq in E. subst k1. assert (E2 : Z.eqb k k' = false) by (apply Z.eqb_neq; congruence). rewrite E2. reflexivity.
  - cbn [a_get]. destruct (Z.eqb k1 k'); [reflexivity|apply IH; exact H].
Qed.
