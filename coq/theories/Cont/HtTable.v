(* C09 -- table-local invariant [TL] (one table together with the iterators it owns), the frame
   relation between iterator tables, and preservation by the primitives of HtModel. *)
From Coq Require Import List Arith ZArith NArith PArith Bool Lia FMapPositive.
From Muscle Require Import Cont.HtModel Cont.HtLemmas Cont.HtRepr Cont.HtWalk Cont.HtIters.
Import ListNotations.

Record TL (t : nat) (h : ht) (I : itab) : Prop := mkTL {
  tl_tinv : exists l, tinv h l;
  tl_nodup : NoDup (ilist h);
  tl_reg : forall i, In i (ilist h) -> exists it, geti I i = Some it /\ iown it = Some t /\ inoreg it = false;
  tl_own : forall i it, geti I i = Some it -> iown it = Some t ->
             (inoreg it = false -> In i (ilist h)) /\
             (forall c, icookie it = Some c -> inoreg it = false /\ live h c) }.

Record frame (t : nat) (I I' : itab) : Prop := mkFrame {
  fr_len : length I' = length I;
  fr_none : forall i, geti I i = None -> geti I' i = None;
  fr_other : forall i it, geti I i = Some it -> iown it <> Some t -> geti I' i = Some it;
  fr_mine : forall i it, geti I i = Some it -> iown it = Some t ->
              exists it', geti I' i = Some it' /\ (iown it' = Some t \/ (iown it' = None /\ icookie it' = None)) }.

Lemma frame_refl : forall t I, frame t I I.
Proof. intros. constructor; auto. intros i it H O. exists it. auto. Qed.

Lemma frame_trans : forall t A B C, frame t A B -> frame t B C -> frame t A C.
Proof.
  intros t A B C [L1 N1 O1 M1] [L2 N2 O2 M2]. constructor.
  - congruence.
  - auto.
  - intros i it H O. apply O2; auto.
  - intros i it H O. destruct (M1 i it H O) as (it' & H' & [O'|[O' C']]).
    + apply (M2 i it' H' O').
    + exists it'. split; [apply O2; [exact H'|congruence]|right; auto].
Qed.

(* ------------------------------------------------------------------ extensionality of [linked] / [tinv] *)

Lemma linked_ext : forall h h' l, linked h l -> hd h' = hd h -> tl h' = tl h ->
  (forall y, In y l -> getn h' y = getn h y) -> linked h' l.
Proof.
  intros h h' l [Lhd Ltl Lnd Llive Lnext Lprev] Hh Ht Hg. constructor.
  - congruence.
  - congruence.
  - exact Lnd.
  - intros e He. unfold live. rewrite Hg by exact He. apply Llive; exact He.
  - intros e He. unfold get_next. rewrite Hg by exact He. apply Lnext; exact He.
  - intros e He. unfold get_prev. rewrite Hg by exact He. apply Lprev; exact He.
Qed.

Lemma getn_remove : forall h e y, getn (with_nodes h (PositiveMap.remove e (nodes h))) y = if Pos.eqb y e then None else getn h y.
Proof.
  intros. unfold getn, with_nodes. cbn. destruct (Pos.eqb y e) eqn:E.
  - apply Pos.eqb_eq in E; subst. apply PositiveMap.grs.
  - apply Pos.eqb_neq in E. apply PositiveMap.gro. congruence.
Qed.

Lemma keyf_ext : forall h h' y, getn h' y = getn h y -> kvf h' y = kvf h y.
Proof. intros h h' y E. unfold kvf, kv_of. rewrite E. reflexivity. Qed.

Lemma map_ext_in' : forall A B (f g : A -> B) l, (forall x, In x l -> f x = g x) -> map f l = map g l.
Proof. intros. apply map_ext_in. assumption. Qed.

(* ------------------------------------------------------------------ RemoveEntry *)

Lemma subseq_in_list : forall h l e bw c, linked h l -> In e l -> subseq h (Some e) bw = Some c -> In c l /\ c <> e.
Proof.
  intros h l e bw c L He H. cbn [subseq] in H. destruct bw.
  - rewrite (lk_prev _ _ L) in H by exact He.
    destruct (in_split _ _ He) as (l1 & l2 & ->). pose proof (lk_nodup _ _ L) as Hnd.
    destruct (nodup_split_notin _ _ _ Hnd) as [H1 H2]. rewrite prev_in_mid in H by exact H1.
    apply last_of_in in H. split; [apply in_or_app; left; exact H|intro; subst; contradiction].
  - rewrite (lk_next _ _ L) in H by exact He.
    destruct (in_split _ _ He) as (l1 & l2 & ->). pose proof (lk_nodup _ _ L) as Hnd.
    destruct (nodup_split_notin _ _ _ Hnd) as [H1 H2]. rewrite next_in_mid in H by exact H1.
    apply head_opt_in in H. split; [apply in_or_app; right; right; exact H|intro; subst; contradiction].
Qed.

Lemma patch_iter_own : forall h e it, iown (patch_iter h e it) = iown it /\ inoreg (patch_iter h e it) = inoreg it /\ ibw (patch_iter h e it) = ibw it.
Proof. intros. unfold patch_iter. destruct (opt_pos_eqb (icookie it) (Some e)); cbn; auto. Qed.

Lemma frame_map_its : forall t f L I,
  NoDup L ->
  (forall i it, In i L -> geti I i = Some it -> iown it = Some t) ->
  (forall it, iown it = Some t -> iown (f it) = Some t \/ (iown (f it) = None /\ icookie (f it) = None)) ->
  frame t I (map_its f L I).
Proof.
  intros t f L I Hnd Hown Hf. constructor.
  - apply map_its_length.
  - intros i H. destruct (in_dec Nat.eq_dec i L) as [Hin|Hn].
    + rewrite map_its_in by assumption. rewrite H. reflexivity.
    + rewrite map_its_notin by assumption. exact H.
  - intros i it H O. destruct (in_dec Nat.eq_dec i L) as [Hin|Hn].
    + exfalso. apply O. eapply Hown; eauto.
    + rewrite map_its_notin by assumption. exact H.
  - intros i it H O. destruct (in_dec Nat.eq_dec i L) as [Hin|Hn].
    + rewrite map_its_in by assumption. rewrite H. cbn. exists (f it). split; [reflexivity|apply Hf; exact O].
    + rewrite map_its_notin by assumption. exists it. auto.
Qed.

Lemma tinv_remove_entry : forall h l1 l2 e, tinv h (l1 ++ e :: l2) ->
  let h1 := unlink h e in
  let h' := with_cnt (with_nodes h1 (PositiveMap.remove e (nodes h1))) (cnt h1 - 1) in
  tinv h' (l1 ++ l2) /\ (forall y, y <> e -> getn h' y = getn h1 y) /\ ~ live h' e /\
  (forall y, y <> e -> kvf h' y = kvf h y) /\ (forall y, live h' y <-> (live h y /\ y <> e)) /\
  cap h' = cap h /\ fresh h' = fresh h /\ asort h' = asort h /\ ilist h' = ilist h.
Proof.
  intros h l1 l2 e T h1 h'.
  destruct (unlink_linked h l1 l2 e (ti_linked _ _ T)) as (L1 & S1 & M1 & _ & _). fold h1 in L1, S1, M1.
  destruct M1 as (Mc & Mcap & Mf & Ma & Mi).
  pose proof (lk_nodup _ _ (ti_linked _ _ T)) as Hnd. destruct (nodup_split_notin _ _ _ Hnd) as [Hn1 Hn2].
  assert (G : forall y, getn h' y = if Pos.eqb y e then None else getn h1 y).
  { intros y. unfold h'. rewrite getn_with_cnt. apply getn_remove. }
  assert (Gne : forall y, y <> e -> getn h' y = getn h1 y).
  { intros y Hy. rewrite G. apply Pos.eqb_neq in Hy. rewrite Hy. reflexivity. }
  assert (Lv : forall y, live h' y <-> (live h y /\ y <> e)).
  { intros y. unfold live at 1. rewrite G. destruct (Pos.eqb y e) eqn:E.
    - apply Pos.eqb_eq in E. split; [congruence|tauto].
    - apply Pos.eqb_neq in E. split.
      + intro H. split; [apply S1; exact H|exact E].
      + intros [H _]. apply S1. exact H. }
  assert (Kv : forall y, y <> e -> kvf h' y = kvf h y).
  { intros y Hy. rewrite (keyf_ext h1 h' y (Gne y Hy)). apply kvf_same_data. exact S1. }
  split; [|split; [exact Gne|split; [intro H; apply Lv in H; tauto|split; [exact Kv|split; [exact Lv|]]]]].
  - constructor.
    + apply (linked_ext h1 h' _ L1); try reflexivity.
      intros y Hy. apply Gne. intro; subst. apply in_app_or in Hy. tauto.
    + unfold h'. cbn [cnt with_cnt]. rewrite Mc, (ti_cnt _ _ T). rewrite !app_length. cbn [length]. lia.
    + intros y Hy. apply Lv in Hy. destruct Hy as [Hy Hne]. apply (ti_dom _ _ T) in Hy.
      apply in_app_or in Hy. apply in_or_app. destruct Hy as [Hy|[Hy|Hy]]; [left; exact Hy|congruence|right; exact Hy].
    + intros y Hy. apply Lv in Hy. destruct Hy as [Hy _]. apply (ti_fresh _ _ T) in Hy.
      unfold h'. cbn. rewrite Mf. exact Hy.
    + pose proof (ti_keys _ _ T) as Hk. rewrite map_app in Hk. cbn [map] in Hk.
      apply NoDup_remove_1 in Hk. rewrite <- map_app in Hk.
      rewrite (map_ext_in' _ _ (keyf h') (keyf h)); [exact Hk|].
      intros y Hy. unfold keyf. rewrite Kv; [reflexivity|]. intro; subst. apply in_app_or in Hy. tauto.
  - unfold h'. cbn. auto.
Qed.

Lemma remove_entry_TL : forall t h I e, TL t h I -> live h e ->
  let '(h', I') := remove_entry h I e in TL t h' I' /\ frame t I I'.
Proof.
  intros t h I e [(l & T) Hnd Hreg Hown] Le.
  pose proof (ti_dom _ _ T e Le) as He. destruct (in_split _ _ He) as (l1 & l2 & ->).
  unfold remove_entry, remove_iter_entry.
  destruct (tinv_remove_entry h l1 l2 e T) as (T' & Gne & Nle & Kv & Lv & Hcap & Hfr & Has & Hil).
  set (h' := with_cnt (with_nodes (unlink h e) (PositiveMap.remove e (nodes (unlink h e)))) (cnt (unlink h e) - 1)) in *.
  rewrite patch_all_eq.
  assert (Fr : frame t I (map_its (patch_iter h e) (ilist h) I)).
  { apply frame_map_its; [exact Hnd| |].
    - intros i it Hi Hg. destruct (Hreg i Hi) as (it0 & Hg0 & O & _). congruence.
    - intros it O. left. rewrite (proj1 (patch_iter_own h e it)). exact O. }
  split; [|exact Fr].
  constructor.
  - exists (l1 ++ l2). exact T'.
  - rewrite Hil. exact Hnd.
  - rewrite Hil. intros i Hi. destruct (Hreg i Hi) as (it & Hg & O & R).
    exists (patch_iter h e it). rewrite map_its_in by assumption. rewrite Hg. cbn.
    destruct (patch_iter_own h e it) as (A & B & _). split; [reflexivity|split; congruence].
  - rewrite Hil. intros i it' Hg' O'.
    destruct (in_dec Nat.eq_dec i (ilist h)) as [Hin|Hn].
    + rewrite map_its_in in Hg' by assumption. destruct (geti I i) as [it|] eqn:Hg; [|discriminate].
      cbn in Hg'. inversion Hg'; subst it'. clear Hg'.
      destruct (patch_iter_own h e it) as (A & B & _). rewrite A in O'.
      destruct (Hown i it Hg O') as [HR HC].
      split; [intros; exact Hin|].
      intros c Hc. rewrite B. unfold patch_iter in Hc.
      destruct (opt_pos_eqb (icookie it) (Some e)) eqn:Ec.
      * cbn in Hc. apply opt_pos_eqb_true in Ec. destruct (HC e Ec) as [R _]. split; [exact R|].
        rewrite Ec in Hc. destruct (subseq_in_list h _ e (ibw it) c (ti_linked _ _ T) He Hc) as [Hcl Hce].
        apply Lv. split; [apply (lk_live _ _ (ti_linked _ _ T)); exact Hcl|exact Hce].
      * destruct (HC c Hc) as [R Lc]. split; [exact R|]. apply Lv. split; [exact Lc|].
        intro; subst. apply opt_pos_eqb_false in Ec. congruence.
    + rewrite map_its_notin in Hg' by assumption. destruct (Hown i it' Hg' O') as [HR HC].
      split; [exact HR|]. intros c Hc. destruct (HC c Hc) as [R Lc]. exfalso. apply Hn. apply HR. exact R.
Qed.

(* ------------------------------------------------------------------ generic preservation *)

Lemma TL_same_I : forall t h h' I, TL t h I -> (exists l', tinv h' l') -> ilist h' = ilist h ->
  (forall c, live h c -> live h' c) -> TL t h' I.
Proof.
  intros t h h' I [HT Hnd Hreg Hown] HT' Hil Hl. constructor.
  - exact HT'.
  - rewrite Hil; exact Hnd.
  - rewrite Hil; exact Hreg.
  - rewrite Hil. intros i it Hg O. destruct (Hown i it Hg O) as [A B]. split; [exact A|].
    intros c Hc. destruct (B c Hc). split; [assumption|apply Hl; assumption].
Qed.

Lemma TL_patch : forall t h h' I e l, TL t h I -> tinv h l -> In e l -> (exists l', tinv h' l') ->
  ilist h' = ilist h -> (forall c, live h c -> live h' c) ->
  TL t h' (patch_all h e I) /\ frame t I (patch_all h e I).
Proof.
  intros t h h' I e l [_ Hnd Hreg Hown] T He HT' Hil Hl.
  rewrite patch_all_eq.
  assert (Fr : frame t I (map_its (patch_iter h e) (ilist h) I)).
  { apply frame_map_its; [exact Hnd| |].
    - intros i it Hi Hg. destruct (Hreg i Hi) as (it0 & Hg0 & O & _). congruence.
    - intros it O. left. rewrite (proj1 (patch_iter_own h e it)). exact O. }
  split; [|exact Fr]. constructor.
  - exact HT'.
  - rewrite Hil; exact Hnd.
  - rewrite Hil. intros i Hi. destruct (Hreg i Hi) as (it & Hg & O & R).
    exists (patch_iter h e it). rewrite map_its_in by assumption. rewrite Hg. cbn.
    destruct (patch_iter_own h e it) as (A & B & _). split; [reflexivity|split; congruence].
  - rewrite Hil. intros i it' Hg' O'.
    destruct (in_dec Nat.eq_dec i (ilist h)) as [Hin|Hn].
    + rewrite map_its_in in Hg' by assumption. destruct (geti I i) as [it|] eqn:Hg; [|discriminate].
      cbn in Hg'. inversion Hg'; subst it'. clear Hg'.
      destruct (patch_iter_own h e it) as (A & B & _). rewrite A in O'.
      destruct (Hown i it Hg O') as [HR HC].
      split; [intros; exact Hin|].
      intros c Hc. rewrite B. unfold patch_iter in Hc.
      destruct (opt_pos_eqb (icookie it) (Some e)) eqn:Ec.
      * cbn in Hc. apply opt_pos_eqb_true in Ec. destruct (HC e Ec) as [R _]. split; [exact R|].
        rewrite Ec in Hc. destruct (subseq_in_list h _ e (ibw it) c (ti_linked _ _ T) He Hc) as [Hcl Hce].
        apply Hl. apply (lk_live _ _ (ti_linked _ _ T)); exact Hcl.
      * destruct (HC c Hc) as [R Lc]. split; [exact R|apply Hl; exact Lc].
    + rewrite map_its_notin in Hg' by assumption. destruct (Hown i it' Hg' O') as [HR HC].
      split; [exact HR|]. intros c Hc. destruct (HC c Hc) as [R Lc]. exfalso. apply Hn. apply HR. exact R.
Qed.

(* ------------------------------------------------------------------ moving an entry: unlink + insert *)

From Coq Require Import Permutation.

Lemma tinv_same_data_perm : forall h h' l l', tinv h l -> linked h' l' -> Permutation l l' ->
  same_data h h' -> meta_eq h h' -> tinv h' l'.
Proof.
  intros h h' l l' T L' P [K Lv] (Mc & Mcap & Mf & Ma & Mi). constructor.
  - exact L'.
  - rewrite Mc, (ti_cnt _ _ T). apply Permutation_length. exact P.
  - intros e He. apply Lv in He. apply (ti_dom _ _ T) in He. eapply Permutation_in; eassumption.
  - intros e He. apply Lv in He. rewrite Mf. apply (ti_fresh _ _ T). exact He.
  - assert (E : map (keyf h') l' = map (keyf h) l').
    { apply map_ext. intros y. unfold keyf, kvf. rewrite K. reflexivity. }
    rewrite E. eapply Permutation_NoDup; [apply Permutation_map; exact P|apply (ti_keys _ _ T)].
Qed.

Lemma tinv_move : forall h l1 l2 m1 m2 e, tinv h (l1 ++ e :: l2) -> l1 ++ l2 = m1 ++ m2 ->
  let h' := insert_iter_entry (unlink h e) e (last_of m1) in
  tinv h' (m1 ++ e :: m2) /\ same_data h h' /\ meta_eq h h'.
Proof.
  intros h l1 l2 m1 m2 e T E h'.
  destruct (unlink_linked h l1 l2 e (ti_linked _ _ T)) as (L1 & S1 & M1 & _ & _).
  pose proof (lk_nodup _ _ (ti_linked _ _ T)) as Hnd. destruct (nodup_split_notin _ _ _ Hnd) as [Hn1 Hn2].
  assert (Le1 : live (unlink h e) e).
  { apply S1. apply (lk_live _ _ (ti_linked _ _ T)). apply in_or_app; right; left; reflexivity. }
  rewrite E in L1.
  assert (Hne : ~ In e (m1 ++ m2)) by (rewrite <- E; intro H; apply in_app_or in H; tauto).
  destruct (insert_linked (unlink h e) m1 m2 e L1 Hne Le1) as (L2 & S2 & M2). fold h' in L2, S2, M2.
  assert (S : same_data h h') by (eapply same_data_trans; eassumption).
  assert (M : meta_eq h h') by (eapply meta_eq_trans; eassumption).
  split; [|split; assumption].
  eapply tinv_same_data_perm; try eassumption.
  apply Permutation_trans with (e :: l1 ++ l2).
  - apply Permutation_sym, Permutation_middle.
  - rewrite E. apply Permutation_middle.
Qed.

Lemma split_behind : forall (l : list positive) behind,
  (behind = None \/ exists b, behind = Some b /\ In b l) ->
  exists m1 m2, l = m1 ++ m2 /\ behind = last_of m1.
Proof.
  intros l behind [->|(b & -> & Hb)].
  - exists [], l. split; reflexivity.
  - destruct (in_split _ _ Hb) as (p & q & ->). exists (p ++ [b]), q. split.
    + rewrite <- app_assoc. reflexivity.
    + rewrite last_of_snoc. reflexivity.
Qed.

Lemma move_TL : forall t h I e behind l, TL t h I -> tinv h l -> In e l ->
  (behind = None \/ exists b, behind = Some b /\ In b l /\ b <> e) ->
  let '(h1, I1) := remove_iter_entry h I e in
  TL t (insert_iter_entry h1 e behind) I1 /\ frame t I I1.
Proof.
  intros t h I e behind l HTL T He Hb. unfold remove_iter_entry.
  destruct (in_split _ _ He) as (l1 & l2 & ->).
  pose proof (lk_nodup _ _ (ti_linked _ _ T)) as Hnd. destruct (nodup_split_notin _ _ _ Hnd) as [Hn1 Hn2].
  assert (Hb' : behind = None \/ exists b, behind = Some b /\ In b (l1 ++ l2)).
  { destruct Hb as [->|(b & -> & Hin & Hne)]; [left; reflexivity|right]. exists b. split; [reflexivity|].
    apply in_app_or in Hin. apply in_or_app. destruct Hin as [Hin|[Hin|Hin]]; [left; exact Hin|congruence|right; exact Hin]. }
  destruct (split_behind _ _ Hb') as (m1 & m2 & E & ->).
  destruct (tinv_move h l1 l2 m1 m2 e T E) as (T' & [K Lv] & (Mc & Mcap & Mf & Ma & Mi)).
  eapply TL_patch; try eassumption.
  - eexists; exact T'.
  - intros c Hc. apply Lv. exact Hc.
Qed.

(* ------------------------------------------------------------------ value update *)

Lemma tinv_set_val : forall h l e v, tinv h l -> In e l ->
  tinv (set_val h e v) l /\ (forall y, live (set_val h e v) y <-> live h y) /\
  kvf (set_val h e v) e = (keyf h e, v) /\ (forall y, y <> e -> kvf (set_val h e v) y = kvf h y).
Proof.
  intros h l e v T He.
  assert (Le : live h e) by (apply (lk_live _ _ (ti_linked _ _ T)); exact He).
  assert (Kv : forall y, kvf (set_val h e v) y = if Pos.eqb y e then (keyf h e, v) else kvf h y).
  { intros y. unfold kvf at 1. rewrite kv_of_set_val. destruct (Pos.eqb y e); [|reflexivity].
    rewrite (kv_of_live h e Le). reflexivity. }
  split; [|split; [intro; apply live_set_val|split]].
  - destruct (ti_linked _ _ T) as [Lhd Ltl Lnd Llive Lnext Lprev]. constructor.
    + constructor.
      * rewrite hd_set_val; exact Lhd.
      * rewrite tl_set_val; exact Ltl.
      * exact Lnd.
      * intros y Hy. apply live_set_val. apply Llive; exact Hy.
      * intros y Hy. rewrite get_next_set_val. apply Lnext; exact Hy.
      * intros y Hy. rewrite get_prev_set_val. apply Lprev; exact Hy.
    + destruct (meta_set_val h e v) as (Mc & _). rewrite Mc. apply T.
    + intros y Hy. apply live_set_val in Hy. apply (ti_dom _ _ T); exact Hy.
    + intros y Hy. apply live_set_val in Hy. destruct (meta_set_val h e v) as (_ & _ & Mf & _). rewrite Mf. apply (ti_fresh _ _ T); exact Hy.
    + assert (E : map (keyf (set_val h e v)) l = map (keyf h) l).
      { apply map_ext. intros y. unfold keyf at 1. rewrite Kv. destruct (Pos.eqb y e) eqn:Ey; [|reflexivity].
        apply Pos.eqb_eq in Ey; subst. reflexivity. }
      rewrite E. apply T.
  - rewrite Kv, Pos.eqb_refl. reflexivity.
  - intros y Hy. rewrite Kv. apply Pos.eqb_neq in Hy. rewrite Hy. reflexivity.
Qed.

(* ------------------------------------------------------------------ a new entry *)

Lemma pos_lt_irrefl' : forall p : positive, ~ (p < p)%positive.
Proof. intros p. apply Pos.lt_irrefl. Qed.

Lemma tinv_insert_new : forall h l m1 m2 k v, tinv h l -> l = m1 ++ m2 -> find_id h k l = None ->
  let '(h1, e) := alloc_node h k v in
  let h' := with_cnt (insert_iter_entry h1 e (last_of m1)) (cnt (insert_iter_entry h1 e (last_of m1)) + 1) in
  e = fresh h /\ ~ In e l /\ tinv h' (m1 ++ e :: m2) /\ kvf h' e = (k, v) /\
  (forall y, y <> e -> kvf h' y = kvf h y) /\ (forall y, live h' y <-> (live h y \/ y = e)) /\
  cap h' = cap h /\ asort h' = asort h /\ ilist h' = ilist h.
Proof.
  intros h l m1 m2 k v T El Hf. unfold alloc_node.
  set (e := fresh h).
  set (h1 := mkHt (PositiveMap.add e (mkNode k v None None) (nodes h)) (hd h) (tl h) (cnt h) (cap h) (Pos.succ e) (asort h) (ilist h)).
  assert (Hnl : ~ live h e) by (intro H; apply (ti_fresh _ _ T) in H; apply (Pos.lt_irrefl _ H)).
  assert (Hne : ~ In e l) by (intro H; apply Hnl; apply (lk_live _ _ (ti_linked _ _ T)); exact H).
  assert (G1 : forall y, getn h1 y = if Pos.eqb y e then Some (mkNode k v None None) else getn h y).
  { intros y. unfold getn, h1. cbn. destruct (Pos.eqb y e) eqn:E.
    - apply Pos.eqb_eq in E; subst. apply PositiveMap.gss.
    - apply Pos.eqb_neq in E. apply PositiveMap.gso. exact E. }
  assert (L1 : linked h1 (m1 ++ m2)).
  { rewrite <- El. apply (linked_ext h h1 l (ti_linked _ _ T)); try reflexivity.
    intros y Hy. rewrite G1. assert (Pos.eqb y e = false) as -> by (apply Pos.eqb_neq; intro; subst; contradiction). reflexivity. }
  assert (Le1 : live h1 e) by (unfold live; rewrite G1, Pos.eqb_refl; discriminate).
  assert (Hne' : ~ In e (m1 ++ m2)) by (rewrite <- El; exact Hne).
  destruct (insert_linked h1 m1 m2 e L1 Hne' Le1) as (L2 & [K2 Lv2] & (Mc & Mcap & Mf & Ma & Mi)).
  set (h2 := insert_iter_entry h1 e (last_of m1)) in *.
  assert (Kv : forall y, kvf (with_cnt h2 (cnt h2 + 1)) y = if Pos.eqb y e then (k, v) else kvf h y).
  { intros y. unfold kvf. assert (E : kv_of (with_cnt h2 (cnt h2 + 1)) y = kv_of h1 y) by (rewrite <- K2; reflexivity).
    rewrite E. unfold kv_of. rewrite G1. destruct (Pos.eqb y e); reflexivity. }
  assert (Lv : forall y, live (with_cnt h2 (cnt h2 + 1)) y <-> (live h y \/ y = e)).
  { intros y. assert (E : live (with_cnt h2 (cnt h2 + 1)) y <-> live h1 y) by (rewrite <- Lv2; unfold live; tauto).
    rewrite E. unfold live. rewrite G1. destruct (Pos.eqb y e) eqn:Ey.
    - apply Pos.eqb_eq in Ey. split; [intros; right; exact Ey|discriminate].
    - apply Pos.eqb_neq in Ey. tauto. }
  split; [reflexivity|split; [exact Hne|split; [|split; [|split; [|split; [exact Lv|]]]]]].
  - constructor.
    + apply (linked_ext h2 _ _ L2); reflexivity.
    + cbn [cnt with_cnt]. rewrite Mc. unfold h1. cbn [cnt]. rewrite (ti_cnt _ _ T), El. rewrite !app_length. cbn [length]. lia.
    + intros y Hy. apply Lv in Hy. destruct Hy as [Hy| ->].
      * apply (ti_dom _ _ T) in Hy. rewrite El in Hy. apply in_app_or in Hy. apply in_or_app. destruct Hy; [left|right; right]; assumption.
      * apply in_or_app; right; left; reflexivity.
    + intros y Hy. cbn [fresh with_cnt]. rewrite Mf. unfold h1. cbn [fresh]. apply Lv in Hy. destruct Hy as [Hy| ->].
      * apply (ti_fresh _ _ T) in Hy. fold e in Hy. lia.
      * lia.
    + assert (E : map (keyf (with_cnt h2 (cnt h2 + 1))) (m1 ++ e :: m2) = map (keyf h) m1 ++ k :: map (keyf h) m2).
      { rewrite map_app. cbn [map]. f_equal; [|f_equal].
        - apply map_ext_in. intros y Hy. unfold keyf. rewrite Kv.
          assert (Pos.eqb y e = false) as -> by (apply Pos.eqb_neq; intro; subst; apply Hne'; apply in_or_app; left; exact Hy). reflexivity.
        - unfold keyf. rewrite Kv, Pos.eqb_refl. reflexivity.
        - apply map_ext_in. intros y Hy. unfold keyf. rewrite Kv.
          assert (Pos.eqb y e = false) as -> by (apply Pos.eqb_neq; intro; subst; apply Hne'; apply in_or_app; right; exact Hy). reflexivity. }
      rewrite E. pose proof (ti_keys _ _ T) as Hk. rewrite El, map_app in Hk.
      apply NoDup_Add with (a := k) (l := map (keyf h) m1 ++ map (keyf h) m2).
      * apply Add_app.
      * split; [exact Hk|]. rewrite <- map_app, <- El. intro Hin. apply in_map_iff in Hin. destruct Hin as (y & Hy1 & Hy2).
        eapply find_id_none; eassumption.
  - rewrite Kv, Pos.eqb_refl. reflexivity.
  - intros y Hy. rewrite Kv. apply Pos.eqb_neq in Hy. rewrite Hy. reflexivity.
  - cbn. repeat split; assumption.
Qed.
