(* C09 -- base lemmas: list updates, the neighbour functions of a duplicate-free list (which is
   what a doubly linked list represents), and the node-map accessors of HtModel. *)
From Coq Require Import List Arith ZArith NArith PArith Bool Lia FMapPositive.
From Muscle Require Import Cont.HtModel.
Import ListNotations.

(* ------------------------------------------------------------------ upd_nth *)

Lemma upd_nth_length : forall A (l : list A) i x, length (upd_nth l i x) = length l.
Proof.
  intros A l i x. unfold upd_nth. destruct (i <? length l) eqn:E; [|reflexivity].
  apply Nat.ltb_lt in E. rewrite app_length, firstn_length. cbn [length]. rewrite skipn_length. lia.
Qed.

Lemma nth_upd_nth_same : forall A (l : list A) i x d, i < length l -> nth i (upd_nth l i x) d = x.
Proof.
  intros A l i x d Hi. unfold upd_nth. apply Nat.ltb_lt in Hi as E. rewrite E.
  rewrite app_nth2; rewrite firstn_length, Nat.min_l by lia; [|lia].
  rewrite Nat.sub_diag. reflexivity.
Qed.

Lemma nth_upd_nth_other : forall A (l : list A) i j x d, i <> j -> nth j (upd_nth l i x) d = nth j l d.
Proof.
  intros A l i j x d Hij. unfold upd_nth. destruct (i <? length l) eqn:E; [|reflexivity].
  apply Nat.ltb_lt in E.
  rewrite <- (firstn_skipn i l) at 3.
  destruct (Nat.lt_ge_cases j i) as [Hlt|Hge].
  - rewrite !app_nth1; rewrite ?firstn_length; try lia. reflexivity.
  - rewrite !app_nth2; rewrite ?firstn_length, ?Nat.min_l; try lia.
    assert (Hs : skipn i l = nth i l d :: skipn (S i) l).
    { clear - E. revert i E. induction l as [|a l IH]; intros i E; cbn in E; [lia|].
      destruct i; [reflexivity|]. cbn [skipn nth]. apply IH. lia. }
    rewrite Hs. destruct (j - i) as [|k] eqn:Ek; [lia|]. reflexivity.
Qed.

(* ------------------------------------------------------------------ head / last *)

Definition last_of {A} (l : list A) : option A := head_opt (rev l).

Lemma last_of_app_cons : forall A (l : list A) x r, last_of (l ++ x :: r) = last_of (x :: r).
Proof.
  intros A l x r. unfold last_of. rewrite rev_app_distr.
  destruct (rev (x :: r)) as [|y s] eqn:E; [|reflexivity].
  apply (f_equal (@length A)) in E. rewrite rev_length in E. discriminate.
Qed.

Lemma last_of_snoc : forall A (l : list A) x, last_of (l ++ [x]) = Some x.
Proof. intros. unfold last_of. rewrite rev_app_distr. reflexivity. Qed.

Lemma last_of_nil : forall A, @last_of A [] = None.
Proof. reflexivity. Qed.

Lemma last_of_cons_cons : forall A (x y : A) r, last_of (x :: y :: r) = last_of (y :: r).
Proof. intros. apply (last_of_app_cons A [x] y r). Qed.

Lemma last_of_single : forall A (x : A), last_of [x] = Some x.
Proof. reflexivity. Qed.

Lemma last_of_app_nonnil : forall A (l r : list A), r <> [] -> last_of (l ++ r) = last_of r.
Proof. intros A l r H. destruct r; [congruence|]. apply last_of_app_cons. Qed.

Lemma last_of_in : forall A (l : list A) x, last_of l = Some x -> In x l.
Proof.
  intros A l x H. unfold last_of in H. destruct (rev l) as [|y s] eqn:E; [discriminate|].
  inversion H; subst. apply in_rev. rewrite E. left; reflexivity.
Qed.

Lemma head_opt_in : forall A (l : list A) x, head_opt l = Some x -> In x l.
Proof. intros A [|y l] x H; inversion H; subst. left; reflexivity. Qed.

Lemma last_of_split : forall A (l : list A) x, last_of l = Some x -> exists l', l = l' ++ [x].
Proof.
  intros A l x H. unfold last_of in H. destruct (rev l) as [|y s] eqn:E; [discriminate|].
  inversion H; subst. exists (rev s). rewrite <- (rev_involutive l), E. reflexivity.
Qed.

Lemma last_of_none : forall A (l : list A), last_of l = None -> l = [].
Proof.
  intros A l H. unfold last_of in H. destruct (rev l) eqn:E; [|discriminate].
  rewrite <- (rev_involutive l), E. reflexivity.
Qed.

(* ------------------------------------------------------------------ neighbours in a list *)

Fixpoint next_in (l : list positive) (e : positive) : option positive :=
  match l with
  | [] => None
  | x :: r => if Pos.eqb x e then head_opt r else next_in r e
  end.

Fixpoint prev_from (p : option positive) (l : list positive) (e : positive) : option positive :=
  match l with
  | [] => None
  | x :: r => if Pos.eqb x e then p else prev_from (Some x) r e
  end.
Definition prev_in (l : list positive) (e : positive) : option positive := prev_from None l e.

Lemma next_in_mid : forall l1 e l2, ~ In e l1 -> next_in (l1 ++ e :: l2) e = head_opt l2.
Proof.
  induction l1 as [|x l1 IH]; intros e l2 Hn; cbn.
  - rewrite Pos.eqb_refl. reflexivity.
  - destruct (Pos.eqb x e) eqn:E.
    + apply Pos.eqb_eq in E. exfalso. apply Hn. left; exact E.
    + apply IH. intro H. apply Hn. right; exact H.
Qed.

Lemma prev_from_mid : forall l1 p e l2, ~ In e l1 ->
  prev_from p (l1 ++ e :: l2) e = match last_of l1 with Some y => Some y | None => p end.
Proof.
  induction l1 as [|x l1 IH]; intros p e l2 Hn; cbn.
  - rewrite Pos.eqb_refl. reflexivity.
  - destruct (Pos.eqb x e) eqn:E.
    + apply Pos.eqb_eq in E. exfalso. apply Hn. left; exact E.
    + rewrite IH by (intro H; apply Hn; right; exact H).
      destruct l1 as [|y l1']; [reflexivity|]. rewrite last_of_cons_cons.
      destruct (last_of (y :: l1')) eqn:EL; [reflexivity|]. apply last_of_none in EL. discriminate.
Qed.

Lemma prev_in_mid : forall l1 e l2, ~ In e l1 -> prev_in (l1 ++ e :: l2) e = last_of l1.
Proof.
  intros. unfold prev_in. rewrite prev_from_mid by assumption. destruct (last_of l1); reflexivity.
Qed.

Lemma next_in_notin : forall l e, ~ In e l -> next_in l e = None.
Proof.
  induction l as [|x l IH]; intros e Hn; cbn; [reflexivity|].
  destruct (Pos.eqb x e) eqn:E.
  - apply Pos.eqb_eq in E. exfalso. apply Hn. left; exact E.
  - apply IH. intro H. apply Hn. right; exact H.
Qed.

Lemma prev_from_notin : forall l p e, ~ In e l -> prev_from p l e = None.
Proof.
  induction l as [|x l IH]; intros p e Hn; cbn; [reflexivity|].
  destruct (Pos.eqb x e) eqn:E.
  - apply Pos.eqb_eq in E. exfalso. apply Hn. left; exact E.
  - apply IH. intro H. apply Hn. right; exact H.
Qed.

Lemma prev_in_notin : forall l e, ~ In e l -> prev_in l e = None.
Proof. intros. apply prev_from_notin. assumption. Qed.

(* every member of a duplicate-free list splits it uniquely *)
Lemma nodup_split_notin : forall (l1 : list positive) e l2, NoDup (l1 ++ e :: l2) -> ~ In e l1 /\ ~ In e l2.
Proof.
  intros l1 e l2 H. apply NoDup_remove_2 in H. split; intro Hin; apply H; apply in_or_app; auto.
Qed.

Lemma nodup_app_l : forall (l1 l2 : list positive), NoDup (l1 ++ l2) -> NoDup l1.
Proof. induction l1; intros l2 H; [constructor|]. inversion H; subst. constructor; [intro; apply H2; apply in_or_app; auto|eauto]. Qed.
Lemma nodup_app_r : forall (l1 l2 : list positive), NoDup (l1 ++ l2) -> NoDup l2.
Proof. induction l1; intros l2 H; [exact H|]. inversion H; subst. eauto. Qed.

Lemma nodup_remove_mid : forall (l1 : list positive) e l2, NoDup (l1 ++ e :: l2) -> NoDup (l1 ++ l2).
Proof. intros. eapply NoDup_remove_1; eauto. Qed.

Lemma nodup_insert_mid : forall (l1 : list positive) e l2, NoDup (l1 ++ l2) -> ~ In e (l1 ++ l2) -> NoDup (l1 ++ e :: l2).
Proof.
  induction l1 as [|x l1 IH]; intros e l2 Hnd Hn; cbn in *.
  - constructor; assumption.
  - inversion Hnd; subst. constructor.
    + intro Hin. apply in_app_or in Hin. destruct Hin as [Hin|[Hin|Hin]].
      * apply H1. apply in_or_app; auto.
      * subst. apply Hn. left; reflexivity.
      * apply H1. apply in_or_app; auto.
    + apply IH; [assumption|]. intro Hin. apply Hn. right; exact Hin.
Qed.

(* neighbours after inserting e between l1 and l2 (equivalently: before removing it) *)
Lemma next_in_insert : forall l1 e l2 y, NoDup (l1 ++ e :: l2) ->
  next_in (l1 ++ e :: l2) y =
    if Pos.eqb y e then head_opt l2
    else if opt_pos_eqb (Some y) (last_of l1) then Some e
    else next_in (l1 ++ l2) y.
Proof.
  induction l1 as [|x l1 IH]; intros e l2 y Hnd.
  - cbn [app last_of rev head_opt opt_pos_eqb]. cbn [next_in]. rewrite (Pos.eqb_sym e y). destruct (Pos.eqb y e); reflexivity.
  - cbn [app] in *. inversion Hnd as [|? ? Hx Hnd']; subst.
    cbn [next_in]. destruct (Pos.eqb x y) eqn:Exy.
    + apply Pos.eqb_eq in Exy. subst y.
      assert (Hxe : Pos.eqb x e = false).
      { apply Pos.eqb_neq. intro; subst. apply Hx. apply in_or_app. right; left; reflexivity. }
      rewrite Hxe. destruct l1 as [|z l1'].
      * cbn. rewrite Pos.eqb_refl. reflexivity.
      * cbn [app head_opt]. rewrite last_of_cons_cons.
        assert (Hz : opt_pos_eqb (Some x) (last_of (z :: l1')) = false).
        { destruct (last_of (z :: l1')) as [w|] eqn:EL; [|reflexivity]. cbn. apply Pos.eqb_neq. intro; subst w.
          apply last_of_in in EL. apply Hx. apply in_or_app. left; exact EL. }
        rewrite Hz. reflexivity.
    + rewrite IH by assumption. destruct (Pos.eqb y e); [reflexivity|].
      destruct l1 as [|z l1'].
      * cbn [last_of rev app head_opt opt_pos_eqb]. cbn. rewrite (Pos.eqb_sym y x), Exy. reflexivity.
      * rewrite last_of_cons_cons. reflexivity.
Qed.

Lemma prev_from_insert : forall l1 p e l2 y, NoDup (l1 ++ e :: l2) ->
  prev_from p (l1 ++ e :: l2) y =
    if Pos.eqb y e then (match last_of l1 with Some z => Some z | None => p end)
    else if opt_pos_eqb (Some y) (head_opt l2) then Some e
    else prev_from p (l1 ++ l2) y.
Proof.
  induction l1 as [|x l1 IH]; intros p e l2 y Hnd.
  - cbn [app last_of rev head_opt]. cbn [prev_from]. rewrite (Pos.eqb_sym e y). destruct (Pos.eqb y e) eqn:Eye; [reflexivity|].
    destruct l2 as [|z l2']; cbn [head_opt opt_pos_eqb prev_from]; [reflexivity|].
    rewrite (Pos.eqb_sym z y). destruct (Pos.eqb y z) eqn:Eyz; [reflexivity|]. reflexivity.
  - cbn [app] in *. inversion Hnd as [|? ? Hx Hnd']; subst.
    cbn [prev_from]. destruct (Pos.eqb x y) eqn:Exy.
    + apply Pos.eqb_eq in Exy. subst y.
      assert (Hxe : Pos.eqb x e = false).
      { apply Pos.eqb_neq. intro; subst. apply Hx. apply in_or_app. right; left; reflexivity. }
      rewrite Hxe.
      assert (Hz : opt_pos_eqb (Some x) (head_opt l2) = false).
      { destruct l2 as [|w l2']; [reflexivity|]. cbn. apply Pos.eqb_neq. intro; subst w.
        apply Hx. apply in_or_app. right; right; left; reflexivity. }
      rewrite Hz. reflexivity.
    + rewrite IH by assumption. destruct (Pos.eqb y e); [|reflexivity].
      destruct l1 as [|z l1']; [reflexivity|]. rewrite last_of_cons_cons.
      destruct (last_of (z :: l1')) eqn:EL; [reflexivity|]. apply last_of_none in EL. discriminate.
Qed.

Lemma prev_in_insert : forall l1 e l2 y, NoDup (l1 ++ e :: l2) ->
  prev_in (l1 ++ e :: l2) y =
    if Pos.eqb y e then last_of l1
    else if opt_pos_eqb (Some y) (head_opt l2) then Some e
    else prev_in (l1 ++ l2) y.
Proof.
  intros. unfold prev_in. rewrite prev_from_insert by assumption.
  destruct (Pos.eqb y e); [destruct (last_of l1); reflexivity|reflexivity].
Qed.

Lemma next_in_in : forall l e y, next_in l e = Some y -> In y l /\ In e l.
Proof.
  induction l as [|x l IH]; intros e y H; cbn in H; [discriminate|].
  destruct (Pos.eqb x e) eqn:E.
  - apply Pos.eqb_eq in E; subst. apply head_opt_in in H. split; [right; exact H|left; reflexivity].
  - apply IH in H. destruct H. split; right; assumption.
Qed.

Lemma prev_from_in : forall l p e y, prev_from p l e = Some y -> (p = Some y \/ In y l) /\ In e l.
Proof.
  induction l as [|x l IH]; intros p e y H; cbn in H; [discriminate|].
  destruct (Pos.eqb x e) eqn:E.
  - apply Pos.eqb_eq in E; subst x. split; [left; exact H|left; reflexivity].
  - apply IH in H. destruct H as [[H|H] H2].
    + inversion H; subst. split; [right; left; reflexivity|right; exact H2].
    + split; [right; right; exact H|right; exact H2].
Qed.

Lemma prev_in_in : forall l e y, prev_in l e = Some y -> In y l /\ In e l.
Proof.
  intros l e y H. apply prev_from_in in H. destruct H as [[H|H] H2]; [discriminate|]. split; assumption.
Qed.

(* ------------------------------------------------------------------ option positive equality *)

Lemma opt_pos_eqb_true : forall a b, opt_pos_eqb a b = true <-> a = b.
Proof.
  intros [x|] [y|]; cbn; split; intro H; try discriminate; try reflexivity.
  - apply Pos.eqb_eq in H. subst; reflexivity.
  - inversion H; subst. apply Pos.eqb_refl.
Qed.

Lemma opt_pos_eqb_false : forall a b, opt_pos_eqb a b = false <-> a <> b.
Proof.
  intros a b. split.
  - intros H E. apply opt_pos_eqb_true in E. congruence.
  - intros H. destruct (opt_pos_eqb a b) eqn:E; [|reflexivity]. apply opt_pos_eqb_true in E. contradiction.
Qed.

Lemma opt_pos_eqb_refl : forall a, opt_pos_eqb a a = true.
Proof. intros. apply opt_pos_eqb_true. reflexivity. Qed.

(* ------------------------------------------------------------------ node map *)

Lemma getn_setn_same : forall h e n, getn (setn h e n) e = Some n.
Proof. intros. unfold getn, setn, with_nodes. cbn. apply PositiveMap.gss. Qed.

Lemma getn_setn_other : forall h e n x, x <> e -> getn (setn h e n) x = getn h x.
Proof. intros. unfold getn, setn, with_nodes. cbn. apply PositiveMap.gso. assumption. Qed.

Lemma getn_with_hd : forall h x e, getn (with_hd h x) e = getn h e. Proof. reflexivity. Qed.
Lemma getn_with_tl : forall h x e, getn (with_tl h x) e = getn h e. Proof. reflexivity. Qed.
Lemma getn_with_cnt : forall h x e, getn (with_cnt h x) e = getn h e. Proof. reflexivity. Qed.
Lemma getn_with_cap : forall h x e, getn (with_cap h x) e = getn h e. Proof. reflexivity. Qed.
Lemma getn_with_asort : forall h x e, getn (with_asort h x) e = getn h e. Proof. reflexivity. Qed.
Lemma getn_with_ilist : forall h x e, getn (with_ilist h x) e = getn h e. Proof. reflexivity. Qed.
