(* C16 -- the rotation by gcd cycles inside Merge really rotates: [rotate_ok]. *)
From Coq Require Import List Arith ZArith Bool Lia ZifyBool.
From Muscle Require Import Cont.QueueModel Cont.QueueLemmas Cont.QueueRotate.
Import ListNotations.
Local Open Scope nat_scope.

Lemma gcd_loop_spec fuel : forall m n, n < fuel -> gcd_loop m n fuel = Nat.gcd n m.
Proof.
  induction fuel as [|fuel IH]; intros m n H; [lia|]. cbn [gcd_loop].
  destruct (n =? 0) eqn:E.
  - assert (n = 0) by lia. subst n. reflexivity.
  - assert (Hn : n <> 0) by lia. rewrite IH by (pose proof (Nat.mod_upper_bound m n Hn); lia).
    symmetry. apply gcd_unfold. exact Hn.
Qed.

Section Cycle.
Variables (l0 : list Z) (fc m s : nat).
Hypothesis Hs : 0 < s < m.
Hypothesis Hlen : fc + m <= length l0.
Local Notation g := (og m s).
Local Notation T := (oT m s).

Section OneCycle.
Variable n : nat.
Hypothesis Hn : n < g.
Definition pos (i : nat) : nat := fc + posn m s n i.

Lemma n_lt_m : n < m.
Proof. pose proof (og_le m s Hs). lia. Qed.

Lemma pos_lt i : pos i < length l0.
Proof. unfold pos. pose proof (posn_lt m s Hs n i). lia. Qed.

Lemma pos_inj i j : i < j < T -> pos i <> pos j.
Proof. intros H E. unfold pos in E. apply (posn_inj m s Hs n i j H). lia. Qed.

Lemma cycle_loop_spec k : forall t l fuel, t + k = T - 1 -> k < fuel -> length l = length l0 ->
  (forall i, i < t -> nth (pos i) l 0%Z = nth (pos (i + 1)) l0 0%Z) ->
  (forall q, (forall i, i < t -> q <> pos i) -> nth q l 0%Z = nth q l0 0%Z) ->
  let r := cycle_loop l fc (fc + m) s (pos 0) (pos t) (pos (t + 1)) fuel in
  snd r = pos (T - 1) /\ length (fst r) = length l0 /\
  (forall i, i < T - 1 -> nth (pos i) (fst r) 0%Z = nth (pos (i + 1)) l0 0%Z) /\
  (forall q, (forall i, i < T - 1 -> q <> pos i) -> nth q (fst r) 0%Z = nth q l0 0%Z).
Proof.
  pose proof (oT_pos m s Hs) as HT.
  induction k as [|k IH]; intros t l fuel Ht Hf Hl I1 I2; (destruct fuel as [|fuel]; [lia|]); cbn [cycle_loop].
  - assert (t = T - 1) by lia. subst t. replace (T - 1 + 1) with T by lia.
    assert (E : pos T = pos 0) by (unfold pos; rewrite posn_T, posn_0 by (exact Hs || apply n_lt_m); reflexivity).
    cbv zeta. rewrite E, Nat.eqb_refl. cbn [fst snd]. split; [reflexivity|]. split; [exact Hl|]. split; [exact I1|exact I2].
  - assert (Hne : pos (t + 1) <> pos 0) by (intros E; apply (pos_inj 0 (t + 1)); [lia|symmetry; exact E]).
    replace (pos (t + 1) =? pos 0) with false by lia. cbv beta iota.
    assert (Enext : (if s <? fc + m - pos (t + 1) then pos (t + 1) + s else fc + (s - (fc + m - pos (t + 1)))) = pos (t + 1 + 1)).
    { unfold pos. replace (t + 1 + 1) with (S (t + 1)) by lia. rewrite posn_S by exact Hs.
      pose proof (posn_lt m s Hs n (t + 1)) as Hq. rewrite add_mod_step by lia.
      replace (fc + m - (fc + posn m s n (t + 1))) with (m - posn m s n (t + 1)) by lia.
      destruct (s <? m - posn m s n (t + 1)) eqn:E; lia. }
    rewrite Enext.
    assert (Eread : at_ l (pos (t + 1)) = nth (pos (t + 1)) l0 0%Z).
    { unfold at_. apply I2. intros i Hi. intros E. apply (pos_inj i (t + 1)); [lia|symmetry; exact E]. }
    rewrite Eread.
    apply IH; try lia.
    + rewrite upd_length. exact Hl.
    + intros i Hi. rewrite nth_upd. destruct (Nat.eq_dec i t) as [->|Hit].
      * rewrite Nat.eqb_refl. replace (pos t <? length l) with true by (pose proof (pos_lt t); lia). reflexivity.
      * replace (pos i =? pos t) with false by (assert (pos i <> pos t) by (apply pos_inj; lia); lia).
        cbn [andb]. apply I1. lia.
    + intros q Hq. rewrite nth_upd. replace (q =? pos t) with false by (assert (q <> pos t) by (apply Hq; lia); lia).
      cbn [andb]. apply I2. intros i Hi. apply Hq. lia.
Qed.

Lemma rotate_cycle_spec :
  let l' := rotate_cycle l0 fc (fc + s) (fc + m) n in
  length l' = length l0 /\
  (forall i, i < T -> nth (pos i) l' 0%Z = nth (pos (i + 1)) l0 0%Z) /\
  (forall q, (forall i, i < T -> q <> pos i) -> nth q l' 0%Z = nth q l0 0%Z).
Proof.
  pose proof (oT_pos m s Hs) as HT. pose proof n_lt_m as Hnm. pose proof (og_le m s Hs) as Hgle.
  unfold rotate_cycle. cbv zeta. replace (fc + s - fc) with s by lia. replace (fc + m - fc) with m by lia.
  assert (E0 : fc + n = pos 0) by (unfold pos; rewrite posn_0 by (exact Hs || exact Hnm); reflexivity).
  assert (E1 : fc + n + s = pos (0 + 1)).
  { unfold pos, posn. cbn [Nat.add Nat.mul]. rewrite Nat.add_0_r, Nat.mod_small by lia. lia. }
  rewrite E1. rewrite !E0.
  assert (Hm : T <= m) by (pose proof (m_eq m s Hs); pose proof (og_pos m s Hs); nia).
  pose proof (cycle_loop_spec (T - 1) 0 l0 m ltac:(lia) ltac:(lia) eq_refl) as C. cbv zeta in C.
  destruct C as (C1 & C2 & C3 & C4); [intros i Hi; lia|intros q _; reflexivity|].
  destruct (cycle_loop l0 fc (fc + m) s (pos 0) (pos 0) (pos (0 + 1)) m) as [l' p1]. cbn [fst snd] in *. subst p1.
  unfold at_. split; [rewrite upd_length; exact C2|]. split.
  - intros i Hi. rewrite nth_upd. destruct (Nat.eq_dec i (T - 1)) as [->|Hne].
    + rewrite Nat.eqb_refl. replace (pos (T - 1) <? length l') with true by (pose proof (pos_lt (T - 1)); lia).
      cbn [andb]. replace (T - 1 + 1) with T by lia.
      unfold pos. rewrite posn_T, posn_0 by (exact Hs || exact Hnm). reflexivity.
    + replace (pos i =? pos (T - 1)) with false by (assert (pos i <> pos (T - 1)) by (apply pos_inj; lia); lia).
      cbn [andb]. apply C3. lia.
  - intros q Hq. rewrite nth_upd. replace (q =? pos (T - 1)) with false by (assert (q <> pos (T - 1)) by (apply Hq; lia); lia).
    cbn [andb]. apply C4. intros i Hi. apply Hq. lia.
Qed.

End OneCycle.
End Cycle.

Lemma class_step m s q : 0 < s < m -> ((q + s) mod m) mod og m s = q mod og m s.
Proof.
  intros Hs. pose proof (og_pos m s Hs) as Hg.
  rewrite mod_mod_divide; [|lia|lia|apply Nat.gcd_divide_l].
  pose proof (s_eq m s Hs) as E. rewrite E at 1.
  replace (q + og m s * (s / og m s)) with (q + (s / og m s) * og m s) by lia. apply Nat.mod_add. lia.
Qed.

Lemma orbit_class l l' fc m s n : 0 < s < m -> n < og m s ->
  (forall i, i < oT m s -> nth (pos fc m s n i) l' 0%Z = nth (pos fc m s n (i + 1)) l 0%Z) ->
  (forall q, (forall i, i < oT m s -> q <> pos fc m s n i) -> nth q l' 0%Z = nth q l 0%Z) ->
  (forall q, q < m -> nth (fc + q) l' 0%Z =
     if q mod og m s =? n then nth (fc + (q + s) mod m) l 0%Z else nth (fc + q) l 0%Z) /\
  (forall p, p < fc \/ fc + m <= p -> nth p l' 0%Z = nth p l 0%Z).
Proof.
  intros Hs Hn R2 R3. split.
  - intros q Hq. destruct (q mod og m s =? n) eqn:E.
    + destruct (orbit_cover m s Hs n q Hn Hq ltac:(lia)) as (i & Hi & Ei).
      specialize (R2 i Hi). unfold pos in R2. rewrite Ei in R2. rewrite R2.
      replace (i + 1) with (S i) by lia. rewrite posn_S by exact Hs. rewrite Ei. reflexivity.
    + apply R3. intros i Hi E'. unfold pos in E'. assert (q = posn m s n i) by lia. subst q.
      rewrite posn_class in E by assumption. lia.
  - intros p Hp. apply R3. intros i Hi E'. unfold pos in E'. pose proof (posn_lt m s Hs n i). lia.
Qed.

Lemma rotate_cycle_class l fc m s n : 0 < s < m -> fc + m <= length l -> n < og m s ->
  let l' := rotate_cycle l fc (fc + s) (fc + m) n in
  length l' = length l /\
  (forall q, q < m -> nth (fc + q) l' 0%Z =
     if q mod og m s =? n then nth (fc + (q + s) mod m) l 0%Z else nth (fc + q) l 0%Z) /\
  (forall p, p < fc \/ fc + m <= p -> nth p l' 0%Z = nth p l 0%Z).
Proof.
  intros Hs Hl Hn. destruct (rotate_cycle_spec l fc m s Hs Hl n Hn) as (R1 & R2 & R3).
  split; [exact R1|]. apply orbit_class; assumption.
Qed.

Lemma rotate_fold l0 fc m s : 0 < s < m -> fc + m <= length l0 -> forall c l, c <= og m s -> length l = length l0 ->
  (forall q, q < m -> nth (fc + q) l 0%Z =
     if c <=? q mod og m s then nth (fc + (q + s) mod m) l0 0%Z else nth (fc + q) l0 0%Z) ->
  (forall p, p < fc \/ fc + m <= p -> nth p l 0%Z = nth p l0 0%Z) ->
  let l' := fold_left (fun l n => rotate_cycle l fc (fc + s) (fc + m) n) (rev (seq 0 c)) l in
  length l' = length l0 /\
  (forall q, q < m -> nth (fc + q) l' 0%Z = nth (fc + (q + s) mod m) l0 0%Z) /\
  (forall p, p < fc \/ fc + m <= p -> nth p l' 0%Z = nth p l0 0%Z).
Proof.
  intros Hs Hl0. induction c as [|c IH]; intros l Hc Hl I1 I2.
  - cbn [seq rev fold_left]. split; [exact Hl|]. split; [|exact I2]. intros q Hq. rewrite I1 by exact Hq. reflexivity.
  - rewrite seq_S, rev_app_distr. cbn [rev app fold_left Nat.add].
    destruct (rotate_cycle_class l fc m s c Hs ltac:(lia) ltac:(lia)) as (R1 & R2 & R3).
    apply IH; [lia|lia| |].
    + intros q Hq. rewrite R2 by exact Hq. destruct (q mod og m s =? c) eqn:E.
      * assert (Hq' : (q + s) mod m < m) by (apply Nat.mod_upper_bound; lia).
        rewrite I1 by exact Hq'. rewrite class_step by exact Hs.
        replace (S c <=? q mod og m s) with false by lia. replace (c <=? q mod og m s) with true by lia. reflexivity.
      * rewrite I1 by exact Hq. replace (S c <=? q mod og m s) with (c <=? q mod og m s) by lia. reflexivity.
    + intros p Hp. rewrite R3 by exact Hp. apply I2. exact Hp.
Qed.

Theorem rotate_cs_ok : forall P X Y S fc pv sc,
  fc = length P -> pv = fc + length X -> sc = pv + length Y ->
  rotate_cs (P ++ X ++ Y ++ S) fc pv sc = P ++ Y ++ X ++ S.
Proof.
  intros P X Y S fc pv sc -> -> ->. unfold rotate_cs.
  destruct X as [|x X']; [cbn [length app]; rewrite Nat.add_0_r, Nat.eqb_refl; cbn [orb]; reflexivity|].
  destruct Y as [|y Y']; [cbn [length app]; rewrite Nat.add_0_r, Nat.eqb_refl, orb_true_r; reflexivity|].
  set (X := x :: X') in *. set (Y := y :: Y') in *.
  set (s := length X). set (m := length X + length Y). set (fc := length P).
  assert (Hx : 0 < s) by (subst s X; cbn [length]; lia). assert (Hy : 0 < length Y) by (subst Y; cbn [length]; lia).
  replace (fc + s =? fc) with false by lia. replace (fc + s =? fc + s + length Y) with false by lia. cbn [orb].
  assert (Hs : 0 < s < m) by lia.
  replace (fc + s + length Y - fc) with m by lia. replace (fc + s - fc) with s by lia.
  rewrite gcd_loop_spec by lia. rewrite Nat.gcd_comm. fold (og m s).
  replace (fc + s + length Y) with (fc + m) by lia.
  set (l0 := P ++ X ++ Y ++ S).
  assert (Hl0 : fc + m <= length l0) by (subst l0 fc m; repeat rewrite app_length; lia).
  destruct (rotate_fold l0 fc m s Hs Hl0 (og m s) l0 (le_n _) eq_refl) as (F1 & F2 & F3).
  { intros q Hq. replace (og m s <=? q mod og m s) with false; [reflexivity|].
    pose proof (Nat.mod_upper_bound q (og m s) ltac:(pose proof (og_pos m s Hs); lia)). lia. }
  { intros p _. reflexivity. }
  apply (list_ext _ _ 0%Z).
  - rewrite F1. subst l0. repeat rewrite app_length. lia.
  - intros p Hp. rewrite F1 in Hp. destruct (Nat.lt_ge_cases p fc) as [H1|H1]; [|destruct (Nat.lt_ge_cases p (fc + m)) as [H2|H2]].
    + rewrite F3 by (left; exact H1). subst l0 fc. autorewrite with nthdb. dif; fin.
    + replace p with (fc + (p - fc)) by lia. rewrite F2 by lia. rewrite add_mod_step by lia.
      subst l0 fc m s. autorewrite with nthdb. dif; fin.
    + rewrite F3 by (right; exact H2). subst l0 fc m s. autorewrite with nthdb. dif; fin.
Qed.

(* ------------------------------------------------------------------ Normalize: Hsieh's rotation of the whole array *)

Section Hsieh.
Variables (l0 : list Z) (s m : nat).
Hypothesis Hlen0 : length l0 = m.
Hypothesis Hs : 0 < s < m.
Local Notation g := (og m s).
Local Notation T := (oT m s).

Lemma hs_inner_spec v (Hv : v < g) k : forall t l c fuel, t + k = T - 1 -> k < fuel -> length l = m ->
  (forall i, i < t -> nth (pos 0 m s v i) l 0%Z = nth (pos 0 m s v (i + 1)) l0 0%Z) ->
  (forall q, (forall i, i < t -> q <> pos 0 m s v i) -> nth q l 0%Z = nth q l0 0%Z) ->
  let r := hs_inner l s (pos 0 m s v 0) (pos 0 m s v t) (pos 0 m s v (t + 1)) c fuel in
  snd (fst r) = pos 0 m s v (T - 1) /\ snd r = c + k /\ length (fst (fst r)) = m /\
  (forall i, i < T - 1 -> nth (pos 0 m s v i) (fst (fst r)) 0%Z = nth (pos 0 m s v (i + 1)) l0 0%Z) /\
  (forall q, (forall i, i < T - 1 -> q <> pos 0 m s v i) -> nth q (fst (fst r)) 0%Z = nth q l0 0%Z).
Proof.
  pose proof (oT_pos m s Hs) as HT. pose proof (og_le m s Hs) as Hgle. assert (Hvm : v < m) by lia.
  assert (Plt : forall i, pos 0 m s v i < m) by (intros i; unfold pos; pose proof (posn_lt m s Hs v i); lia).
  assert (Pinj : forall i j, i < j < T -> pos 0 m s v i <> pos 0 m s v j)
    by (intros i j H E; unfold pos in E; apply (posn_inj m s Hs v i j H); lia).
  induction k as [|k IH]; intros t l c fuel Ht Hf Hl I1 I2; (destruct fuel as [|fuel]; [lia|]); cbn [hs_inner]; cbv zeta.
  - assert (t = T - 1) by lia. subst t. replace (T - 1 + 1) with T by lia.
    assert (E : pos 0 m s v T = pos 0 m s v 0) by (unfold pos; rewrite posn_T, posn_0 by (exact Hs || exact Hvm); reflexivity).
    rewrite E, Nat.eqb_refl. cbn [fst snd]. split; [reflexivity|]. split; [lia|]. split; [exact Hl|]. split; [exact I1|exact I2].
  - assert (Hne : pos 0 m s v (t + 1) <> pos 0 m s v 0) by (intros E; apply (Pinj 0 (t + 1)); [lia|symmetry; exact E]).
    replace (pos 0 m s v (t + 1) =? pos 0 m s v 0) with false by lia. cbv beta iota.
    assert (Enext : (if length l <=? pos 0 m s v (t + 1) + s then pos 0 m s v (t + 1) + s - length l else pos 0 m s v (t + 1) + s)
                    = pos 0 m s v (t + 1 + 1)).
    { rewrite Hl. unfold pos. replace (t + 1 + 1) with (S (t + 1)) by lia. rewrite posn_S by exact Hs.
      pose proof (posn_lt m s Hs v (t + 1)) as Hq. rewrite add_mod_step by lia. cbn [Nat.add].
      destruct (s <? m - posn m s v (t + 1)) eqn:E; destruct (m <=? posn m s v (t + 1) + s) eqn:E'; lia. }
    rewrite Enext.
    assert (Eread : nth (pos 0 m s v (t + 1)) l 0%Z = nth (pos 0 m s v (t + 1)) l0 0%Z).
    { apply I2. intros i Hi E. apply (Pinj i (t + 1)); [lia|symmetry; exact E]. }
    rewrite Eread.
    replace (c + S k) with (c + 1 + k) by lia.
    apply IH; try lia.
    + rewrite upd_length. exact Hl.
    + intros i Hi. rewrite nth_upd. destruct (Nat.eq_dec i t) as [->|Hit].
      * rewrite Nat.eqb_refl. replace (pos 0 m s v t <? length l) with true by (pose proof (Plt t); lia). reflexivity.
      * replace (pos 0 m s v i =? pos 0 m s v t) with false by (assert (pos 0 m s v i <> pos 0 m s v t) by (apply Pinj; lia); lia).
        cbn [andb]. apply I1. lia.
    + intros q Hq. rewrite nth_upd. replace (q =? pos 0 m s v t) with false by (assert (q <> pos 0 m s v t) by (apply Hq; lia); lia).
      cbn [andb]. apply I2. intros i Hi. apply Hq. lia.
Qed.

End Hsieh.

(* one pass of the outer loop: the cycle through slot v *)
Lemma hs_cycle_spec l s v c : 0 < s < length l -> v < og (length l) s ->
  let r := hs_inner l s v v (v + s) (c + 1) (length l) in
  let l' := upd (fst (fst r)) (snd (fst r)) (nth v l 0%Z) in
  snd r = c + oT (length l) s /\ length l' = length l /\
  (forall q, q < length l -> nth q l' 0%Z =
     if q mod og (length l) s =? v then nth ((q + s) mod length l) l 0%Z else nth q l 0%Z).
Proof.
  intros Hs Hv. remember (length l) as m eqn:Em. symmetry in Em.
  pose proof (oT_pos m s Hs) as HT. pose proof (og_le m s Hs) as Hgle.
  assert (Hm : oT m s <= m) by (pose proof (m_eq m s Hs); pose proof (og_pos m s Hs); nia).
  assert (E0 : v = pos 0 m s v 0) by (unfold pos; rewrite posn_0 by (exact Hs || lia); reflexivity).
  assert (E1 : v + s = pos 0 m s v (0 + 1)).
  { unfold pos, posn. cbn [Nat.add Nat.mul]. rewrite Nat.add_0_r, Nat.mod_small by lia. reflexivity. }
  pose proof (hs_inner_spec l s m Em Hs v Hv (oT m s - 1) 0 l (c + 1) m ltac:(lia) ltac:(lia) Em) as C. cbv zeta in C.
  rewrite <- E1 in C. rewrite <- E0 in C.
  destruct C as (C1 & C2 & C3 & C4 & C5); [intros i Hi; lia|intros q _; reflexivity|].
  intros r l'. subst r l'.
  destruct (hs_inner l s v v (v + s) (c + 1) m) as [[a t] c']. cbn [fst snd] in *. subst t c'.
  split; [lia|]. split; [rewrite upd_length; exact C3|].
  assert (Plt : pos 0 m s v (oT m s - 1) < m) by (unfold pos; pose proof (posn_lt m s Hs v (oT m s - 1)); lia).
  assert (Pinj : forall i j, i < j < oT m s -> pos 0 m s v i <> pos 0 m s v j)
    by (intros i j H E; unfold pos in E; apply (posn_inj m s Hs v i j H); lia).
  assert (R2 : forall i, i < oT m s -> nth (pos 0 m s v i) (upd a (pos 0 m s v (oT m s - 1)) (nth v l 0%Z)) 0%Z = nth (pos 0 m s v (i + 1)) l 0%Z).
  { intros i Hi. rewrite nth_upd. destruct (Nat.eq_dec i (oT m s - 1)) as [->|Hne].
    - rewrite Nat.eqb_refl. replace (pos 0 m s v (oT m s - 1) <? length a) with true by lia. cbn [andb].
      replace (oT m s - 1 + 1) with (oT m s) by lia. unfold pos. rewrite posn_T by (exact Hs || lia). reflexivity.
    - replace (pos 0 m s v i =? pos 0 m s v (oT m s - 1)) with false
        by (assert (pos 0 m s v i <> pos 0 m s v (oT m s - 1)) by (apply Pinj; lia); lia).
      cbn [andb]. apply C4. lia. }
  assert (R3 : forall q, (forall i, i < oT m s -> q <> pos 0 m s v i) -> nth q (upd a (pos 0 m s v (oT m s - 1)) (nth v l 0%Z)) 0%Z = nth q l 0%Z).
  { intros q Hq. rewrite nth_upd. replace (q =? pos 0 m s v (oT m s - 1)) with false by (assert (q <> pos 0 m s v (oT m s - 1)) by (apply Hq; lia); lia).
    cbn [andb]. apply C5. intros i Hi. apply Hq. lia. }
  destruct (orbit_class l _ 0 m s v Hs Hv R2 R3) as [K _]. intros q Hq. apply (K q Hq).
Qed.

Lemma hs_outer_spec l0 s : 0 < s < length l0 -> forall d v l c fuel,
  v + d = og (length l0) s -> d < fuel -> c = v * oT (length l0) s -> length l = length l0 ->
  (forall q, q < length l0 -> nth q l 0%Z =
     if q mod og (length l0) s <? v then nth ((q + s) mod length l0) l0 0%Z else nth q l0 0%Z) ->
  let l' := hs_outer l s v c fuel in
  length l' = length l0 /\ forall q, q < length l0 -> nth q l' 0%Z = nth ((q + s) mod length l0) l0 0%Z.
Proof.
  intros Hs. set (m := length l0). pose proof (m_eq m s Hs) as Em. pose proof (og_pos m s Hs) as Hg.
  pose proof (oT_pos m s Hs) as HT.
  induction d as [|d IH]; intros v l c fuel Hv Hf Hc Hl I1; (destruct fuel as [|fuel]; [lia|]); cbn [hs_outer].
  - assert (v = og m s) by lia. subst v. replace (c <? length l) with false by (rewrite Hl; fold m; nia).
    split; [exact Hl|]. intros q Hq. rewrite I1 by exact Hq.
    replace (q mod og m s <? og m s) with true; [reflexivity|]. pose proof (Nat.mod_upper_bound q (og m s) ltac:(lia)). lia.
  - replace (c <? length l) with true by (rewrite Hl; fold m; nia).
    destruct (hs_cycle_spec l s v c ltac:(rewrite Hl; exact Hs) ltac:(rewrite Hl; fold m; lia)) as (K1 & K2 & K3).
    cbv zeta in K1, K2, K3. rewrite Hl in K1, K2, K3. fold m in K1, K2, K3. rewrite Hl. fold m.
    destruct (hs_inner l s v v (v + s) (c + 1) m) as [[a t] c']. cbn [fst snd] in *.
    apply IH; try lia.
    intros q Hq. rewrite K3 by exact Hq. destruct (q mod og m s =? v) eqn:E.
      * assert (Hq' : (q + s) mod m < m) by (apply Nat.mod_upper_bound; lia).
        rewrite I1 by exact Hq'. rewrite class_step by exact Hs.
        replace (q mod og m s <? v) with false by lia. replace (q mod og m s <? v + 1) with true by lia. reflexivity.
      * rewrite I1 by exact Hq. replace (q mod og m s <? v + 1) with (q mod og m s <? v) by lia. reflexivity.
Qed.

Theorem hsieh_rotate_ok a hd : 0 < hd < length a -> hsieh_rotate a hd = skipn hd a ++ firstn hd a.
Proof.
  intros Hs. unfold hsieh_rotate. pose proof (og_pos (length a) hd Hs) as Hg.
  assert (Hgm : og (length a) hd <= length a) by (pose proof (og_le (length a) hd Hs); lia).
  destruct (hs_outer_spec a hd Hs (og (length a) hd) 0 a 0 (length a + 1) ltac:(lia) ltac:(lia) ltac:(lia) eq_refl) as [F1 F2].
  { intros q Hq. reflexivity. }
  apply (list_ext _ _ 0%Z).
  - rewrite F1. autorewrite with nthdb. lia.
  - intros q Hq. rewrite F1 in Hq. rewrite F2 by exact Hq. rewrite add_mod_step by lia.
    autorewrite with nthdb. dif; fin.
Qed.
